#!/bin/sh
# tools/confirm_seed.sh <seed dir with patch.diff demo.py> <tag>
# Confirms in a scratch worktree (outside /repo and /verif, removed afterwards): patch applies, demo fails with
# it and passes without it, and every test of BASELINE.stable_pass still passes with the patch.
set -u
SEED=$(cd "$1" && pwd); TAG=$2; WT=/tmp/cs_$TAG; OUT=$SEED/confirm.txt
git -C /repo worktree remove --force $WT 2>/dev/null; rm -rf $WT
git -C /repo worktree add -q $WT HEAD || exit 3
cd $WT
{
echo "base commit: $(git rev-parse --short HEAD)"
/venv/bin/python $SEED/demo.py >/tmp/cs_$TAG.clean.log 2>&1; echo "demo on clean tree: exit $?"
git apply $SEED/patch.diff && echo "patch applies" || { echo "PATCH DOES NOT APPLY"; }
/venv/bin/python $SEED/demo.py >/tmp/cs_$TAG.patched.log 2>&1; echo "demo with patch: exit $?"
/venv/bin/python -m pytest -q -p no:cacheprovider --timeout=900 --continue-on-collection-errors --junitxml=/tmp/cs_$TAG.xml >/tmp/cs_$TAG.pytest.log 2>&1
/venv/bin/python - <<PY
import json, xml.etree.ElementTree as ET
base=set(json.load(open('/root/.vp/BASELINE.json'))['stable_pass'])
ok=set()
for tc in ET.parse('/tmp/cs_$TAG.xml').getroot().iter('testcase'):
    bad=[c.tag for c in tc if c.tag in ('failure','error','skipped')]
    if not bad: ok.add(tc.get('classname')+'::'+tc.get('name'))
missing=sorted(base-ok)
print('stable_pass tests passing with patch: %d of %d'%(len(base&ok),len(base)))
print('stable_pass tests NOT passing with patch:',missing)
PY
} > $OUT 2>&1
cd /; git -C /repo worktree remove --force $WT; rm -f /tmp/cs_$TAG.*
cat $OUT
