#!/bin/sh
# tools/matrix.sh : run the quick check of its property against every seeded change (scratch copies under /tmp, removed
# by try_seed.sh) and write seeded/MATRIX.txt : <seed> <exit> <units reported>
cd "$(dirname "$0")/.."
OUT=/tmp/matrix_$$; mkdir -p $OUT
ls -d seeded/C*/ | sed 's#/$##' | xargs -P ${MATRIX_JOBS:-4} -I{} sh -c 'p=$(basename {} | cut -d- -f1); tools/try_seed.sh {} $p > '$OUT'/$(basename {}).log 2>&1'
{
echo "# seed  exit  reported (quick tier; exit 1 = VIOLATION, 2 = undecided, 0 = missed)"
for f in $OUT/*.log; do
  s=$(basename $f .log); e=$(grep -o "exit=[0-9]*" $f | tail -1)
  v=$(grep "^VIOLATION" $f | sed 's/.*replay=replays\/[A-Z0-9]*-//; s/-[0-9a-f]*\.json.*//' | sort -u | tr '\n' ' ')
  u=$(grep -c "^UNDECIDED" $f)
  echo "$s  $e  $v $( [ "$u" != 0 ] && echo "(undecided units: $u)")"
done
} > seeded/MATRIX.txt
rm -rf $OUT; rm -f replays/*.json
cat seeded/MATRIX.txt
