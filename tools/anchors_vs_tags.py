#!/usr/bin/env python3
"""tools/anchors_vs_tags.py : for every property, the units whose function lives in a file the property's anchors name but which
`./check <property>` does not run (not tagged with it).  File-level anchors are broad (util.py, optimizer.py), so the list is a
prompt for a decision, not an error: a unit belongs to a property when the property's statement depends on what it proves.
Run with /verif/.venv/bin/python."""
import fnmatch
import importlib
import json
import os
import sys

HERE = os.path.dirname(os.path.dirname(os.path.abspath(__file__)))
sys.path.insert(0, HERE)
from pyvc import unit as U        # noqa: E402

for i in range(1, 21):
    importlib.import_module('contracts.c%02d' % i)
props = {json.loads(l)['id']: json.loads(l) for l in open(os.path.join(HERE, 'properties.jsonl'))}
seen, units = set(), []
for u in U.REGISTRY.values():
    if id(u) not in seen:
        seen.add(id(u))
        units.append(u)
for pid, p in sorted(props.items()):
    mech = ' '.join(m['where'] for m in p['anchors']['mechanism'])
    miss = []
    for u in units:
        ps = u.props if isinstance(u.props, (list, tuple)) else [u.props]
        if pid in ps:
            continue
        path = u.key.split(':')[0].replace('.', '/') + '.py'
        if any(fnmatch.fnmatch(path, f) for f in p['anchors']['files']):
            fn = u.key.split(':')[1].split('.')[-1]
            miss.append('%s%s(%s)' % ('*' if fn in mech else '', u.short, ','.join(ps)))
    if miss:
        print(pid, '|', '; '.join(miss))
print('(* = the function is named in the mechanism anchors of that property)')
