#!/bin/sh
# confirm every seed that has no confirm.txt yet, 4 at a time
cd "$(dirname "$0")/.."
ls -d seeded/*/ | while read d; do d=${d%/}; [ -f $d/confirm.txt ] || echo $d; done | xargs -P 4 -I{} sh -c 'tools/confirm_seed.sh {} $(basename {}) >/dev/null 2>&1'
