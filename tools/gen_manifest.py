#!/usr/bin/env python3
"""Regenerates MANIFEST.json from tools/claims.json (one entry per property: claimed or not-applicable)."""
import json, os
HERE = os.path.dirname(os.path.dirname(os.path.abspath(__file__)))
claims = json.load(open(os.path.join(HERE, 'tools', 'claims.json')))
repo_commits = claims.get('_hook_commits', [])
checks, na = [], []
for pid in sorted(k for k in claims if not k.startswith('_')):
    c = claims[pid]
    if c.get('not_applicable'):
        na.append({'property_id': pid, 'reason': c['not_applicable']})
        continue
    checks.append({
        'property_id': pid,
        'quick_cmd': './check %s --tier quick' % pid,
        'thorough_cmd': './check %s --tier thorough' % pid,
        'evidence_file': 'evidence/%s.json' % pid,
        'replay_cmd_template': './check %s --replay {path}' % pid,
        'engine': 'pyvc',
        'level_claimed': {'category': 'proof', 'text': c['text'], 'design_ref': c.get('design_ref', 'DESIGN.md 6 (%s)' % pid)},
        'level_note': c['note'],
        'technique': c.get('technique', 'contract-based deductive verification: sidecar contracts on the real functions, '
                                       'VCs generated from the current AST by pyvc, discharged by z3/cvc5'),
    })
m = {
    'version': 1,
    'setup_cmd': './setup.sh',
    'hooks': {'guard': 'TAUREX_VERIF', 'enable': 'none needed: contracts are sidecar files and the VC generator reads '
              '/repo source text; ./check exports TAUREX_VERIF=1 (no guarded code exists in /repo)',
              'baseline_off_cmd': 'cd /repo && /venv/bin/python -m pytest -ra -q -p no:cacheprovider --timeout=900 '
                                  '--continue-on-collection-errors',
              'source_commits': repo_commits, 'add_only': True},
    'engines': [{'name': 'pyvc', 'path': 'pyvc/', 'serves_properties': [c['property_id'] for c in checks],
                 'kind_free_text': 'modular VC generator for a Python/numpy subset (AST -> SMT), z3 + cvc5 back ends, '
                                   'bounded-instance falsifier with native replay, run-time contract evaluation'}],
    'checks': checks,
    'notes': claims.get('_notes', ''),
    'not_applicable': na,
}
json.dump(m, open(os.path.join(HERE, 'MANIFEST.json'), 'w'), indent=1)
print('MANIFEST: %d checks, %d not applicable' % (len(checks), len(na)))
