#!/bin/sh
# tools/try_seed.sh <seed dir> <property> : run ./check <property> against a scratch copy of /repo with the seed applied
SEED=$(cd "$1" && pwd); PROP=$2; SC=/tmp/sc_$(basename $SEED)
rm -rf $SC; mkdir -p $SC; cp -r /repo/taurex $SC/
(cd $SC && patch -p1 -s < $SEED/patch.diff) || { echo "PATCH FAILED"; rm -rf $SC; exit 9; }
cd "$(dirname "$0")/.."
TAUREX_REPO=$SC VERIF_NO_EVIDENCE=1 ./check $PROP
echo "exit=$?"
rm -rf $SC
