#!/bin/sh
# tools/try_harmless.sh <diff> <tag> <prop>... : run ./check <prop> (quick) for each property against a scratch copy of /repo with a
# semantics-preserving patch applied.  Expected: exit 0 (or 2 = undecided) and never a VIOLATION line.
DIFF=$1; TAG=$2; shift 2; SC=/tmp/sc_h_$TAG
rm -rf $SC; mkdir -p $SC; cp -r /repo/taurex $SC/
(cd $SC && patch -p1 -s < $DIFF) || { echo "$TAG PATCH FAILED"; rm -rf $SC; exit 9; }
cd "$(dirname "$0")/.."
for P in "$@"; do
  ( TAUREX_REPO=$SC VERIF_NO_EVIDENCE=1 VERIF_REPLAY_DIR=/tmp/sc_h_replays ./check $P --tier quick > /tmp/sc_h_$TAG.$P.log 2>&1; echo "$TAG $P exit=$? $(grep -c VIOLATION /tmp/sc_h_$TAG.$P.log) violations $(grep -c UNDECIDED /tmp/sc_h_$TAG.$P.log) undecided" ) &
done
wait
rm -rf $SC
