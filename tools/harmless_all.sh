#!/bin/sh
# tools/harmless_all.sh : every stored semantics-preserving refactoring (harmless/g<i>h<n>.diff, written by fresh sub-agents that saw only
# the file list) against the checks of the properties anchored in the files it touches.  Expected: no VIOLATION line, exit 0
# (2 = undecided is tolerated and listed).  Writes harmless/RESULTS.txt.
cd "$(dirname "$0")/.."
: > harmless/RESULTS.txt
while read G PROPS; do
  for n in 1 2 3; do
    [ -f harmless/g${G}h$n.diff ] && tools/try_harmless.sh $(pwd)/harmless/g${G}h$n.diff g${G}h$n $PROPS >> harmless/RESULTS.txt
  done
done < harmless/PROPS.txt
sort -o harmless/RESULTS.txt harmless/RESULTS.txt
awk '$3!="exit=0"' harmless/RESULTS.txt
echo "$(wc -l < harmless/RESULTS.txt) runs, $(grep -c 'exit=0' harmless/RESULTS.txt) exit 0, $(awk '$4!=0' harmless/RESULTS.txt | wc -l) with VIOLATION lines"
