import sys, importlib, time
sys.path.insert(0,'/verif')
from pyvc import unit as U
importlib.import_module('contracts.'+sys.argv[1])
names = sys.argv[2:]
for qn,u in list(U.REGISTRY.items()):
    if names and not any(n in qn for n in names): continue
    t=time.time(); r=U.verify_unit(u)
    print('==',qn, 'paths',r.paths,'err',r.error, '%.2fs'%(time.time()-t))
    for o in r.obls: print('   %-40s %-8s %.3f %s L%d %s'%(o.name,o.verdict,o.seconds,o.backend,o.line,o.reason))
    print('   covers',r.covers,'canary',r.canary)
    print('   slowest:',[(o.name,round(o.seconds,1)) for o in sorted(r.obls,key=lambda o:-o.seconds)[:4]])
    if r.failed or r.error:
        f,t,n=U.bmc_falsify(u); print('   BMC tried',t,'notes',[str(x)[:200] for x in n[:3]])
        for x in f: print('    ',x['obligation'],x['native'])
        rf,tr=U.random_falsify(u,1,200); print('   RANDOM tried',tr, rf and rf['native'])
for l in U.LEMMAS:
    if names and not any(n in l.name for n in names): continue
    rs,_=U.prove_lemma(l)
    for o in rs: print('   %-60s %-8s %.3f %s %s'%(o.name,o.verdict,o.seconds,o.backend,o.reason[:300]))
