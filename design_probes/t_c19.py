import numpy as np, warnings
warnings.simplefilter('ignore')
from taurex.contributions import FlatMieContribution, LeeMieContribution, SimpleCloudsContribution
from taurex.data.profiles.pressure import SimplePressureProfile
class M:
    def __init__(self,n=10):
        self.pressure = SimplePressureProfile(n,1e-2,1e6); self.pressure.compute_pressure_profile()
        self.nLayers=n
    @property
    def pressureProfile(self): return self.pressure.profile
m=M()
wn=np.array([1000.,2000.])
print('P layers', m.pressureProfile)
print('levels', m.pressure.pressure_profile_levels)
def run(**kw):
    c=FlatMieContribution(**kw)
    try:
        list(c.prepare_each(m,wn)); print(kw, c.sigma_xsec[:,0])
    except Exception as e: print(kw,'ERR',type(e).__name__,e)
run(flat_mix_ratio=1.0)
run(flat_mix_ratio=1.0, flat_bottomP=1e4, flat_topP=1e2)
run(flat_mix_ratio=1.0, flat_bottomP=1e4)
run(flat_mix_ratio=1.0, flat_topP=1e2)
run(flat_mix_ratio=1.0, flat_bottomP=1e2, flat_topP=1e4)
run(flat_mix_ratio=1.0, flat_bottomP=1e1, flat_topP=0.5)
run(flat_mix_ratio=1.0, flat_bottomP=3., flat_topP=1.5)
def runl(**kw):
    c=LeeMieContribution(**kw)
    try:
        list(c.prepare_each(m,wn)); print('lee',kw, c.sigma_xsec[:,0])
    except Exception as e: print(kw,'ERR',type(e).__name__,e)
runl(lee_mie_mix_ratio=1.0)
runl(lee_mie_mix_ratio=1.0, lee_mie_bottomP=1e4, lee_mie_topP=1e2)
runl(lee_mie_mix_ratio=1.0, lee_mie_bottomP=1e2, lee_mie_topP=1e4)
