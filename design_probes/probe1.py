import z3, time
# Probe 1: contribute_tau nested loop invariants with recursive Sum spec.
R=z3.RealSort(); I=z3.IntSort()
sigma=z3.Function('sigma',I,I,R); path=z3.Function('path',I,R); dens=z3.Function('dens',I,R)
tau0=z3.Function('tau0',I,I,R)
# spec: S(lo,hi,layer,off,wn) = sum_{k=lo}^{hi-1} sigma(k+layer,wn)*path(k)*dens(k+off)
S=z3.Function('S',I,I,I,I,I,R)
lo,hi,layer,off,wn,k=z3.Ints('lo hi layer off wn k')
ax=[z3.ForAll([lo,hi,layer,off,wn], z3.Implies(hi<=lo, S(lo,hi,layer,off,wn)==0), patterns=[S(lo,hi,layer,off,wn)]),
    z3.ForAll([lo,hi,layer,off,wn], z3.Implies(hi>lo, S(lo,hi,layer,off,wn)==S(lo,hi-1,layer,off,wn)+sigma(hi-1+layer,wn)*path(hi-1)*dens(hi-1+off)), patterns=[S(lo,hi,layer,off,wn)])]
startK,endK,ngrid,L,OFF=z3.Ints('startK endK ngrid L OFF')
# outer invariant at iteration k: forall w in [0,ngrid): tau(L,w)==tau0(L,w)+S(startK,k,L,OFF,w); other rows unchanged
tau=z3.Function('tau',I,I,R)   # state at loop head k
tau_in=z3.Function('tau_in',I,I,R) # state at inner loop head wn
tau_out=z3.Function('tau_out',I,I,R)
w=z3.Int('w'); r=z3.Int('r')
outer_inv=lambda t,kk: z3.And(z3.ForAll([w], z3.Implies(z3.And(0<=w,w<ngrid), t(L,w)==tau0(L,w)+S(startK,kk,L,OFF,w))),
                              z3.ForAll([r,w], z3.Implies(r!=L, t(r,w)==tau0(r,w))))
# inner invariant at (k, wn): w<wn -> updated; w>=wn -> old
inner_inv=lambda t,kk,ww: z3.And(z3.ForAll([w], z3.Implies(z3.And(0<=w,w<ww), t(L,w)==tau0(L,w)+S(startK,kk+1,L,OFF,w))),
                                 z3.ForAll([w], z3.Implies(z3.And(ww<=w,w<ngrid), t(L,w)==tau0(L,w)+S(startK,kk,L,OFF,w))),
                                 z3.ForAll([r,w], z3.Implies(r!=L, t(r,w)==tau0(r,w))))
def prove(name, hyps, goal):
    s=z3.Solver(); s.set('timeout',20000)
    s.add(ax); s.add(hyps); s.add(z3.Not(goal))
    t=time.time(); res=s.check(); print(name,res,round(time.time()-t,3))
kk=z3.Int('kk'); ww=z3.Int('ww')
pre=[startK<=endK, ngrid>=0]
# init
prove('outer init', pre+[z3.ForAll([r,w], tau(r,w)==tau0(r,w))], outer_inv(tau,startK))
# outer -> inner init (ww=0)
prove('inner init', pre+[startK<=kk,kk<endK,outer_inv(tau,kk)], inner_inv(tau,kk,z3.IntVal(0)))
# inner step: tau_out = tau_in with [L,ww] += sigma[kk+L,ww]*path[kk]*dens[kk+OFF]
step=z3.ForAll([r,w], tau_out(r,w)==z3.If(z3.And(r==L,w==ww), tau_in(L,ww)+sigma(kk+L,ww)*path(kk)*dens(kk+OFF), tau_in(r,w)))
prove('inner step', pre+[startK<=kk,kk<endK,0<=ww,ww<ngrid,inner_inv(tau_in,kk,ww),step], inner_inv(tau_out,kk,ww+1))
# inner exit -> outer inv k+1
prove('inner exit', pre+[startK<=kk,kk<endK,ww>=ngrid,ww<=ngrid,inner_inv(tau_in,kk,ww)], outer_inv(tau_in,kk+1))
# a broken variant: index sigma[kk, ww] (missing +layer)
step_bad=z3.ForAll([r,w], tau_out(r,w)==z3.If(z3.And(r==L,w==ww), tau_in(L,ww)+sigma(kk,ww)*path(kk)*dens(kk+OFF), tau_in(r,w)))
prove('inner step BROKEN (expect sat)', pre+[startK<=kk,kk<endK,0<=ww,ww<ngrid,inner_inv(tau_in,kk,ww),step_bad], inner_inv(tau_out,kk,ww+1))
