import numpy as np, traceback, warnings
warnings.simplefilter('ignore')
# C10/C12: np.int
from taurex.data.profiles.chemistry.gas.twolayergas import TwoLayerGas
from taurex.data.profiles.temperature import NPoint
P = np.logspace(6,-4,20)
try:
    g=TwoLayerGas(); g.initialize_profile(20, np.ones(20)*1000, P, None); print('twolayer ok', g.mixProfile)
except Exception as e: print('TwoLayerGas ->', type(e).__name__, e)
try:
    t=NPoint(); t.initialize_profile(None,20,P); print(t.profile)
except Exception as e: print('NPoint ->', type(e).__name__, e)
try:
    t=NPoint(T_surface=1000.,T_top=1000.); t.initialize_profile(None,20,P); print(t.profile)
except Exception as e: print('NPoint const ->', type(e).__name__, e)
# C15 getargspec
from taurex.parameter.factory import create_klass
from taurex.data.profiles.temperature import Isothermal
try:
    print(create_klass({'T':1000.0}, Isothermal, False))
except Exception as e: print('create_klass ->', type(e).__name__, e)
# C16 FluxBinner wlwidth
from taurex.binning import FluxBinner, SimpleBinner
wn = np.linspace(1000,2000,11)
fb = FluxBinner(wn); sb=SimpleBinner(wn)
nat = np.linspace(900,2100,1201); 
out = fb.generate_spectrum_output((nat, np.ones_like(nat), np.ones((3,nat.size)), None))
out2 = sb.generate_spectrum_output((nat, np.ones_like(nat), np.ones((3,nat.size)), None))
print('flux wlwidth', out['binned_wlwidth'][:3], 'simple', out2['binned_wlwidth'][:3], 'expected', 10000*out['binned_wnwidth'][:3]/wn[:3]**2)
