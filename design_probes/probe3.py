import z3, time, itertools
def prove(name, hyps, goal, to=20000):
    s=z3.Solver(); s.set('timeout',to)
    s.add(hyps); s.add(z3.Not(goal))
    t=time.time(); res=s.check(); print(name,res,round(time.time()-t,3)); return res
exp=z3.Function('exp',z3.RealSort(),z3.RealSort())
def ground(args):
    ax=[]
    for a in args: ax+= [exp(a)>0, z3.Implies(a<=0,exp(a)<=1), z3.Implies(a>=0,exp(a)>=1), z3.Implies(a==0, exp(a)==1)]
    for a,b in itertools.combinations(args,2):
        ax+=[z3.Implies(a<=b,exp(a)<=exp(b)), z3.Implies(b<=a,exp(b)<=exp(a)), z3.Implies(a<b,exp(a)<exp(b)), z3.Implies(b<a,exp(b)<exp(a))]
    return ax
t1,t2,Rp,z,dz=z3.Reals('t1 t2 Rp z dz')
prove('monotone ground', ground([-t1,-t2])+[t1>=0,t2>=t1,Rp>0,z>=0,dz>0], (Rp+z)*(1-exp(-t1))*dz*2<=(Rp+z)*(1-exp(-t2))*dz*2)
# k-table Jensen-ish: sum_g w_g exp(-t_g) >= exp(-sum_g w_g t_g) not provable w/o convexity axiom. check 2-point with convexity instance? skip
# telescoping for isothermal, n symbolic: induction step
I=z3.IntSort(); R=z3.RealSort()
LT=z3.Function('LT',I,R)   # e^{-layer_tau(l) mu}; with e^{-dtau(l)mu} = LT(l-1)
Tel=z3.Function('Tel',I,R) # Tel(n)=sum_{l=0}^{n-1} (LT(l)-LT(l-1))
n=z3.Int('n')
ax=[Tel(0)==0, z3.ForAll([n], z3.Implies(n>0, Tel(n)==Tel(n-1)+LT(n-1)-LT(n-2)), patterns=[Tel(n)])]
# claim P(n): Tel(n)==LT(n-1)-LT(-1)
prove('tel base', ax, Tel(0)==LT(-1)-LT(-1))
prove('tel step', ax+[n>=0, Tel(n)==LT(n-1)-LT(-1)], Tel(n+1)==LT(n)-LT(-1))
# weighted mean between min and max: induction step. Wsum(n), WX(n); claim lo*Wsum<=WX<=hi*Wsum
wt=z3.Function('wt',I,R); xv=z3.Function('xv',I,R); Ws=z3.Function('Ws',I,R); WX=z3.Function('WX',I,R)
lo,hi=z3.Reals('lo hi'); i=z3.Int('i')
ax2=[Ws(0)==0,WX(0)==0, z3.ForAll([n], z3.Implies(n>0, z3.And(Ws(n)==Ws(n-1)+wt(n-1), WX(n)==WX(n-1)+wt(n-1)*xv(n-1))), patterns=[Ws(n)]),
     z3.ForAll([i], z3.And(wt(i)>=0, lo<=xv(i), xv(i)<=hi))]
prove('wmean step', ax2+[n>=0, lo*Ws(n)<=WX(n), WX(n)<=hi*Ws(n)], z3.And(lo*Ws(n+1)<=WX(n+1), WX(n+1)<=hi*Ws(n+1)))
# mod partition: each i has unique r
i,s,r1,r2,a,b=z3.Ints('i s r1 r2 a b')
prove('partition exists', [s>0,i>=0], z3.And(0<=i%s, i%s<s, (i-(i%s))%s==0))
prove('partition unique', [s>0,i>=0,0<=r1,r1<s,0<=r2,r2<s,i-r1==a*s,i-r2==b*s], r1==r2)
