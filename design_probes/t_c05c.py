import numpy as np, warnings
warnings.simplefilter('ignore')
from taurex.binning import FluxBinner
rng=np.random.default_rng(2)
def oracle(lo,hi, f, twn, twidth):
    out=np.full(len(twn), np.nan)
    for i,(c,w) in enumerate(zip(twn,twidth)):
        a=c-w/2;b=c+w/2
        ov=np.clip(np.minimum(b,hi)-np.maximum(a,lo),0,None)
        if ov.sum()>1e-9: out[i]=(ov*f).sum()/ov.sum()
    return out
stats={'ok':0,'bad':0,'badperm':0}
for trial in range(4000):
    n=rng.integers(2,12)
    e=np.sort(rng.uniform(100,200,2*n))
    if np.min(np.diff(e))<1e-3: continue
    if rng.random()<0.5:  # contiguous
        ed=np.sort(rng.uniform(100,200,n+1)); lo=ed[:-1]; hi=ed[1:]
        if np.min(hi-lo)<1e-3: continue
    else:
        lo=e[0::2]; hi=e[1::2]
    nwn=(lo+hi)/2; nwidth=hi-lo
    m=rng.integers(1,6)
    twn=rng.uniform(80,220,m); tw=rng.uniform(0.5,60,m)
    f=rng.uniform(0,1,n)
    fb=FluxBinner(twn,tw)
    srt=np.argsort(twn)
    exp=oracle(lo,hi,f,twn[srt],tw[srt])
    got=fb.bindown(nwn,f,grid_width=nwidth)[1]
    mask=~np.isnan(exp)
    if np.allclose(got[mask],exp[mask],rtol=1e-9,atol=1e-12): stats['ok']+=1
    else:
        stats['bad']+=1
        if stats['bad']<3: print('MISMATCH',lo,hi,f,twn[srt],tw[srt],got,exp)
    perm=rng.permutation(n)
    got2=fb.bindown(nwn[perm],f[perm],grid_width=nwidth[perm])[1]
    if not np.allclose(got2[mask],exp[mask],rtol=1e-9,atol=1e-12): stats['badperm']+=1
print(stats)
# 2D spectrum + error
fb=FluxBinner(np.array([120.,160.]),np.array([20.,30.]))
ed=np.linspace(100,200,21); nwn=(ed[:-1]+ed[1:])/2; w=np.diff(ed)
spec2=rng.uniform(0,1,(3,20)); err=rng.uniform(0.1,0.2,20)
r=fb.bindown(nwn,spec2,grid_width=w); print('2d shape',r[1].shape)
r=fb.bindown(nwn,spec2[0],grid_width=w,error=err); print('err',r[2])
try:
    r=fb.bindown(nwn,spec2,grid_width=w,error=np.tile(err,(3,1))); print('2d err',r[2].shape, r[2])
except Exception as ex: print('2d err ->',type(ex).__name__,ex)
