import numpy as np
from taurex.opacity.interpolateopacity import InterpolatingOpacity
class Fake(InterpolatingOpacity):
    def __init__(self, mode='linear'):
        super().__init__('fake', interpolation_mode=mode)
        self._t = np.array([100.,200.,300.])
        self._p = np.array([1e2,1e3,1e4])
        self._wn = np.array([1.,2.])
        rng=np.random.default_rng(0)
        self._x = rng.uniform(1e-3,1.0,size=(3,3,2))
    @property
    def wavenumberGrid(self): return self._wn
    @property
    def temperatureGrid(self): return self._t
    @property
    def pressureGrid(self): return self._p
    @property
    def xsecGrid(self): return self._x
for mode in ['linear','exp']:
    f=Fake(mode)
    print(mode)
    for T,P in [(50,1e5),(400,1e1),(50,1e1),(400,1e5),(50,1e3),(150,1e1),(150,1e5),(400,5e2),(200,1e3),(100,1e2),(300,1e4),(150,3e2), (1,1e5), (400,1e-3)]:
        v=f.opacity(T,P)*1e4
        ti=np.clip(np.searchsorted(f._t,T),1,2); pi=np.clip(np.searchsorted(np.log10(f._p),np.log10(P)),1,2)
        print(T,P,v, 'table min/max', f._x.min(axis=(0,1)), f._x.max(axis=(0,1)))
