import numpy as np, warnings
warnings.simplefilter('ignore')
import logging; logging.disable(logging.CRITICAL)
from taurex.model import TransmissionModel
from taurex.cache import OpacityCache
from taurex.opacity.fakeopacity import FakeOpacity
OpacityCache().clear_cache()
OpacityCache().add_opacity(FakeOpacity('H2O'))
OpacityCache().add_opacity(FakeOpacity('CH4'))
from taurex.contributions import AbsorptionContribution
tm=TransmissionModel(nlayers=7)
tm.add_contribution(AbsorptionContribution())
tm.build()
r=tm.model()
for k in ['pressureProfile','temperatureProfile','densityProfile','altitudeProfile','altitude_boundaries','deltaz','gravity_profile','scaleheight_profile']:
    print(k, np.shape(getattr(tm,k)))
p=tm.generate_profiles()
print({k:np.shape(v) for k,v in p.items()})
print(r[0].shape,r[1].shape,r[2].shape)
