import warnings; warnings.simplefilter('ignore')
from tests.optimizer import LineModel, LineObs, LineObsWithParams
from taurex.optimizer import Optimizer
from taurex.core.priors import Uniform, LogUniform
lm=LineModel(); lm.m=2.0; lm.c=10.0
lo=LineObs(m=2.0,c=10.0,N=10)
opt=Optimizer('t',observed=lo,model=lm)
opt.enable_fit('m'); opt.compile_params()
print('before', opt.fit_names, opt.fit_boundaries, [p.boundaries() for p in opt.fitting_priors])
opt.set_boundary('m',[1.0,50.0]); opt.compile_params()
print('after set_boundary', opt.fit_names, opt.fit_boundaries, [p.boundaries() for p in opt.fitting_priors])
opt.set_mode('m','log'); opt.compile_params()
print('after set_mode log', opt.fit_names, opt.fit_values, opt.fit_boundaries, [ (type(p).__name__,p.boundaries()) for p in opt.fitting_priors])
# fresh optimizer with same final settings
opt2=Optimizer('t',observed=lo,model=lm); opt2.compile_params()
print('fresh', opt2.fit_names, opt2.fit_values, opt2.fit_boundaries, [ (type(p).__name__,p.boundaries()) for p in opt2.fitting_priors])
# write back reported values
v=opt.fit_values; opt.update_model(v); print('m after writeback', lm.m)
try:
    opt.enable_fit('nope')
except Exception as e: print('unknown ->', type(e).__name__)
try:
    opt.enable_derived('nope')
except Exception as e: print('unknown derived ->', type(e).__name__)
print(lm.derivedParameters if hasattr(lm,'derivedParameters') else None)
