import numpy as np, warnings
warnings.simplefilter('ignore')
import logging; logging.disable(logging.CRITICAL)
from taurex.model import EmissionModel, TransmissionModel
from taurex.cache import OpacityCache
from taurex.opacity.fakeopacity import FakeOpacity
from taurex.util.util import compute_dz
OpacityCache().clear_cache()
OpacityCache().add_opacity(FakeOpacity('H2O',wn_res=50)); OpacityCache().add_opacity(FakeOpacity('CH4',wn_res=50))
from taurex.contributions import AbsorptionContribution, SimpleCloudsContribution
em=EmissionModel(nlayers=5); em.add_contribution(AbsorptionContribution()); em.build(); em.model()
print('deltaz', em.deltaz); print('compute_dz(alt)', compute_dz(em.altitudeProfile))
# clouds + model_full_contrib
tm=TransmissionModel(nlayers=5); tm.add_contribution(AbsorptionContribution()); tm.add_contribution(SimpleCloudsContribution(clouds_pressure=1e3)); tm.build()
try:
    g,res=tm.model_full_contrib(); print('full contrib w/o prior model ok', {k:[x[0] for x in v] for k,v in res.items()})
except Exception as e: print('model_full_contrib before model() ->', type(e).__name__, e)
r=tm.model()
wn=r[0][::50][:40]
try:
    g,res=tm.model_full_contrib(wngrid=wn); print('full contrib clipped ok')
except Exception as e: print('model_full_contrib clipped after full model() ->', type(e).__name__, e)
# chisq res==0
from tests.optimizer import LineModel, LineObs
from taurex.optimizer import Optimizer
lm=LineModel(); lo=LineObs(2.0,10.0,10); lo._y=2.0*lo._x+10.0
opt=Optimizer('t',observed=lo,model=lm); opt.enable_fit('m'); opt.enable_fit('c'); opt.compile_params()
print('names',opt.fit_names)
vals=[10.0 if n=='c' else 2.0 for n in opt.fit_names]
print('chisq at exact truth', opt.chisq_trans(np.array(vals), lo.spectrum, lo.errorBar))
