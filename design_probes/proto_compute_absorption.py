"""Throw-away prototype: AST -> VC for two real functions, to validate the design choices
(arrays as element closures on a heap, Sum hash-consing, invariants by loop ordinal)."""
import ast, z3, time, textwrap, sys
R=z3.RealSort(); I=z3.IntSort()
class Arr:
    def __init__(s, shape, elem): s.shape=shape; s.elem=elem   # elem: tuple(Int terms)->Real term
_sumcache={}
def Sum(lo,hi,body,key):
    """Sigma_{k=lo}^{hi-1} body(k): uninterpreted S_key(lo,hi,*free) with unfolding axioms; key = canonical text"""
    if key not in _sumcache:
        f=z3.Function('S%d'%len(_sumcache), I,I,R)
        _sumcache[key]=(f,body)
    f,_=_sumcache[key]
    return f(lo,hi)
def sum_axioms():
    ax=[]
    for key,(f,body) in _sumcache.items():
        a,b=z3.Ints('a b')
        ax.append(z3.ForAll([a,b], z3.Implies(b<=a, f(a,b)==0), patterns=[f(a,b)]))
        ax.append(z3.ForAll([a,b], z3.Implies(b>a, f(a,b)==f(a,b-1)+body(b-1)), patterns=[f(a,b)]))
    return ax
exp=z3.Function('exp',R,R)
class Exec:
    def __init__(s, fn, env, contracts_inv):
        s.fn=fn; s.env=dict(env); s.obl=[]; s.pc=[]; s.inv=contracts_inv; s.loopno=0
    def ev(s,e):
        if isinstance(e,ast.Constant): return z3.RealVal(e.value) if isinstance(e.value,float) else z3.IntVal(e.value)
        if isinstance(e,ast.Name): return s.env[e.id]
        if isinstance(e,ast.BinOp):
            a,b=s.ev(e.left),s.ev(e.right)
            return s.binop(e.op,a,b)
        if isinstance(e,ast.UnaryOp) and isinstance(e.op,ast.USub):
            a=s.ev(e.operand); return s.map1(lambda x:-x,a)
        if isinstance(e,ast.Subscript):
            base=s.ev(e.value); idx=e.slice
            idxs=idx.elts if isinstance(idx,ast.Tuple) else [idx]
            return s.index(base,idxs)
        if isinstance(e,ast.Attribute):
            key=ast.unparse(e); return s.env[key]
        if isinstance(e,ast.Call):
            fn=ast.unparse(e.func)
            if fn=='np.exp': return s.map1(exp,s.ev(e.args[0]))
            if fn=='np.sum':
                a=s.ev(e.args[0]); axis=[k.value.value for k in e.keywords if k.arg=='axis'][0]
                assert axis==0 and len(a.shape)==2
                key='sum0:'+ast.unparse(e.args[0])
                return Arr((a.shape[1],), lambda ix,a=a,key=key: Sum(z3.IntVal(0),a.shape[0],lambda k:a.elem((k,ix[0])), key+str(ix[0])))
            if fn=='range':
                return ('range',[s.ev(x) for x in e.args])
        if isinstance(e,ast.Tuple): return tuple(s.ev(x) for x in e.elts)
        raise NotImplementedError(ast.dump(e))
    def toreal(s,x): return z3.ToReal(x) if z3.is_int(x) else x
    def bc(s,a,b,f):
        # broadcasting elementwise
        if not isinstance(a,Arr) and not isinstance(b,Arr):
            if z3.is_int(a) and z3.is_int(b): return f(a,b)
            return f(s.toreal(a),s.toreal(b))
        if not isinstance(a,Arr): return Arr(b.shape, lambda ix: f(s.toreal(a),b.elem(ix)))
        if not isinstance(b,Arr): return Arr(a.shape, lambda ix: f(a.elem(ix),s.toreal(b)))
        # align from the right; dims of size 'ONE' marker broadcast
        n=max(len(a.shape),len(b.shape))
        sa=(None,)*(n-len(a.shape))+tuple(a.shape); sb=(None,)*(n-len(b.shape))+tuple(b.shape)
        shape=[]; 
        for x,y in zip(sa,sb):
            shape.append(y if (x is None or x is ONE) else x)
        def el(ix):
            ia=tuple(z3.IntVal(0) if d is ONE else i for i,d in zip(ix[n-len(a.shape):],a.shape))
            ib=tuple(z3.IntVal(0) if d is ONE else i for i,d in zip(ix[n-len(b.shape):],b.shape))
            return f(a.elem(ia),b.elem(ib))
        return Arr(tuple(shape),el)
    def binop(s,op,a,b):
        if isinstance(op,ast.Add): return s.bc(a,b,lambda x,y:x+y)
        if isinstance(op,ast.Sub): return s.bc(a,b,lambda x,y:x-y)
        if isinstance(op,ast.Mult): return s.bc(a,b,lambda x,y:x*y)
        if isinstance(op,ast.Div): return s.bc(a,b,lambda x,y:s.toreal(x)/s.toreal(y))
        if isinstance(op,ast.Pow):
            assert isinstance(b,z3.ExprRef)
            bv=z3.simplify(b)
            if z3.is_int_value(bv) or z3.is_rational_value(bv):
                n=bv.as_long() if z3.is_int_value(bv) else int(float(bv.as_decimal(5).rstrip('?')))
                return s.map1(lambda x: z3.Product([x]*n), a)
        raise NotImplementedError(op)
    def map1(s,f,a):
        if isinstance(a,Arr): return Arr(a.shape, lambda ix:f(a.elem(ix)))
        return f(s.toreal(a))
    def index(s,base,idxs):
        # supports a[i,j], a[:, None]
        if all(isinstance(i,ast.Slice) or (isinstance(i,ast.Constant) and i.value is None) for i in idxs):
            shape=[]; mp=[]
            d=0
            for i in idxs:
                if isinstance(i,ast.Slice): shape.append(base.shape[d]); mp.append(d); d+=1
                else: shape.append(ONE); mp.append(None)
            return Arr(tuple(shape), lambda ix: base.elem(tuple(ix[j] for j,m in enumerate(mp) if m is not None)))
        ix=tuple(s.ev(i) for i in idxs)
        for i,d in zip(ix,base.shape):
            s.obl.append(('index', z3.And(i>=0,i<d), list(s.pc)))
        return base.elem(ix)
ONE=object()
def prove(name,hyps,goal,to=20000):
    sv=z3.Solver(); sv.set('timeout',to); sv.add(sum_axioms()); sv.add(hyps); sv.add(z3.Not(goal))
    t=time.time(); r=sv.check(); print('%-40s %s %.3fs'%(name,r,time.time()-t)); return r

# ---------- compute_absorption from the real file ----------
src=open('/repo/taurex/model/transmission.py').read(); mod=ast.parse(src)
cls=[n for n in mod.body if isinstance(n,ast.ClassDef) and n.name=='TransmissionModel'][0]
fn=[n for n in cls.body if isinstance(n,ast.FunctionDef) and n.name=='compute_absorption'][0]
n,W=z3.Ints('n W')
tauF=z3.Function('tau',I,I,R); dzF=z3.Function('dz',I,R); zF=z3.Function('z',I,R)
Rp,Rs=z3.Reals('Rp Rs')
env={'tau':Arr((n,W),lambda ix:tauF(*ix)),'dz':Arr((n,),lambda ix:dzF(ix[0])),
     'self.altitudeProfile':Arr((n,),lambda ix:zF(ix[0])),'self._planet.fullRadius':Rp,'self._star.radius':Rs}
ex=Exec(fn,env,{})
ret=None
for st in fn.body:
    if isinstance(st,ast.Assign):
        ex.env[st.targets[0].id]=ex.ev(st.value)
    elif isinstance(st,ast.Return):
        ret=ex.ev(st.value)
absorption,tau_out=ret
w=z3.Int('w'); l=z3.Int('l')
spec=(Rp*Rp + Sum(z3.IntVal(0),n,lambda k:(Rp+zF(k))*(1.0-exp(-tauF(k,w)))*dzF(k)*2.0,'SPEC'+str(w)))/(Rs*Rs)
got=absorption.elem((w,))
print('code term :',z3.simplify(got))
# Sum-extensionality: bodies must be pointwise equal -> then S_code == S_spec by induction; here check body equality
k=z3.Int('k')
(fc,bc_),(fs,bs_)=[v for kk,v in _sumcache.items() if kk.startswith('sum0')][0], _sumcache['SPEC'+str(w)]
prove('absorption: body(code)==body(spec)',[],bc_(k)==bs_(k))
# induction for extensionality (generic, done once): step
prove('ext: induction step',[fc(0,k)==fs(0,k),k>=0],fc(0,k+1)==fs(0,k+1))
prove('ext: base',[],fc(0,0)==fs(0,0))
prove('absorption post (given ext)',[fc(0,n)==fs(0,n),Rs>0],got==spec)
prove('tau_out post',[], tau_out.elem((l,w))==exp(-tauF(l,w)))
print('index obligations:',len(ex.obl))
