import z3, time
def prove(name, hyps, goal, to=20000):
    s=z3.Solver(); s.set('timeout',to)
    s.add(hyps); s.add(z3.Not(goal))
    t=time.time(); res=s.check(); print(name,res,round(time.time()-t,3))
    return res
R=z3.Real
# Welford weighted update: invariant mean=S1/S0, M2=S2-S1^2/S0
S0,S1,S2,w,x=z3.Reals('S0 S1 S2 w x')
mean=S1/S0; M2=S2-S1*S1/S0
W=S0+w
mean2=mean+(w/W)*(x-mean)
M2n=M2+w*(x-mean)*(x-mean2)
prove('welford mean', [S0>0,w>0], mean2==(S1+w*x)/(S0+w))
prove('welford M2', [S0>0,w>0], M2n==(S2+w*x*x)-(S1+w*x)*(S1+w*x)/(S0+w))
# first update: mean=0*x, M2=0: wcount=w: mean' = 0+(w/w)*(x-0)=x ; M2' = w*(x-0)*(x-x)=0
# bilinear between-ness
x11,x12,x21,x22,Ps,Ts=z3.Reals('x11 x12 x21 x22 Ps Ts')
out=x11-Ps*(x11-x21)-Ps*Ts*(x21-x11+x12-x22)-Ts*(x11-x12)
lo,hi=z3.Reals('lo hi')
H=[0<=Ps,Ps<=1,0<=Ts,Ts<=1]+[lo<=v for v in (x11,x12,x21,x22)]+[v<=hi for v in (x11,x12,x21,x22)]
prove('bilin lower', H, out>=lo)
prove('bilin upper', H, out<=hi)
prove('bilin == convex form', [], out==(1-Ps)*(1-Ts)*x11+(1-Ps)*Ts*x12+Ps*(1-Ts)*x21+Ps*Ts*x22)
# Pscale def with division
P,Pmin,Pmax,T,Tmin,Tmax=z3.Reals('P Pmin Pmax T Tmin Tmax')
Psc=(P-Pmin)/(Pmax-Pmin)
prove('scale in [0,1]', [Pmin<P,P<Pmax], z3.And(Psc>=0,Psc<=1))
# linear interp bound: out = x11 - scale*(x11-x12)
sc=z3.Real('sc')
prove('lin bound', [0<=sc,sc<=1,lo<=x11,x11<=hi,lo<=x12,x12<=hi], z3.And(x11-sc*(x11-x12)>=lo, x11-sc*(x11-x12)<=hi))
# extrapolation counterexample: sc<0 allowed -> sat expected
s=z3.Solver(); s.add(sc<0, lo<=x11,x11<=hi,lo<=x12,x12<=hi, lo>=0, x11-sc*(x11-x12)<0); print('extrap neg', s.check(), s.model())
# exp lemmas with uninterpreted exp
exp=z3.Function('exp',z3.RealSort(),z3.RealSort())
a,b=z3.Reals('a b')
EXPAX=[z3.ForAll([a],exp(a)>0), z3.ForAll([a,b], z3.Implies(a<=b, exp(a)<=exp(b))), exp(0)==1, z3.ForAll([a,b], exp(a+b)==exp(a)*exp(b))]
t1,t2,Rp,z,dz=z3.Reals('t1 t2 Rp z dz')
prove('trans in [0,1]', EXPAX+[t1>=0], z3.And(exp(-t1)<=1, exp(-t1)>0))
prove('layer term bounds', EXPAX+[t1>=0,Rp>0,z>=0,dz>0], z3.And((Rp+z)*(1-exp(-t1))*dz*2>=0, (Rp+z)*(1-exp(-t1))*dz*2<=(Rp+z)*dz*2))
prove('monotone', EXPAX+[t1>=0,t2>=t1,Rp>0,z>=0,dz>0], (Rp+z)*(1-exp(-t1))*dz*2<=(Rp+z)*(1-exp(-t2))*dz*2)
prove('product of trans', EXPAX, exp(-(t1+t2))==exp(-t1)*exp(-t2))
# saturation: tau_final>10, tau_full>=tau_final -> |exp(-full)-exp(-final)|<=exp(-10)
prove('cutoff dev', EXPAX+[t1>10,t2>=t1], z3.And(exp(-t1)-exp(-t2)>=0, exp(-t1)-exp(-t2)<=exp(-10)))
