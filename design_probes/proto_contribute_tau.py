"""Prototype 2: loops with invariants + array mutation + bounded (BMC) falsifier, on the real contribute_tau AST."""
import ast, z3, time, itertools, sys
R=z3.RealSort(); I=z3.IntSort()
def get_fn(path,name):
    mod=ast.parse(open(path).read())
    for n in ast.walk(mod):
        if isinstance(n,ast.FunctionDef) and n.name==name: return n
class A2:   # mutable 2-D/1-D array value: functional store on an element function
    def __init__(s,shape,elem): s.shape=shape; s.elem=elem
    def get(s,ix): return s.elem(ix)
    def set(s,ix,v):
        old=s.elem
        return A2(s.shape, lambda jx,old=old,ix=ix,v=v: z3.If(z3.And(*[a==b for a,b in zip(jx,ix)]), v, old(jx)))
fresh=itertools.count()
def havoc_arr(shape,name,nd):
    f=z3.Function('%s_%d'%(name,next(fresh)),*([I]*nd+[R])); return A2(shape,lambda ix:f(*ix))
class VC:
    def __init__(s): s.obls=[]
    def add(s,name,hyps,goal): s.obls.append((name,list(hyps),goal))
def ev(e,env,vc,pc):
    if isinstance(e,ast.Constant): return z3.IntVal(e.value) if isinstance(e.value,int) else z3.RealVal(e.value)
    if isinstance(e,ast.Name): return env[e.id]
    if isinstance(e,ast.BinOp):
        a,b=ev(e.left,env,vc,pc),ev(e.right,env,vc,pc)
        if isinstance(e.op,ast.Add): return a+b
        if isinstance(e.op,ast.Mult): return a*b
        if isinstance(e.op,ast.Sub): return a-b
    if isinstance(e,ast.Subscript):
        base=ev(e.value,env,vc,pc); ix=e.slice.elts if isinstance(e.slice,ast.Tuple) else [e.slice]
        ix=tuple(ev(i,env,vc,pc) for i in ix)
        for n,(i,d) in enumerate(zip(ix,base.shape)):
            vc.add('safe.index %s[%d] line %d'%(ast.unparse(e.value),n,e.lineno), pc, z3.And(i>=0,i<d))
        return base.get(ix)
    raise NotImplementedError(ast.dump(e))
def exec_block(stmts,env,vc,pc,invs,loopctr,mode):
    for st in stmts:
        if isinstance(st,ast.Expr): continue   # docstring
        if isinstance(st,ast.Assign):
            env[st.targets[0].id]=ev(st.value,env,vc,pc)
        elif isinstance(st,ast.AugAssign):
            t=st.target; base=env[t.value.id]; ix=tuple(ev(i,env,vc,pc) for i in t.slice.elts)
            for n,(i,d) in enumerate(zip(ix,base.shape)):
                vc.add('safe.index store %s[%d] line %d'%(t.value.id,n,st.lineno), pc, z3.And(i>=0,i<d))
            env[t.value.id]=base.set(ix, base.get(ix)+ev(st.value,env,vc,pc))
        elif isinstance(st,ast.For):
            lo,hi=[ev(a,env,vc,pc) for a in st.iter.args] if len(st.iter.args)==2 else (z3.IntVal(0),ev(st.iter.args[0],env,vc,pc))
            var=st.target.id
            if mode=='bmc':
                lo_c=z3.simplify(lo).as_long(); hi_c=z3.simplify(hi).as_long()
                for k in range(lo_c,hi_c):
                    env[var]=z3.IntVal(k); exec_block(st.body,env,vc,pc,invs,loopctr,mode)
                continue
            no=loopctr[0]; loopctr[0]+=1
            inv=invs[no]
            env[var]=lo
            vc.add('inv%d.init'%no, pc, inv(env))
            # havoc modified arrays (here: tau) and loop var
            kk=z3.Int('%s_%d'%(var,next(fresh)))
            env2=dict(env); env2[var]=kk; env2['tau']=havoc_arr(env['tau'].shape,'tau',2)
            pc2=pc+[kk>=lo,kk<hi,inv(env2)]
            exec_block(st.body,env2,vc,pc2,invs,loopctr,mode)
            env2[var]=kk+1
            vc.add('inv%d.preserve'%no, pc2, inv(env2))
            # exit state
            env[var]=z3.If(hi>lo,hi,lo); env['tau']=havoc_arr(env['tau'].shape,'tau',2)
            pc.append(inv(env)); 
        else: raise NotImplementedError(ast.dump(st))
def run(path,mode,sizes=None):
    fn=get_fn(path,'contribute_tau')
    sig=z3.Function('sigma',I,I,R); den=z3.Function('density',I,R); pth=z3.Function('path',I,R); tau0=z3.Function('tau0',I,I,R)
    names='startK endK density_offset nlayers ngrid layer'.split()
    env={n:z3.Int(n) for n in names}
    rs,cs,rt,ct,ld,lp=z3.Ints('rows_sigma cols_sigma rows_tau cols_tau len_density len_path')
    if mode=='bmc':
        for k,v in sizes.items():
            if k in env: env[k]=z3.IntVal(v)
        rs,cs,rt,ct,ld,lp=[z3.IntVal(sizes[x]) for x in 'rows_sigma cols_sigma rows_tau cols_tau len_density len_path'.split()]
    env.update(sigma=A2((rs,cs),lambda ix:sig(*ix)),density=A2((ld,),lambda ix:den(*ix)),path=A2((lp,),lambda ix:pth(*ix)),tau=A2((rt,ct),lambda ix:tau0(*ix)))
    E=dict(env)
    # spec Sum
    S=z3.Function('S',I,I,I,R)  # S(lo,hi,w)
    a,b,w,r=z3.Ints('a b w r')
    body=lambda k,w: sig(k+E['layer'],w)*pth(k)*den(k+E['density_offset'])
    ax=[z3.ForAll([a,b,w],z3.Implies(b<=a,S(a,b,w)==0),patterns=[S(a,b,w)]),
        z3.ForAll([a,b,w],z3.Implies(b>a,S(a,b,w)==S(a,b-1,w)+body(b-1,w)),patterns=[S(a,b,w)])]
    pre=[E['startK']>=0, E['layer']>=0, E['layer']<rt, E['ngrid']>=0, E['ngrid']<=ct, E['ngrid']<=cs,
         z3.Implies(E['startK']<E['endK'], z3.And(E['endK']+E['layer']<=rs, E['endK']+E['density_offset']<=ld, E['startK']+E['density_offset']>=0, E['endK']<=lp))]
    def outer(env):
        k=env['k']; t=env['tau']
        return z3.And(z3.ForAll([w],z3.Implies(z3.And(0<=w,w<E['ngrid']), t.get((E['layer'],w))==tau0(E['layer'],w)+S(E['startK'],k,w))),
                      z3.ForAll([r,w],z3.Implies(z3.Not(z3.And(r==E['layer'],0<=w,w<E['ngrid'])), t.get((r,w))==tau0(r,w))))
    def inner(env):
        k=env['k']; wn=env['wn']; t=env['tau']
        return z3.And(z3.ForAll([w],z3.Implies(z3.And(0<=w,w<wn), t.get((E['layer'],w))==tau0(E['layer'],w)+S(E['startK'],k+1,w))),
                      z3.ForAll([w],z3.Implies(z3.And(wn<=w,w<E['ngrid']), t.get((E['layer'],w))==tau0(E['layer'],w)+S(E['startK'],k,w))),
                      z3.ForAll([r,w],z3.Implies(z3.Not(z3.And(r==E['layer'],0<=w,w<E['ngrid'])), t.get((r,w))==tau0(r,w))))
    vc=VC(); pc=list(pre)
    exec_block(fn.body,env,vc,pc,{0:outer,1:inner},[0],mode)
    # postcondition
    post=z3.And(z3.ForAll([w],z3.Implies(z3.And(0<=w,w<E['ngrid']), env['tau'].get((E['layer'],w))==tau0(E['layer'],w)+S(E['startK'],z3.If(E['endK']>E['startK'],E['endK'],E['startK']),w))),
                z3.ForAll([r,w],z3.Implies(z3.Not(z3.And(r==E['layer'],0<=w,w<E['ngrid'])), env['tau'].get((r,w))==tau0(r,w))))
    if mode=='bmc':
        # quantifier-free post: expand w, r over concrete sizes, expand S by unfolding
        def Sx(lo,hi,wv): return sum([body(z3.IntVal(k),z3.IntVal(wv)) for k in range(lo,hi)], z3.RealVal(0))
        L=sizes['layer']; cl=[]
        for rr in range(sizes['rows_tau']):
            for ww in range(sizes['cols_tau']):
                exp_= tau0(rr,ww)+ (Sx(sizes['startK'],sizes['endK'],ww) if (rr==L and ww<sizes['ngrid']) else 0)
                cl.append(env['tau'].get((z3.IntVal(rr),z3.IntVal(ww)))==exp_)
        post=z3.And(*cl); ax=[]
    vc.add('post',pc,post)
    return vc,ax
def discharge(vc,ax,label):
    allok=True
    for name,hyps,goal in vc.obls:
        s=z3.Solver(); s.set('timeout',15000); s.add(ax); s.add(hyps); s.add(z3.Not(goal))
        t=time.time(); r=s.check()
        print('  [%s] %-45s %s %.3fs'%(label,name,r,time.time()-t))
        if r==z3.sat:
            m=s.model(); print('     model:',{str(d):m[d] for d in m.decls() if d.arity()==0})
        allok&= (r==z3.unsat)
    return allok
path=sys.argv[1] if len(sys.argv)>1 else '/repo/taurex/contributions/contribution.py'
print('== deductive, symbolic sizes, real source:',path)
vc,ax=run(path,'ded'); print('obligations:',len(vc.obls)); ok=discharge(vc,ax,'ded')
if not ok:
    print('== falsifier (bounded instance)')
    sizes=dict(startK=0,endK=2,density_offset=1,nlayers=3,ngrid=2,layer=1,rows_sigma=3,cols_sigma=2,rows_tau=3,cols_tau=2,len_density=3,len_path=2)
    vc,ax=run(path,'bmc',sizes); discharge(vc,ax,'bmc')
