import z3, time
def prove(name, hyps, goal, to=20000):
    s=z3.Solver(); s.set('timeout',to)
    s.add(hyps); s.add(z3.Not(goal))
    t=time.time(); res=s.check(); print(name,res,round(time.time()-t,3)); return res
I=z3.IntSort(); R=z3.RealSort()
omin=z3.Function('omin',I,R); omax=z3.Function('omax',I,R)
n,ss0,st0,ss,st,j,k=z3.Ints('n ss0 st0 ss st j k')
a,b=z3.Reals('wn_min wn_max')
Min=lambda x,y: z3.If(x<=y,x,y); Max=lambda x,y: z3.If(x>=y,x,y)
grid=[n>=1,
      z3.ForAll([j], z3.Implies(z3.And(0<=j,j<n), omin(j)<omax(j))),
      z3.ForAll([j,k], z3.Implies(z3.And(0<=j,j<k,k<n), omax(j)<=omin(k)))]
ssc=[0<=ss0,ss0<=n, z3.ForAll([j], z3.Implies(z3.And(0<=j,j<ss0), omax(j)<=a)), z3.ForAll([j], z3.Implies(z3.And(ss0<=j,j<n), omax(j)>a))]
stc=[0<=st0,st0<=n-1, z3.ForAll([j], z3.Implies(z3.And(0<=j,j<st0), omin(j+1)<=b)), z3.ForAll([j], z3.Implies(z3.And(st0<=j,j<n-1), omin(j+1)>b))]
clamp=[ss==Min(ss0,n-1), st==Min(st0,n-1)]
guard=[a<=omax(ss), omin(st)<=b]   # not skipped
H=grid+ssc+stc+clamp+[a<b]
ov=lambda jj: Min(b,omax(jj))-Max(omin(jj),a)
prove('inside window overlap>=0', H+guard+[ss<=j,j<=st], ov(j)>=0)
prove('outside window overlap<=0', H+guard+[0<=j,j<n,z3.Or(j<ss,j>st)], ov(j)<=0)
prove('window nonempty ss<=st', H+guard, ss<=st)
# skipped case => no bin has positive overlap
prove('skip => no overlap', H+[z3.Not(z3.And(a<=omax(ss), omin(st)<=b)), 0<=j,j<n], ov(j)<=0)
