"""Discharging obligations: z3 first (in a process pool, one SMT-LIB text per obligation), cvc5 on
z3's `unknown`.  Transcendental functions are uninterpreted; ground instances of their axioms are
added per obligation after skolemising the goal (DESIGN 2.6)."""
import itertools
import os
import subprocess
import tempfile
import time
import z3

from .core import REAL, INT

TRANSC = ('u_exp', 'u_ln', 'u_log10', 'u_sqrt', 'u_pow10', 'u_probit')
_sk = itertools.count()


def skolemize(goal, hyps):
    """strip leading universal quantifiers / implications / conjunction-free structure of the goal"""
    hyps = list(hyps)
    while True:
        if z3.is_quantifier(goal) and goal.is_forall():
            n = goal.num_vars()
            consts = [z3.Const('sk!%d_%s' % (next(_sk), goal.var_name(i)), goal.var_sort(i)) for i in range(n)]
            goal = z3.substitute_vars(goal.body(), *reversed(consts))
            continue
        if z3.is_implies(goal):
            hyps.append(goal.arg(0))
            goal = goal.arg(1)
            continue
        break
    return goal, hyps


def collect_apps(terms, names):
    out = {n: {} for n in names}
    seen = set()
    stack = list(terms)
    while stack:
        t = stack.pop()
        i = t.get_id()
        if i in seen:
            continue
        seen.add(i)
        if z3.is_quantifier(t):
            continue         # bound variables: handled by the quantified axioms below
        if z3.is_app(t):
            nm = t.decl().name()
            if nm in out and t.num_args() == 1:
                out[nm][t.get_id()] = t
            stack.extend(t.children())
    return out


def _negated(a):
    """b if a is syntactically -b (unary minus or (-1)*b), else None"""
    if z3.is_app_of(a, z3.Z3_OP_UMINUS):
        return a.arg(0)
    if z3.is_mul(a) and a.num_args() == 2:
        x, y = a.arg(0), a.arg(1)
        if z3.is_rational_value(x) and x.numerator_as_long() == -1 and x.denominator_as_long() == 1:
            return y
        if z3.is_rational_value(y) and y.numerator_as_long() == -1 and y.denominator_as_long() == 1:
            return x
    return None


def transc_axioms(terms, uf, rounds=2):
    """ground instances for the uninterpreted exp/ln/log10/sqrt/pow10 occurring in `terms`"""
    ax = []
    if 'u_pow' in uf:
        # a**b with a non-integer exponent is uninterpreted; the one fact used about it: positive for a positive base
        xx, yy = z3.Real('x?p'), z3.Real('y?p')
        ax.append(z3.ForAll([xx, yy], z3.Implies(xx > 0, uf['u_pow'](xx, yy) > 0), patterns=[uf['u_pow'](xx, yy)]))
    if not any(n in uf for n in TRANSC):
        return ax
    F = {n: (uf[n] if n in uf else z3.Function(n, REAL, REAL)) for n in TRANSC}
    exp, ln, log10, sqrt, pow10, probit = (F[n] for n in TRANSC)
    x = z3.Real('x?')
    # always-true quantified basics with patterns (reach terms under binders)
    if 'u_exp' in uf:
        ax.append(z3.ForAll([x], exp(x) > 0, patterns=[exp(x)]))
        ax.append(exp(z3.RealVal(0)) == 1)
    if 'u_pow10' in uf:
        ax.append(z3.ForAll([x], pow10(x) > 0, patterns=[pow10(x)]))
        ax.append(pow10(z3.RealVal(0)) == 1)
        ax.append(pow10(z3.RealVal(1)) == 10)
    if 'u_sqrt' in uf:
        ax.append(z3.ForAll([x], z3.Implies(x >= 0, z3.And(sqrt(x) >= 0, sqrt(x) * sqrt(x) == x)), patterns=[sqrt(x)]))
        ax.append(z3.ForAll([x], z3.Implies(x > 0, sqrt(x) > 0), patterns=[sqrt(x)]))
    if 'u_ln' in uf:
        ax.append(ln(z3.RealVal(1)) == 0)
    if 'u_log10' in uf:
        ax.append(log10(z3.RealVal(1)) == 0)
        ax.append(log10(z3.RealVal(10)) == 1)
    terms = list(terms)
    for rnd in range(rounds):
        apps = collect_apps(terms + ax, TRANSC)
        new = []
        ea = list(apps['u_exp'].values())
        for t in ea:
            a = t.arg(0)
            new.append(t > 0)
            new.append((a <= 0) == (t <= 1))
            new.append((a >= 0) == (t >= 1))
            if 'u_ln' in uf:
                new.append(ln(t) == a)
            if z3.is_add(a) and a.num_args() == 2:
                new.append(t == exp(a.arg(0)) * exp(a.arg(1)))
            if z3.is_sub(a) and a.num_args() == 2:
                new.append(t * exp(a.arg(1)) == exp(a.arg(0)))
            new.append(t >= 1 + a)        # tangent at 0
            neg = _negated(a)
            if neg is not None:
                new.append(t * exp(neg) == 1)
        for t1, t2 in (itertools.permutations(ea, 2) if rnd == 0 else ()):
            new.append((t1.arg(0) <= t2.arg(0)) == (t1 <= t2))
        la = list(apps['u_ln'].values())
        for t in la:
            a = t.arg(0)
            if 'u_exp' in uf:
                new.append(z3.Implies(a > 0, exp(t) == a))
            new.append(z3.Implies(a > 0, (a <= 1) == (t <= 0)))
            new.append(z3.Implies(a > 0, (a >= 1) == (t >= 0)))
            if z3.is_div(a):
                new.append(z3.Implies(z3.And(a.arg(0) > 0, a.arg(1) > 0), t == ln(a.arg(0)) - ln(a.arg(1))))
            if z3.is_mul(a) and a.num_args() == 2:
                new.append(z3.Implies(z3.And(a.arg(0) > 0, a.arg(1) > 0), t == ln(a.arg(0)) + ln(a.arg(1))))
        for t1, t2 in (itertools.permutations(la, 2) if rnd == 0 else ()):
            new.append(z3.Implies(z3.And(t1.arg(0) > 0, t2.arg(0) > 0), (t1.arg(0) <= t2.arg(0)) == (t1 <= t2)))
        ga = list(apps['u_log10'].values())
        for t in ga:
            a = t.arg(0)
            if 'u_pow10' in uf:
                new.append(z3.Implies(a > 0, pow10(t) == a))
            new.append(z3.Implies(a > 0, (a <= 1) == (t <= 0)))
            if z3.is_div(a):
                new.append(z3.Implies(z3.And(a.arg(0) > 0, a.arg(1) > 0), t == log10(a.arg(0)) - log10(a.arg(1))))
        for t1, t2 in (itertools.permutations(ga, 2) if rnd == 0 else ()):
            new.append(z3.Implies(z3.And(t1.arg(0) > 0, t2.arg(0) > 0), (t1.arg(0) <= t2.arg(0)) == (t1 <= t2)))
        pa = list(apps['u_pow10'].values())
        for t in pa:
            a = t.arg(0)
            new.append(t > 0)
            new.append((a <= 0) == (t <= 1))
            if 'u_log10' in uf:
                new.append(log10(t) == a)
            if z3.is_add(a) and a.num_args() == 2:
                new.append(t == pow10(a.arg(0)) * pow10(a.arg(1)))
        for t1, t2 in (itertools.permutations(pa, 2) if rnd == 0 else ()):
            new.append((t1.arg(0) <= t2.arg(0)) == (t1 <= t2))
        qa = list(apps['u_probit'].values())
        if qa:
            new.append(probit(z3.RealVal('1/2')) == 0)
        for t in qa:
            a = t.arg(0)
            new.append(z3.Implies(z3.And(a > 0, a < 1), (a <= z3.RealVal('1/2')) == (t <= 0)))
        for t1, t2 in (itertools.permutations(qa, 2) if rnd == 0 else ()):
            a1, a2 = t1.arg(0), t2.arg(0)
            new.append(z3.Implies(z3.And(a1 > 0, a1 < 1, a2 > 0, a2 < 1), (a1 <= a2) == (t1 <= t2)))
        sa = list(apps['u_sqrt'].values())
        for t in sa:
            a = t.arg(0)
            new.append(z3.Implies(a >= 0, z3.And(t >= 0, t * t == a)))
        for t1, t2 in (itertools.permutations(sa, 2) if rnd == 0 else ()):
            new.append(z3.Implies(z3.And(t1.arg(0) >= 0, t2.arg(0) >= 0), (t1.arg(0) <= t2.arg(0)) == (t1 <= t2)))
        ax.extend(new)
    seen, out = set(), []
    for a in ax:
        if a.get_id() not in seen:
            seen.add(a.get_id())
            out.append(a)
    return out


def to_smt2(ctx, hyps, goal, extra_axioms=(), ground=False):
    goal, hyps = skolemize(goal, hyps)
    s = z3.Solver()
    if ground:
        # a lemma proved from its listed (ground) hypotheses alone: no quantified axioms are handed to the solver
        # (terms are normalised first so that syntactically different spellings of one index, `layer - 1 + 1` and
        # `layer`, become ONE term and equal non-linear subterms are shared instead of compared arithmetically)
        for h in hyps:
            s.add(z3.simplify(h))
        s.add(z3.Not(z3.simplify(goal)))
        return s.to_smt2()
    for a in ctx.sum_axioms():
        s.add(a)
    for a in ctx.assumed:
        s.add(a)
    for a in extra_axioms:
        s.add(a)
    for a in transc_axioms(list(hyps) + [goal] + list(ctx.assumed), ctx.uf):
        s.add(a)
    for h in hyps:
        s.add(h)
    s.add(z3.Not(goal))
    return s.to_smt2()


Z3BIN = 'z3-new'


def check_z3_text(text, timeout_ms, seeds=(0,)):
    """z3 5.1 (CLI, hard wall-clock limit) on one SMT-LIB text; on `unknown` the same query is retried with
    other random seeds (non-linear arithmetic is sensitive to the search order)"""
    t = time.time()
    r, reason = 'unknown', ''
    with tempfile.NamedTemporaryFile('w', suffix='.smt2', delete=False) as fh:
        fh.write(text if '(check-sat)' in text else text + '\n(check-sat)\n')
        path = fh.name
    try:
        for seed in seeds:
            cmd = [Z3BIN, '-T:%d' % max(1, int(round(timeout_ms / 1000.0)))]
            if seed:
                cmd += ['smt.random_seed=%d' % seed, 'sat.random_seed=%d' % seed]
            try:
                p = subprocess.run(cmd + [path], capture_output=True, text=True, timeout=timeout_ms / 1000.0 + 5)
                out = (p.stdout or '').strip().splitlines()
                r = out[0].strip() if out else 'unknown'
            except (subprocess.TimeoutExpired, OSError) as e:
                r = 'timeout'
            if r in ('sat', 'unsat'):
                break
            reason = r
            r = 'unknown'
    finally:
        try:
            os.unlink(path)
        except OSError:
            pass
    return r, time.time() - t, reason


def check_cvc5_text(text, timeout_s):
    t = time.time()
    with tempfile.NamedTemporaryFile('w', suffix='.smt2', delete=False) as fh:
        fh.write('(set-logic ALL)\n' + text)
        path = fh.name
    try:
        p = subprocess.run(['/usr/bin/cvc5', '--tlimit=%d' % int(timeout_s * 1000), path], capture_output=True,
                           text=True, timeout=timeout_s + 5)
        out = p.stdout.strip().splitlines()
        r = out[0].strip() if out else 'unknown'
        if r not in ('sat', 'unsat'):
            r = 'unknown'
    except (subprocess.TimeoutExpired, OSError):
        r = 'unknown'
    finally:
        try:
            os.unlink(path)
        except OSError:
            pass
    return r, time.time() - t


def _work(job):
    name, text, timeout_ms, use_cvc5 = job
    try:
        # z3 first with a short budget; what it leaves open goes to cvc5 (which decides many quantifier-heavy
        # queries at once that z3 only finds with a lucky seed), then z3 again with the full budget and another seed
        first = min(timeout_ms, 6000)
        r, dt, reason = check_z3_text(text, first, seeds=(0,))
        backend = 'z3'
        if r in ('sat', 'unsat'):
            return name, r, dt, backend, reason
        if use_cvc5:
            r2, dt2 = check_cvc5_text(text, max(5.0, timeout_ms / 1000.0))
            dt += dt2
            if r2 in ('sat', 'unsat'):
                return name, r2, dt, 'cvc5', ''
        r, dt3, reason = check_z3_text(text, timeout_ms, seeds=(7, 0) if first < timeout_ms else (7,))
        return name, r, dt + dt3, backend, reason
    except Exception as e:       # solver crash is not a verdict
        return name, 'error', 0.0, 'z3', repr(e)


_pool = None


def pool(jobs):
    global _pool
    if _pool is None:
        import multiprocessing as mp
        _pool = mp.get_context('fork').Pool(jobs)
    return _pool


def discharge(jobs_list, nproc=None, timeout_ms=15000, use_cvc5=True):
    """jobs_list: [(name, smt2 text)] -> {name: (verdict, seconds, backend, reason)}"""
    nproc = nproc or int(os.environ.get('VERIF_JOBS', '0')) or min(16, os.cpu_count() or 4)
    work = [(n, t, timeout_ms, use_cvc5) for n, t in jobs_list]
    out = {}
    if nproc <= 1 or len(work) <= 1:
        for w in work:
            r = _work(w)
            out[r[0]] = r[1:]
        return out
    for r in pool(nproc).imap_unordered(_work, work):
        out[r[0]] = r[1:]
    return out


def cross_check(jobs_list, timeout_s=20):
    """thorough tier: every obligation again on cvc5; returns {name: verdict}"""
    out = {}
    for n, t in jobs_list:
        out[n] = check_cvc5_text(t, timeout_s)[0]
    return out
