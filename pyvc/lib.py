"""Assumed contracts (models) of numpy / math / builtins -- the library part of the trusted base.

Every handler here is an *assumption* about the library (DESIGN 2.3); the names of the handlers a
unit actually used are reported in its evidence under trusted_base.  tools/libcheck.py exercises
the models against the real libraries (bounded, not proof).
"""
import ast
import math
import z3

from .core import (Arr, Ref, Obj, PyList, PyDict, Ragged, Unsupported, EngineError, is_sym, to_real, to_int, as_term,
                   conc_int, _unify, INT, REAL, BOOL)

HANDLERS = {}
ARRAY_METHODS = {}
CONSTS = {'numpy.pi': math.pi, 'math.pi': math.pi, 'numpy.float64': 'dtype:float64', 'numpy.float': 'dtype:float64',
          'numpy.int64': 'dtype:int64', 'numpy.nan': None, 'numpy.inf': None, 'numpy.e': math.e, 'math.e': math.e, 'numpy.newaxis': None}
USED = set()


def model(*names):
    def deco(f):
        for n in names:
            def wrapped(ex, st, args, kwargs, node, f=f, n=n):
                USED.add(n)
                return f(ex, st, args, kwargs, node)
            if n.startswith('.'):
                ARRAY_METHODS[n[1:]] = wrapped
            else:
                HANDLERS[n] = wrapped
        return f
    return deco


def arr(ex, st, v):
    """Arr content of v (array ref, list of scalars) or None for scalars"""
    from .engine import Exec
    if isinstance(v, Ref):
        cell = st.get(v)
        if isinstance(cell, Arr):
            return cell
        if isinstance(cell, PyList):
            return ex.list_to_arr(cell, st)
    if isinstance(v, tuple):
        return ex.list_to_arr(PyList(list(v)), st)
    return None


def shape_arg(ex, st, v):
    if isinstance(v, tuple):
        return tuple(v)
    if isinstance(v, Ref) and isinstance(st.get(v), PyList):
        return tuple(st.get(v).items)
    return (v,)


# ----------------------------------------------------------------------------- constructors
def _const_array(val, kind='real'):
    def h(ex, st, args, kwargs, node):
        shp = shape_arg(ex, st, kwargs.get('shape', args[0] if args else None))
        for d in shp:
            if not (isinstance(d, int) or (is_sym(d) and z3.is_int(d))):
                raise Unsupported('non-integer array extent %r' % (d,))
        v = val
        return st.alloc(ex.c, Arr(shp, lambda ix, v=v: z3.RealVal(v), 'real'))
    return h


model('numpy.zeros', 'numpy.empty')(_const_array(0))      # np.empty: contents unspecified; 0 is one admissible value
model('numpy.ones')(_const_array(1))


@model('numpy.zeros_like', 'numpy.empty_like')
def _zeros_like(ex, st, args, kwargs, node):
    a = arr(ex, st, args[0])
    if a is None:
        return 0.0
    return st.alloc(ex.c, Arr(a.shape, lambda ix: z3.RealVal(0), a.kind if a.kind != 'bool' else 'real'))


@model('numpy.ones_like')
def _ones_like(ex, st, args, kwargs, node):
    a = arr(ex, st, args[0])
    return st.alloc(ex.c, Arr(a.shape, lambda ix: z3.RealVal(1), 'real'))


@model('numpy.array', 'numpy.asarray', '.copy', 'numpy.copy', 'numpy.ascontiguousarray')
def _array(ex, st, args, kwargs, node):
    v = args[0]
    a = arr(ex, st, v)
    if a is None:
        if isinstance(v, Ref) and isinstance(st.get(v), PyList):
            # list of arrays (rows) -> 2-D
            rows = [arr(ex, st, x) for x in st.get(v).items]
            if rows and all(r is not None and r.ndim == 1 for r in rows):
                n = rows[0].shape[0]

                def el(ix, rows=rows):
                    ci = conc_int(ix[0])
                    if ci is not None:
                        return rows[ci].elem((ix[1],))
                    r = rows[-1].elem((ix[1],))
                    for j in range(len(rows) - 2, -1, -1):
                        r = z3.If(ix[0] == j, rows[j].elem((ix[1],)), r)
                    return r
                return st.alloc(ex.c, Arr((len(rows), n), el, rows[0].kind))
        if isinstance(v, (Ref, str, tuple)) or v is None:
            raise Unsupported('np.array of %r' % (v,))
        return st.alloc(ex.c, Arr((), lambda ix, v=v: v, 'real'))
    return st.alloc(ex.c, Arr(a.shape, a.elem, a.kind))


@model('.ravel', '.flatten', 'numpy.ravel')
def _ravel(ex, st, args, kwargs, node):
    a = arr(ex, st, args[0])
    if a.ndim == 1:
        return st.alloc(ex.c, Arr(a.shape, a.elem, a.kind))
    if a.ndim == 0:
        return st.alloc(ex.c, Arr((1,), lambda ix: a.elem(()), a.kind))
    raise Unsupported('ravel of %d-d array' % a.ndim)


@model('.tolist')
def _tolist(ex, st, args, kwargs, node):
    return args[0]          # the same sequence of values (list-like use only)


@model('.argmax', 'numpy.argmax')
def _argmax(ex, st, args, kwargs, node):
    """assumed: argmax(a) (1-D, non-empty) is the FIRST index of a greatest element"""
    c = ex.c
    a = arr(ex, st, args[0])
    if a is None or a.ndim != 1:
        raise Unsupported('argmax of non 1-D')
    ex.oblige('safe.nonempty', st, to_int(a.shape[0]) >= 1, node)
    cn = conc_int(a.shape[0])
    m = c.fresh('argmax', INT)
    st.assume(m >= 0, m < to_int(a.shape[0]))
    st.assume(c.Forall(0, a.shape[0], lambda j: a.elem((j,)) <= a.elem((m,))))
    st.assume(c.Forall(0, m, lambda j: a.elem((j,)) < a.elem((m,))))
    return m


@model('.argmin', 'numpy.argmin')
def _argmin(ex, st, args, kwargs, node):
    """assumed: argmin(a) (1-D, non-empty) is the FIRST index of a smallest element"""
    c = ex.c
    a = arr(ex, st, args[0])
    if a is None or a.ndim != 1:
        raise Unsupported('argmin of non 1-D')
    ex.oblige('safe.nonempty', st, to_int(a.shape[0]) >= 1, node)
    m = c.fresh('argmin', INT)
    st.assume(m >= 0, m < to_int(a.shape[0]))
    st.assume(c.Forall(0, a.shape[0], lambda j: a.elem((j,)) >= a.elem((m,))))
    st.assume(c.Forall(0, m, lambda j: a.elem((j,)) > a.elem((m,))))
    return m


@model('numpy.interp')
def _interp(ex, st, args, kwargs, node):
    """assumed: np.interp(x, xp, fp) for non-decreasing xp (n >= 1; a call-site obligation): fp[0] below xp[0], fp[n-1] at
    or above xp[n-1], and for xp[i] <= x < xp[i+1] the straight line through (xp[i], fp[i]) and (xp[i+1], fp[i+1])"""
    c = ex.c
    X, XP, FP = args[0], arr(ex, st, args[1]), arr(ex, st, args[2])
    if XP is None or FP is None or XP.ndim != 1 or FP.ndim != 1 or len(args) > 3 or kwargs:
        raise Unsupported('np.interp form')
    n = XP.shape[0]
    from .engine import _same
    if not _same(FP.shape[0], n):
        ex.oblige('safe.shape', st, as_term(FP.shape[0]) == as_term(n), node)
    ex.oblige('safe.nonempty', st, to_int(n) >= 1, node)
    if 'sorted' in ex.safety:
        ex.oblige('safe.sorted', st, c.ForallAdj(0, _minus1(n), lambda i, j: XP.elem((i,)) <= XP.elem((j,))), node)
    xa = arr(ex, st, X)

    def one(x, tag):
        r = c.fresh('interp', REAL)
        x = to_real(x)
        last = z3.simplify(to_int(n) - 1) if is_sym(n) else n - 1
        st.assume(z3.Implies(x < XP.elem((0,)), r == to_real(FP.elem((0,)))))
        st.assume(z3.Implies(x >= XP.elem((last,)), r == to_real(FP.elem((last,)))))
        st.assume(c.ForallAdj(0, last, lambda i, j: z3.Implies(
            z3.And(XP.elem((i,)) <= x, x < XP.elem((j,))),
            r == FP.elem((i,)) + (x - XP.elem((i,))) * ((FP.elem((j,)) - FP.elem((i,))) / (XP.elem((j,)) - XP.elem((i,)))))))
        return r
    if xa is None:
        return one(X, 0)
    cn = conc_int(xa.shape[0]) if xa.ndim == 1 else None
    if cn is None and xa.ndim == 1:
        W = xa.shape[0]
        R = c.fresh_array('interp', (W,))
        last = z3.simplify(to_int(n) - 1) if is_sym(n) else n - 1
        X_ = lambda k: to_real(xa.elem((k,)))
        st.assume(c.Forall(0, W, lambda k: z3.And(
            z3.Implies(X_(k) < XP.elem((0,)), R.elem((k,)) == to_real(FP.elem((0,)))),
            z3.Implies(X_(k) >= XP.elem((last,)), R.elem((k,)) == to_real(FP.elem((last,)))))))
        kk, ii, jj = c.fresh('ik'), c.fresh('ii'), c.fresh('ij')
        st.assume(z3.ForAll([kk, ii, jj], z3.Implies(
            z3.And(0 <= kk, kk < to_int(W), 0 <= ii, ii < to_int(last), jj == ii + 1, XP.elem((ii,)) <= X_(kk), X_(kk) < XP.elem((jj,))),
            R.elem((kk,)) == FP.elem((ii,)) + (X_(kk) - XP.elem((ii,))) * ((FP.elem((jj,)) - FP.elem((ii,))) / (XP.elem((jj,)) - XP.elem((ii,)))))))
        # consequence of the piecewise definition (non-decreasing xp): every value lies between two neighbouring fp --
        # stated with a Skolem bracket index because deriving it needs a discrete intermediate-value induction
        bidx = c.func(c.fresh('interp_bracket').decl().name(), INT, INT)
        nxt = lambda b: z3.If(b + 1 <= to_int(last), b + 1, to_int(last))
        lo2 = lambda a, b: z3.If(a <= b, a, b)
        hi2 = lambda a, b: z3.If(a >= b, a, b)
        st.assume(c.Forall(0, W, lambda k: z3.And(
            0 <= bidx(k), bidx(k) <= to_int(last),
            lo2(to_real(FP.elem((bidx(k),))), to_real(FP.elem((nxt(bidx(k)),)))) <= R.elem((k,)),
            R.elem((k,)) <= hi2(to_real(FP.elem((bidx(k),))), to_real(FP.elem((nxt(bidx(k)),)))))))
        c.last_interp = R
        return st.alloc(c, R)
    if cn is None:
        raise Unsupported('np.interp over a symbolic number of points')
    vals = [one(xa.elem((k,)), k) for k in range(cn)]
    return st.alloc(c, Arr((cn,), lambda ix, vals=vals: _select(vals, ix[0]), 'real'))


@model('builtins.getattr')
def _getattr(ex, st, args, kwargs, node):
    if len(args) >= 2 and isinstance(args[1], str):
        try:
            return ex.getattr(args[0], args[1], st, node)
        except EngineError:
            if len(args) == 3:
                return args[2]
            raise
    raise Unsupported('getattr with a computed name')


@model('builtins.type')
def _type(ex, st, args, kwargs, node):
    from .engine import FuncV
    if len(args) == 1:
        v = args[0]
        if type(v).__name__ == 'AbsObj':
            return FuncV('class', v.cls)
        if isinstance(v, Ref) and isinstance(st.get(v), Obj):
            return FuncV('class', st.get(v).cls)
        raise Unsupported('type(%r)' % (v,))
    h = ex.unit.abstract.get('new:type')
    if h is None:
        raise Unsupported('type(name, bases, dict) without an assumed contract')
    return h(ex, st, args, kwargs, node)


@model('builtins.slice')
def _slice(ex, st, args, kwargs, node):
    return ('<slice>',) + tuple(args)


@model('numpy.repeat')
def _repeat(ex, st, args, kwargs, node):
    """assumed: np.repeat(a, n, axis=0) of a 2-D array with ONE row is n copies of that row"""
    a = arr(ex, st, args[0])
    n = args[1]
    if a is None or a.ndim != 2 or kwargs.get('axis') != 0:
        raise Unsupported('repeat form')
    ex.oblige('safe.repeat_single_row', st, as_term(a.shape[0]) == 1, node)
    return st.alloc(ex.c, Arr((n, a.shape[1]), lambda ix: a.elem((0, ix[1])), a.kind))


@model('.reshape')
def _reshape(ex, st, args, kwargs, node):
    """assumed: reshape(-1, G) of an array that already has G as its last extent and one leading axis is that array"""
    a = arr(ex, st, args[0])
    shp = args[1:] if len(args) > 2 else shape_arg(ex, st, args[1])
    from .engine import _same
    if a is not None and a.ndim == 2 and len(shp) == 2 and conc_int(shp[0]) == -1:
        if not _same(shp[1], a.shape[1]):
            ex.oblige('safe.shape', st, as_term(shp[1]) == as_term(a.shape[1]), node)
        return st.alloc(ex.c, Arr(a.shape, a.elem, a.kind))
    raise Unsupported('reshape form')


def _interp1d_1d(ex, st, XP, Y, kwargs, node):
    """assumed, ORDER-FREE consequence of scipy's definition: f = interp1d(x, y, bounds_error=False, fill_value=(a, b)) for K >= 2
    pairwise distinct nodes x in any order (scipy sorts them) and 1-D y returns, for each query point, either a fill value (a below
    the smallest node, b above the largest) or a value on the segment between two of the y -- so between those two y values.
    Nothing is claimed about WHICH two: enough for range statements, not for exact values."""
    from .engine import FuncV
    c = ex.c
    K = XP.shape[0]
    ex.oblige('safe.interp1d_two_points', st, to_int(K) >= 2, node)
    ii, jj = c.fresh('ni'), c.fresh('nj')
    ex.oblige('safe.interp1d_distinct_nodes', st, z3.ForAll([ii, jj], z3.Implies(z3.And(0 <= ii, ii < jj, jj < to_int(K)),
                                                                                 XP.elem((ii,)) != XP.elem((jj,)))), node)
    fv = kwargs.get('fill_value')
    if not isinstance(fv, tuple) or len(fv) != 2 or not all(is_sym(x) or isinstance(x, (int, float)) for x in fv):
        raise Unsupported('interp1d fill_value form')
    a_, b_ = to_real(fv[0]) if is_sym(fv[0]) else z3.RealVal(fv[0]), to_real(fv[1]) if is_sym(fv[1]) else z3.RealVal(fv[1])

    def call(ex2, st2, a2, k2, node2):
        Q = arr(ex2, st2, a2[0])
        if Q is None or Q.ndim != 1:
            raise Unsupported('interp1d object called on a non 1-D argument')
        W = Q.shape[0]
        R = c.fresh_array('interp1d', (W,))
        si = z3.Function('seg_i!%d' % next(c._fresh), INT, INT)
        sj = z3.Function('seg_j!%d' % next(c._fresh), INT, INT)
        k = c.fresh('qk')
        yi, yj, rk = to_real(Y.elem((si(k),))), to_real(Y.elem((sj(k),))), R.elem((k,))
        st2.assume(z3.ForAll([k], z3.Implies(z3.And(0 <= k, k < to_int(W)), z3.And(
            0 <= si(k), si(k) < to_int(K), 0 <= sj(k), sj(k) < to_int(K),
            z3.Or(rk == a_, rk == b_, z3.And(z3.If(yi <= yj, yi, yj) <= rk, rk <= z3.If(yi <= yj, yj, yi)))))))
        c.last_interp = R
        return st2.alloc(c, R)
    return FuncV('pyfunc', call)


@model('scipy.interpolate.interp1d')
def _interp1d(ex, st, args, kwargs, node):
    """assumed: interp1d(x, y, axis=0, bounds_error=False, fill_value=(y[0], y[-1]), assume_sorted=True) for sorted x
    (K >= 2 points, y of shape (K, G)) is the callable  f(q)[k, g] = piecewise-linear in q through (x_i, y[i, g]), equal to
    y[0, g] below x_0 and y[K-1, g] at or above x_{K-1}"""
    from .engine import FuncV
    c = ex.c
    XP, Y = arr(ex, st, args[0]), arr(ex, st, args[1])
    if XP is not None and Y is not None and XP.ndim == 1 and Y.ndim == 1 and kwargs.get('bounds_error', True) is False:
        return _interp1d_1d(ex, st, XP, Y, kwargs, node)
    if XP is None or Y is None or XP.ndim != 1 or Y.ndim != 2 or kwargs.get('axis', 0) != 0 or kwargs.get('bounds_error', True) is not False:
        raise Unsupported('interp1d form')
    fv = kwargs.get('fill_value')
    if not isinstance(fv, tuple) or len(fv) != 2:
        raise Unsupported('interp1d fill_value form')
    K, G = XP.shape[0], Y.shape[1]
    # with a single point scipy's interp1d returns NaN AT that point (0/0 slope): two points are a precondition
    ex.oblige('safe.interp1d_two_points', st, to_int(K) >= 2, node)
    if 'sorted' in ex.safety:
        ex.oblige('safe.sorted', st, c.ForallAdj(0, _minus1(K), lambda i, j: XP.elem((i,)) <= XP.elem((j,))), node)
    lo_fill, hi_fill = arr(ex, st, fv[0]), arr(ex, st, fv[1])

    def call(ex2, st2, a2, k2, node2):
        Q = arr(ex2, st2, a2[0])
        W = Q.shape[0]
        R = c.fresh_array('interp1d', (W, G))
        last = z3.simplify(to_int(K) - 1)
        X_ = lambda k: to_real(Q.elem((k,)))
        st2.assume(c.Forall2((0, W), (0, G), lambda k, g: z3.And(
            z3.Implies(X_(k) < XP.elem((0,)), R.elem((k, g)) == to_real(lo_fill.elem((g,)))),
            z3.Implies(X_(k) >= XP.elem((last,)), R.elem((k, g)) == to_real(hi_fill.elem((g,)))))))
        kk, gg, ii, jj = c.fresh('ik'), c.fresh('ig'), c.fresh('ii'), c.fresh('ij')
        st2.assume(z3.ForAll([kk, gg, ii, jj], z3.Implies(
            z3.And(0 <= kk, kk < to_int(W), 0 <= gg, gg < to_int(G), 0 <= ii, ii < last, jj == ii + 1,
                   XP.elem((ii,)) <= X_(kk), X_(kk) < XP.elem((jj,))),
            R.elem((kk, gg)) == Y.elem((ii, gg)) + (X_(kk) - XP.elem((ii,))) * ((Y.elem((jj, gg)) - Y.elem((ii, gg))) / (XP.elem((jj,)) - XP.elem((ii,)))))))
        c.last_interp = R
        return st2.alloc(c, R)
    return FuncV('pyfunc', call)


@model('.astype')
def _astype(ex, st, args, kwargs, node):
    return args[0]


@model('numpy.vstack', 'numpy.row_stack')
def _vstack(ex, st, args, kwargs, node):
    """assumed: vstack of k 1-D arrays of equal length n -> (k, n) with row i = argument i"""
    v = args[0]
    items = st.get(v).items if isinstance(v, Ref) else list(v)
    rows = [arr(ex, st, x) for x in items]
    if not rows or any(r is None or r.ndim != 1 for r in rows):
        raise Unsupported('vstack of non 1-D arrays')
    n = rows[0].shape[0]
    for r in rows[1:]:
        from .engine import _same
        if not _same(r.shape[0], n):
            ex.oblige('safe.shape', st, as_term(r.shape[0]) == as_term(n), node)

    def el(ix, rows=rows):
        ci = conc_int(ix[0])
        if ci is not None:
            return to_real(rows[ci].elem((ix[1],)))
        r = to_real(rows[-1].elem((ix[1],)))
        for j in range(len(rows) - 2, -1, -1):
            r = z3.If(ix[0] == j, to_real(rows[j].elem((ix[1],))), r)
        return r
    return st.alloc(ex.c, Arr((len(rows), n), el, 'real'))


@model('builtins.zip')
def _zip(ex, st, args, kwargs, node):
    seqs = []
    for a in args:
        lo, hi, elem = ex.iter_value(a, st, node)
        chi = conc_int(hi)
        if chi is None:
            raise Unsupported('zip(...) as a value over a symbolic extent')
        seqs.append([elem(k, st) for k in range(chi)])
    n = min(len(s) for s in seqs) if seqs else 0
    return st.alloc(ex.c, PyList([tuple(s[k] for s in seqs) for k in range(n)]))


@model('builtins.enumerate')
def _enumerate(ex, st, args, kwargs, node):
    lo, hi, elem = ex.iter_value(args[0], st, node)
    chi = conc_int(hi)
    if chi is None:
        raise Unsupported('enumerate(...) as a value over a symbolic extent')
    return st.alloc(ex.c, PyList([(k, elem(k, st)) for k in range(chi)]))


@model('numpy.linspace')
def _linspace(ex, st, args, kwargs, node):
    lo, hi = args[0], args[1]
    n = args[2] if len(args) > 2 else kwargs.get('num', 50)
    cn = conc_int(n)
    if cn is not None and cn < 2:
        raise Unsupported('linspace with < 2 points')
    if cn is None:
        st.assume(to_int(n) >= 2)
        ex.oblige('safe.linspace', st, to_int(n) >= 2, node)
    lo_r, hi_r = to_real(lo), to_real(hi)
    return st.alloc(ex.c, Arr((n,), lambda ix: lo_r + (hi_r - lo_r) * to_real(ix[0]) / to_real(_minus1(n)), 'real'))


def _minus1(n):
    return n - 1 if not is_sym(n) else to_int(n) - 1


@model('numpy.logspace')
def _logspace(ex, st, args, kwargs, node):
    """assumed: logspace(a, b, N)[i] = 10**(a + (b-a)*i/(N-1)), N >= 2"""
    lo, hi = args[0], args[1]
    n = args[2] if len(args) > 2 else kwargs.get('num', 50)
    cn = conc_int(n)
    if cn is not None and cn < 2:
        raise Unsupported('logspace with < 2 points')
    if cn is None:
        ex.oblige('safe.logspace', st, to_int(n) >= 2, node)
    lo_r, hi_r = to_real(lo), to_real(hi)
    return st.alloc(ex.c, Arr((n,), lambda ix: ex.c.pow10(lo_r + (hi_r - lo_r) * to_real(ix[0]) / to_real(_minus1(n))),
                              'real'))


@model('numpy.arange')
def _arange(ex, st, args, kwargs, node):
    if len(args) == 1:
        n = args[0]
        return st.alloc(ex.c, Arr((n,), lambda ix: ix[0], 'int'))
    if len(args) == 2 and all(isinstance(a, int) or (is_sym(a) and z3.is_int(a)) for a in args):
        lo, hi = args
        n = ex.c.Max(hi - lo, 0)
        return st.alloc(ex.c, Arr((n,), lambda ix: ix[0] + lo, 'int'))
    raise Unsupported('arange form')


# ----------------------------------------------------------------------------- elementwise
def _ew(fname):
    def h(ex, st, args, kwargs, node):
        v = args[0]
        f = getattr(ex.c, fname)
        if 'domain' in ex.safety:
            _domain(ex, st, fname, v, node)
        return ex.map1(lambda x: f(x) if is_sym(x) else _fold(fname, x, f), v, st, kind='real')
    return h


def _fold(fname, x, f):
    try:
        return {'exp': math.exp, 'ln': math.log, 'log10': math.log10, 'sqrt': math.sqrt}[fname](x)
    except (ValueError, OverflowError):
        return f(to_real(x))


def _domain(ex, st, fname, v, node):
    a = arr(ex, st, v)
    if fname in ('ln', 'log10'):
        cond = lambda x: x > 0
    elif fname == 'sqrt':
        cond = lambda x: x >= 0
    else:
        return
    if a is None:
        ex.oblige('safe.domain', st, cond(v) if not is_sym(v) else cond(to_real(v)), node)
    elif a.ndim == 1:
        ex.oblige('safe.domain', st, ex.c.Forall(0, a.shape[0], lambda i: cond(to_real(a.elem((i,))))), node)
    elif a.ndim == 2:
        ex.oblige('safe.domain', st, ex.c.Forall2((0, a.shape[0]), (0, a.shape[1]),
                                                  lambda i, j: cond(to_real(a.elem((i, j))))), node)


model('numpy.exp', 'math.exp')(_ew('exp'))
model('numpy.log', 'math.log')(_ew('ln'))
model('numpy.log10', 'math.log10')(_ew('log10'))
model('numpy.sqrt', 'math.sqrt')(_ew('sqrt'))


@model('numpy.abs', 'numpy.absolute', 'builtins.abs', 'math.fabs', 'numpy.fabs')
def _abs(ex, st, args, kwargs, node):
    return ex.map1(lambda x: abs(x) if not is_sym(x) else z3.If(x >= 0, x, -x), args[0], st)


@model('numpy.power')
def _power(ex, st, args, kwargs, node):
    return ex.broadcast2(args[0], args[1], lambda x, y: ex.power(x, y, st, node), st, node) \
        if (ex.is_arr(args[0], st) or ex.is_arr(args[1], st)) else ex.power(args[0], args[1], st, node)


@model('math.pow', 'builtins.pow')
def _mpow(ex, st, args, kwargs, node):
    return ex.power(args[0], args[1], st, node)


@model('numpy.minimum', 'numpy.fmin')
def _minimum(ex, st, args, kwargs, node):
    f = lambda x, y: ex.c.Min(x, y)
    if ex.is_arr(args[0], st) or ex.is_arr(args[1], st):
        return ex.broadcast2(args[0], args[1], f, st, node)
    return f(args[0], args[1])


@model('numpy.maximum', 'numpy.fmax')
def _maximum(ex, st, args, kwargs, node):
    f = lambda x, y: ex.c.Max(x, y)
    if ex.is_arr(args[0], st) or ex.is_arr(args[1], st):
        return ex.broadcast2(args[0], args[1], f, st, node)
    return f(args[0], args[1])


@model('numpy.where')
def _where(ex, st, args, kwargs, node):
    if len(args) == 3:
        cnd, a, b = args

        def f3(ix, C, A, B):
            return ex.c.If(C, A, B)
        C = arr(ex, st, cnd)
        if C is None:
            return ex.c.If(ex.truth(cnd, st), a, b)
        t = ex.broadcast2(cnd, a, lambda x, y: (x, y), st, node)
        T = st.get(t)
        B = arr(ex, st, b)
        kind = 'real'
        return st.alloc(ex.c, Arr(T.shape, lambda ix: ex.c.If(T.elem(ix)[0], T.elem(ix)[1],
                                                            B.elem(ix[len(ix) - B.ndim:]) if B is not None else b), kind))
    if len(args) == 1:
        m = arr(ex, st, args[0])
        if m is None or m.ndim != 1 or m.kind != 'bool':
            raise Unsupported('np.where(mask) on non 1-D boolean')
        return (st.alloc(ex.c, mask_indices(ex, st, m)),)
    raise Unsupported('np.where(mask) form')


def mask_indices(ex, st, m):
    """assumed: the indices of the true entries of a 1-D boolean array, in increasing order: K = their number,
    sel: [0,K) -> [0,N) strictly increasing with m[sel(k)] true, and every true index j is hit (at position pos(j))"""
    c = ex.c
    N = m.shape[0]
    cn = conc_int(N)
    if c.mode != 'sym' and cn is not None and all(not is_sym(m.elem((j,))) for j in range(cn)):
        idx = [j for j in range(cn) if m.elem((j,))]
        return Arr((len(idx),), lambda ix, idx=idx: _select(idx, ix[0]) if idx else z3.IntVal(0), 'int')
    K = c.fresh('nsel', INT)
    sel = z3.Function('sel!%d' % next(c._fresh), INT, INT)
    pos = z3.Function('pos!%d' % next(c._fresh), INT, INT)
    Nt = to_int(N)
    if c.mode == 'bmc' and cn is not None:
        # bounded instance: quantifier free
        st.assume(K >= 0, K <= cn)
        tr = [m.elem((j,)) for j in range(cn)]
        cnt = z3.Sum([z3.If(t, 1, 0) if is_sym(t) else z3.IntVal(1 if t else 0) for t in tr]) if tr else z3.IntVal(0)
        st.assume(K == cnt)
        for j in range(cn):
            before = z3.Sum([z3.If(t, 1, 0) if is_sym(t) else z3.IntVal(1 if t else 0) for t in tr[:j]]) if j else z3.IntVal(0)
            st.assume(z3.Implies(tr[j] if is_sym(tr[j]) else z3.BoolVal(bool(tr[j])), z3.And(pos(j) == before, sel(before) == j)))
        out = Arr((K,), lambda ix, sel=sel: sel(to_int(ix[0])), 'int', inv=lambda j, pos=pos: pos(to_int(j)))
        c.last_select = (K, sel, pos)
        return out
    k, k2, j = c.fresh('sk'), c.fresh('sk'), c.fresh('sj')
    st.assume(K >= 0, K <= Nt)
    st.assume(z3.ForAll([k], z3.Implies(z3.And(0 <= k, k < K), z3.And(0 <= sel(k), sel(k) < Nt, m.elem((sel(k),)), pos(sel(k)) == k)),
                        patterns=[sel(k)]))
    ka, kb = c.fresh('sk'), c.fresh('sk')
    st.assume(z3.ForAll([ka, kb], z3.Implies(z3.And(0 <= ka, ka < kb, kb < K), sel(ka) < sel(kb)), patterns=[z3.MultiPattern(sel(ka), sel(kb))]))
    st.assume(z3.ForAll([j], z3.Implies(z3.And(0 <= j, j < Nt, m.elem((j,))), z3.And(0 <= pos(j), pos(j) < K, sel(pos(j)) == j)),
                        patterns=[pos(j)]))
    c.last_select = (K, sel, pos)
    return Arr((K,), lambda ix, sel=sel: sel(to_int(ix[0])), 'int', inv=lambda j, pos=pos: pos(to_int(j)))


@model('.take', 'numpy.take')
def _take(ex, st, args, kwargs, node):
    """assumed: a.take(idx) (1-D) = a[idx]"""
    a, idx = arr(ex, st, args[0]), arr(ex, st, args[1])
    if a is None or idx is None or a.ndim != 1 or idx.ndim != 1 or idx.kind != 'int':
        raise Unsupported('take form')
    if 'index' in ex.safety:
        ex.oblige('safe.index', st, ex.c.Forall(0, idx.shape[0], lambda i: z3.And(idx.elem((i,)) >= 0, idx.elem((i,)) < to_int(a.shape[0]))), node)
    return st.alloc(ex.c, Arr(idx.shape, lambda ix: a.elem((idx.elem(ix),)), a.kind))


@model('numpy.array_equal')
def _array_equal(ex, st, args, kwargs, node):
    """assumed: array_equal(a, b) (1-D) <=> same length and equal element by element"""
    a, b = arr(ex, st, args[0]), arr(ex, st, args[1])
    if a is None or b is None or a.ndim != 1 or b.ndim != 1:
        raise Unsupported('array_equal form')
    c = ex.c
    from .engine import _same
    same_len = True if _same(a.shape[0], b.shape[0]) else (as_term(a.shape[0]) == as_term(b.shape[0]))
    return c.And(same_len, c.Forall(0, a.shape[0], lambda i: to_real(a.elem((i,))) == to_real(b.elem((i,)))))


# ----------------------------------------------------------------------------- reductions
def _sum_arr(ex, st, a, axis, node):
    c = ex.c
    if a.ndim == 1 and axis in (None, 0, -1):
        return c.Sum(0, a.shape[0], lambda k: a.elem((k,)))
    if a.ndim == 2 and axis == 0:
        return st.alloc(c, Arr((a.shape[1],), lambda ix: c.Sum(0, a.shape[0], lambda k: a.elem((k, ix[0]))), 'real'))
    if a.ndim == 2 and axis in (1, -1):
        return st.alloc(c, Arr((a.shape[0],), lambda ix: c.Sum(0, a.shape[1], lambda k: a.elem((ix[0], k))), 'real'))
    if a.ndim == 2 and axis is None:
        return c.Sum(0, a.shape[0], lambda i: c.Sum(0, a.shape[1], lambda j: a.elem((i, j))))
    if a.ndim == 0:
        return a.elem(())
    if a.ndim == 3 and axis in (2, -1):
        return st.alloc(c, Arr((a.shape[0], a.shape[1]), lambda ix: c.Sum(0, a.shape[2], lambda k: a.elem((ix[0], ix[1], k))), 'real'))
    raise Unsupported('sum over %d-d array axis=%r' % (a.ndim, axis))


@model('builtins.sum')
def _bsum(ex, st, args, kwargs, node):
    """builtin sum iterates over the FIRST axis: for a 2-D array it is the sum of the rows (np.sum(axis=0))"""
    a = arr(ex, st, args[0]) if isinstance(args[0], Ref) and isinstance(st.get(args[0]), Arr) else None
    if a is not None and a.ndim == 2 and len(args) == 1:
        return _sum_arr(ex, st, a, 0, node)
    return _sum(ex, st, args, kwargs, node)


@model('numpy.nansum')
def _nansum(ex, st, args, kwargs, node):
    """assumed: nansum = sum on arrays without NaN (reals are never NaN: float = real); what nansum does with NaN
    entries is outside the proof and covered by bounded items where a property depends on it"""
    return _sum(ex, st, args, kwargs, node)


@model('numpy.sum', '.sum')
def _sum(ex, st, args, kwargs, node):
    v = args[0]
    axis = kwargs.get('axis', args[1] if len(args) > 1 and not isinstance(args[1], float) else None)
    if isinstance(v, Ref) and isinstance(st.get(v), PyList):
        items = st.get(v).items
        if all(not isinstance(x, Ref) for x in items):
            acc = 0
            for x in items:
                acc = ex.scalar_binop(ast.Add(), acc, x, st, node)
            return acc
        if all(ex.is_arr(x, st) for x in items):
            acc = items[0]
            for x in items[1:]:
                acc = ex.binop(ast.Add(), acc, x, st, node)
            return acc
    a = arr(ex, st, v)
    if a is None:
        return v
    return _sum_arr(ex, st, a, axis, node)


@model('numpy.average')
def _average(ex, st, args, kwargs, node):
    """assumed: np.average(a, weights=w) (1-D) = sum w a / sum w; without weights the mean"""
    a = arr(ex, st, args[0])
    w = kwargs.get('weights')
    if a is None or a.ndim != 1:
        raise Unsupported('average of non 1-D')
    if w is None:
        return _sum_arr(ex, st, a, None, node) / to_real(a.shape[0])
    W = arr(ex, st, w)
    c = ex.c
    return c.Sum(0, a.shape[0], lambda j: W.elem((j,)) * a.elem((j,))) / c.Sum(0, a.shape[0], lambda j: W.elem((j,)))


@model('numpy.mean', '.mean')
def _mean(ex, st, args, kwargs, node):
    a = arr(ex, st, args[0])
    axis = kwargs.get('axis')
    if a.ndim == 1:
        return _sum_arr(ex, st, a, None, node) / to_real(a.shape[0])
    raise Unsupported('mean of %d-d' % a.ndim)


def _extreme(is_min):
    def h(ex, st, args, kwargs, node):
        c = ex.c
        a = arr(ex, st, args[0])
        if a is None:
            return args[0]
        if 'axis' in kwargs or len(args) > 1:
            raise Unsupported('min/max with axis')
        le = (lambda x, y: x <= y) if is_min else (lambda x, y: x >= y)
        n = 1
        cs = [conc_int(d) for d in a.shape]
        if all(x is not None for x in cs):
            import itertools
            idxs = list(itertools.product(*[range(x) for x in cs]))
            if not idxs:
                raise Unsupported('min/max of empty array')
            if len(idxs) <= 16:
                r = a.elem(idxs[0])
                for ix in idxs[1:]:
                    e = a.elem(ix)
                    r = c.If(le(r, e), r, e) if (is_sym(r) or is_sym(e)) else (min(r, e) if is_min else max(r, e))
                return r
        m = c.fresh('amin' if is_min else 'amax', REAL if a.kind == 'real' else INT)
        # the extreme value is attained: the attaining index is an explicit (Skolem) constant, so that the element
        # term it selects exists as a ground term for the quantified facts of the state to match against
        if a.ndim == 1:
            ex.oblige('safe.nonempty', st, to_int(a.shape[0]) >= 1, node)
            st.assume(c.Forall(0, a.shape[0], lambda i: le(m, a.elem((i,)))))
            wi = c.fresh('argext', INT)
            st.assume(wi >= 0, wi < to_int(a.shape[0]), m == a.elem((wi,)))
            # the same facts over a NAMED copy of the elements: a[i] is a pure expression (often with arithmetic in its
            # index), which gives the solver nothing to match instances against; el(i) does
            el = z3.Function('el!%d' % next(c._fresh), INT, REAL if a.kind == 'real' else INT)
            qi = c.fresh('qe')
            rng_ = z3.And(0 <= qi, qi < to_int(a.shape[0]))
            st.assume(z3.ForAll([qi], z3.Implies(rng_, z3.And(el(qi) == a.elem((qi,)), le(m, el(qi)))), patterns=[el(qi)]))
            st.trace.append(('ghost', ('extreme', m, wi, a, el)))   # ghost: value, attaining index, array, named elements
        elif a.ndim == 2:
            st.assume(c.Forall2((0, a.shape[0]), (0, a.shape[1]), lambda i, j: le(m, a.elem((i, j)))))
            wi, wj = c.fresh('argext', INT), c.fresh('argext', INT)
            st.assume(wi >= 0, wi < to_int(a.shape[0]), wj >= 0, wj < to_int(a.shape[1]), m == a.elem((wi, wj)))
        else:
            raise Unsupported('min/max of %d-d' % a.ndim)
        return m
    return h


model('.min', 'numpy.min', 'numpy.amin')(_extreme(True))
model('.max', 'numpy.max', 'numpy.amax')(_extreme(False))


@model('builtins.min')
def _bmin(ex, st, args, kwargs, node):
    if 'key' in kwargs and len(args) == 1:
        return _keyed_extreme(ex, st, args, kwargs, node, True)
    if len(args) == 1:
        return _extreme(True)(ex, st, args, kwargs, node)
    r = args[0]
    for x in args[1:]:
        r = ex.c.Min(r, x)
    return r


def _keyed_extreme(ex, st, args, kwargs, node, is_min):
    """max(seq, key=f) / min(seq, key=f) over a sequence of concrete length: the FIRST element whose key is extreme
    (CPython keeps the earlier element on ties); symbolic key comparisons split the path"""
    key = kwargs['key']
    lo, hi, elem = ex.iter_value(args[0], st, node)
    clo, chi = conc_int(lo), conc_int(hi)
    if clo is None or chi is None:
        raise Unsupported('max/min with key over a sequence of symbolic length')
    items = [elem(k, st) if elem else k for k in range(clo, chi)]
    if not items:
        if 'default' in kwargs:
            return kwargs['default']
        from .engine import _Raise, ExcV
        raise _Raise(st, ExcV('ValueError', getattr(node, 'lineno', 0)))
    best = items[0]
    kb = ex.call(key, [best], {}, st, node)
    for x in items[1:]:
        kx = ex.call(key, [x], {}, st, node)
        cond = ex.truth((kx < kb) if is_min else (kx > kb), st)
        if cond is not True and cond is not False:
            ch = ex.decide([True, False])
            st.assume(cond if ch else z3.Not(cond))
            cond = ch
        if cond:
            best, kb = x, kx
    return best


@model('builtins.max')
def _bmax(ex, st, args, kwargs, node):
    if 'key' in kwargs and len(args) == 1:
        return _keyed_extreme(ex, st, args, kwargs, node, False)
    if len(args) == 1:
        return _extreme(False)(ex, st, args, kwargs, node)
    r = args[0]
    for x in args[1:]:
        r = ex.c.Max(r, x)
    return r


@model('numpy.any', '.any')
def _any(ex, st, args, kwargs, node):
    a = arr(ex, st, args[0])
    if a is None:
        return ex.truth(args[0], st)
    if a.ndim == 1:
        return ex.c.Exists(0, a.shape[0], lambda i: _tb(a.elem((i,))))
    if a.ndim == 2:
        return ex.c.Exists(0, a.shape[0], lambda i: ex.c.Exists(0, a.shape[1], lambda j: _tb(a.elem((i, j)))))
    raise Unsupported('any of %d-d' % a.ndim)


@model('numpy.all', '.all')
def _all(ex, st, args, kwargs, node):
    a = arr(ex, st, args[0])
    if a is None:
        return ex.truth(args[0], st)
    if a.ndim == 1:
        return ex.c.Forall(0, a.shape[0], lambda i: _tb(a.elem((i,))))
    if a.ndim == 2:
        return ex.c.Forall2((0, a.shape[0]), (0, a.shape[1]), lambda i, j: _tb(a.elem((i, j))))
    raise Unsupported('all of %d-d' % a.ndim)


def _tb(x):
    if isinstance(x, bool):
        return x
    if is_sym(x) and z3.is_bool(x):
        return x
    return x != 0


@model('scipy.special.expn')
def _expn(ex, st, args, kwargs, node):
    n, x = args
    return ex.map1(lambda t: ex.c.expn(n, t), x, st, kind='real')


@model('numpy.histogram')
def _histogram(ex, st, args, kwargs, node):
    """assumed: np.histogram(x, edges, weights=w)[0][k] = sum of w_j (1 without weights) over the points with
    edges[k] <= x_j < edges[k+1]; the last bin also takes x_j == edges[-1].  (edges non-decreasing: call-site obligation)"""
    c = ex.c
    x, e = arr(ex, st, args[0]), arr(ex, st, args[1] if len(args) > 1 else kwargs.get('bins'))
    w = arr(ex, st, kwargs['weights']) if kwargs.get('weights') is not None else None
    if x is None or e is None or x.ndim != 1 or e.ndim != 1 or (w is not None and w.ndim != 1) or len(args) > 2:
        raise Unsupported('np.histogram form')
    N, M = x.shape[0], e.shape[0]
    B = _minus1(M)
    if 'sorted' in ex.safety:
        ex.oblige('safe.sorted', st, c.Forall(0, B, lambda i: e.elem((i,)) <= e.elem((_plus1(i),))), node)

    def inbin(k, j):
        xj = to_real(x.elem((j,)))
        lo, hi = to_real(e.elem((k,))), to_real(e.elem((_plus1(k),)))
        lastbin = (to_int(k) == to_int(B) - 1) if (is_sym(k) or is_sym(B)) else (k == B - 1)
        return z3.And(lo <= xj, z3.Or(xj < hi, z3.And(lastbin, xj == hi)))

    def el(ix):
        k = ix[0]
        return c.Sum(0, N, lambda j: z3.If(inbin(k, j), to_real(w.elem((j,))) if w is not None else z3.RealVal(1), z3.RealVal(0)))
    return (st.alloc(c, Arr((B,), el, 'real')), args[1] if len(args) > 1 else kwargs.get('bins'))


@model('numpy.gradient')
def _gradient(ex, st, args, kwargs, node):
    """assumed: np.gradient of a 1-D array with unit spacing (n >= 2, a call-site obligation): one-sided differences at the ends,
    central differences (a[i+1]-a[i-1])/2 inside"""
    a = arr(ex, st, args[0])
    if a is None or a.ndim != 1 or len(args) > 1 or kwargs:
        raise Unsupported('np.gradient form')
    n = a.shape[0]
    ex.oblige('safe.gradient_two_points', st, to_int(n) >= 2, node)
    last = _minus1(n)

    def el(ix, a=a):
        i = ix[0]
        ci = conc_int(i)
        first = to_real(a.elem((1,))) - to_real(a.elem((0,)))
        end = to_real(a.elem((last,))) - to_real(a.elem((_minus1(last),)))
        if ci == 0:
            return first
        mid = (to_real(a.elem((_plus1(i),))) - to_real(a.elem((_minus1(i),)))) / 2
        cl = conc_int(last)
        if ci is not None and cl is not None:
            return end if ci == cl else mid
        return z3.If(to_int(i) == 0, first, z3.If(to_int(i) == to_int(last), end, mid))
    return st.alloc(ex.c, Arr((n,), el, 'real'))


def _plus1(n):
    return n + 1 if not is_sym(n) else to_int(n) + 1


@model('numpy.diff')
def _diff(ex, st, args, kwargs, node):
    """assumed: diff(a)[i] = a[i+1] - a[i] (1-D), length max(n-1, 0)"""
    a = arr(ex, st, args[0])
    if a is None or a.ndim != 1 or len(args) > 1 or kwargs:
        raise Unsupported('np.diff form')
    n = a.shape[0]
    cn = conc_int(n)
    m = max(cn - 1, 0) if cn is not None else (z3.simplify(to_int(n) - 1) if ex.implied(st, to_int(n) >= 1) else ex.c.Max(to_int(n) - 1, 0))
    return st.alloc(ex.c, Arr((m,), lambda ix: a.elem((_plus1(ix[0]),)) - a.elem((ix[0],)), a.kind))


@model('numpy.concatenate', 'numpy.hstack', 'numpy.append')
def _concatenate(ex, st, args, kwargs, node):
    """assumed: 1-D concatenation in argument order"""
    if len(args) == 2 and not (isinstance(args[0], Ref) and isinstance(st.get(args[0]), PyList) and
                               any(isinstance(x, Ref) for x in st.get(args[0]).items)):
        items = list(args)           # np.append(a, b)
    else:
        v = args[0]
        items = st.get(v).items if isinstance(v, Ref) else list(v)
    parts = []
    for x in items:
        a = arr(ex, st, x)
        if a is None:
            a = Arr((1,), lambda ix, x=x: x, 'real')
        if a.ndim != 1:
            raise Unsupported('concatenate of non 1-D')
        parts.append(a)
    offs = [0]
    for a in parts:
        o = offs[-1]
        offs.append(o + a.shape[0] if not (is_sym(o) or is_sym(a.shape[0])) else z3.simplify(to_int(o) + to_int(a.shape[0])))

    def el(ix, parts=parts, offs=offs):
        i = ix[0]
        ci = conc_int(i)
        r = to_real(parts[-1].elem((_isub(i, offs[-2]),)))
        for k in range(len(parts) - 2, -1, -1):
            inside = (ci < offs[k + 1]) if (ci is not None and not is_sym(offs[k + 1])) else (to_int(i) < to_int(offs[k + 1]))
            val = to_real(parts[k].elem((_isub(i, offs[k]),)))
            if inside is True:
                r = val
            elif inside is not False:
                r = z3.If(inside, val, r)
        return r
    return st.alloc(ex.c, Arr((offs[-1],), el, 'real'))


def _isub(i, o):
    if not (is_sym(i) or is_sym(o)):
        return i - o
    return z3.simplify(to_int(i) - to_int(o))


@model('.argsort', 'numpy.argsort')
def _argsort(ex, st, args, kwargs, node):
    """assumed: argsort(a) is a permutation p of 0..n-1 (bijection, inverse q) with a[p[i]] <= a[p[i+1]]; nothing
    is assumed about the order of equal keys"""
    a = arr(ex, st, args[0])
    if a is None or a.ndim != 1:
        raise Unsupported('argsort of non 1-D')
    n = to_int(a.shape[0])
    c = ex.c
    # argsort is a function of the array's content: a second call on an array with (provably, element by element)
    # the same content returns the same permutation
    cn0 = conc_int(a.shape[0])
    cache = c.__dict__.setdefault('_argsort_cache', [])
    for a_prev, res_prev in cache:
        if cn0 is not None and conc_int(a_prev.shape[0]) == cn0 and cn0 <= 16 and all(
                _same_term(a.elem((k,)), a_prev.elem((k,))) for k in range(cn0)):
            return st.alloc(c, res_prev)
        if cn0 is None and a_prev.elem is a.elem:
            return st.alloc(c, res_prev)
    if cn0 == 1:          # one element: the only permutation
        c.last_perm = ((lambda i: z3.IntVal(0)), (lambda j: z3.IntVal(0)))
        return st.alloc(c, Arr((1,), lambda ix: 0, 'int', inv=lambda j: 0))
    if cn0 is not None:
        vals = [a.elem((k,)) for k in range(cn0)]
        cv = [conc_int(x) if not isinstance(x, float) else x for x in vals]
        if all(x is not None for x in cv) and len(set(cv)) == len(cv):
            # concrete, pairwise different keys: the sorting permutation is unique
            order = sorted(range(cn0), key=lambda k: cv[k])
            invp = {k: pos for pos, k in enumerate(order)}
            res = Arr((cn0,), lambda ix, order=order: _select(order, ix[0]), 'int',
                      inv=lambda j, invp=invp, n_=cn0: _select([invp[k] for k in range(n_)], j))
            return st.alloc(c, res)
    if c.mode == 'bmc':
        # bounded instance: the permutation is n fresh integers constrained as below (quantifier free)
        cn = conc_int(n)
        ps = [c.fresh('perm') for _ in range(cn)]
        st.assume(z3.And(*[z3.And(p >= 0, p < cn) for p in ps]) if ps else True)
        if cn > 1:
            st.assume(z3.Distinct(*ps))
        A = lambda i: a.elem((i,))
        for k in range(cn - 1):
            st.assume(A(ps[k]) <= A(ps[k + 1]))
        def inv(j, ps=ps):
            r = z3.IntVal(0)
            for k in range(len(ps) - 1, -1, -1):
                r = z3.If(ps[k] == to_int(j), z3.IntVal(k), r)
            return r
        res = Arr((cn,), lambda ix, ps=ps: _select(ps, ix[0]), 'int', inv=inv)
        cache.append((a, res))
        return st.alloc(c, res)
    pf = z3.Function('perm!%d' % next(c._fresh), INT, INT)
    qf = z3.Function('iperm!%d' % next(c._fresh), INT, INT)
    i, j = c.fresh('pi'), c.fresh('pj')
    st.assume(z3.ForAll([i], z3.Implies(z3.And(0 <= i, i < n), z3.And(0 <= pf(i), pf(i) < n, qf(pf(i)) == i)), patterns=[pf(i)]))
    st.assume(z3.ForAll([j], z3.Implies(z3.And(0 <= j, j < n), z3.And(0 <= qf(j), qf(j) < n, pf(qf(j)) == j)), patterns=[qf(j)]))
    i2, j2 = c.fresh('pi'), c.fresh('pj')      # (fresh bound constants: z3 5.1 rejects a MultiPattern over constants already bound above)
    st.assume(z3.ForAll([i2, j2], z3.Implies(z3.And(0 <= i2, i2 < j2, j2 < n), a.elem((pf(i2),)) <= a.elem((pf(j2),))),
                        patterns=[z3.MultiPattern(pf(i2), pf(j2))]))
    # for strictly increasing keys the sorting permutation is unique: the identity (lemma increasing_bijection_is_identity:
    # sortedness + strictness make p increasing, an increasing map of {0..n-1} into itself is the identity)
    i3, j3, k3 = c.fresh('pi'), c.fresh('pj'), c.fresh('pk')
    strictly = z3.ForAll([i3, j3], z3.Implies(z3.And(0 <= i3, i3 < j3, j3 < n), a.elem((i3,)) < a.elem((j3,))))
    st.assume(z3.Implies(strictly, z3.ForAll([k3], z3.Implies(z3.And(0 <= k3, k3 < n), pf(k3) == k3), patterns=[pf(k3)])))
    c.last_perm = (pf, qf)          # exposed to contracts as witnesses (the permutation and its inverse)
    res = Arr((a.shape[0],), lambda ix, pf=pf: pf(to_int(ix[0])), 'int', inv=lambda j, qf=qf: qf(to_int(j)))
    cache.append((a, res))
    return st.alloc(c, res)


def _same_term(x, y):
    if is_sym(x) and is_sym(y):
        return z3.simplify(x).eq(z3.simplify(y))
    if not is_sym(x) and not is_sym(y):
        return x == y
    return False


def _select(items, i):
    ci = conc_int(i)
    if ci is not None:
        return items[ci]
    r = items[-1]
    for k in range(len(items) - 2, -1, -1):
        r = z3.If(to_int(i) == k, items[k], r)
    return r


@model('numpy.cumsum', '.cumsum', 'numpy.add.accumulate')
def _cumsum(ex, st, args, kwargs, node):
    """assumed: cumsum(a)[i] = sum_{j<=i} a[j] (1-D)"""
    a = arr(ex, st, args[0])
    if a is None or a.ndim != 1:
        raise Unsupported('cumsum of non 1-D')
    c = ex.c
    n = a.shape[0]
    S = lambda i: c.Sum(0, _plus1(i), lambda j: a.elem((j,)))
    if c.mode == 'sym':
        # partial sums of non-negative entries are non-negative, non-decreasing, and the total dominates every entry
        # (induction: lemma cumsum_of_nonnegative in contracts/kernels.py); offered guarded by its premise
        nonneg = c.Forall(0, n, lambda j: to_real(a.elem((j,))) >= 0)
        last = z3.simplify(to_int(n) - 1)
        st.assume(z3.Implies(nonneg, z3.And(c.Forall(0, n, lambda i: S(i) >= 0),
                                            c.ForallAdj(0, last, lambda i, j: S(i) <= S(j)),
                                            c.Forall(0, n, lambda k: S(last) >= to_real(a.elem((k,)))))))
    return st.alloc(c, Arr(a.shape, lambda ix: S(ix[0]), 'real'))


def _plus1(i):
    return i + 1 if not is_sym(i) else to_int(i) + 1


@model('.dot', 'numpy.dot')
def _dot(ex, st, args, kwargs, node):
    """assumed: (M . v)[i] = sum_j M[i,j]*v[j] for 2-D . 1-D; sum_j a[j]*b[j] for 1-D . 1-D"""
    A, B = arr(ex, st, args[0]), arr(ex, st, args[1])
    if A is None or B is None:
        raise Unsupported('dot of scalars')
    from .engine import _same
    if A.ndim == 2 and B.ndim == 1:
        if not _same(A.shape[1], B.shape[0]):
            ex.oblige('safe.shape', st, as_term(A.shape[1]) == as_term(B.shape[0]), node)
        return st.alloc(ex.c, Arr((A.shape[0],), lambda ix: ex.c.Sum(0, A.shape[1], lambda j: A.elem((ix[0], j)) * B.elem((j,))),
                                  'real'))
    if A.ndim == 1 and B.ndim == 1:
        return ex.c.Sum(0, A.shape[0], lambda j: A.elem((j,)) * B.elem((j,)))
    raise Unsupported('dot of %d-d . %d-d' % (A.ndim, B.ndim))


@model('builtins.any')
def _bany(ex, st, args, kwargs, node):
    v = args[0]
    if isinstance(v, Ref) and isinstance(st.get(v), PyList):
        return ex.c.Or(*[ex.truth(x, st) for x in st.get(v).items])
    return _any(ex, st, args, kwargs, node)


@model('builtins.all')
def _ball(ex, st, args, kwargs, node):
    v = args[0]
    if isinstance(v, Ref) and isinstance(st.get(v), PyList):
        return ex.c.And(*[ex.truth(x, st) for x in st.get(v).items])
    return _all(ex, st, args, kwargs, node)


@model('numpy.polynomial.legendre.leggauss')
def _leggauss(ex, st, args, kwargs, node):
    """assumed: leggauss(n), n >= 1, returns (x, w) of length n with -1 < x_i < 1, w_i > 0, sum w_i = 2 and
    sum w_i x_i = 0 (Gauss-Legendre is exact for polynomials of degree <= 2n-1 >= 1; nothing else is assumed)"""
    c = ex.c
    n = args[0]
    ex.oblige('safe.leggauss', st, (n >= 1) if not is_sym(n) else (to_int(n) >= 1), node)
    x = c.fresh_array('gl_x', (n,))
    w = c.fresh_array('gl_w', (n,))
    st.assume(c.Forall(0, n, lambda i: z3.And(x.elem((i,)) > -1, x.elem((i,)) < 1, w.elem((i,)) > 0)))
    st.assume(c.Sum(0, n, lambda i: w.elem((i,))) == 2)
    st.assume(c.Sum(0, n, lambda i: w.elem((i,)) * x.elem((i,))) == 0)
    c.last_gl = (x, w)          # exposed to contracts: the nodes and weights this call returned
    return (st.alloc(c, x), st.alloc(c, w))


# ----------------------------------------------------------------------------- scipy.stats
@model('scipy.stats.uniform.ppf')
def _uniform_ppf(ex, st, args, kwargs, node):
    """assumed: uniform.ppf(x, loc, scale) = loc + x*scale for 0 <= x <= 1 (scale >= 0)"""
    x = args[0]
    loc = kwargs.get('loc', args[1] if len(args) > 1 else 0.0)
    scale = kwargs.get('scale', args[2] if len(args) > 2 else 1.0)
    ex.oblige('safe.ppf_domain', st, ex.c.And(_ge0(x), _le1(x)), node)
    return to_real(loc) + to_real(x) * to_real(scale)


@model('scipy.stats.norm.ppf')
def _norm_ppf(ex, st, args, kwargs, node):
    """assumed: norm.ppf(x, loc, scale) = loc + scale*probit(x), probit uninterpreted (strictly increasing on
    (0,1), probit(1/2) = 0, probit(1-x) = -probit(x): ground instances added per obligation)"""
    x = args[0]
    loc = kwargs.get('loc', args[1] if len(args) > 1 else 0.0)
    scale = kwargs.get('scale', args[2] if len(args) > 2 else 1.0)
    return to_real(loc) + to_real(scale) * ex.c.probit(x)


def _ge0(x):
    return x >= 0 if not is_sym(x) else to_real(x) >= 0


def _le1(x):
    return x <= 1 if not is_sym(x) else to_real(x) <= 1


# ----------------------------------------------------------------------------- order / search
@model('.searchsorted', 'numpy.searchsorted')
def _searchsorted(ex, st, args, kwargs, node):
    """assumed: for non-decreasing a, r = searchsorted(a, v, side) satisfies 0<=r<=n,
    a[j] < v for j < r and a[j] >= v for j >= r  (side='left'; <=, > for 'right').
    The sortedness of `a` is a call-site obligation (safe.sorted)."""
    c = ex.c
    a = arr(ex, st, args[0])
    v = args[1]
    side = kwargs.get('side', args[2] if len(args) > 2 else 'left')
    if a is None or a.ndim != 1 or side not in ('left', 'right'):
        raise Unsupported('searchsorted form')
    if arr(ex, st, v) is not None:
        raise Unsupported('searchsorted with array of values')
    n = a.shape[0]
    if 'sorted' in ex.safety:
        srt = c.Forall(0, _minus1(n), lambda i: a.elem((i,)) <= a.elem((i + 1,)))
        ex.oblige('safe.sorted', st, srt, node)
        st.assume(srt)          # assert-then-assume: proved as its own obligation, a fact for everything that follows
    r = c.fresh('ss', INT)
    v = to_real(v) if a.kind == 'real' else v
    lt = (lambda x: x < v) if side == 'left' else (lambda x: x <= v)
    st.assume(r >= 0, r <= to_int(n))
    st.assume(c.Forall(0, r, lambda j: lt(a.elem((j,)))))
    st.assume(c.Forall(r, n, lambda j: z3.Not(lt(a.elem((j,))))))
    # the same facts over a NAMED copy of the elements (see _extreme): gives instances something to match
    el = z3.Function('el!%d' % next(c._fresh), INT, REAL if a.kind == 'real' else INT)
    qi = c.fresh('qs')
    st.assume(z3.ForAll([qi], z3.Implies(z3.And(0 <= qi, qi < to_int(n)),
                                         z3.And(el(qi) == a.elem((qi,)), (qi < r) == lt(el(qi)))), patterns=[el(qi)]))
    st.trace.append(('ghost', ('searchsorted', r)))         # ghost: the result on this path (a witness contracts may name)
    st.trace.append(('ghost', ('searchsorted_elements', el)))
    return r


# ----------------------------------------------------------------------------- builtins
@model('builtins.sorted')
def _sorted(ex, st, args, kwargs, node):
    """sorted() of a short list of numbers: concrete lists are sorted, two symbolic numbers become [min, max]"""
    v = args[0]
    items = list(st.get(v).items) if isinstance(v, Ref) and isinstance(st.get(v), PyList) else (list(v) if isinstance(v, tuple) else None)
    if items is None or kwargs:
        raise Unsupported('sorted() form')
    if all(isinstance(x, (int, float)) for x in items):
        return st.alloc(ex.c, PyList(sorted(items)))
    if len(items) == 2 and all(isinstance(x, (int, float)) or is_sym(x) for x in items):
        a, b = (to_real(x) for x in items)
        return st.alloc(ex.c, PyList([z3.If(a <= b, a, b), z3.If(a <= b, b, a)]))
    if len(items) <= 1:
        return st.alloc(ex.c, PyList(items))
    raise Unsupported('sorted() of %d symbolic values' % len(items))


@model('builtins.len')
def _len(ex, st, args, kwargs, node):
    v = args[0]
    if isinstance(v, (tuple, str)):
        return len(v)
    if isinstance(v, Ref):
        cell = st.get(v)
        if isinstance(cell, Arr):
            if cell.ndim == 0:
                raise Unsupported('len of 0-d')
            return cell.shape[0]
        if isinstance(cell, (PyList,)):
            return len(cell.items)
        if isinstance(cell, Ragged):
            return cell.n
        if isinstance(cell, PyDict):
            return len(cell.items)
    from .engine import SeqV
    if isinstance(v, SeqV):
        return v.n
    raise Unsupported('len(%r)' % (v,))


@model('builtins.int')
def _int(ex, st, args, kwargs, node):
    v = args[0]
    if isinstance(v, (int, float)):
        return int(v)
    if isinstance(v, str):
        try:
            return int(v)
        except ValueError:
            from .engine import _Raise, ExcV
            raise _Raise(st, ExcV('ValueError', getattr(node, 'lineno', 0)))
    if is_sym(v):
        if z3.is_int(v):
            return v
        if z3.is_bool(v):
            return z3.If(v, z3.IntVal(1), z3.IntVal(0))
        # truncation toward zero; named by a fresh constant so that the (non-linear) argument is not copied into
        # every term that later depends on the result
        k = ex.c.fresh('int', INT)
        st.assume(k == z3.If(v >= 0, z3.ToInt(v), -z3.ToInt(-v)))
        st.trace.append(('ghost', ('int', k, v)))        # witness: the named result and what was truncated
        return k
    raise Unsupported('int(%r)' % (v,))


@model('builtins.float', 'numpy.float64', 'numpy.float_')
def _float(ex, st, args, kwargs, node):
    v = args[0]
    if isinstance(v, (int, float)):
        return float(v)
    if is_sym(v):
        return to_real(v)
    if isinstance(v, Ref) and isinstance(st.get(v), Arr) and st.get(v).ndim == 0:
        return st.get(v).elem(())
    raise Unsupported('float(%r)' % (v,))


@model('builtins.bool')
def _bool(ex, st, args, kwargs, node):
    return ex.truth(args[0], st)


@model('builtins.isinstance')
def _isinstance(ex, st, args, kwargs, node):
    v, t = args

    def tname(x):
        if hasattr(x, 'target'):
            return x.target
        if isinstance(x, str) and x.startswith('dtype:'):
            return 'float' if 'float' in x else 'int'          # np.float64 / np.int64 scalars: as Python numbers here
        if hasattr(x, 'dotted'):
            return x.dotted
        return None
    names = [tname(x) for x in t] if isinstance(t, tuple) else [tname(t)]
    names = [n.split('.')[-1] if isinstance(n, str) else n for n in names]
    if isinstance(v, Ref):
        cell = st.get(v)
        if isinstance(cell, Obj):
            from . import source
            chain = [ci.name for ci in source.mro(cell.cls)]
            return any(n in chain for n in names)
        if isinstance(cell, PyList):
            return 'list' in names
        if isinstance(cell, PyDict):
            return 'dict' in names
        if isinstance(cell, Arr):
            return 'ndarray' in names
    if isinstance(v, tuple):
        return 'tuple' in names
    if isinstance(v, str):
        return 'str' in names
    if isinstance(v, bool):
        return 'bool' in names or 'int' in names
    if isinstance(v, int) or (is_sym(v) and z3.is_int(v)):
        return 'int' in names
    if isinstance(v, float) or (is_sym(v) and z3.is_real(v)):
        return 'float' in names
    if type(v).__name__ == 'AbsObj':
        from . import source
        chain = [ci.name for ci in source.mro(v.cls)] or [v.cls]
        return any(n in chain for n in names)
    if v is None or type(v).__name__ in ('FuncV', 'NanRef'):
        return False           # not an instance of any of the built-in / numpy types asked for
    raise Unsupported('isinstance(%r, %r)' % (v, names))


@model('builtins.hasattr')
def _hasattr(ex, st, args, kwargs, node):
    v, name = args
    if name == '__len__':
        if isinstance(v, Ref):
            cell = st.get(v)
            return isinstance(cell, (PyList, PyDict)) or (isinstance(cell, Arr) and cell.ndim > 0)
        if isinstance(v, (tuple, str)):
            return True
        if is_sym(v) or isinstance(v, (int, float)) or v is None or type(v).__name__ == 'NanRef':
            return False
    if isinstance(v, Ref) and isinstance(st.get(v), Obj):
        from . import source
        o = st.get(v)
        if name in o.attrs:
            return True
        ci, fn = source.find_method(o.cls, name)
        if fn is None and source.class_stores_attr(o.cls, name):
            raise Unsupported('hasattr(self, %r): state kept between calls that the contract does not describe' % name)
        return fn is not None
    raise Unsupported('hasattr(%r,%r)' % (v, name))


@model('builtins.list', 'builtins.tuple')
def _list(ex, st, args, kwargs, node):
    if not args:
        return st.alloc(ex.c, PyList([]))
    v = args[0]
    lo, hi, elem = ex.iter_value(v, st, node)
    chi = conc_int(hi)
    if chi is None:
        raise Unsupported('list() of symbolic length')
    return st.alloc(ex.c, PyList([elem(k, st) for k in range(chi)]))


@model('builtins.dict')
def _dict(ex, st, args, kwargs, node):
    if not args:
        return st.alloc(ex.c, PyDict(dict(kwargs)))
    if len(args) == 1 and isinstance(args[0], Ref) and isinstance(st.get(args[0]), PyDict) and not kwargs:
        return st.alloc(ex.c, PyDict(dict(st.get(args[0]).items)))       # shallow copy
    if len(args) == 1 and isinstance(args[0], Ref) and isinstance(st.get(args[0]), PyList) and not kwargs and \
            all(isinstance(x, tuple) and len(x) == 2 and isinstance(x[0], str) for x in st.get(args[0]).items):
        return st.alloc(ex.c, PyDict(dict(st.get(args[0]).items)))       # dict of (key, value) pairs
    raise Unsupported('dict(...)')


@model('builtins.str', 'builtins.repr')
def _str(ex, st, args, kwargs, node):
    v = args[0]
    if isinstance(v, str):
        return v
    return '<str>'


@model('builtins.round')
def _round(ex, st, args, kwargs, node):
    raise Unsupported('round')


@model('numpy.isnan', 'math.isnan')
def _isnan(ex, st, args, kwargs, node):
    from .engine import NanRef
    v = args[0]
    if isinstance(v, NanRef):
        return True
    if is_sym(v) or isinstance(v, (int, float)):
        return False       # reals are never NaN (float = real assumption)
    a = arr(ex, st, v)
    if a is not None:
        return st.alloc(ex.c, Arr(a.shape, lambda ix: False, 'bool'))
    raise Unsupported('isnan(%r)' % (v,))


@model('numpy.isfinite', 'math.isfinite')
def _isfinite(ex, st, args, kwargs, node):
    v = args[0]
    if is_sym(v) or isinstance(v, (int, float)):
        return True
    a = arr(ex, st, v)
    if a is not None:
        return st.alloc(ex.c, Arr(a.shape, lambda ix: True, 'bool'))
    raise Unsupported('isfinite')


# ----------------------------------------------------------------------------- list / dict / str methods
def list_method(ex, st, ref, name, args, kwargs, node):
    cell = st.get(ref)
    if isinstance(cell, Ragged):
        if name != 'append':
            raise Unsupported('%s on a symbolic-length list' % name)
        a = arr(ex, st, args[0])
        if a is None or a.ndim != 1:
            raise Unsupported('append of a non 1-D array to a symbolic-length list')
        n = to_int(cell.n)
        if ex.c.mode == 'sym':
            # select/store axioms on fresh functions: later obligations see atoms, not the row's expression
            rl = z3.Function('rowlen!%d' % next(ex.c._fresh), INT, INT)
            el = z3.Function('rag!%d' % next(ex.c._fresh), INT, INT, REAL)
            i, j = ex.c.fresh('ri'), ex.c.fresh('rj')
            st.assume(rl(n) == to_int(a.shape[0]))
            st.assume(z3.ForAll([i], z3.Implies(i != n, rl(i) == cell.rowlen(i)), patterns=[rl(i)]))
            st.assume(z3.ForAll([j], el(n, j) == to_real(a.elem((j,))), patterns=[el(n, j)]))
            st.assume(z3.ForAll([i, j], z3.Implies(i != n, el(i, j) == cell.elem(i, j)), patterns=[el(i, j)]))
            st.put(ref, Ragged(n + 1, lambda i, rl=rl: rl(to_int(i)), lambda i, j, el=el: el(to_int(i), to_int(j))))
            return None
        st.put(ref, Ragged(n + 1,
                           lambda i, cell=cell, n=n, a=a: z3.If(to_int(i) == n, to_int(a.shape[0]), cell.rowlen(i)),
                           lambda i, j, cell=cell, n=n, a=a: z3.If(to_int(i) == n, to_real(a.elem((j,))), cell.elem(i, j))))
        return None
    if name == 'append':
        st.put(ref, PyList(cell.items + [args[0]]))
        return None
    if name == 'extend':
        lo, hi, elem = ex.iter_value(args[0], st, node)
        st.put(ref, PyList(cell.items + [elem(k, st) for k in range(conc_int(hi))]))
        return None
    if name == 'index':
        for i, x in enumerate(cell.items):
            if not (is_sym(x) or is_sym(args[0])) and x == args[0]:
                return i
        if all(not is_sym(x) for x in cell.items) and not is_sym(args[0]):
            from .engine import _Raise, ExcV
            raise _Raise(st, ExcV('ValueError', getattr(node, 'lineno', 0)))
        raise Unsupported('list.index symbolic')
    if name == 'copy':
        return st.alloc(ex.c, PyList(cell.items))
    if name == 'pop':
        from .engine import _Raise, ExcV
        i = conc_int(args[0]) if args else -1
        if i is None:
            raise Unsupported('list.pop symbolic index')
        items = list(cell.items)
        if not items or not -len(items) <= i < len(items):
            raise _Raise(st, ExcV('IndexError', getattr(node, 'lineno', 0)))
        v = items.pop(i)
        st.put(ref, PyList(items))
        return v
    raise Unsupported('list.%s' % name)


def dict_method(ex, st, ref, name, args, kwargs, node):
    from .engine import _Raise, ExcV
    cell = st.get(ref)
    if name == 'items':
        return st.alloc(ex.c, PyList([(k, v) for k, v in cell.items.items()]))
    if name == 'keys':
        return st.alloc(ex.c, PyList(list(cell.items.keys())))
    if name == 'values':
        return st.alloc(ex.c, PyList(list(cell.items.values())))
    if name == 'get':
        return cell.items.get(args[0], args[1] if len(args) > 1 else None)
    if name == 'pop':
        if args[0] in cell.items:
            d = dict(cell.items)
            v = d.pop(args[0])
            st.put(ref, PyDict(d))
            return v
        if len(args) > 1:
            return args[1]
        raise _Raise(st, ExcV('KeyError', getattr(node, 'lineno', 0)))
    if name == 'update':
        d = dict(cell.items)
        other = st.get(args[0])
        d.update(other.items)
        st.put(ref, PyDict(d))
        return None
    if name == 'copy':
        return st.alloc(ex.c, PyDict(cell.items))
    raise Unsupported('dict.%s' % name)


def str_method(ex, st, s, name, args, kwargs, node):
    if name in ('format',):
        if all(isinstance(a, (str, int, float)) and not isinstance(a, bool) for a in args) and \
                all(isinstance(a, (str, int, float)) for a in kwargs.values()):
            return s.format(*args, **kwargs)
        return '<fmt>'
    if name in ('lower', 'upper', 'strip'):
        return getattr(s, name)()
    if name in ('startswith', 'endswith'):
        return getattr(s, name)(*args)
    if name == 'split':
        return st.alloc(ex.c, PyList(s.split(*args)))
    if name == 'join':
        if args and isinstance(args[0], tuple) and all(isinstance(x, str) for x in args[0]):
            return s.join(args[0])
        if args and isinstance(args[0], Ref) and isinstance(st.get(args[0]), PyList) and all(isinstance(x, str) for x in st.get(args[0]).items):
            return s.join(st.get(args[0]).items)
        return '<joined>'
    if name == 'decode':           # str has no decode(): AttributeError (callers that accept bytes or str rely on it)
        from .engine import _Raise, ExcV
        raise _Raise(st, ExcV('AttributeError', getattr(node, 'lineno', 0)))
    raise Unsupported('str.%s' % name)


@model('re.findall')
def _re_findall(ex, st, args, kwargs, node):
    """re.findall(pattern, text) for CONCRETE pattern and text: computed with Python's own re (assumed to be what runs)"""
    import re
    if len(args) == 2 and all(isinstance(a, str) for a in args) and not kwargs:
        return st.alloc(ex.c, PyList(list(re.findall(args[0], args[1]))))
    raise Unsupported('re.findall on symbolic text')


def _install_nan():
    from .engine import NanRef
    CONSTS['numpy.nan'] = NanRef('singleton')
    CONSTS['numpy.NaN'] = CONSTS['numpy.nan']
    CONSTS['math.nan'] = CONSTS['numpy.nan']
    CONSTS['numpy.inf'] = z3.Real('K_inf')       # opaque positive constant, see Ctx.inf
    CONSTS['math.inf'] = CONSTS['numpy.inf']


_install_nan()
