import os
import sys
import warnings

REPO = os.environ.get('TAUREX_REPO', '/repo')
# native replays must import the same tree the VCs were generated from
if REPO not in sys.path[:1]:
    sys.path.insert(0, REPO)
warnings.filterwarnings('ignore', category=SyntaxWarning)
