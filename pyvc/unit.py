"""Units under contract, lemmas, and the per-unit pipeline:
deductive VCs -> (on failure) bounded instance for a counter-model -> native replay on the real code
-> (else) run-time contract search on the real function.
"""
import copy
import importlib
import json
import os
import random
import time
import traceback
import z3

from . import source, solve
from .core import (Ctx, View, CView, Arr, Ref, Obj, PyList, PyDict, Unsupported, EngineError, is_sym, conc_int,
                   to_real, as_term)
from .engine import Exec, State, ExcV, _named, _Raise

REGISTRY = {}      # qualname -> Unit
LEMMAS = []        # Lemma
BOUNDED = []       # Bounded (run-time contract stand-ins; never counted as proved)
SEMANTIC_KINDS = ('post', 'call.', 'safe.', 'raises', 'noraise', 'frame', 'assert', 'zip.len', 'lemma', 'refine',
                  'yield')


class ObjSpec:
    def __init__(self, cls, **attrs):
        self.cls, self.attrs = cls, attrs


class Unit:
    def __init__(self, props, qualname, params, pre=None, post=None, raises=None, frame=(), frame_attrs=(),
                 result=None, invariants=None, variants=None, native=None, bounds=(), gen=None, inline=(),
                 abstract=None, module_consts=None, safety=('index', 'div'), trusted=False, short=None,
                 doc='', while_bound=6, fresh_attr=None, canary=None, timeout_ms=8000, defaults=None,
                 exec_cls=None, self_class=None, cases=None, store='ite', sum_split=False, native_obj=None,
                 native_call=None, variant=None, yields=None, fresh_result=False, setup=None, history_fixed=()):
        self.props = [props] if isinstance(props, str) else list(props)
        self.qualname = qualname
        # several units may put the same function under contract (e.g. Contribution.prepare once per subclass whose
        # prepare_each it drives): they are told apart by `variant`; callers see the one without a variant
        self.variant = variant
        self.key = qualname if variant is None else '%s@%s' % (qualname, variant)
        self.short = short or (qualname.split(':')[1] + ('' if variant is None else '@' + variant))
        # generator units: yields(c, v0, v, k, value) -> named clauses that must hold at the k-th yield (v: the
        # state at that moment, value: what the consumer receives) -- the yield invariant of DESIGN 2.8
        self.yields = yields
        self.params, self.pre, self.post, self.raises_spec = params, pre, post, raises
        self.frame, self.frame_attrs = list(frame), list(frame_attrs)
        self.result = result
        self.invariants = invariants or {}
        self.variants = variants or {}
        self.native = native
        self.bounds = list(bounds)
        self.gen = gen
        self.inline = set(inline)
        self.abstract = abstract or {}
        self.module_consts = module_consts or {}
        self.safety = safety
        self.trusted = trusted
        self.doc = doc
        self.while_bound = while_bound
        self._fresh_attr = fresh_attr
        self.canary = canary
        self.timeout_ms = timeout_ms
        self.defaults = defaults or {}
        self.exec_cls = exec_cls or Exec
        self.self_class = self_class
        self.cases = list(cases or [{}])
        self.store = store
        self.sum_split = sum_split
        # history replays: native_obj(c, p) builds the real object once, native_call(c, obj, p) applies the inputs p
        # through the public API and calls the function; a second call on the SAME object must satisfy the contract
        # for the second inputs (stale caches, leftovers of earlier calls)
        self.native_obj, self.native_call = native_obj, native_call
        # the caller owns the result: it is a new object (sym: allocated during the call; native: the result of one call
        # is modified in place and the call repeated -- the contract must hold again)
        self.fresh_result = fresh_result
        # inputs that describe what the OBJECT is (fixed at its construction: a table's own grid, a binner's target grid);
        # later calls of a history on the same object keep them -- an object does not turn into another one between calls
        self.history_fixed = tuple(history_fixed)
        # scenario units: setup(ex, st, c) runs REAL code of the repository on the initial state before the function under
        # contract (e.g. the constructor, symbolically, to obtain the object the method is then called on)
        self.setup = setup
        if native is None and native_obj is not None:
            self.native = lambda c, p: native_call(c, native_obj(c, p), p)
        self._view0 = None
        self._fndef = None
        if self.key in REGISTRY:
            raise EngineError('duplicate unit %s' % self.key)
        REGISTRY[self.key] = self

    # -- source
    def locate(self):
        mi, fn, cls = source.find_function(self.qualname)
        self._fndef = fn
        return mi, fn, cls

    def param_names(self):
        if self._fndef is None:
            self.locate()
        return [a.arg for a in self._fndef.args.args]

    def param_index(self, name):
        return self.param_names().index(name)

    def param_defaults(self, ex):
        if self._fndef is None:
            self.locate()
        a = self._fndef.args
        names = [x.arg for x in a.args]
        out = {}
        for i, d in enumerate(a.defaults):
            try:
                out[names[len(names) - len(a.defaults) + i]] = ex.eval(d, State())
            except Exception:
                pass
        out.update(self.defaults)
        return out

    def fresh_attr(self, ex, st, v0, attr):
        if self._fresh_attr is None:
            raise EngineError('unit %s: frame attribute %s needs fresh_attr' % (self.short, attr))
        return self._fresh_attr(ex, st, v0, attr)


class Lemma:
    """a statement over spec functions only; build(c) -> list of (name, hyps, goal)"""

    def __init__(self, props, name, build, doc='', timeout_ms=8000):
        self.props = [props] if isinstance(props, str) else list(props)
        self.name, self.build, self.doc, self.timeout_ms = name, build, doc, timeout_ms
        LEMMAS.append(self)


class Bounded:
    """bounded stand-in: run(seed, tier) -> {'cases': n, 'failures': [{'clause','inputs',...}], 'bound': text,
    'samples': [...]}"""

    def __init__(self, props, name, run, bound='', replay=None, doc=''):
        self.props = [props] if isinstance(props, str) else list(props)
        self.name, self.run, self.bound, self.replay, self.doc = name, run, bound, replay, doc
        BOUNDED.append(self)


class patched:
    """context manager for native harnesses: replaces a function / class of the repository by a recording double in EVERY loaded
    taurex module that holds a reference to it (the defining module and every `from x import f` site), so that the double is
    seen however the code under test reaches the function; everything is restored on exit"""

    def __init__(self, *pairs):
        self.pairs = [(pairs[i], pairs[i + 1]) for i in range(0, len(pairs), 2)]
        self.undo = []

    def __enter__(self):
        import sys
        for original, replacement in self.pairs:
            for name, mod in list(sys.modules.items()):
                if mod is None or not (name == 'taurex' or name.startswith('taurex.')):
                    continue
                for attr, val in list(vars(mod).items()):
                    if val is original:
                        self.undo.append((mod, attr, original))
                        setattr(mod, attr, replacement)
        return self

    def __exit__(self, *exc):
        for mod, attr, original in reversed(self.undo):
            setattr(mod, attr, original)
        return False


class GenTrace:
    """what a native harness returns for a generator unit: values[k] is a COPY of what the consumer received at
    the k-th yield, states[k] the inputs-shaped snapshot of the object state at that moment"""

    def __init__(self, values, states):
        self.values, self.states = list(values), list(states)


def materialize(c, st, v):
    if isinstance(v, Arr):
        # the same declared array placed at several places of the inputs is ONE array (aliasing is part of the input)
        memo = st.__dict__.setdefault('_memo', {})
        if id(v) not in memo:
            memo[id(v)] = st.alloc(c, v)
        return memo[id(v)]
    if isinstance(v, ObjSpec):
        # one ObjSpec instance placed at several places of the inputs is ONE object (aliasing is part of the input)
        memo = st.__dict__.setdefault('_memo', {})
        if id(v) not in memo:
            memo[id(v)] = st.alloc(c, Obj(v.cls, {k: materialize(c, st, x) for k, x in v.attrs.items()}))
        return memo[id(v)]
    if isinstance(v, list):
        return st.alloc(c, PyList([materialize(c, st, x) for x in v]))
    if isinstance(v, dict):
        return st.alloc(c, PyDict({k: materialize(c, st, x) for k, x in v.items()}))
    if isinstance(v, tuple):
        return tuple(materialize(c, st, x) for x in v)
    if type(v).__name__ == 'AbsObj':
        v.attrs = {k: materialize(c, st, x) for k, x in v.attrs.items()}
        return v
    return v


def concretize_params(v):
    """conc mode: ObjSpec -> dict marked as object"""
    if isinstance(v, ObjSpec):
        d = {k: concretize_params(x) for k, x in v.attrs.items()}
        d['__obj__'] = v.cls
        return d
    if isinstance(v, list):
        return [concretize_params(x) for x in v]
    if isinstance(v, tuple):
        return tuple(concretize_params(x) for x in v)
    if isinstance(v, dict):
        return {k: concretize_params(x) for k, x in v.items()}
    return v


class OblResult:
    def __init__(self, name, kind, line, verdict, seconds, backend, reason=''):
        self.name, self.kind, self.line = name, kind, line
        self.verdict, self.seconds, self.backend, self.reason = verdict, seconds, backend, reason

    def as_dict(self):
        return {'name': self.name, 'kind': self.kind, 'line': self.line, 'verdict': self.verdict,
                'seconds': round(self.seconds, 4), 'backend': self.backend, 'reason': self.reason}


class UnitResult:
    def __init__(self, unit):
        self.unit = unit
        self.source = None
        self.obls = []           # OblResult
        self.error = None        # ('unsupported'|'engine', text)
        self.paths = 0
        self.covers = {}
        self.canary = None
        self.lib_used = []
        self.notes = []          # e.g. callees without contract that were executed in place
        self.deps = {}           # bodies executed in place: qualname -> hash of the AST
        self.violation = None    # dict for the replay file
        self.undecided = []
        self.smt = {}            # name -> smt2 text (kept for cross-check / dump)

    @property
    def failed(self):
        return [o for o in self.obls if o.verdict != 'unsat']


def is_semantic(kind):
    return any(kind.startswith(p) or ('.' + p) in kind for p in SEMANTIC_KINDS)


def build_obligations(unit, c):
    """symbolic execution of the real function in ctx c -> (exec, obligations incl. post/raises/frame, outcomes)"""
    mi, fn, cls = unit.locate()
    st = State()
    c.sum_split = unit.sum_split
    raw = unit.params(c)
    env = {k: materialize(c, st, v) for k, v in raw.items()}
    st.env = dict(env)
    heap0 = dict(st.heap)
    v0 = View(c, dict(env), heap0)
    unit._view0 = v0
    pre = _named(unit.pre(c, v0)) if unit.pre else []
    st.assume_named('pre', pre)
    ex = unit.exec_cls(c, unit, REGISTRY, safety=unit.safety)
    ex.pre_pc = list(st.pc)
    # bind defaults for parameters the contract did not supply
    a = fn.args
    names = [x.arg for x in a.args]
    ex.mi = mi
    ex.fn_imports = dict(mi.imports)
    for i, d in enumerate(a.defaults):
        n = names[len(names) - len(a.defaults) + i]
        if n not in st.env:
            st.env[n] = ex.eval(d, State())
    for n in names:
        if n not in st.env:
            raise EngineError('unit %s: params() does not supply %s' % (unit.short, n))
    if unit.setup is not None:
        ex.mi = mi
        ex.cur_class = cls.name if cls is not None else None
        ex.fn_imports = dict(mi.imports)
        unit.setup(ex, st, c)
    outs = ex.run(mi, fn, cls, st, None)
    spec = unit.raises_spec(c, v0) if unit.raises_spec else {}
    import ast as _ast
    is_gen = any(isinstance(x, (_ast.Yield, _ast.YieldFrom)) for x in _ast.walk(fn))
    npath = 0
    for s, k, p in outs:
        npath += 1
        v1 = View(c, env, s.heap)
        if k == 'return':
            ys = [y for tag, y in s.trace if tag == 'yield']
            if p is None and (ys or is_gen):
                p = ys              # a generator: its result is the list of yielded values
            for exc, cond in spec.items():
                ex.oblige('raises.%s.not' % exc, s, c.Not(cond), None)
            if unit.post:
                ret = ex.wrap_ret(p, s)
                c.trace = [y for tag, y in s.trace if tag == 'ev']      # effect trace (ghost) for effect-trace contracts
                c.raw = {'ret': p, 'state': s, 'env': env}              # identities (heap references) for such contracts
                for name, g in _named(unit.post(c, v0, v1, ret)):
                    ex.oblige('post.%s' % name, s, g, None)
            if unit.fresh_result:
                ex.oblige('post.fresh_result', s, isinstance(p, Ref) and p.id not in heap0, None,
                          note='the returned object must be allocated by this call (the caller may modify it)')
            # frame: every parameter array cell outside the frame is unchanged
            for pname, r in env.items():
                if isinstance(r, Ref) and pname not in unit.frame:
                    a0, a1 = heap0.get(r.id), s.heap.get(r.id)
                    if isinstance(a0, Arr) and a1 is not a0:
                        ex.oblige('frame.%s' % pname, s, _arr_equal(c, a0, a1), None)
        elif k == 'raise':
            if p.cls in spec:
                ex.oblige('raises.%s' % p.cls, s, spec[p.cls], None, note='raised at line %d' % p.line)
            else:
                ex.oblige('noraise.%s' % p.cls, s, False, None, note='raised at line %d' % p.line)
        ex.covers.append(('path%d.%s' % (npath, k), list(s.pc)))
    return ex, outs, mi, fn


def _arr_equal(c, a0, a1):
    if a0.ndim == 1:
        return c.Forall(0, a0.shape[0], lambda i: a1.elem((i,)) == a0.elem((i,)))
    if a0.ndim == 2:
        return c.Forall2((0, a0.shape[0]), (0, a0.shape[1]), lambda i, j: a1.elem((i, j)) == a0.elem((i, j)))
    if a0.ndim == 3:
        return c.Forall(0, a0.shape[0], lambda i: c.Forall2((0, a0.shape[1]), (0, a0.shape[2]),
                                                            lambda j, k: a1.elem((i, j, k)) == a0.elem((i, j, k))))
    return True


def sum_extensionality(c):
    """prove S1(a,b,ps) == S2(a,b,pi(ps)) for spec sums whose bodies are pointwise equal under some matching of
    their parameters (generic induction, justified once; the pointwise equality is checked by z3 here)"""
    import itertools
    sums = list(c.sums.values())
    facts = []
    deadline = time.time() + 12.0          # an optimisation for the solver only: never worth more than a few seconds
    for i in range(len(sums)):
        for j in range(i + 1, len(sums)):
            if time.time() > deadline:
                c.sum_eqs = facts
                return len(facts)
            s1, s2 = sums[i], sums[j]
            if s1.arity != s2.arity or s1.arity > 6:
                continue
            if sorted(str(x) for x in s1.sorts) != sorted(str(x) for x in s2.sorts):
                continue
            k = z3.Int('k?e')
            ps = [z3.Const('p?e%d' % n, srt) for n, srt in enumerate(s1.sorts)]
            tried = 0
            for perm in itertools.permutations(range(s1.arity)):
                if any(str(s2.sorts[m]) != str(s1.sorts[perm[m]]) for m in range(s1.arity)):
                    continue
                tried += 1
                if tried > 24 or time.time() > deadline:
                    break
                qs = [ps[perm[m]] for m in range(s1.arity)]
                slv = z3.Solver()
                slv.set('timeout', 300)
                slv.add(s1.body(k, *ps) != s2.body(k, *qs))
                if slv.check() == z3.unsat:
                    a, b = z3.Ints('a?e b?e')
                    facts.append(z3.ForAll([a, b] + ps, s1.f(a, b, *ps) == s2.f(a, b, *qs),
                                           patterns=[s1.f(a, b, *ps), s2.f(a, b, *qs)]))
                    break
    c.sum_eqs = facts
    return len(facts)


_SMT_JOB = None


def _smt_one(i):
    c, todo = _SMT_JOB
    o = todo[i]
    try:
        return solve.to_smt2(c, o.hyps, o.goal, ground=getattr(o, 'ground', False))
    except z3.Z3Exception as e:
        return e


def _smt_texts(c, todo):
    """SMT-LIB text of every obligation; serialisation of large hypothesis sets is the slow part of a big unit, so it
    is spread over forked workers (the z3 terms are inherited by fork, only the texts come back)"""
    global _SMT_JOB
    _SMT_JOB = (c, todo)
    try:
        nproc = int(os.environ.get('VERIF_JOBS', '0')) or min(16, os.cpu_count() or 4)
        if len(todo) < 48 or nproc <= 1:
            return [_smt_one(i) for i in range(len(todo))]
        import multiprocessing as mp
        with mp.get_context('fork').Pool(nproc) as pl:
            return pl.map(_smt_one, range(len(todo)), chunksize=max(1, len(todo) // (4 * nproc)))
    finally:
        _SMT_JOB = None


def verify_unit(unit, tier='quick', dump_dir=None):
    """deductive pass; returns UnitResult with every obligation's verdict"""
    from . import lib
    res = UnitResult(unit)
    t0 = time.time()
    try:
        mi, fn, cls = unit.locate()
        res.source = source.segment_info(mi, fn)
        res.source['qualname'] = unit.qualname
    except (KeyError, FileNotFoundError, SyntaxError) as e:
        res.error = ('unsupported', 'cannot locate %s: %s' % (unit.qualname, e))
        return res
    lib.USED.clear()
    jobs = []
    meta = {}
    ctxs = []
    for case in unit.cases:
        label = ''.join('[%s=%s]' % kv for kv in sorted(case.items()))
        c = Ctx('sym', fixed=case)
        try:
            ex, outs, mi, fn = build_obligations(unit, c)
        except Unsupported as e:
            res.error = ('unsupported', label + str(e))
            return res
        except (EngineError, _Raise) as e:
            res.error = ('engine', '%s%s: %s' % (label, type(e).__name__, e))
            return res
        except Exception as e:
            res.error = ('engine', label + traceback.format_exc(limit=8))
            return res
        res.paths += len(outs)
        if not outs:
            res.error = ('engine', label + 'no feasible path through the function (vacuous)')
            return res
        sum_extensionality(c)
        for nt in ex.notes:
            if nt not in res.notes:
                res.notes.append(nt)
        res.deps.update(getattr(ex, 'deps', {}))
        ctxs.append((label, c, ex))
        todo = []
        for o in ex.obls:
            o.name = label + o.name
            if z3.is_true(z3.simplify(o.goal)) if is_sym(o.goal) else o.goal is True:
                res.obls.append(OblResult(o.name, o.kind, o.line, 'unsat', 0.0, 'syntactic'))
                continue
            todo.append(o)
        texts = _smt_texts(c, todo)
        for o, text in zip(todo, texts):
            if isinstance(text, Exception):
                res.error = ('engine', 'smt encoding of %s: %s' % (o.name, text))
                return res
            jobs.append((o.name, text))
            meta[o.name] = o
            res.smt[o.name] = text
    res.lib_used = sorted(lib.USED)
    verdicts = solve.discharge(jobs, timeout_ms=unit.timeout_ms)
    for n, _ in jobs:
        o = meta[n]
        v, dt, be, reason = verdicts[n]
        res.obls.append(OblResult(o.name, o.kind, o.line, v, dt, be, reason))
    label, c, ex = ctxs[0]
    # vacuity guards
    pre_s = z3.Solver()
    pre_s.set('timeout', 3000)
    for a in getattr(ex, 'pre_pc', []):
        pre_s.add(a)
    res.covers['pre'] = str(pre_s.check())
    for name, pc in ex.covers:
        s = z3.Solver()
        s.set('timeout', 1500)
        for a in c.sum_axioms():
            s.add(a)
        for a in pc:
            s.add(a)
        res.covers[name] = str(s.check())
    # canary: the negation of the first post clause must not be provable
    posts = [o for o in ex.obls if o.kind.startswith('post')]
    if posts:
        o = posts[0]
        text = solve.to_smt2(c, o.hyps, z3.Not(o.goal))
        v, dt, reason = solve.check_z3_text(text, 3000)
        res.canary = {'obligation': o.name, 'negated_goal_verdict': v}
    if dump_dir:
        os.makedirs(dump_dir, exist_ok=True)
        for n, t in res.smt.items():
            with open(os.path.join(dump_dir, '%s__%s.smt2' % (unit.short.replace('.', '_'), n.replace('/', '_'))), 'w') as fh:
                fh.write(t)
    res.seconds = time.time() - t0
    return res


# --------------------------------------------------------------------------------------------- falsifier
def model_values(c, m):
    vals = {}
    for kind, name, extra in c.inputs:
        if kind == 'int':
            if name in c.fixed:
                vals[name] = int(c.fixed[name])
            else:
                v = m.eval(z3.Int(name), model_completion=True)
                vals[name] = v.as_long()
        elif kind == 'real':
            vals[name] = _num(m.eval(z3.Real(name), model_completion=True))
        elif kind == 'bool':
            if name in c.fixed:
                vals[name] = bool(c.fixed[name])
            else:
                vals[name] = z3.is_true(m.eval(z3.Bool(name), model_completion=True))
        elif kind == 'choice':
            vals[name] = c.fixed[name]
        elif kind == 'arr':
            shape, f, akind = extra
            dims = []
            for d in shape:
                cd = conc_int(d)
                if cd is None:
                    cd = m.eval(as_term(d), model_completion=True).as_long()
                dims.append(cd)
            import itertools
            import numpy as np
            out = np.zeros(dims, dtype=float if akind == 'real' else (bool if akind == 'bool' else int))
            for ix in itertools.product(*[range(d) for d in dims]):
                v = m.eval(f(*[z3.IntVal(i) for i in ix]), model_completion=True)
                out[ix] = z3.is_true(v) if akind == 'bool' else _num(v)
            vals[name] = out.tolist()
    return vals


def _num(v):
    if z3.is_int_value(v):
        return v.as_long()
    if z3.is_rational_value(v):
        return float(v.numerator_as_long()) / float(v.denominator_as_long())
    if z3.is_algebraic_value(v):
        return float(v.approx(20).numerator_as_long()) / float(v.approx(20).denominator_as_long())
    try:
        return float(str(v))
    except ValueError:
        return 0.0


def default_native(unit):
    modname, _, path = unit.qualname.partition(':')

    def run(c, p):
        mod = importlib.import_module(modname)
        f = mod
        for part in path.split('.'):
            f = getattr(f, part)
        args = {k: v for k, v in p.items()}
        return f(**args), p
    return run


def native_check(unit, values, obj=None, keep=None):
    """run the REAL function on concrete inputs; evaluate the same contract text concretely.
    -> dict(status='ok'|'pre-false'|'violation'|'error', failed=[...], observed=...)
    obj: an object left over from an earlier call (history replay); keep: dict receiving the object used."""
    import numpy as np
    c = Ctx('conc', values=values)
    try:
        raw = concretize_params(unit.params(c))
    except (KeyError, ValueError, TypeError) as e:
        return {'status': 'pre-false', 'why': 'inputs not constructible: %r' % (e,)}
    before = copy.deepcopy(raw)
    v0 = CView(before)
    try:
        pre = _named(unit.pre(c, v0)) if unit.pre else []
    except (ZeroDivisionError, ValueError, OverflowError, IndexError, FloatingPointError) as e:
        return {'status': 'pre-false', 'why': 'precondition not evaluable: %r' % (e,)}
    bad = [k for k, g in pre if not g]
    if bad:
        return {'status': 'pre-false', 'why': 'precondition clauses false: %s' % bad}
    try:
        spec = unit.raises_spec(c, v0) if unit.raises_spec else {}
    except (ZeroDivisionError, ValueError, OverflowError, IndexError) as e:
        return {'status': 'pre-false', 'why': 'raises clause not evaluable: %r' % (e,)}
    native = unit.native or default_native(unit)
    exc = None
    ret = None
    after = raw
    try:
        with np.errstate(all='ignore'):
            if unit.native_obj is not None:
                if obj is None:
                    obj = unit.native_obj(c, raw)
                if keep is not None:
                    keep['obj'] = obj
                ret, after = unit.native_call(c, obj, raw)
            else:
                ret, after = native(c, raw)
            if keep is not None:
                keep['ret'] = ret
    except Exception as e:          # the real function raised
        exc = e
    c.trace = after.pop('__trace__', None) if isinstance(after, dict) else None
    gen_states = None
    if isinstance(ret, GenTrace):
        gen_states, ret = ret.states, ret.values
    must = [k for k, g in spec.items() if g]
    if exc is not None:
        names = [k.__name__ for k in type(exc).__mro__]
        if any(k in names for k in must):
            return {'status': 'ok', 'observed': 'raised %s as specified' % type(exc).__name__}
        return {'status': 'violation', 'failed': ['noraise.%s' % type(exc).__name__],
                'observed': 'real function raised %s: %s' % (type(exc).__name__, str(exc)[:300]),
                'traceback': ''.join(traceback.format_exception(type(exc), exc, exc.__traceback__, limit=6))[-1500:]}
    if must:
        return {'status': 'violation', 'failed': ['raises.%s' % must[0]],
                'observed': 'real function returned normally where the contract requires %s' % must[0]}
    failed = []
    detail = {}
    if unit.yields and gen_states is not None:
        try:
            for k, (val, stt) in enumerate(zip(ret, gen_states)):
                for nm, g in _named(unit.yields(c, v0, CView(concretize_params(stt)), k, val)):
                    if not g:
                        failed.append('yield.%s' % nm)
        except Exception as e:
            return {'status': 'violation', 'failed': ['yield.<not evaluable>'],
                    'observed': 'yield invariant not evaluable on the yielded value: %r' % (e,)}
        if failed:
            return {'status': 'violation', 'failed': failed, 'observed': 'yielded %s' % _short(ret)}
    if unit.post:
        try:
            for k, g in _named(unit.post(c, v0, CView(after), ret)):
                if not g:
                    failed.append('post.%s' % k)
        except (ZeroDivisionError, OverflowError, FloatingPointError) as e:
            return {'status': 'pre-false', 'why': 'postcondition not evaluable at this input: %r' % (e,)}
        except ValueError as e:
            if 'math domain' in str(e):
                return {'status': 'pre-false', 'why': 'postcondition not evaluable at this input: %r' % (e,)}
            return {'status': 'violation', 'failed': ['post.<not evaluable>'],
                    'observed': 'postcondition not evaluable on the returned value: %r (returned %s)' % (e, _short(ret))}
        except Exception as e:
            return {'status': 'violation', 'failed': ['post.<not evaluable>'],
                    'observed': 'postcondition not evaluable on the returned value: %r (returned %s)' % (e, _short(ret))}
    # frame
    for k, v in before.items():
        if k in unit.frame or not isinstance(v, np.ndarray):
            continue
        if not np.array_equal(v, after.get(k, v), equal_nan=True):
            failed.append('frame.%s' % k)
    if failed:
        return {'status': 'violation', 'failed': failed, 'observed': 'returned %s' % _short(ret)}
    return {'status': 'ok', 'observed': _short(ret)}


def _short(x):
    s = repr(x)
    return s if len(s) < 600 else s[:600] + '...'


def bmc_falsify(unit, max_models=4, timeout_ms=8000):
    """bounded instances of the same function (sizes fixed, loops unrolled, no invariants):
    quantifier-free, so z3 returns models.  Every model is replayed natively."""
    found = []
    tried = 0
    notes = []
    for sizes in [dict(b, **case) for case in unit.cases for b in unit.bounds]:
        c = Ctx('bmc', fixed=sizes)
        try:
            ex, outs, mi, fn = build_obligations(unit, c)
        except (Unsupported, EngineError, _Raise) as e:
            notes.append('bounded instance %s not buildable: %s' % (sizes, e))
            continue
        except Exception as e:
            notes.append('bounded instance %s crashed: %r' % (sizes, e))
            continue
        for o in ex.obls:
            if not is_semantic(o.kind):
                continue
            s = z3.Solver()
            s.set('timeout', timeout_ms)
            goal, hyps = solve.skolemize(o.goal, o.hyps)
            for a in c.sum_axioms() + list(c.assumed):
                s.add(a)
            for a in solve.transc_axioms(list(hyps) + [goal], c.uf):
                s.add(a)
            for h in hyps:
                s.add(h)
            s.add(z3.Not(goal))
            tried += 1
            r = s.check()
            if r != z3.sat:
                continue
            try:
                vals = model_values(c, s.model())
            except Exception as e:
                notes.append('model of %s not extractable: %r' % (o.name, e))
                continue
            nat = native_check(unit, vals)
            found.append({'obligation': o.name, 'line': o.line, 'sizes': sizes, 'inputs': vals, 'native': nat})
            if nat['status'] == 'violation':
                return found, tried, notes
            if len(found) >= max_models:
                return found, tried, notes
    return found, tried, notes


def _related(rng, vals):
    """inputs related to an earlier call: same sizes, same first and last element of every list of numbers, interior
    elements (and scalars, sometimes) slightly moved -- the histories on which results kept from an earlier call and
    looked up by an incomplete key go wrong"""
    out = copy.deepcopy(vals)
    keys = [k for k, v in out.items() if isinstance(v, list) and len(v) >= 3 and all(isinstance(x, float) for x in v)]
    rng.shuffle(keys)
    for k in keys[:max(1, rng.randint(1, len(keys)))] if keys else []:
        v = out[k]
        for j in range(1, len(v) - 1):
            if rng.random() < 0.7:
                lo, hi = sorted((v[j - 1], v[j + 1]))
                old = v[j]
                v[j] = v[j] + (hi - lo) * rng.uniform(-0.2, 0.2) if hi > lo else v[j] * (1 + rng.uniform(-1e-3, 1e-3))
                if (old > 0) != (v[j] > 0) or (old < 0) != (v[j] < 0) or abs(v[j] - old) > 0.5 * abs(old):
                    # a related input keeps the SIGN and the ORDER OF MAGNITUDE of what it perturbs (weights, cross-sections, widths
                    # stay positive / negative / exactly zero, and a value of 1e-29 next to one of 1e-6 stays near 1e-29: "slightly
                    # moved" is relative to the value, not to a neighbour 20 orders of magnitude away)
                    v[j] = old * (1 + rng.uniform(-0.2, 0.2))
    if not keys or rng.random() < 0.3:
        sc = [k for k, v in out.items() if isinstance(v, float)]
        for k in sc[:1]:
            out[k] = out[k] * (1 + rng.uniform(-0.05, 0.05))
    return out


def _scramble(x, depth=0):
    """modify a returned value in place, the way a caller that owns it may"""
    import numpy as np
    if isinstance(x, dict):
        for k in list(x.keys()):
            if isinstance(x[k], (dict, list, np.ndarray)) and depth < 2:
                _scramble(x[k], depth + 1)
            else:
                x[k] = '<overwritten by the caller>'
        x['<added by the caller>'] = 1
    elif isinstance(x, list):
        x.append('<added by the caller>')
    elif isinstance(x, np.ndarray) and x.flags.writeable and x.dtype.kind == 'f':
        x[...] = -12345.0
    elif isinstance(x, tuple) and depth < 2:
        for y in x:
            _scramble(y, depth + 1)


def random_falsify(unit, seed, n):
    """run-time contract search on the real function (DESIGN 3 step 3).  Besides independent random inputs, calls are
    chained into short histories: (a) for units with an object harness a later call reuses the object left by the
    previous case, with independent inputs or with inputs related to the previous ones (_related); units without
    one repeat the call in the same process with related inputs (module-level state); (b) for units whose contract
    says the caller owns the result, the result is modified in place and the same call repeated."""
    if unit.gen is None:
        return None, 0
    rng = random.Random(seed)
    tried = 0
    prev = None
    stats = unit.__dict__.setdefault('_native_stats', {'ran': {}, 'pre_false': {}})
    for i in range(n):
        mode = 'fresh'
        if prev is not None:
            r = i % 4
            if r == 1:
                mode = 'related'
            elif r == 2 and unit.fresh_result:
                mode = 'same-after-caller-modified-result'
            elif r == 3 and unit.native_obj is not None:
                mode = 'independent-on-same-object'
        try:
            if mode == 'related':
                vals = _related(rng, prev[0])
            elif mode == 'same-after-caller-modified-result':
                vals = copy.deepcopy(prev[0])
                _scramble(prev[2])
            else:
                vals = unit.gen(rng)
            if mode != 'fresh' and unit.history_fixed:
                for k in unit.history_fixed:
                    if k in prev[0]:
                        vals[k] = copy.deepcopy(prev[0][k])
        except Exception:
            continue
        keep = {}
        use_prev = mode != 'fresh' and unit.native_obj is not None
        nat = native_check(unit, vals, obj=prev[1] if use_prev else None, keep=keep)
        # which enumerated case of the unit this input belongs to (run-time coverage per case is reported; a case whose
        # inputs are ALL rejected by the precondition was never replayed on the real code)
        label = ''
        if unit.cases and unit.cases != [{}]:
            keys = sorted(unit.cases[0].keys())
            label = ''.join('[%s=%s]' % (k, vals.get(k)) for k in keys)
        if nat['status'] == 'pre-false':
            stats['pre_false'][label] = stats['pre_false'].get(label, 0) + 1
            continue
        stats['ran'][label] = stats['ran'].get(label, 0) + 1
        tried += 1
        if nat['status'] == 'violation':
            out = {'inputs': vals, 'native': nat}
            if mode != 'fresh':
                out['history'] = [prev[0], vals]
                out['history_kind'] = mode
                nat['observed'] = 'second call (%s; first inputs in history[0]): %s' % (mode, nat.get('observed'))
            return out, tried
        prev = (vals, keep.get('obj'), keep.get('ret'))
    return None, tried


def prove_lemma(lem):
    c = Ctx('sym')
    out = []
    try:
        items = lem.build(c)
    except Exception as e:
        return [OblResult('lemma.%s' % lem.name, 'lemma', 0, 'error', 0.0, 'z3', traceback.format_exc(limit=5))], {}
    jobs = []
    from .core import Hinted
    for name, hyps, goal in items:
        hyps = list(hyps)
        if isinstance(goal, Hinted):
            hyps = hyps + [d for d in goal.defs if d is not True]
            base = list(hyps)
            for i, l in enumerate(goal.lemmas):
                jobs.append(('lemma.%s.%s.hint%d' % (lem.name, name, i), solve.to_smt2(c, hyps, l)))
                hyps = hyps + [l]
            if goal.final_uses is not None:
                hyps = base + goal.lemmas[len(goal.lemmas) - goal.final_uses:]
            goal = goal.goal
        jobs.append(('lemma.%s.%s' % (lem.name, name), solve.to_smt2(c, hyps, goal)))
    verdicts = solve.discharge(jobs, timeout_ms=lem.timeout_ms)
    for n, _ in jobs:
        v, dt, be, reason = verdicts[n]
        out.append(OblResult(n, 'lemma', 0, v, dt, be, reason))
    return out, dict(jobs)
