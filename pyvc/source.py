"""Locate the real source text under $TAUREX_REPO (default /repo) on every run.

What the mechanical extraction drops (and nothing else): decorators, docstrings, comments, type
annotations, import statements (resolved into a name table), logger calls, context managers of
`with np.errstate(...)` / `warnings.catch_warnings()` (body kept).  See DESIGN 2.1.
"""
import ast
import hashlib
import os

REPO = os.environ.get('TAUREX_REPO', '/repo')

_mod_cache = {}
_class_table = None


class ModuleInfo:
    def __init__(self, modname, path, text, tree):
        self.modname, self.path, self.text, self.tree = modname, path, text, tree
        self.imports = {}      # local name -> dotted target
        self.functions = {}    # top-level def name -> FunctionDef
        self.classes = {}      # class name -> ClassDef
        self.aliases = {}      # top-level  a = b  (Name = Name) bindings, e.g. interp_lin_only = interp_lin_numba
        self.consts = {}       # top-level  NAME = <literal>
        self.lines = text.splitlines()
        self.is_pkg = os.path.basename(path) == '__init__.py'
        for node in tree.body:
            collect_imports(node, self.imports, modname, self.is_pkg)
            if isinstance(node, ast.FunctionDef):
                self.functions[node.name] = node
            elif isinstance(node, ast.ClassDef):
                self.classes[node.name] = node
            elif isinstance(node, ast.Assign) and len(node.targets) == 1 and isinstance(node.targets[0], ast.Name) \
                    and isinstance(node.value, ast.Name):
                self.aliases[node.targets[0].id] = node.value.id
            elif isinstance(node, ast.Assign) and len(node.targets) == 1 and isinstance(node.targets[0], ast.Name):
                try:
                    self.consts[node.targets[0].id] = ast.literal_eval(node.value)
                except (ValueError, SyntaxError, TypeError):
                    pass


def collect_imports(node, table, modname, is_pkg=False):
    if isinstance(node, ast.Import):
        for a in node.names:
            table[a.asname or a.name.split('.')[0]] = a.name if a.asname else a.name.split('.')[0]
    elif isinstance(node, ast.ImportFrom):
        base = node.module or ''
        if node.level:
            pkg = modname.split('.')
            # a module's package is modname minus last component
            pkg = pkg[:len(pkg) - node.level + (1 if is_pkg else 0)]
            base = '.'.join(pkg + ([node.module] if node.module else []))
        for a in node.names:
            table[a.asname or a.name] = base + '.' + a.name


def module_path(modname):
    p = os.path.join(REPO, *modname.split('.'))
    if os.path.isdir(p):
        return os.path.join(p, '__init__.py')
    return p + '.py'


def load_module(modname):
    if modname in _mod_cache:
        return _mod_cache[modname]
    path = module_path(modname)
    with open(path, encoding='utf-8') as fh:
        text = fh.read()
    import warnings
    with warnings.catch_warnings():
        warnings.simplefilter('ignore')
        tree = ast.parse(text, filename=path)
    mi = ModuleInfo(modname, path, text, tree)
    _mod_cache[modname] = mi
    return mi


def find_function(qualname):
    """qualname 'pkg.mod:Class.method' / 'pkg.mod:func' / 'pkg.mod:outer.inner' (nested def).
    Returns (ModuleInfo, FunctionDef, enclosing ClassDef or None)."""
    modname, _, path = qualname.partition(':')
    mi = load_module(modname)
    parts = path.split('.')
    scope = mi.tree.body
    node = None
    cls = None
    for i, p in enumerate(parts):
        found = None
        if i == 0 and p in mi.aliases and p not in mi.functions and p not in mi.classes:
            p = mi.aliases[p]
        for n in scope:
            if isinstance(n, (ast.FunctionDef, ast.ClassDef)) and n.name == p:
                found = n      # last definition wins, as in Python
        if found is None and node is not None and isinstance(node, ast.FunctionDef):
            for n in ast.walk(node):
                if isinstance(n, ast.FunctionDef) and n.name == p and n is not node:
                    found = n
        if found is None:
            raise KeyError('cannot find %s in %s' % (path, mi.path))
        if isinstance(found, ast.ClassDef):
            cls = found
        node = found
        scope = found.body
    if not isinstance(node, ast.FunctionDef):
        raise KeyError('%s is not a function' % qualname)
    return mi, node, cls


def segment_info(mi, node):
    first = node.lineno
    last = node.end_lineno
    seg = '\n'.join(mi.lines[first - 1:last])
    return {'file': os.path.relpath(mi.path, REPO), 'first_line': first, 'last_line': last,
            'sha256': hashlib.sha256(seg.encode()).hexdigest()}


class ClassInfo:
    def __init__(self, name, modname, node):
        self.name, self.modname, self.node = name, modname, node
        self.bases = []
        for b in node.bases:
            if isinstance(b, ast.Name):
                self.bases.append(b.id)
            elif isinstance(b, ast.Attribute):
                self.bases.append(b.attr)
        self.methods = {}
        self.properties = set()
        for n in node.body:
            if isinstance(n, ast.FunctionDef):
                decs = [ast.unparse(d) for d in n.decorator_list]
                if any(d.endswith('.setter') for d in decs):
                    self.methods['%s.setter' % n.name] = n
                    continue
                self.methods[n.name] = n
                if any(d == 'property' or d.startswith('fitparam') or d.startswith('derivedparam') for d in decs):
                    self.properties.add(n.name)


def class_table():
    """every class defined under taurex/, by simple name (names are unique enough for the built-ins;
    a clash is recorded and resolved by module when asked)"""
    global _class_table
    if _class_table is not None:
        return _class_table
    tab = {}
    root = os.path.join(REPO, 'taurex')
    for d, _, files in os.walk(root):
        for f in files:
            if not f.endswith('.py'):
                continue
            path = os.path.join(d, f)
            rel = os.path.relpath(path, REPO)[:-3].replace(os.sep, '.')
            if rel.endswith('.__init__'):
                rel = rel[:-9]
            try:
                mi = load_module(rel)
            except SyntaxError:
                continue
            for name, node in mi.classes.items():
                tab.setdefault(name, []).append(ClassInfo(name, rel, node))
    _class_table = tab
    return tab


def get_class(name, modname=None):
    cands = class_table().get(name, [])
    if modname:
        for c in cands:
            if c.modname == modname:
                return c
    return cands[0] if cands else None


def mro(name, modname=None):
    out = []
    seen = set()

    def walk(n, m=None):
        ci = get_class(n, m)
        if ci is None or (ci.name, ci.modname) in seen:
            return
        seen.add((ci.name, ci.modname))
        out.append(ci)
        for b in ci.bases:
            walk(b)
    walk(name, modname)
    return out


def find_method(clsname, meth, after=None):
    """(ClassInfo, FunctionDef) of the first class in the mro defining meth; `after` skips up to and
    including that class (super())."""
    chain = mro(clsname)
    if after is not None:
        names = [c.name for c in chain]
        if after in names:
            chain = chain[names.index(after) + 1:]
    for ci in chain:
        if meth in ci.methods:
            return ci, ci.methods[meth]
    return None, None


_store_cache = {}


def class_stores_attr(clsname, attr):
    """does any class of the mro assign this attribute (self.<attr> = ... in a method, setattr(self, '<attr>', ...), or a
    class-level default)?  Then it is state of the object: a contract that does not describe it cannot assume
    anything about its value at entry (it depends on the history of calls on the object)."""
    key = (clsname, attr)
    if key in _store_cache:
        return _store_cache[key]
    found = False
    for ci in mro(clsname):
        for node in ast.walk(ci.node):
            if isinstance(node, ast.Attribute) and node.attr == attr and isinstance(node.ctx, (ast.Store, ast.Del)) \
                    and isinstance(node.value, ast.Name) and node.value.id == 'self':
                found = True
            elif isinstance(node, ast.Call) and isinstance(node.func, ast.Name) and node.func.id == 'setattr' and \
                    len(node.args) >= 2 and isinstance(node.args[1], ast.Constant) and node.args[1].value == attr:
                found = True
        for node in ci.node.body:
            if isinstance(node, (ast.Assign, ast.AnnAssign)):
                tg = node.targets if isinstance(node, ast.Assign) else [node.target]
                if any(isinstance(t, ast.Name) and t.id == attr for t in tg):
                    found = True
        if found:
            break
    _store_cache[key] = found
    return found


def reset():
    _store_cache.clear()
    global _class_table
    _mod_cache.clear()
    _class_table = None
