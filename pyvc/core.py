"""pyvc core: values, context (three interpretations of one contract text), spec operators.

Modes of a Ctx
  'sym'  : symbolic, unbounded -- sizes are z3 Ints, Forall/Sum are quantifiers / spec functions with
           unfolding axioms.  Obligations proved in this mode hold for all inputs (DESIGN 2).
  'bmc'  : bounded instance -- the sizes named in ctx.fixed are concrete, loops unroll, Forall/Sum
           expand, everything is quantifier free so z3 returns models (the falsifier, DESIGN 3).
  'conc' : concrete -- plain Python / numpy numbers; used to replay a model on the real function and
           to evaluate the same contract text at run time.
"""
import itertools
import math
import z3

INT, REAL, BOOL = z3.IntSort(), z3.RealSort(), z3.BoolSort()


class Unsupported(Exception):
    """source construct outside the verified subset -> UNDECIDED, never a violation"""


class EngineError(Exception):
    """contract / harness mistake -> exit 3"""


def is_sym(x):
    return isinstance(x, z3.ExprRef)


def to_real(x):
    if isinstance(x, bool):
        return z3.RealVal(1 if x else 0)
    if isinstance(x, int):
        return z3.RealVal(x)
    if isinstance(x, float):
        return real_const(x)
    if is_sym(x):
        if z3.is_int(x):
            return z3.ToReal(x)
        if z3.is_bool(x):
            return z3.If(x, z3.RealVal(1), z3.RealVal(0))
        return x
    raise EngineError('to_real(%r)' % (x,))


def real_const(x):
    """exact rational of the Python float's decimal repr (so 0.1 means 1/10, as written in the source)"""
    if x != x or x in (float('inf'), float('-inf')):
        raise Unsupported('nan/inf constant in real arithmetic')
    return z3.RealVal(repr(float(x)))


def to_int(x):
    if isinstance(x, bool):
        return z3.IntVal(int(x))
    if isinstance(x, int):
        return z3.IntVal(x)
    if is_sym(x) and z3.is_int(x):
        return x
    raise EngineError('to_int(%r)' % (x,))


def as_term(x):
    if is_sym(x):
        return x
    if isinstance(x, bool):
        return z3.BoolVal(x)
    if isinstance(x, int):
        return z3.IntVal(x)
    if isinstance(x, float):
        return real_const(x)
    raise EngineError('as_term(%r)' % (x,))


def conc_int(x):
    """python int if x is (or simplifies to) a concrete integer, else None"""
    if isinstance(x, bool):
        return int(x)
    if isinstance(x, int):
        return x
    if is_sym(x) and z3.is_int(x):
        s = z3.simplify(x)
        if z3.is_int_value(s):
            return s.as_long()
    return None


class Arr:
    """immutable symbolic n-d array value: shape (ints or z3 Ints) and an element closure"""
    __slots__ = ('shape', 'elem', 'kind', 'inv')

    def __init__(self, shape, elem, kind='real', inv=None):
        self.shape = tuple(shape)
        self.elem = elem
        self.kind = kind
        self.inv = inv            # for an index array known to be a permutation: its inverse (position of index j)

    @property
    def ndim(self):
        return len(self.shape)

    def __len__(self):
        raise EngineError('use c.Len(a) in contracts')

    def __getitem__(self, ix):
        if not isinstance(ix, tuple):
            ix = (ix,)
        if len(ix) < len(self.shape):        # partial index -> sub-array (row)
            k = len(ix)
            head = tuple(self._norm(i, d) for i, d in zip(ix, self.shape))
            return Arr(self.shape[k:], lambda jx, head=head: self.elem(head + tuple(jx)), self.kind)
        if len(ix) != len(self.shape):
            raise EngineError('index arity %d on %d-d array' % (len(ix), len(self.shape)))
        return self.elem(tuple(self._norm(i, d) for i, d in zip(ix, self.shape)))

    @staticmethod
    def _norm(i, d):
        if isinstance(i, int) and not isinstance(i, bool) and i < 0:
            return d + i
        return to_int(i) if not is_sym(i) else i


class Ref:
    """reference to a heap cell (arrays, objects, lists, dicts are all reference values)"""
    __slots__ = ('id',)

    def __init__(self, id):
        self.id = id

    def __repr__(self):
        return 'Ref(%d)' % self.id


class Obj:
    """heap content: instance of a repository class; attrs is copied on write"""
    __slots__ = ('cls', 'attrs')

    def __init__(self, cls, attrs):
        self.cls = cls
        self.attrs = dict(attrs)


class PyList:
    __slots__ = ('items',)

    def __init__(self, items):
        self.items = list(items)


class Ragged:
    """heap content: list of 1-D real arrays with a symbolic number of rows (built by append in a loop):
    n rows, rowlen(i) entries in row i, elem(i, j)"""
    __slots__ = ('n', 'rowlen', 'elem')

    def __init__(self, n, rowlen, elem):
        self.n, self.rowlen, self.elem = n, rowlen, elem

    def __getitem__(self, ix):
        i, j = ix
        return self.elem(i, j)


class PyDict:
    """dict with concrete hashable keys, insertion ordered"""
    __slots__ = ('items',)

    def __init__(self, items):
        self.items = dict(items)


class View:
    """Read-only window on a state for contracts: names / attributes resolve through the heap."""

    def __init__(self, ctx, env, heap, trace=None):
        object.__setattr__(self, '_c', ctx)
        object.__setattr__(self, '_env', env)
        object.__setattr__(self, '_heap', heap)
        object.__setattr__(self, '_trace', trace)

    def ghost(self, kind):
        """ghost results recorded by library models ON THIS PATH, in call order: e.g. 'searchsorted' -> [index, ...],
        'extreme' -> [(value, attaining index, array), ...] -- witnesses contracts may name in lemma chains"""
        return [y[1:] if len(y) > 2 else y[1] for tag, y in (self._trace or []) if tag == 'ghost' and y[0] == kind]

    def ghost_after(self, first_kind, kind):
        """ghost results of `kind` recorded on this path AFTER the first ghost of `first_kind` (e.g. the int() taken of
        something that depends on the result of a call)"""
        seen, out = False, []
        for tag, y in (self._trace or []):
            if tag != 'ghost':
                continue
            if seen and y[0] == kind:
                out.append(y[1:] if len(y) > 2 else y[1])
            if y[0] == first_kind:
                seen = True
        return out

    def wrap(self, v):
        return self._wrap(v)

    def _wrap(self, v):
        if isinstance(v, Ref):
            cell = self._heap[v.id]
            if type(cell).__name__ == 'ViewCell':
                base = self._wrap(cell.base)
                return Arr(cell.shape, lambda ix, base=base, cell=cell: base.elem(cell.mapfn(ix)), cell.kind)
            if isinstance(cell, Arr):
                return cell
            if isinstance(cell, Obj):
                return View(self._c, cell.attrs, self._heap)
            if isinstance(cell, PyList):
                return [self._wrap(x) for x in cell.items]
            if isinstance(cell, Ragged):
                return cell
            if isinstance(cell, PyDict):
                return {k: self._wrap(x) for k, x in cell.items.items()}
        if isinstance(v, View):
            return v
        if isinstance(v, tuple):
            return tuple(self._wrap(x) for x in v)
        if isinstance(v, list):
            return [self._wrap(x) for x in v]
        if type(v).__name__ == 'AbsObj':
            return View(self._c, v.attrs, self._heap)
        return v

    def __getattr__(self, name):
        env = object.__getattribute__(self, '_env')
        if name not in env:
            raise EngineError('contract reads unknown name %r (have %s)' % (name, sorted(env)[:30]))
        return self._wrap(env[name])

    __getitem__ = __getattr__

    def has(self, name):
        return name in self._env

    def ref(self, name):
        return self._env[name]


class CView:
    """concrete counterpart of View: a plain namespace over a dict"""

    def __init__(self, d):
        object.__setattr__(self, '_d', d)

    def __getattr__(self, name):
        d = object.__getattribute__(self, '_d')
        if name not in d:
            raise EngineError('contract reads unknown name %r (concrete)' % name)
        v = d[name]
        return CView(v) if isinstance(v, dict) and v.get('__obj__') else v

    __getitem__ = __getattr__

    def has(self, name):
        return name in self._d


class Hinted:
    """a goal with intermediate lemmas: each lemma is itself an obligation (proved from the path
    condition and the earlier lemmas), then the goal is proved from all of them"""

    def __init__(self, goal, lemmas, defs=(), skolems=(), final_uses=None):
        self.goal, self.lemmas, self.defs, self.skolems = goal, list(lemmas), list(defs), list(skolems)
        self.final_uses = final_uses      # None: the goal may use every lemma; k: only the last k lemmas

    def closed(self):
        """the proved statement as a hypothesis for later clauses: universal closure over the arbitrary
        constants the proof was done for (with the definitional equations as antecedent)"""
        g = self.goal
        while isinstance(g, (Hinted, Scoped)):
            g = g.goal
        if not is_sym(g):
            return g
        defs = [d for d in self.defs if d is not True]
        bound = list(self.skolems)
        for d in defs:
            bound.append(d.arg(0))
        if defs:
            g = z3.Implies(z3.And(*defs), g)
        return z3.ForAll(bound, g) if bound else g


class Pure:
    """a lemma of a hint chain that is proved from the listed hypotheses ONLY (plus the spec-function axioms), not
    from the path condition: keeps unfolding steps of spec sums away from the quantified facts of the state"""

    def __init__(self, goal, hyps=(), ground=False, guards=(), given=()):
        self.goal, self.hyps, self.ground = goal, list(hyps), ground
        self.guards = list(guards)      # index ranges of enclosing ForallH(...): the hypotheses are needed under them only
        self.given = list(given)


class Congr:
    """Sigma-congruence step of a hint chain: from  forall k in [lo,hi): f(k) == g(k)  (an obligation, proved from the
    current hypotheses) conclude  Sum(lo,hi,f) == Sum(lo,hi,g).  The rule itself is the induction proved once for
    arbitrary f, g as lemma `sum_congruence` (contracts/kernels.py)."""

    def __init__(self, pointwise, concl, hyps=None):
        self.pointwise, self.concl = pointwise, concl
        self.hyps = None if hyps is None else list(hyps)   # given: the pointwise step is proved from these facts only
        self.guards = []


class Scoped:
    """a goal proved from a slice of the hypotheses: tagged hypotheses (precondition clauses `pre.<name>`, loop
    invariant clauses `inv<k>.<name>`, callee postconditions `call.<callee>.<name>`, earlier clauses of the same
    conjunction `acc.<name>`) are kept only when they match `keep` (fnmatch patterns); untagged path conditions
    are always kept.  Dropping hypotheses is always sound; it keeps solver queries small and stable."""

    def __init__(self, goal, keep):
        self.goal, self.keep = goal, list(keep)

    def closed(self):
        return self.goal.closed() if isinstance(self.goal, Hinted) else self.goal


class SumFn:
    def __init__(self, f, body, arity, lo_hint=None):
        self.f = f            # z3 Function(Int lo, Int hi, *params) -> Real
        self.body = body      # python: body(k, *params) -> Real term
        self.arity = arity


class Ctx:
    TOL = 1e-6

    def __init__(self, mode='sym', fixed=None, values=None, rng=None):
        assert mode in ('sym', 'bmc', 'conc')
        self.mode = mode
        self.fixed = dict(fixed or {})
        self.values = dict(values or {})
        self.rng = rng
        self.inputs = []          # declaration order: (kind, name, extra)
        self._fresh = itertools.count()
        self._cell = itertools.count(1)
        self.sums = {}            # key -> SumFn
        self.sum_eqs = []         # proved extensionality facts (z3 Bool)
        self.qvars = []           # open quantified variables (for Sum parameter abstraction)
        self.uf = {}              # named uninterpreted functions
        self.assumed = []         # axioms about uninterpreted spec functions added by contracts

    # ---------------------------------------------------------------- inputs
    def fresh(self, base, sort=INT):
        return z3.Const('%s!%d' % (base, next(self._fresh)), sort)

    def int(self, name):
        if self.mode == 'conc':
            v = int(self.values[name])
        elif name in self.fixed:
            v = int(self.fixed[name])
        else:
            v = z3.Int(name)
        self.inputs.append(('int', name, None))
        return v

    def real(self, name):
        if self.mode == 'conc':
            v = float(self.values[name])
        else:
            v = z3.Real(name)
        self.inputs.append(('real', name, None))
        return v

    def bool(self, name):
        if self.mode == 'conc':
            v = bool(self.values[name])
        elif name in self.fixed:
            v = bool(self.fixed[name])
        else:
            v = z3.Bool(name)
        self.inputs.append(('bool', name, None))
        return v

    def array(self, name, shape, kind='real'):
        """declared input array; returns an Arr (sym/bmc) or a numpy array (conc)"""
        shape = tuple(shape)
        if self.mode == 'conc':
            import numpy as np
            v = np.array(self.values[name], dtype=float if kind == 'real' else int)
            v = v.reshape(tuple(int(s) for s in shape))
            self.inputs.append(('arr', name, (shape, None, kind)))
            return v
        rng = {'real': REAL, 'int': INT, 'bool': BOOL}[kind]
        f = z3.Function(name, *([INT] * len(shape) + [rng]))
        self.inputs.append(('arr', name, (shape, f, kind)))
        return Arr(shape, lambda ix, f=f: f(*[_ix(i) for i in ix]), kind)

    def fresh_array(self, base, shape, kind='real'):
        rng = {'real': REAL, 'int': INT, 'bool': BOOL}[kind]
        f = z3.Function('%s!%d' % (base, next(self._fresh)), *([INT] * len(shape) + [rng]))
        return Arr(tuple(shape), lambda ix, f=f: f(*[_ix(i) for i in ix]), kind)

    def choice(self, name):
        """value selected by the unit variant being verified (concrete in every mode)"""
        self.inputs.append(('choice', name, None))
        if self.mode == 'conc':
            return self.values[name]
        return self.fixed[name]

    def constant(self, name):
        """physical constant of taurex.constants (values come from astropy): symbolic and positive in proofs
        (so everything proved holds for any positive value), the real number when replaying"""
        if self.mode == 'conc':
            import importlib
            return float(getattr(importlib.import_module('taurex.constants'), name))
        k = z3.Real('K_' + name)
        if name not in self.uf:
            self.uf[name] = k
            self.assumed.append(k > 0)
            if name == 'PI':
                self.assumed.append(z3.And(k > z3.RealVal('3.14159'), k < z3.RealVal('3.1416')))
        return k

    def unitfactor(self, a, b):
        """astropy conversion factor a -> b: an unknown positive constant per unit pair (1 for equal units) in
        proofs, the real number when replaying"""
        if self.mode == 'conc':
            import importlib
            return float(importlib.import_module('taurex.util.util').conversion_factor(a, b))
        if a == b:
            return z3.RealVal(1)
        k = z3.Real('cf_%s_%s' % (a, b))
        if ('cf', a, b) not in self.uf:
            self.uf[('cf', a, b)] = k
            self.assumed.append(k > 0)
        return k

    def func(self, name, *sorts):
        """named uninterpreted spec function (e.g. an abstract cross-section table)"""
        if self.mode == 'conc':
            f = getattr(self, 'concrete_funcs', {}).get(name)
            if f is None:
                raise EngineError('uninterpreted function %s has no concrete meaning' % name)
            return f
        if name not in self.uf:
            self.uf[name] = z3.Function(name, *sorts)
        return self.uf[name]

    # ---------------------------------------------------------------- logic
    def And(self, *xs):
        xs = [x for x in _flat(xs)]
        if self.mode == 'conc' or not any(is_sym(x) for x in xs):
            return all(bool(x) for x in xs)
        xs = [x for x in xs if is_sym(x) or not x]
        return z3.And(*[as_term(x) for x in xs]) if xs else True

    def Or(self, *xs):
        xs = [x for x in _flat(xs)]
        if self.mode == 'conc' or not any(is_sym(x) for x in xs):
            return any(bool(x) for x in xs)
        if any((not is_sym(x)) and x for x in xs):
            return True
        return z3.Or(*[x for x in xs if is_sym(x)])

    def Not(self, x):
        return z3.Not(x) if is_sym(x) else (not x)

    def Implies(self, a, b):
        """b may be a zero-argument callable (evaluated only when needed: guards partial specs concretely)"""
        if not is_sym(a):
            if not a:
                return True
            return b() if callable(b) else b
        if callable(b):
            b = b()
        if not is_sym(b):
            return True if b else z3.Not(a)
        return z3.Implies(a, b)

    def If(self, cnd, a, b):
        if not is_sym(cnd):
            return a if cnd else b
        a, b = _unify(a, b)
        return z3.If(cnd, a, b)

    def IsNan(self, a):
        if type(a).__name__ == 'NanRef':
            return True
        if is_sym(a):
            return False
        try:
            return bool(a != a)
        except (TypeError, ValueError):
            return False

    def Eq(self, a, b, scale=None):
        """equality; when replaying on floats: |a-b| <= TOL*max(|a|,|b|,scale).  `scale` is the magnitude of the
        terms that cancel in a or b (a difference of large numbers is only accurate relative to them)"""
        if type(a).__name__ == 'NanRef' or type(b).__name__ == 'NanRef':
            return False
        if self.mode == 'conc' or not (is_sym(a) or is_sym(b)):
            if scale is not None and not isinstance(a, (bool, str)) and a is not None:
                try:
                    if abs(a) == float('inf') or abs(b) == float('inf'):
                        return a == b
                    return abs(a - b) <= self.TOL * max(abs(a), abs(b), abs(scale))
                except TypeError:
                    pass
            return _close(a, b, self.TOL)
        a, b = _unify(a, b)
        return a == b

    def Le(self, a, b):
        if self.mode == 'conc' or not (is_sym(a) or is_sym(b)):
            return a <= b or _close(a, b, self.TOL)
        a, b = _unify(a, b)
        return a <= b

    def Lt(self, a, b):
        if self.mode == 'conc' or not (is_sym(a) or is_sym(b)):
            return a < b
        a, b = _unify(a, b)
        return a < b

    def Max(self, a, b):
        if not (is_sym(a) or is_sym(b)):
            return max(a, b)
        a, b = _unify(a, b)
        return z3.If(a >= b, a, b)

    def Min(self, a, b):
        if not (is_sym(a) or is_sym(b)):
            return min(a, b)
        a, b = _unify(a, b)
        return z3.If(a <= b, a, b)

    def Abs(self, a):
        if not is_sym(a):
            return abs(a)
        return z3.If(a >= 0, a, -a)

    def Real(self, a):
        return float(a) if self.mode == 'conc' else to_real(a)

    # ---------------------------------------------------------------- quantifiers
    def Forall(self, lo, hi, f):
        """for all integers k with lo <= k < hi: f(k)"""
        clo, chi = conc_int(lo), conc_int(hi)
        if self.mode == 'conc' or (clo is not None and chi is not None and chi - clo <= 64):
            return self.And(*[f(k) for k in range(clo, chi)])
        k = self.fresh('q')
        self.qvars.append(k)
        try:
            body = f(k)
        finally:
            self.qvars.pop()
        if not is_sym(body):
            return True if body else self.Not(self.And(to_int(lo) <= k, k < to_int(hi)))  # pragma: no cover
        return z3.ForAll([k], z3.Implies(z3.And(to_int(lo) <= k, k < to_int(hi)), body))

    def Forall2(self, r0, r1, f):
        """one quantifier over both indices (better triggers than two nested quantifiers)"""
        c0 = (conc_int(r0[0]), conc_int(r0[1]))
        c1 = (conc_int(r1[0]), conc_int(r1[1]))
        if self.mode == 'conc' or (None not in c0 and None not in c1 and (c0[1] - c0[0]) * (c1[1] - c1[0]) <= 256):
            return self.Forall(r0[0], r0[1], lambda i: self.Forall(r1[0], r1[1], lambda j: f(i, j)))
        i, j = self.fresh('q'), self.fresh('q')
        self.qvars.extend([i, j])
        try:
            body = f(i, j)
        finally:
            self.qvars.pop()
            self.qvars.pop()
        rng = z3.And(to_int(r0[0]) <= i, i < to_int(r0[1]), to_int(r1[0]) <= j, j < to_int(r1[1]))
        if not is_sym(body):
            return True if body else z3.ForAll([i, j], z3.Not(rng))
        return z3.ForAll([i, j], z3.Implies(rng, body))

    def Forall2Dep(self, r0, r1, f):
        """forall i in [r0), j in [r1(i)): f(i, j) -- the second range may depend on i; one quantifier"""
        c0 = (conc_int(r0[0]), conc_int(r0[1]))
        if self.mode == 'conc' or None not in c0:
            return self.And(*[self.Forall(r1(i)[0], r1(i)[1], lambda j, i=i: f(i, j)) for i in range(c0[0], c0[1])])
        i, j = self.fresh('q'), self.fresh('q')
        self.qvars.extend([i, j])
        try:
            body = f(i, j)
        finally:
            self.qvars.pop()
            self.qvars.pop()
        lo1, hi1 = r1(i)
        rng = z3.And(to_int(r0[0]) <= i, i < to_int(r0[1]), to_int(lo1) <= j, j < to_int(hi1))
        return z3.ForAll([i, j], z3.Implies(rng, body))

    def ForallAdj(self, lo, hi, f):
        """for all q with lo <= q < hi:  f(q, q+1).  In 'sym' mode the successor is a second bound variable
        tied by r == q+1, so instantiation needs BOTH terms to exist already: no matching loop (an adjacent
        fact written with f(q+1) under a pattern on f(q) creates f(q+1), f(q+2), ... for ever)."""
        clo, chi = conc_int(lo), conc_int(hi)
        if self.mode == 'conc' or (clo is not None and chi is not None and chi - clo <= 64):
            return self.And(*[f(k, k + 1) for k in range(clo, chi)])
        q, r = self.fresh('q'), self.fresh('r')
        self.qvars.extend([q, r])
        try:
            body = f(q, r)
        finally:
            self.qvars.pop()
            self.qvars.pop()
        return z3.ForAll([q, r], z3.Implies(z3.And(to_int(lo) <= q, q < to_int(hi), r == q + 1), body))

    def ForallInt(self, f):
        """for all integers k (no range) -- sym only; used for frame clauses"""
        if self.mode != 'sym':
            raise EngineError('ForallInt in bounded mode')
        k = self.fresh('q')
        self.qvars.append(k)
        try:
            body = f(k)
        finally:
            self.qvars.pop()
        return z3.ForAll([k], body)

    def Exists(self, lo, hi, f):
        clo, chi = conc_int(lo), conc_int(hi)
        if self.mode == 'conc' or (clo is not None and chi is not None and chi - clo <= 64):
            return self.Or(*[f(k) for k in range(clo, chi)])
        k = self.fresh('e')
        body = f(k)
        return z3.Exists([k], z3.And(to_int(lo) <= k, k < to_int(hi), body))

    def Sum(self, lo, hi, f):
        """sum_{k=lo}^{hi-1} f(k)  (0 when hi <= lo)"""
        clo, chi = conc_int(lo), conc_int(hi)
        if self.mode == 'conc':
            return math.fsum(f(k) for k in range(clo, chi))
        if clo is not None and chi is not None and chi - clo <= 64:
            acc = z3.RealVal(0)
            for k in range(clo, chi):
                acc = acc + to_real(f(k))
            return acc
        if self.mode == 'bmc':
            raise EngineError('Sum with symbolic bounds in a bounded instance: fix the size (%s,%s)' % (lo, hi))
        depth = getattr(self, '_sumdepth', 0)
        K = z3.Int('k?%d' % depth)
        self._sumdepth = depth + 1
        try:
            body = to_real(f(K))
        finally:
            self._sumdepth = depth
        # Lambda-lift: every free Int/Real constant of the body (quantified variables still open, loop
        # constants, inputs, an enclosing Sum's index) becomes a parameter, in first-occurrence order of the
        # un-simplified term.  Two uses of the same spec text therefore share one spec function whatever
        # their arguments are, and congruence relates them.
        params = _kfree_maximal(body, K)
        # canonical names (independent of nesting depth) so that equal spec text gives ONE spec function
        ph = [z3.Const('p?%d' % i, q.sort()) for i, q in enumerate(params)]
        Kc = z3.Int('k?')
        nb = z3.substitute(body, (K, Kc), *zip(params, ph))
        K = Kc
        key = nb.sexpr()
        if key not in self.sums:
            fn = z3.Function('Sum!%d' % len(self.sums), *([INT, INT] + [q.sort() for q in params] + [REAL]))

            def bodyfn(k, *ps, nb=nb, ph=ph, K=K):
                return z3.substitute(nb, (K, k), *zip(ph, ps))
            self.sums[key] = SumFn(fn, bodyfn, len(params))
            self.sums[key].sorts = [q.sort() for q in params]
        return self.sums[key].f(to_int(lo), to_int(hi), *params)

    def sum_axioms(self):
        ax = []
        for s in self.sums.values():
            a, b = z3.Ints('a? b?')
            ps = [z3.Const('ps?%d' % i, srt) for i, srt in enumerate(s.sorts)]
            app = s.f(a, b, *ps)
            ax.append(z3.ForAll([a, b] + ps, z3.Implies(b <= a, app == 0), patterns=[app]))
            ax.append(z3.ForAll([a, b] + ps, z3.Implies(b > a, app == s.f(a, b - 1, *ps) + s.body(b - 1, *ps)),
                                patterns=[app]))
        if getattr(self, 'sum_split', False):
            # S(a,c) = S(a,b) + S(b,c) for a <= b <= c: follows from the two unfolding axioms by induction on c
            # (lemma sum_split in contracts/kernels.py proves base and step); instantiated only for existing terms
            for s in self.sums.values():
                a, b, c_ = z3.Ints('a? b? c?')
                ps = [z3.Const('ps?%d' % i, srt) for i, srt in enumerate(s.sorts)]
                ax.append(z3.ForAll([a, b, c_] + ps, z3.Implies(z3.And(a <= b, b <= c_),
                                                                s.f(a, c_, *ps) == s.f(a, b, *ps) + s.f(b, c_, *ps)),
                                    patterns=[z3.MultiPattern(s.f(a, b, *ps), s.f(a, c_, *ps))]))
        return ax + list(self.sum_eqs)

    # ---------------------------------------------------------------- transcendental
    def _uf1(self, name):
        if name not in self.uf:
            self.uf[name] = z3.Function(name, REAL, REAL)
        return self.uf[name]

    def exp(self, x):
        return math.exp(x) if not is_sym(x) and self.mode == 'conc' else self._uf1('u_exp')(to_real(x))

    def ln(self, x):
        return math.log(x) if not is_sym(x) and self.mode == 'conc' else self._uf1('u_ln')(to_real(x))

    def log10(self, x):
        return math.log10(x) if not is_sym(x) and self.mode == 'conc' else self._uf1('u_log10')(to_real(x))

    def sqrt(self, x):
        return math.sqrt(x) if not is_sym(x) and self.mode == 'conc' else self._uf1('u_sqrt')(to_real(x))

    def inf(self):
        """+infinity: an opaque positive constant in proofs (only equalities of the form x == y + inf are claimed
        about it), float('inf') when replaying"""
        if self.mode == 'conc':
            return float('inf')
        k = z3.Real('K_inf')
        if 'K_inf' not in self.uf:
            self.uf['K_inf'] = k
            self.assumed.append(k > 0)
        return k

    def pow(self, a, b):
        """a**b for a non-integer exponent: uninterpreted in proofs"""
        if self.mode == 'conc' and not (is_sym(a) or is_sym(b)):
            return a ** b
        return self.func('u_pow', REAL, REAL, REAL)(to_real(a), to_real(b))

    def expn(self, n, x):
        """exponential integral E_n(x): uninterpreted in proofs, scipy when replaying"""
        if self.mode == 'conc' and not is_sym(x):
            from scipy.special import expn
            return float(expn(n, x))
        return self.func('u_expn', INT, REAL, REAL)(to_int(n), to_real(x))

    def probit(self, x):
        if not is_sym(x) and self.mode == 'conc':
            from scipy.stats import norm
            return float(norm.ppf(x))
        return self._uf1('u_probit')(to_real(x))

    def pow10(self, x):
        return 10.0 ** x if not is_sym(x) and self.mode == 'conc' else self._uf1('u_pow10')(to_real(x))

    # ---------------------------------------------------------------- arrays in contracts
    def ForallH(self, lo, hi, f):
        """forall lo <= i < hi with per-element lemmas: f(i) -> goal or hint(goal, *lemmas).  In 'sym' mode the
        index is ONE fresh constant shared by the lemma chain (proving for an arbitrary constant proves the
        universal), so every lemma obligation is ground."""
        clo, chi = conc_int(lo), conc_int(hi)
        if self.mode == 'conc' or (clo is not None and chi is not None and chi - clo <= 64):
            outs = [f(k) for k in range(clo, chi)]
            goal = self.And(*[(o.goal if isinstance(o, Hinted) else o) for o in outs])
            hinted = [o for o in outs if isinstance(o, Hinted)]
            if not hinted or self.mode == 'conc' or getattr(self, 'assuming', False):
                return goal
            # a concrete range: the lemma chains of all its instances, one after the other
            lemmas, defs, skolems = [], [], []
            for o in hinted:
                lemmas += list(o.lemmas)
                defs += list(o.defs)
                skolems += list(o.skolems)
            fu = sum(o.final_uses for o in hinted) if all(o.final_uses is not None for o in hinted) and len(hinted) == 1 else None
            return Hinted(goal, lemmas, defs, skolems, fu)
        if getattr(self, 'assuming', False):
            # a callee's postcondition assumed at a call site is the real universal statement
            return self.Forall(lo, hi, lambda k: (lambda o: o.goal if isinstance(o, Hinted) else o)(f(k)))
        i = self.fresh('i')
        rng = z3.And(to_int(lo) <= i, i < to_int(hi))
        o = f(i)
        if isinstance(o, Scoped):
            raise EngineError('scope(...) goes outside ForallH(...)')
        if isinstance(o, Hinted):
            return self._guard(rng, o, [i])
        return Hinted(self.Implies(rng, o), [], (), [i])

    def _guard(self, rng, o, sk):
        def wrap(l):
            if isinstance(l, Pure):
                return Pure(self.Implies(rng, l.goal), l.hyps, l.ground, [rng] + l.guards, l.given)
            if isinstance(l, Congr):
                r = Congr(self.Implies(rng, l.pointwise), self.Implies(rng, l.concl), l.hyps)
                r.guards = [rng] + l.guards
                return r
            if isinstance(l, Hinted):
                return self._guard(rng, l, [])
            return self.Implies(rng, l)
        return Hinted(self.Implies(rng, o.goal), [wrap(l) for l in o.lemmas], o.defs, sk + o.skolems, o.final_uses)

    def scope(self, goal, *keep):
        if self.mode != 'sym':
            return goal          # bounded instances keep every hypothesis so that models are valid inputs
        return Scoped(goal, keep)

    def pure(self, goal, *hyps):
        return Pure(goal, hyps) if self.mode == 'sym' else goal

    def sum_step(self, lo, hi, f):
        """ground instance of the defining (peel-last) axiom of the spec sum:  hi > lo  ==>
        Sum(lo, hi, f) == Sum(lo, hi-1, f) + f(hi-1).  Valid by definition of Sum; used as a hypothesis of ground
        lemmas (Ctx.pure_ground) so that an unfolding step does not involve the quantified axioms at all."""
        if self.mode != 'sym':
            return True
        app = self.Sum(lo, hi, f)
        if not (is_sym(app) and z3.is_app(app)):
            return True
        sf = None
        for s in self.sums.values():
            if s.f.eq(app.decl()):
                sf = s
        if sf is None:
            return True
        ps = list(app.children())[2:]
        lo_t, hi_t = app.arg(0), app.arg(1)
        r = z3.Implies(hi_t > lo_t, app == sf.f(lo_t, hi_t - 1, *ps) + sf.body(hi_t - 1, *ps))
        if not hasattr(self, 'axiom_inst'):
            self.axiom_inst = []
        self.axiom_inst.append(r)
        return r

    def congr(self, lo, hi, f, g, given=None):
        if self.mode != 'sym':
            return True
        return Congr(self.Forall(lo, hi, lambda k: to_real(f(k)) == to_real(g(k))), self.Sum(lo, hi, f) == self.Sum(lo, hi, g), given)

    def sum_between(self, lo, hi, f, L, H, given=None):
        """bounding step of a hint chain: from  forall k in [lo,hi): L <= f(k) <= H  (an obligation) conclude
        lo <= hi  ==>  (hi-lo) L <= Sum(lo,hi,f) <= (hi-lo) H.  The rule is lemma `sum_between` (contracts/kernels.py)."""
        if self.mode != 'sym':
            return True
        S = self.Sum(lo, hi, f)
        n = to_real(to_int(hi) - to_int(lo))
        return Congr(self.Forall(lo, hi, lambda k: z3.And(to_real(L) <= to_real(f(k)), to_real(f(k)) <= to_real(H))),
                     z3.Implies(to_int(lo) <= to_int(hi), z3.And(n * to_real(L) <= S, S <= n * to_real(H))), given)

    def wsum_between(self, lo, hi, w, x, L, H, given=None):
        """weighted-mean step of a hint chain: from  forall k in [lo,hi): w(k) >= 0 and L <= x(k) <= H  (an obligation)
        conclude  L*Sum(w) <= Sum(w*x) <= H*Sum(w).  The rule is lemma `weighted_mean_between_min_and_max`."""
        if self.mode != 'sym':
            return True
        W = self.Sum(lo, hi, w)
        X = self.Sum(lo, hi, lambda k: w(k) * x(k))
        return Congr(self.Forall(lo, hi, lambda k: z3.And(to_real(w(k)) >= 0, to_real(L) <= to_real(x(k)), to_real(x(k)) <= to_real(H))),
                     z3.Implies(to_int(lo) <= to_int(hi), z3.And(to_real(L) * W <= X, X <= to_real(H) * W, W >= 0)), given)

    def sum_scale(self, lo, hi, f, a):
        """Sum(lo,hi, a*f) == a*Sum(lo,hi,f)  (lemma `sum_scaling`); no obligation of its own"""
        if self.mode != 'sym':
            return True
        return Congr(z3.BoolVal(True), self.Sum(lo, hi, lambda k: to_real(a) * to_real(f(k))) == to_real(a) * self.Sum(lo, hi, f))

    def sum_dominates(self, lo, hi, f, k, given=None):
        """from  forall q in [lo,hi): f(q) >= 0  (obligation) conclude  Sum(lo,hi,f) >= 0  and, for lo <= k < hi,
        Sum(lo,hi,f) >= f(k)  (lemma `sum_dominates`)"""
        if self.mode != 'sym':
            return True
        S = self.Sum(lo, hi, f)
        return Congr(self.Forall(lo, hi, lambda q: to_real(f(q)) >= 0),
                     z3.And(z3.Implies(to_int(lo) <= to_int(hi), S >= 0),
                            z3.Implies(z3.And(to_int(lo) <= to_int(k), to_int(k) < to_int(hi)), S >= to_real(f(k)))), given)

    def under(self, hyp, goal, consts=()):
        """a goal (with its lemma chain) proved under an extra hypothesis for arbitrary `consts`:  the statement is
        forall consts: hyp ==> goal; every lemma of the chain is proved, and used, under hyp"""
        if self.mode != 'sym':
            return goal
        if not isinstance(goal, Hinted):
            goal = Hinted(goal, [], (), [])
        return self._guard(hyp, goal, list(consts))

    def pure_ground(self, goal, *hyps):
        return Pure(goal, hyps, ground=True) if self.mode == 'sym' else goal

    def hint(self, goal, *lemmas, defs=(), final_uses=None):
        if self.mode == 'conc':
            return goal
        return Hinted(goal, lemmas, defs, (), final_uses)

    def define(self, name, term):
        """definitional extension for lemma chains: a fresh constant equal to `term` (keeps compound
        non-linear subterms atomic for the solver).  Returns (constant, defining equation); the equation is
        passed to hint(..., defs=[...]) and is sound because the constant occurs nowhere else."""
        if self.mode == 'conc' or not is_sym(term):
            return term, True
        k = self.fresh(name, term.sort())
        return k, (k == term)

    def Len(self, a):
        if isinstance(a, Ragged) or type(a).__name__ == 'SeqV':
            return a.n
        if isinstance(a, (list, tuple)):
            return len(a)
        return a.shape[0]

    def RowLen(self, a, i):
        """length of row i of a list of 1-D arrays"""
        if isinstance(a, Ragged):
            return a.rowlen(i)
        row = a[conc_int(i)]
        return row.shape[0] if hasattr(row, 'shape') else len(row)

    def At2(self, a, i, j):
        if isinstance(a, Ragged):
            return a.elem(i, j)
        return a[conc_int(i)][j]

    def Shape(self, a):
        return tuple(a.shape)


def _ix(i):
    """index argument of an array function in canonical (simplified) form, so that k+1-1 and k are one term"""
    if not is_sym(i):
        return to_int(i)
    return z3.simplify(i, som=True) if not z3.is_const(i) else i


def _flat(xs):
    for x in xs:
        if isinstance(x, (list, tuple)):
            for y in _flat(x):
                yield y
        else:
            yield x


def _kfree_maximal(t, K):
    """maximal Int/Real subterms of t that do not mention the summation index K (numerals excluded), in
    first-occurrence order: the parameters a spec Sum is lambda-lifted over"""
    kid = K.get_id()
    has = {}

    def contains(x):
        i = x.get_id()
        if i in has:
            return has[i]
        if i == kid:
            r = True
        elif z3.is_quantifier(x):
            r = contains(x.body())
        elif z3.is_app(x):
            r = any(contains(ch) for ch in x.children())
        else:
            r = False
        has[i] = r
        return r
    out, seen = [], set()

    def walk(x):
        i = x.get_id()
        if z3.is_quantifier(x):
            return            # bound structure: left in place
        if (z3.is_int(x) or z3.is_real(x)) and not contains(x):
            if z3.is_int_value(x) or z3.is_rational_value(x) or z3.is_algebraic_value(x):
                return
            if i not in seen:
                seen.add(i)
                out.append(x)
            return
        if z3.is_app(x):
            for ch in x.children():
                walk(ch)
    walk(t)
    return out


def _free_consts(t, exclude=None):
    """free uninterpreted Int/Real constants of t in first-occurrence (DFS, argument) order"""
    out, seen = [], set()
    ex = exclude.get_id() if exclude is not None else None

    def walk(x):
        i = x.get_id()
        if i in seen:
            return
        seen.add(i)
        if z3.is_quantifier(x):
            walk(x.body())
            return
        if z3.is_const(x):
            if x.decl().kind() == z3.Z3_OP_UNINTERPRETED and i != ex and (z3.is_int(x) or z3.is_real(x)):
                out.append(x)
            return
        if z3.is_app(x):
            for ch in x.children():
                walk(ch)
    walk(t)
    return out


def _occurs(v, t):
    seen = set()
    stack = [t]
    vid = v.get_id()
    while stack:
        x = stack.pop()
        i = x.get_id()
        if i in seen:
            continue
        seen.add(i)
        if i == vid:
            return True
        if z3.is_quantifier(x):
            stack.append(x.body())
        else:
            stack.extend(x.children())
    return False


def _unify(a, b):
    """bring two scalars to a common z3 sort"""
    if not is_sym(a) and not is_sym(b):
        return a, b
    ar = (is_sym(a) and z3.is_real(a)) or isinstance(a, float)
    br = (is_sym(b) and z3.is_real(b)) or isinstance(b, float)
    ab = (is_sym(a) and z3.is_bool(a)) or isinstance(a, bool)
    bb = (is_sym(b) and z3.is_bool(b)) or isinstance(b, bool)
    if ab and bb:
        return as_term(a), as_term(b)
    if ar or br:
        return to_real(a), to_real(b)
    return as_term(a), as_term(b)


def _close(a, b, tol):
    try:
        import numpy as np
        if isinstance(a, np.ndarray) or isinstance(b, np.ndarray):
            return bool(np.allclose(a, b, rtol=tol, atol=1e-300, equal_nan=True))
    except ImportError:      # pragma: no cover
        pass
    if isinstance(a, (bool, str)) or isinstance(b, (bool, str)) or a is None or b is None:
        return a == b
    if a == b:
        return True
    try:
        if a != a and b != b:
            return True
        if a in (float('inf'), float('-inf')) or b in (float('inf'), float('-inf')):
            return False
        return abs(a - b) <= tol * max(abs(a), abs(b)) + 1e-300
    except TypeError:
        return a == b
