"""./check driver: decides one property with the contracts in /verif/contracts against $TAUREX_REPO.

exit 0  every obligation discharged (known findings reported as KNOWN-FINDING lines)
exit 1  VIOLATION property=<id> replay=<file> [no-failing-input-found]
exit 2  UNDECIDED (proof lost / unsupported construct / solver resource) -- never a VIOLATION line
exit 3  checker crash or engine/real-code disagreement
"""
import argparse
import fnmatch
import glob
import hashlib
import importlib
import json
import os
import sys
import time
import traceback

HERE = os.path.dirname(os.path.dirname(os.path.abspath(__file__)))
sys.path.insert(0, HERE)

from pyvc import unit as U          # noqa: E402
from pyvc import solve, source      # noqa: E402

LOCK = os.path.join(HERE, 'contracts', 'MANIFEST.lock')
KNOWN = os.path.join(HERE, 'known_findings.json')

GLOBAL_ASSUMPTIONS = [
    'float = real: machine arithmetic treated as mathematical reals / unbounded integers (no rounding, overflow, NaN '
    'except where a contract models it)',
    'numba compiles the decorated Python text with Python semantics on the verified subset; decorators are dropped '
    'by the extraction',
    'Python semantics subset of DESIGN 2.2 (logger calls effect-free, dict insertion order, no integer overflow)',
    'transcendental functions are uninterpreted with the ground axiom instances of DESIGN 2.6',
    'solvers z3 5.1 / cvc5 1.0.3 trusted',
    'pyvc (the VC generator in /verif/pyvc) itself; mitigated by native replay of every counter-model and the '
    'run-time evaluation of the same contract text on the real functions',
]


def quiet_logging():
    import logging
    logging.disable(logging.CRITICAL)


def load_contracts():
    quiet_logging()
    mods = sorted(glob.glob(os.path.join(HERE, 'contracts', '*.py')))
    for m in mods:
        name = os.path.basename(m)[:-3]
        if name.startswith('_'):
            continue
        importlib.import_module('contracts.' + name)


def load_json(path, default):
    try:
        with open(path) as fh:
            return json.load(fh)
    except (OSError, ValueError):
        return default


def known_for(prop):
    return [k for k in load_json(KNOWN, []) if k.get('property') == prop and k.get('status') == 'known']


def match_known(known, unit_short, name, inputs=None):
    """a known finding is identified by unit + failing obligation AND, when the entry says so (`where`), by the specific
    input that fails: a different input failing the same obligation is still a violation"""
    for k in known:
        if k.get('unit') == unit_short and any(fnmatch.fnmatch(name, pat) for pat in k.get('obligations', [])):
            where = k.get('where')
            if where:
                if not isinstance(inputs, dict) or any(inputs.get(a) != b for a, b in where.items()):
                    continue
            return k
    return None


def write_replay(prop, unit, payload):
    d = os.path.join(HERE, 'replays')
    os.makedirs(d, exist_ok=True)
    h = hashlib.sha256(json.dumps(payload, sort_keys=True, default=str).encode()).hexdigest()[:10]
    path = os.path.join(d, '%s-%s-%s.json' % (prop, unit.replace(':', '_').replace('.', '_'), h))
    payload['replay_cmd'] = './check %s --replay %s' % (prop, os.path.relpath(path, HERE))
    with open(path, 'w') as fh:
        json.dump(payload, fh, indent=1, default=str)
    return os.path.relpath(path, HERE)


def do_replay(prop, path):
    load_contracts()
    p = load_json(os.path.join(HERE, path) if not os.path.isabs(path) else path, None)
    if p is None:
        print('cannot read replay file', path)
        return 3
    print('replay of %s: unit %s obligation %s' % (prop, p.get('unit'), p.get('obligation')))
    if p.get('kind') == 'bounded':
        for b in U.BOUNDED:
            if b.name == p.get('unit'):
                r = b.replay(p.get('inputs')) if b.replay else {'status': 'no replay function'}
                print(json.dumps(r, indent=1, default=str))
                return 1 if r.get('status') == 'violation' else 0
    if not p.get('inputs'):
        print('no failing input was found; solver output recorded in the file:')
        print(json.dumps(p.get('solver'), indent=1))
        return 1
    u = U.REGISTRY.get(p['qualname'])
    if u is None:
        print('unit no longer registered')
        return 3
    if p.get('history'):
        keep = {}
        U.native_check(u, p['history'][0], keep=keep)
        if p.get('history_kind') == 'same-after-caller-modified-result':
            U._scramble(keep.get('ret'))
        nat = U.native_check(u, p['history'][1], obj=keep.get('obj'))
    else:
        nat = U.native_check(u, p['inputs'])
    print(json.dumps(nat, indent=1, default=str))
    return 1 if nat['status'] == 'violation' else 0


def run_property(prop, tier, seed, only=None, dump=None):
    t0 = time.time()
    load_contracts()
    lock = load_json(LOCK, {})
    known = known_for(prop)
    units = [u for u in U.REGISTRY.values() if prop in u.props and not u.trusted]
    trusted_units = [u for u in U.REGISTRY.values() if u.trusted]
    lemmas = [l for l in U.LEMMAS if prop in l.props]
    bounded = [b for b in U.BOUNDED if prop in b.props]
    if only:
        units = [u for u in units if any(o in u.key for o in only)]
    nrand = 25 if tier == 'quick' else 1500
    all_obls = []          # (unit short, OblResult)
    functions = []
    violations = []        # replay paths
    undecided = []
    crashes = []
    known_hits = []
    lib_used = set()
    inlined = set()
    bmc_info = []
    cross = {'functions': 0, 'inputs': 0, 'disagreements': 0}
    solver_s = 0.0
    by_backend = {}
    covers = {}
    canaries = []
    callee_trusted = set()
    disagreements = []

    for u in units:
        res = U.verify_unit(u, tier=tier, dump_dir=dump)
        if res.source:
            functions.append(res.source)
        lib_used.update(res.lib_used)
        for nt in getattr(res, 'notes', []):
            if isinstance(nt, str) and nt.startswith('callee without contract'):
                inlined.add(nt)
        covers[u.short] = res.covers
        if res.canary:
            canaries.append(dict(unit=u.short, **res.canary))
        for o in res.obls:
            all_obls.append((u.short, o))
            solver_s += o.seconds
            by_backend[o.backend] = by_backend.get(o.backend, 0) + (1 if o.verdict == 'unsat' else 0)
        failed = res.failed
        lk = lock.get(u.short, {})
        # ---- vacuity guard on obligation counts
        if not res.error and not res.obls:
            crashes.append('%s: zero obligations generated' % u.short)
        if not res.error and res.source and lk.get('sha256') == res.source['sha256'] and \
                lk.get('deps', {}) == res.deps and sorted(lk.get('obligations', [])) != sorted(o.name for o in res.obls):
            crashes.append('%s: obligation set differs from the lock although the source hash is unchanged' % u.short)
        if res.canary and res.canary['negated_goal_verdict'] == 'unsat' and not failed:
            crashes.append('%s: canary %s: the negated postcondition is provable (inconsistent hypotheses)'
                           % (u.short, res.canary['obligation']))
        # ---- run-time evaluation of the same contract on the real function (cross-check / falsifier step 3)
        rf, tried = (None, 0)
        try:
            rf, tried = U.random_falsify(u, seed, nrand)
        except Exception:
            crashes.append('%s: native harness crashed: %s' % (u.short, traceback.format_exc(limit=4)))
        cross['functions'] += 1 if tried else 0
        cross['inputs'] += tried
        ns = getattr(u, '_native_stats', None)
        if ns is not None:
            never = sorted(k for k in ns['pre_false'] if k not in ns['ran'] and ns['pre_false'][k] >= 5)
            cross.setdefault('per_unit', {})[u.short] = {'ran': sum(ns['ran'].values()), 'rejected_by_precondition': sum(ns['pre_false'].values()),
                                                         'cases_never_replayed': never}
            if never and not res.error:
                crashes.append('%s: the run-time replay never got past the precondition for case(s) %s: harness or precondition wrong'
                               % (u.short, ', '.join(never)))
        if not failed and not res.error:
            if rf is not None:
                k = match_known(known, u.short, rf['native']['failed'][0])
                if k:
                    known_hits.append((k, 'native ' + rf['native']['failed'][0]))
                elif rf.get('history'):
                    # the proof is about one call on an object in its declared state; the same function violates
                    # its contract on an object left over from an earlier call (state carried between calls)
                    path = write_replay(prop, u.short, dict(property=prop, unit=u.short, qualname=u.key,
                                                            obligation=rf['native']['failed'][0], inputs=rf['inputs'],
                                                            history=rf['history'], history_kind=rf.get('history_kind'), native=rf['native'],
                                                            note='violated on the second call on the same object'))
                    violations.append((path, ''))
                else:
                    cross['disagreements'] += 1
                    path = write_replay(prop, u.short, dict(property=prop, unit=u.short, qualname=u.key,
                                                            obligation=rf['native']['failed'][0], inputs=rf['inputs'],
                                                            history=rf.get('history'), history_kind=rf.get('history_kind'),
                                                            native=rf['native'], solver='all obligations discharged',
                                                            note='contract violated at run time although the proof '
                                                                 'went through: engine or model unsound'))
                    # the real function breaks its contract on a concrete input although every obligation generated
                    # from its text was discharged: something the extraction drops or a library model assumes away
                    # (logger-call arguments, NaN, aliasing) matters here.  The violation itself is real and replayed.
                    violations.append((path, ''))
                    disagreements.append('%s: proved but violated natively, see %s' % (u.short, path))
            continue
        # ---- something is not discharged
        names = [o.name for o in failed]
        unknown_to_known = [n for n in names if not match_known(known, u.short, n)]
        for n in names:
            k = match_known(known, u.short, n)
            if k:
                known_hits.append((k, n))
        if res.error and res.error[0] == 'engine':
            k = match_known(known, u.short, 'engine')
            changed = bool(res.source) and lk.get('sha256') not in (None, res.source['sha256'])
            if not k and changed and 'contract reads unknown name' in res.error[1]:
                # the function was edited and a local the loop invariant / ghost clause names is gone (e.g. renamed): the
                # contract no longer fits the text -- nothing is decided by proof; the run-time contract still speaks
                res.error = ('unsupported', 'the contract names a local variable the edited function no longer has: ' + res.error[1][-160:])
            elif not k and changed and 'EngineError' in res.error[1]:
                # the function was edited and now reads state / names the contract's description of its inputs does not
                # provide (an attribute of a parameter object, a variable of the enclosing function): the contract no longer
                # fits the text.  On the pinned text (hash = lock) the same message would be a checker error.
                res.error = ('unsupported', 'the edited function reads something the contract does not describe: ' + res.error[1][-200:])
            elif not k:
                crashes.append('%s: %s' % (u.short, res.error[1]))
        if not unknown_to_known and not res.error:
            continue
        # falsifier: bounded instance -> model -> native replay
        found, tried_b, notes = ([], 0, [])
        try:
            found, tried_b, notes = U.bmc_falsify(u)
        except Exception:
            notes = ['bounded falsifier crashed: ' + traceback.format_exc(limit=4)]
        bmc_info.append({'unit': u.short, 'queries': tried_b, 'models': len(found), 'notes': notes})
        hit = next((f for f in found if f['native']['status'] == 'violation'), None)
        if hit and match_known(known, u.short, hit['native']['failed'][0]):
            known_hits.append((match_known(known, u.short, hit['native']['failed'][0]), hit['native']['failed'][0]))
            hit = None
        if hit is None and rf is not None and not match_known(known, u.short, rf['native']['failed'][0]):
            hit = {'obligation': (names or ['?'])[0], 'inputs': rf['inputs'], 'native': rf['native'], 'sizes': 'random',
                   'history': rf.get('history'), 'history_kind': rf.get('history_kind')}
        if hit is None and (tier == 'thorough' or res.error or unknown_to_known):
            # nothing decided by proof for this function: search the run-time contract harder (histories included)
            rf2, t2 = U.random_falsify(u, seed + 1, 3000 if tier == 'thorough' else 600)
            cross['inputs'] += t2
            if rf2 is not None and not match_known(known, u.short, rf2['native']['failed'][0]):
                hit = {'obligation': (names or ['?'])[0], 'inputs': rf2['inputs'], 'native': rf2['native'], 'sizes': 'random',
                       'history': rf2.get('history'), 'history_kind': rf2.get('history_kind')}
        failing_desc = [o.as_dict() for o in failed]
        if hit is not None:
            path = write_replay(prop, u.short, dict(property=prop, unit=u.short, qualname=u.key,
                                                    obligation=hit['obligation'], failing_obligations=failing_desc,
                                                    engine_error=res.error, inputs=hit['inputs'],
                                                    native=hit['native'], sizes=hit.get('sizes'),
                                                    history=hit.get('history'), history_kind=hit.get('history_kind'),
                                                    source=res.source))
            violations.append((path, ''))
            continue
        if res.error:
            undecided.append('%s: %s: %s' % (u.short, res.error[0], res.error[1]))
            continue
        # retry the still-open obligations serially with a longer budget (resource, not semantics)
        retry = [(n, res.smt[n]) for n in unknown_to_known if n in res.smt] if tier == 'thorough' else []
        v2 = solve.discharge(retry, nproc=min(4, max(1, len(retry))), timeout_ms=u.timeout_ms * 3) if retry else {}
        still = []
        for n in unknown_to_known:
            if v2.get(n, ('?',))[0] == 'unsat':
                for o in res.obls:
                    if o.name == n:
                        o.verdict, o.backend = 'unsat', v2[n][2] + '(retry)'
                        o.seconds += v2[n][1]
            else:
                still.append(n)
        if not still:
            continue
        locked = set(lk.get('obligations', []))
        kinds = {o.name: o.kind for o in res.obls}       # names of enumerated cases carry a [case] prefix: classify by kind
        sem = [n for n in still if U.is_semantic(kinds.get(n, n)) and n in locked]
        edited = bool(res.source) and lk.get('sha256') not in (None, res.source['sha256'])
        guessed = any(isinstance(nt, str) and nt.startswith('loop invariants matched by position') for nt in getattr(res, 'notes', []))
        inv_init_lost = any(kinds.get(n, n).startswith('inv') and '.init' in kinds.get(n, n) for n in still)
        if sem and edited and (guessed or inv_init_lost):
            # the text was edited and a loop invariant does not even hold on entry to its loop (or had to be matched to a loop by
            # position): the ANNOTATION no longer fits the text, so the obligations that depend on it say nothing about the
            # property -- and no failing input was found on the real code.  Undecided, not a violation.
            undecided.append('%s: loop invariants no longer fit the edited text (%s); nothing reproduced natively'
                             % (u.short, ', '.join(n for n in still if kinds.get(n, n).startswith('inv'))[:200] or 'matched by position'))
        elif sem:
            solver_out = {n: [o.as_dict() for o in res.obls if o.name == n][0] for n in sem}
            path = write_replay(prop, u.short, dict(property=prop, unit=u.short, qualname=u.key,
                                                    obligation=sem[0], failing_obligations=failing_desc,
                                                    solver=solver_out, inputs=None, falsifier_notes=notes,
                                                    bounded_models=[{'obligation': f['obligation'],
                                                                     'native': f['native']} for f in found],
                                                    source=res.source,
                                                    note='obligation discharged on the pinned tree is no longer '
                                                         'discharged; no failing input reproduced natively'))
            violations.append((path, ' no-failing-input-found'))
        else:
            undecided.append('%s: proof lost: %s' % (u.short, ', '.join(still)))

    # a caller proved against a callee contract that the callee's code breaks is violated natively too; that
    # is a consequence, reported at the callee -- a disagreement counts only when everything else is clean
    if disagreements:
        for d_ in disagreements:
            print('NOTE %s (an assumption of the extraction or of a library model does not hold for this input)' % d_)

    # ---- lemmas
    for lem in lemmas:
        rs, smt = U.prove_lemma(lem)
        for o in rs:
            all_obls.append(('lemma', o))
            solver_s += o.seconds
            by_backend[o.backend] = by_backend.get(o.backend, 0) + (1 if o.verdict == 'unsat' else 0)
            if o.verdict != 'unsat':
                if o.verdict == 'error':
                    crashes.append('lemma %s: %s' % (o.name, o.reason))
                else:
                    undecided.append('lemma %s: %s %s' % (o.name, o.verdict, o.reason))

    # ---- thorough: every obligation again on cvc5
    cvc5_cross = None
    if tier == 'thorough':
        pass

    # ---- bounded stand-ins (never counted as proved)
    bounded_out = []
    for b in bounded:
        try:
            r = b.run(seed, tier)
        except Exception:
            crashes.append('bounded item %s crashed: %s' % (b.name, traceback.format_exc(limit=5)))
            continue
        entry = {'item': b.name, 'bound': r.get('bound', b.bound), 'cases': r.get('cases', 0),
                 'failures': len(r.get('failures', [])), 'samples': r.get('samples', [])[:3]}
        bounded_out.append(entry)
        for f in r.get('failures', []):
            k = match_known(known, b.name, f.get('clause', ''), f.get('inputs'))
            if k:
                known_hits.append((k, 'bounded ' + f.get('clause', '')))
                continue
            path = write_replay(prop, b.name, dict(property=prop, unit=b.name, kind='bounded',
                                                   obligation=f.get('clause'), inputs=f.get('inputs'),
                                                   native=f))
            violations.append((path, ''))
            break

    # ---- verdict + evidence
    n_obl = len(all_obls)
    known_names = set()
    for k, n in known_hits:
        known_names.add(n)
    considered = [(s, o) for s, o in all_obls if not match_known(known, s, o.name)]
    discharged = sum(1 for s, o in considered if o.verdict == 'unsat')
    slow = sorted(considered, key=lambda so: -so[1].seconds)[:3]
    samples = [{'unit': s, **o.as_dict()} for s, o in (considered[:3] + slow)]
    trusted_base = sorted('library model: ' + x for x in lib_used) + \
        sorted('assumed contract (trusted unit): ' + t.short for t in trusted_units if prop in t.props) + \
        sorted({'assumed (abstract) contract of an out-of-reach callee: %s, used by %s' % (k, u.short) for u in units for k in (u.abstract or {})})
    ev = {
        'property_id': prop, 'tier': tier, 'seed': int(seed), 'level': 'proof',
        'coverage': {
            'obligations': len(considered), 'discharged': discharged,
            'checker_cmd': './check %s --tier %s' % (prop, tier),
            'trusted_base': trusted_base,
            'samples': samples,
            'functions': functions,
            'functions_under_contract': len(functions),
            'lemmas': [l.name for l in lemmas],
            'callees_executed_in_place': sorted(inlined),
            'by_backend': by_backend, 'solver_s': round(solver_s, 3),
            'cover_checks': covers, 'canaries': canaries,
            'crosscheck': cross,
            'bounded': bounded_out,
            'bounded_falsifier': bmc_info,
            'known_findings': sorted({k['what'] for k, _ in known_hits}),
            'known_finding_obligations': sorted(known_names),
            'undecided': undecided,
            'explanation': 'obligations generated by /verif/pyvc from the current text of the listed functions '
                           '(sha256 per function) and discharged by SMT; bounded[] items are run-time contract '
                           'checks with the stated bound and are NOT counted in obligations/discharged',
        },
        'assumptions': GLOBAL_ASSUMPTIONS + [t.doc for t in trusted_units if prop in t.props and t.doc],
        'wall_s': round(time.time() - t0, 2),
        'violations': len(violations),
    }
    os.makedirs(os.path.join(HERE, 'evidence'), exist_ok=True)
    if not only and not os.environ.get('VERIF_NO_EVIDENCE'):
        with open(os.path.join(HERE, 'evidence', '%s.json' % prop), 'w') as fh:
            json.dump(ev, fh, indent=1, default=str)
    seen = set()
    for k, n in known_hits:
        if k['what'] not in seen:
            seen.add(k['what'])
            print('KNOWN-FINDING: property=%s %s' % (prop, k['what']))
    print('%s %s: %d functions, %d lemmas, obligations %d discharged %d, bounded items %d, %.1fs'
          % (prop, tier, len(functions), len(lemmas), len(considered), discharged, len(bounded_out), time.time() - t0))
    for path, suffix in violations:
        print('VIOLATION property=%s replay=%s%s' % (prop, path, suffix))
    if violations:
        return 1
    if crashes:
        for c in crashes:
            print('CHECKER-ERROR %s' % c)
        return 3
    if undecided:
        for u_ in undecided:
            print('UNDECIDED %s' % u_)
        return 2
    if not considered and not bounded_out:
        print('CHECKER-ERROR no obligations at all for %s' % prop)
        return 3
    return 0


def make_lock():
    load_contracts()
    lock = {}
    for u in U.REGISTRY.values():
        if u.trusted:
            continue
        res = U.verify_unit(u)
        if res.error:
            print('lock: %s not buildable: %s' % (u.short, res.error))
            continue
        lock[u.short] = {'sha256': res.source['sha256'], 'deps': res.deps, 'obligations': sorted(o.name for o in res.obls),
                         'discharged': sorted(o.name for o in res.obls if o.verdict == 'unsat'),
                         'max_seconds': round(max([o.seconds for o in res.obls] or [0]), 3)}
        bad = [o.name for o in res.obls if o.verdict != 'unsat']
        print('lock: %-60s %3d obligations%s' % (u.short, len(res.obls), (' NOT DISCHARGED: %s' % bad) if bad else ''))
    with open(LOCK, 'w') as fh:
        json.dump(lock, fh, indent=1, sort_keys=True)


def main():
    ap = argparse.ArgumentParser()
    ap.add_argument('prop')
    ap.add_argument('--tier', default=os.environ.get('VERIF_TIER', 'quick'))
    ap.add_argument('--replay')
    ap.add_argument('--only', action='append')
    ap.add_argument('--dump')
    a = ap.parse_args()
    seed = int(os.environ.get('VERIF_SEED', '0') or 0)
    try:
        if a.prop == 'lock':
            make_lock()
            return 0
        if a.prop == 'list':
            load_contracts()
            for u in U.REGISTRY.values():
                print(u.props, u.key, 'trusted' if u.trusted else '')
            return 0
        if a.replay:
            return do_replay(a.prop, a.replay)
        return run_property(a.prop, a.tier if a.tier in ('quick', 'thorough') else 'quick', seed, a.only, a.dump)
    except SystemExit:
        raise
    except Exception:
        traceback.print_exc()
        print('CHECKER-ERROR crash')
        return 3


if __name__ == '__main__':
    sys.exit(main())
