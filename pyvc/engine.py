"""pyvc engine: symbolic execution of real function text against contracts -> named obligations.

Strongest-postcondition style with path splitting at symbolic branches; loops are cut by the
invariants of the unit under verification ('sym' mode) or unrolled ('bmc' mode, concrete extents);
calls to repository functions are replaced by the callee's contract (assert requires, havoc frame,
assume ensures); library calls use the assumed models of pyvc.lib.
"""
import ast
import z3

from .core import (Arr, Ref, Obj, PyList, PyDict, Ragged, View, Ctx, Hinted, Scoped, Pure, Congr, Unsupported, EngineError, is_sym, to_real,
                   to_int, as_term, conc_int, real_const, _unify, INT, REAL, BOOL)
from . import source

LOGGER_METHODS = {'debug', 'info', 'warning', 'error', 'critical', 'error_and_raise'}
UNROLL_LIMIT = 24


class Obl:
    __slots__ = ('name', 'kind', 'hyps', 'goal', 'line', 'note', 'ground')

    def __init__(self, name, kind, hyps, goal, line=0, note='', ground=False):
        self.name, self.kind, self.hyps, self.goal, self.line, self.note = name, kind, list(hyps), goal, line, note
        self.ground = ground


class ExcV:
    """raised exception value: class name (+ args ignored)"""

    def __init__(self, cls, line=0):
        self.cls, self.line = cls, line

    def __repr__(self):
        return 'ExcV(%s@%d)' % (self.cls, self.line)


class FuncV:
    """callable value: nested def / lambda closure, repository function, bound method, library function"""

    def __init__(self, kind, target, self_val=None, env=None, mi=None, after=None):
        self.kind, self.target, self.self_val, self.env, self.mi, self.after = kind, target, self_val, env, mi, after

    def __eq__(self, other):
        # two references to the same class are the same value (`mol_type in contrib_types`, `.index(mol_type)`)
        if isinstance(other, FuncV) and self.kind == 'class' and other.kind == 'class':
            return self.target == other.target
        return self is other

    def __hash__(self):
        return hash((self.kind, self.target)) if self.kind == 'class' else id(self)


class ModV:
    """module alias value (np, math, ...)"""

    def __init__(self, dotted):
        self.dotted = dotted


class SuperV:
    def __init__(self, self_val, after):
        self.self_val, self.after = self_val, after


class AbsObj:
    """abstract object of a repository class identified by a symbolic integer (element of a
    symbolic-length sequence of objects); behaviour only through abstract contracts"""

    def __init__(self, cls, ident, attrs=None):
        self.cls, self.ident, self.attrs = cls, ident, attrs or {}


class ViewCell:
    """heap content: a numpy basic-index view (a[i], a[lo:hi], a[:, None], a[::-1]) of another array cell.
    Reading it re-derives the elements from the CURRENT content of the base, so writes to the base are seen
    through the view, as in numpy.  Writing through a view is supported for 1-D slice views (a[lo:hi], a[::-1]): the
    base cell is updated at the positions the view covers (State.put); other views: outside the subset."""
    __slots__ = ('base', 'shape', 'mapfn', 'kind', 'plan')

    def __init__(self, base, shape, mapfn, kind, plan=None):
        self.base, self.shape, self.mapfn, self.kind = base, tuple(shape), mapfn, kind
        self.plan = plan


class State:
    def __init__(self, env=None, heap=None, pc=None, ver=None, views=None, trace=None, tags=None):
        self.tags = tags if tags is not None else {}       # id of a pc term -> tag (see core.Scoped)
        self.consumer_envs = []        # generator support: environments of suspended consumers
        self.env = env if env is not None else {}
        self.heap = heap if heap is not None else {}
        self.pc = pc if pc is not None else []
        self.ver = ver if ver is not None else {}
        self.views = views if views is not None else {}   # view cell id -> (base id, base version)
        self.trace = trace if trace is not None else []   # effect trace (ghost)

    def fork(self):
        s = State(dict(self.env), dict(self.heap), list(self.pc), dict(self.ver), dict(self.views),
                  list(self.trace), dict(self.tags))
        s.consumer_envs = [dict(e) for e in self.consumer_envs]
        return s

    def alloc(self, c, content):
        i = next(c._cell)
        self.heap[i] = content
        self.ver[i] = 0
        return Ref(i)

    def get(self, ref):
        cell = self.heap[ref.id]
        if isinstance(cell, ViewCell):
            base = self.get(cell.base)
            return Arr(cell.shape, lambda ix, base=base, cell=cell: base.elem(cell.mapfn(ix)), cell.kind)
        return cell

    def put(self, ref, content):
        cell = self.heap.get(ref.id)
        if isinstance(cell, ViewCell):
            plan = cell.plan
            if not (plan is not None and len(plan) == 1 and plan[0][0] == 's' and isinstance(content, Arr) and content.ndim == 1):
                raise Unsupported('write through a view that is not a 1-D slice')
            _, start, n, step = plan[0]
            base = self.get(cell.base)
            if base.ndim != 1:
                raise Unsupported('write through a view that is not a 1-D slice')

            def el(jx, base=base, content=content, start=start, n=n, step=step):
                j = jx[0]
                i = _sub(j, start) if step == 1 else _sub(start, j)
                inside = z3.And(to_int(i) >= 0, to_int(i) < to_int(n)) if (is_sym(i) or is_sym(n)) else (0 <= i < n)
                if inside is True:
                    return content.elem((i,))
                if inside is False:
                    return base.elem(jx)
                x, y = _unify(content.elem((i,)), base.elem(jx))
                return z3.If(inside, x, y)
            self.put(cell.base, Arr(base.shape, el, 'real' if 'real' in (base.kind, content.kind) else base.kind))
            return
        self.heap[ref.id] = content
        self.ver[ref.id] = self.ver.get(ref.id, 0) + 1

    def assume(self, *conds, tag=None):
        for x in conds:
            if x is True:
                continue
            if x is False:
                self.pc.append(z3.BoolVal(False))
            else:
                self.pc.append(x)
                if tag:
                    self.tags[x.get_id()] = tag

    def assume_named(self, prefix, named):
        for k, g in (named() if callable(named) else named):
            g = g.closed() if isinstance(g, (Hinted, Scoped)) else g
            self.assume(g, tag='%s.%s' % (prefix, k))


def _mulk(i, k):
    return i * k if not is_sym(i) else to_int(i) * k


def exc_is_subclass(name, handler):
    if handler in (None, 'Exception', 'BaseException') or name == handler:
        return True
    builtin = {'ZeroDivisionError': 'ArithmeticError', 'KeyError': 'LookupError', 'IndexError': 'LookupError',
               'FloatingPointError': 'ArithmeticError', 'OverflowError': 'ArithmeticError'}
    seen = set()
    cur = name
    while cur and cur not in seen:
        seen.add(cur)
        if cur == handler:
            return True
        ci = source.get_class(cur)
        if ci is not None and ci.bases:
            cur = ci.bases[0]
        else:
            cur = builtin.get(cur)
    return False


class Exec:
    def __init__(self, ctx, unit, registry, safety=('index', 'div')):
        self.c = ctx
        self.unit = unit
        self.registry = registry     # qualname -> Unit  (callee contracts)
        self.obls = []
        self.counts = {}
        self.loopno = 0
        self.safety = set(safety)
        self.mi = None
        self.cur_class = None
        self.covers = []             # (name, pc) reachability checks
        self.notes = []
        self._dec = [[[], 0]]
        self._consumers = []

    # ------------------------------------------------------------------ obligations
    def oblige(self, kind, st, goal, node=None, note=''):
        n = self.counts.get(kind, 0)
        self.counts[kind] = n + 1
        name = '%s#%d' % (kind, n)
        line = getattr(node, 'lineno', 0) if node is not None else 0
        hyps = list(st.pc)
        if isinstance(goal, Scoped):
            import fnmatch
            keep = goal.keep
            hyps = [h for h in hyps if h.get_id() not in st.tags
                    or any(fnmatch.fnmatch(st.tags[h.get_id()], pat) for pat in keep)]
            goal = goal.goal
        if isinstance(goal, Hinted):
            hyps, goal = self._chain(name, kind, hyps, goal, line, note)
        if goal is True:
            goal = z3.BoolVal(True)
        elif goal is False:
            goal = z3.BoolVal(False)
        self.obls.append(Obl(name, kind, hyps, goal, line, note))
        return name

    def _chain(self, name, kind, hyps, goal, line, note):
        """obligations of a lemma chain; returns (hypotheses for the final goal, final goal).  A lemma that is itself a
        chain (c.hint / c.ForallH inside the lemma list) is proved the same way under the current hypotheses and then
        used as its universal closure over the arbitrary constants it was proved for."""
        hyps = hyps + [d for d in goal.defs if d is not True]
        base = hyps
        lems = []
        for i, lem in enumerate(goal.lemmas):
            hn = '%s.hint%d' % (name, i)
            if isinstance(lem, Hinted):
                h2, g2 = self._chain(hn, kind, hyps, lem, line, note)
                if g2 is True:
                    continue
                self.obls.append(Obl(hn, kind, h2, g2 if is_sym(g2) else as_term(g2), line, note))
                lem = lem.closed()
            elif isinstance(lem, Congr):
                if lem.hyps is None:
                    self.obls.append(Obl(hn, kind, hyps, lem.pointwise, line, note))
                else:
                    self.obls.append(Obl(hn, kind, [h for h in lem.hyps if h is not True], lem.pointwise, line, note, ground=True))
                    self._given(hn, kind, hyps, lem, line, note)
                lem = lem.concl
            elif isinstance(lem, Pure):
                self.obls.append(Obl(hn, kind, [h for h in lem.hyps if h is not True], lem.goal, line, note, ground=lem.ground))
                self._given(hn, kind, hyps, lem, line, note)
                lem = lem.goal
            else:
                lem = as_term(lem) if not is_sym(lem) else lem
                self.obls.append(Obl(hn, kind, hyps, lem, line, note))
            hyps = hyps + [lem]
            lems.append(lem)
        if goal.final_uses is not None:
            hyps = base + lems[len(lems) - goal.final_uses:]
        return hyps, goal.goal

    def _given(self, hn, kind, hyps, lem, line, note):
        """the listed hypotheses of a Pure lemma / a Congr step with `given` are facts only if they follow from what is
        known at this point of the chain (instances of the defining axiom of a spec sum are valid by definition)"""
        ph = [h for h in lem.hyps if h is not True and is_sym(h)
              and not any(h.eq(x) for x in getattr(self.c, 'axiom_inst', []))]
        if any(h is False for h in lem.hyps):
            ph.append(z3.BoolVal(False))
        if ph:
            g = z3.And(*ph) if len(ph) > 1 else ph[0]
            for r in reversed(lem.guards):
                g = z3.Implies(r, g)
            self.obls.append(Obl(hn + '.given', kind, hyps, g, line, note))

    def oblige_all(self, kind, st, goals, node=None):
        """named clauses are proved in order, each one with the earlier clauses as extra hypotheses
        (a conjunction proved left to right)"""
        if isinstance(goals, dict):
            acc = st.fork()
            for k, g in goals.items():
                self.oblige('%s.%s' % (kind, k), acc, g, node)
                gg = g.closed() if isinstance(g, (Hinted, Scoped)) else g
                if gg is not True:
                    acc.assume(as_term(gg) if not is_sym(gg) else gg, tag='acc.%s' % k)
        elif isinstance(goals, (list, tuple)):
            for i, g in enumerate(goals):
                self.oblige(kind, st, g, node)
        else:
            self.oblige(kind, st, goals, node)

    # ------------------------------------------------------------------ entry
    def run(self, mi, fndef, cls, st, args):
        """execute fndef with positional/keyword binding already done in st.env; returns outcomes"""
        self.mi = mi
        self.cur_class = cls.name if cls is not None else None
        self.fn_imports = dict(mi.imports)
        # parameters of the function under contract as bound at entry, ghost parameters included: abstract handlers read ghost
        # state from HERE, not from the environment of whatever (inlined) callee happens to make the call
        self.root_env = dict(st.env)
        outs = self.exec_block(fndef.body, st)
        res = []
        for s, k, p in outs:
            if k == 'next':
                res.append((s, 'return', None))
            elif k in ('break', 'continue', 'genbreak'):
                raise EngineError('%s outside loop' % k)
            else:
                res.append((s, k, p))
        return res

    # ------------------------------------------------------------------ statements
    def exec_block(self, stmts, st):
        outs = []
        cur = [st]
        for s in stmts:
            nxt = []
            for state in cur:
                for (s2, k, p) in self.exec_stmt(s, state):
                    if k == 'next':
                        nxt.append(s2)
                    else:
                        outs.append((s2, k, p))
            cur = nxt
            if not cur:
                break
        outs.extend((s, 'next', None) for s in cur)
        return outs

    def exec_stmt(self, node, st, decisions=()):
        """One statement.  Expression-level branching (a callee contract with exceptional outcomes)
        is handled by re-executing the statement from a snapshot once per choice (`decide`)."""
        m = getattr(self, 'st_' + type(node).__name__, None)
        if m is None:
            raise Unsupported('statement %s at line %d' % (type(node).__name__, node.lineno))
        snapshot = st.fork()
        mark = (len(self.obls), dict(self.counts), self.loopno)
        self._dec.append([list(decisions), 0])
        try:
            return m(node, st)
        except _Raise as r:
            return [(r.state, 'raise', r.exc)]
        except Unsupported as e:
            # only the innermost statement sees the state of the path that met the construct
            if not getattr(e, 'checked', False) and not self.feasible(st, 2000):
                return []            # the construct was met on a dead path only
            e.checked = True
            raise
        except _Fork as f:
            del self.obls[mark[0]:]
            self.counts = mark[1]
            outs = []
            for choice in f.choices:
                self.loopno = mark[2]
                outs.extend(self.exec_stmt(node, snapshot.fork(), tuple(decisions) + (choice,)))
            return outs
        finally:
            self._dec.pop()

    def decide(self, choices):
        d = self._dec[-1]
        if d[1] < len(d[0]):
            ch = d[0][d[1]]
            d[1] += 1
            return ch
        raise _Fork(choices)

    def st_Pass(self, node, st):
        return [(st, 'next', None)]

    def st_Global(self, node, st):
        return [(st, 'next', None)]

    def st_Import(self, node, st):
        source.collect_imports(node, self.fn_imports, self.mi.modname)
        return [(st, 'next', None)]

    st_ImportFrom = st_Import

    def st_Expr(self, node, st):
        if isinstance(node.value, ast.Constant):
            return [(st, 'next', None)]
        if isinstance(node.value, (ast.Yield, ast.YieldFrom)):
            return self.do_yield(node.value, st)
        self.eval(node.value, st)
        return [(st, 'next', None)]

    def st_Assert(self, node, st):
        cond = self.truth(self.eval(node.test, st), st)
        self.oblige('assert', st, cond, node)
        st.assume(cond)
        return [(st, 'next', None)]

    def st_Return(self, node, st):
        v = self.eval(node.value, st) if node.value is not None else None
        return [(st, 'return', v)]

    def st_Raise(self, node, st):
        if node.exc is None:
            raise Unsupported('bare raise')
        e = node.exc
        if isinstance(e, ast.Call):
            e = e.func
        name = e.id if isinstance(e, ast.Name) else (e.attr if isinstance(e, ast.Attribute) else None)
        if name is None:
            raise Unsupported('raise of non-class expression')
        return [(st, 'raise', ExcV(name, node.lineno))]

    def st_Break(self, node, st):
        return [(st, 'break', None)]

    def st_Continue(self, node, st):
        return [(st, 'continue', None)]

    def st_FunctionDef(self, node, st):
        st.env[node.name] = FuncV('closure', node, env=st.env, mi=self.mi)
        return [(st, 'next', None)]

    def st_Delete(self, node, st):
        """del d[key] on a dictionary with concrete keys (KeyError when absent); del name"""
        for t in node.targets:
            if isinstance(t, ast.Name):
                st.env.pop(t.id, None)
            elif isinstance(t, ast.Subscript):
                base = self.eval(t.value, st)
                cell = st.get(base) if isinstance(base, Ref) else None
                if not isinstance(cell, PyDict):
                    raise Unsupported('del on %r' % (base,))
                k = self.eval(t.slice, st)
                if is_sym(k):
                    raise Unsupported('del with a symbolic key')
                if k not in cell.items:
                    raise _Raise(st, ExcV('KeyError', node.lineno))
                items = dict(cell.items)
                del items[k]
                st.put(base, PyDict(items))
            else:
                raise Unsupported('del %s' % type(t).__name__)
        return [(st, 'next', None)]

    def st_With(self, node, st):
        closers = []
        for it in node.items:
            txt = ast.unparse(it.context_expr)
            if txt.startswith('np.errstate') or txt.startswith('numpy.errstate') or 'catch_warnings' in txt:
                continue
            if txt.startswith('open(') and 'call:open' in self.unit.abstract:
                # with open(...) as f: the unit states what opening the file means (an abstract handle); closing has no
                # effect the contracts speak about
                call = it.context_expr
                args = [self.eval(a, st) for a in call.args]
                kw = {k.arg: self.eval(k.value, st) for k in call.keywords}
                v = self.unit.abstract['call:open'](self, st, args, kw, node)
                if it.optional_vars is not None:
                    self.assign(it.optional_vars, v, st, node)
                continue
            if isinstance(it.context_expr, ast.Call):
                v = None
                try:
                    v = self.eval(it.context_expr, st)
                except Unsupported:
                    v = None
                if isinstance(v, AbsObj):
                    # with <abstract resource> as f: the resource itself is what is bound (h5py.File, a lock ...); leaving the block
                    # is recorded as an event so that contracts can speak about it
                    if it.optional_vars is not None:
                        self.assign(it.optional_vars, v, st, node)
                    closers.append(v)
                    continue
            raise Unsupported('with %s' % txt)
        outs = self.exec_block(node.body, st)
        for s2, k, p in outs:
            for v in closers:
                s2.trace.append(('ev', ('exit', v.cls, v.ident)))
        return outs

    def st_Assign(self, node, st):
        v = self.eval(node.value, st)
        for t in node.targets:
            self.assign(t, v, st, node)
        return [(st, 'next', None)]

    def st_AnnAssign(self, node, st):
        if node.value is not None:
            self.assign(node.target, self.eval(node.value, st), st, node)
        return [(st, 'next', None)]

    def assign(self, t, v, st, node):
        if isinstance(t, ast.Name):
            st.env[t.id] = v
        elif isinstance(t, (ast.Tuple, ast.List)):
            items = self.unpack(v, len(t.elts), st, node)
            for tt, vv in zip(t.elts, items):
                self.assign(tt, vv, st, node)
        elif isinstance(t, ast.Attribute):
            base = self.eval(t.value, st)
            self.setattr(base, t.attr, v, st, node)
        elif isinstance(t, ast.Subscript):
            base = self.eval(t.value, st)
            self.store(base, t.slice, v, st, node)
        else:
            raise Unsupported('assignment target %s' % type(t).__name__)

    def unpack(self, v, n, st, node):
        if isinstance(v, tuple):
            items = list(v)
        elif isinstance(v, Ref) and isinstance(st.get(v), PyList):
            items = list(st.get(v).items)
        elif isinstance(v, Ref) and isinstance(st.get(v), Arr):
            a = st.get(v)
            k = conc_int(a.shape[0])
            if k is None:
                raise Unsupported('unpacking array of symbolic length')
            items = [self.index_arr(v, [ast.Constant(i)], st, node, pre=[i]) for i in range(k)]
        else:
            raise Unsupported('unpack of %r' % (v,))
        if len(items) != n:
            raise _Raise(st, ExcV('ValueError', node.lineno))
        return items

    def setattr(self, base, attr, v, st, node):
        if isinstance(base, Ref) and isinstance(st.get(base), Obj):
            o = st.get(base)
            ci, setter = source.find_method(o.cls, attr + '.setter')
            if setter is not None and attr not in o.attrs:
                self.inline_call(ci, setter, [base, v], {}, st, node)
                return
            new = Obj(o.cls, o.attrs)
            new.attrs[attr] = v
            st.put(base, new)
            return
        raise Unsupported('attribute store on %r' % (base,))

    def st_AugAssign(self, node, st):
        t = node.target
        rhs = self.eval(node.value, st)
        if isinstance(t, ast.Name):
            cur = st.env.get(t.id, _MISSING)
            if cur is _MISSING:
                raise EngineError('augassign to unbound %s' % t.id)
            if isinstance(cur, Ref) and isinstance(st.get(cur), Arr):
                # numpy in-place: the *cell* changes, every alias sees it
                res = self.binop(node.op, cur, rhs, st, node)
                st.put(cur, st.get(res))
            else:
                st.env[t.id] = self.binop(node.op, cur, rhs, st, node)
        elif isinstance(t, ast.Attribute):
            base = self.eval(t.value, st)
            cur = self.getattr(base, t.attr, st, node)
            if isinstance(cur, Ref) and isinstance(st.get(cur), Arr):
                res = self.binop(node.op, cur, rhs, st, node)
                st.put(cur, st.get(res))
            else:
                self.setattr(base, t.attr, self.binop(node.op, cur, rhs, st, node), st, node)
        elif isinstance(t, ast.Subscript):
            base = self.eval(t.value, st)
            cur = self.subscript(base, t.slice, st, node)
            self.store(base, t.slice, self.binop(node.op, cur, rhs, st, node), st, node)
        else:
            raise Unsupported('augassign target')
        return [(st, 'next', None)]

    def st_If(self, node, st):
        cond = self.truth(self.eval(node.test, st), st)
        if cond is True:
            return self.exec_block(node.body, st)
        if cond is False:
            return self.exec_block(node.orelse, st)
        s1, s2 = st, st.fork()
        s1.assume(cond)
        s2.assume(z3.Not(cond))
        outs = []
        if self.feasible(s1):
            outs += self.exec_block(node.body, s1)
        if self.feasible(s2):
            outs += self.exec_block(node.orelse, s2)
        return outs

    def feasible(self, st, timeout=150):
        """False only when the path condition is definitely unsatisfiable (dead path: nothing to prove)"""
        s = z3.Solver()
        s.set('timeout', timeout)
        for a in st.pc:
            s.add(a)
        return s.check() != z3.unsat

    def st_Try(self, node, st):
        if node.finalbody:
            raise Unsupported('try/finally')
        outs = []
        for s, k, p in self.exec_block(node.body, st):
            if k == 'raise':
                handled = False
                for h in node.handlers:
                    names = []
                    if h.type is None:
                        names = [None]
                    elif isinstance(h.type, ast.Tuple):
                        names = [ast.unparse(e).split('.')[-1] for e in h.type.elts]
                    else:
                        names = [ast.unparse(h.type).split('.')[-1]]
                    if any(exc_is_subclass(p.cls, n) for n in names):
                        if h.name:
                            s.env[h.name] = p
                        outs.extend(self.exec_block(h.body, s))
                        handled = True
                        break
                if not handled:
                    outs.append((s, k, p))
            elif k == 'next' and node.orelse:
                outs.extend(self.exec_block(node.orelse, s))
            else:
                outs.append((s, k, p))
        return outs

    # ------------------------------------------------------------------ loops
    def iter_info(self, it, st, node):
        """-> ('range', lo, hi, elemfn(k)->value) ; elemfn None for plain range"""
        if isinstance(it, ast.Call) and isinstance(it.func, ast.Name) and it.func.id == 'range':
            a = [self.eval(x, st) for x in it.args]
            if len(a) == 1:
                return 0, a[0], None
            if len(a) == 2 or (len(a) == 3 and conc_int(a[2]) == 1):
                return a[0], a[1], None
            stp = conc_int(a[2]) if len(a) == 3 else None
            if stp is not None and stp > 1:
                # range(lo, hi, s), s > 1 concrete: the k-th element is lo + k*s, ceil((hi-lo)/s) elements
                lo_, hi_ = a[0], a[1]
                cl, ch = conc_int(lo_), conc_int(hi_)
                if cl is not None and ch is not None:
                    cnt = len(range(cl, ch, stp))
                else:
                    d = to_int(hi_) - to_int(lo_)
                    cnt = z3.If(d > 0, (d + (stp - 1)) / stp, z3.IntVal(0))
                return 0, cnt, (lambda k, s, lo_=lo_, stp=stp: _add(lo_, k * stp) if not is_sym(k) else to_int(lo_) + k * stp)
            raise Unsupported('range with step')
        if isinstance(it, ast.Call) and isinstance(it.func, ast.Name) and it.func.id == 'enumerate':
            lo, hi, f = self.iter_info(it.args[0], st, node)
            if lo != 0:
                raise Unsupported('enumerate over offset range')
            return 0, hi, (lambda k, s, f=f: (k, f(k, s) if f else k))
        if isinstance(it, ast.Call) and isinstance(it.func, ast.Name) and it.func.id == 'zip':
            infos = [self.iter_info(x, st, node) for x in it.args]
            his = [h for _, h, _ in infos]
            ch = [conc_int(h) for h in his]
            if all(x is not None for x in ch):
                hi = min(ch)
            else:
                hi = his[0]
                for h in his[1:]:
                    if not _same(h, hi):
                        # zip truncates; equal lengths are an obligation where they are not syntactically equal
                        self.oblige('zip.len', st, as_term(h) == as_term(hi), node)
            return 0, hi, (lambda k, s, infos=infos: tuple((f(k, s) if f else k) for _, _, f in infos))
        v = self.eval(it, st)
        return self.iter_value(v, st, node)

    def iter_value(self, v, st, node):
        if isinstance(v, tuple):
            return 0, len(v), (lambda k, s, v=v: v[_need_conc(k)])
        if isinstance(v, Ref):
            cell = st.get(v)
            if isinstance(cell, PyList):
                items = list(cell.items)

                def take(k, s, items=items):
                    it = items[_need_conc(k)]
                    if hasattr(it, 'on_take'):      # element of an abstract generator: advancing to it is an effect
                        it.on_take(s)
                    return it
                return 0, len(items), take
            if isinstance(cell, PyDict):
                keys = list(cell.items)
                return 0, len(keys), (lambda k, s, keys=keys: keys[_need_conc(k)])
            if isinstance(cell, Arr):
                return 0, cell.shape[0], (lambda k, s, v=v: self.index_arr(v, None, s, node, pre=[k]))
        if isinstance(v, SeqV):
            return 0, v.n, (lambda k, s, v=v: v.elem(k))
        raise Unsupported('iteration over %r' % (v,))

    def st_For(self, node, st):
        if node.orelse:
            raise Unsupported('for/else')
        if isinstance(node.iter, ast.Call) and self.is_generator_call(node.iter, st):
            return self.for_generator(node, st)
        lo, hi, elem = self.iter_info(node.iter, st, node)
        clo, chi = conc_int(lo), conc_int(hi)
        ordinal = self.loopno
        self.loopno += 1
        if clo is not None and chi is not None and (self.c.mode != 'sym' or chi - clo <= UNROLL_LIMIT):
            # loops nested in an unrolled loop keep their own ordinal per syntactic loop
            saved = self.loopno
            outs = []
            cur = [st]
            for k in range(clo, chi):
                nxt = []
                for s in cur:
                    self.loopno = saved
                    self.assign(node.target, elem(k, s) if elem else k, s, node)
                    for s2, kind, p in self.exec_block(node.body, s):
                        if kind in ('next', 'continue'):
                            nxt.append(s2)
                        elif kind == 'break':
                            outs.append((s2, 'next', None))
                        else:
                            outs.append((s2, kind, p))      # includes 'genbreak': consumer left the generator
                cur = nxt
            if chi <= clo:
                self._skip_nested(node)
            outs.extend((s, 'next', None) for s in cur)
            return outs
        if self.c.mode != 'sym':
            raise EngineError('loop %d at line %d has non-concrete bounds in a bounded instance (%s..%s)'
                              % (ordinal, node.lineno, lo, hi))
        inv = self.unit.invariants.get(ordinal)
        seen_inv = self.__dict__.setdefault('_inv_loops', [])
        if id(node) not in seen_inv:
            seen_inv.append(id(node))
        if inv is None and self.unit.invariants:
            # no invariant under this loop's ordinal: an edit inserted or removed a loop that is unrolled (a loop over a constant
            # tuple, say) and shifted the numbering.  Fall back to the POSITION of this loop among the loops that need an
            # invariant, in order of first encounter (on the pinned text the direct look-up never fails, so this changes nothing there)
            keys = sorted(self.unit.invariants)
            pos = seen_inv.index(id(node))
            if pos < len(keys):
                inv = self.unit.invariants[keys[pos]]
                note = 'loop invariants matched by position (loop ordinals shifted by an edit)'
                if note not in self.notes:
                    self.notes.append(note)
        if inv is None:
            raise Unsupported('loop %d at line %d needs an invariant' % (ordinal, node.lineno))
        lo_t, hi_t = to_int(lo), to_int(hi)
        entry = st
        v0 = self.unit._view0
        mod_names, mod_cells, mod_attrs = self.modified(node.body, entry, node)
        for tn in _target_names(node.target):
            mod_names.add(tn)
        for cid in mod_cells:
            cell = entry.heap.get(cid)
            if isinstance(cell, PyList):
                entry.heap[cid] = self.list_to_ragged(cell, entry)
        # initiation (after lists that grow in the loop were given their symbolic representation)
        self.oblige_all('inv%d.init' % ordinal, entry, inv(self.c, View(self.c, entry.env, entry.heap, entry.trace), v0, lo_t), node)

        def havoc(base):
            s = base.fork()
            for n in mod_names:
                if n in s.env:
                    try:
                        s.env[n] = self.fresh_like(s.env[n], n, s)
                    except Unsupported:
                        if n not in self._nested_for_targets(node):
                            raise
                        # target of a nested for loop holding an object: (re)bound by that loop before any read in
                        # the body; left unbound here, so a read of the stale value is an error, never a wrong value
                        del s.env[n]
                # names first bound inside the body stay unbound
            for cid in mod_cells:
                cell = s.heap.get(cid)
                if isinstance(cell, Arr):
                    s.heap[cid] = self.c.fresh_array('h', cell.shape, cell.kind)
                    s.ver[cid] = s.ver.get(cid, 0) + 1
                elif isinstance(cell, Ragged):
                    rl = z3.Function('rowlen!%d' % next(self.c._fresh), INT, INT)
                    el = z3.Function('rag!%d' % next(self.c._fresh), INT, INT, REAL)
                    s.heap[cid] = Ragged(self.c.fresh('nrows'), lambda i, rl=rl: rl(to_int(i)),
                                         lambda i, j, el=el: el(to_int(i), to_int(j)))
                    s.ver[cid] = s.ver.get(cid, 0) + 1
                elif isinstance(cell, PyList):
                    raise Unsupported('list mutated in an invariant loop')
            for cid, attr in mod_attrs:
                o = s.heap[cid]
                new = Obj(o.cls, o.attrs)
                if attr in new.attrs:
                    new.attrs[attr] = self.fresh_like(new.attrs[attr], attr, s)
                s.heap[cid] = new
            return s
        # arbitrary iteration
        body_st = havoc(entry)
        k = self.c.fresh('k%d' % ordinal)
        body_st.assume(lo_t <= k, k < hi_t)
        body_st.env['loop%d_index' % ordinal] = k
        body_st.assume_named('inv%d' % ordinal, self.assumed_inv(inv, body_st, v0, k))
        # ghost: the state at the head of this (arbitrary) iteration, for invariants that relate end to start
        body_st.env['loop_entry'] = View(self.c, dict(body_st.env), dict(body_st.heap))
        self.assign(node.target, elem(k, body_st) if elem else k, body_st, node)
        outs = []
        for s2, kind, p in self.exec_block(node.body, body_st):
            if kind in ('next', 'continue'):
                self.oblige_all('inv%d.preserve' % ordinal, s2,
                                inv(self.c, View(self.c, s2.env, s2.heap, s2.trace), v0, k + 1), node)
            elif kind == 'break':
                s2.env['loop%d_exit' % ordinal] = k          # ghost: iteration at which the loop was left
                outs.append((s2, 'next', None))
            else:
                outs.append((s2, kind, p))
        # exit
        exit_st = havoc(entry)
        kx = z3.If(hi_t > lo_t, hi_t, lo_t)
        exit_st.assume_named('inv%d' % ordinal, self.assumed_inv(inv, exit_st, v0, kx))
        for tn in _target_names(node.target):
            exit_st.env.pop(tn, None)
        exit_st.env['loop%d_exit' % ordinal] = kx
        outs.append((exit_st, 'next', None))
        return outs

    def _nested_for_targets(self, node):
        out = set()
        for n in _walk_stmts(node.body):
            if isinstance(n, ast.For):
                out.update(_target_names(n.target))
        return out

    def assumed_inv(self, inv, st, v0, k):
        """the invariant as a hypothesis: ForallH clauses become real universal statements"""
        self.c.assuming = True
        try:
            return _named(inv(self.c, View(self.c, st.env, st.heap, st.trace), v0, k))
        finally:
            self.c.assuming = False

    def _skip_nested(self, node):
        for n in ast.walk(node):
            if isinstance(n, (ast.For, ast.While)) and n is not node:
                self.loopno += 1

    def st_While(self, node, st):
        if node.orelse:
            raise Unsupported('while/else')
        ordinal = self.loopno
        self.loopno += 1
        bound = self.unit.while_bound if self.c.mode != 'sym' else None
        if self.c.mode == 'sym':
            inv = self.unit.invariants.get(ordinal)
            if inv is None:
                raise Unsupported('while loop %d at line %d needs an invariant' % (ordinal, node.lineno))
            entry = st
            v0 = self.unit._view0
            self.oblige_all('inv%d.init' % ordinal, entry, inv(self.c, View(self.c, entry.env, entry.heap, entry.trace), v0, None), node)
            mod_names, mod_cells, mod_attrs = self.modified(node.body, entry, node)

            def havoc(base):
                s = base.fork()
                for n in mod_names:
                    if n in s.env:
                        s.env[n] = self.fresh_like(s.env[n], n, s)
                for cid in mod_cells:
                    cell = s.heap.get(cid)
                    if isinstance(cell, Arr):
                        s.heap[cid] = self.c.fresh_array('h', cell.shape, cell.kind)
                        s.ver[cid] = s.ver.get(cid, 0) + 1
                return s
            body_st = havoc(entry)
            body_st.assume_named('inv%d' % ordinal, self.assumed_inv(inv, body_st, v0, None))
            exit_st = body_st.fork()
            cond = self.truth(self.eval(node.test, body_st), body_st)
            body_st.assume(cond)
            outs = []
            variant = self.unit.variants.get(ordinal)
            v_before = variant(self.c, View(self.c, body_st.env, body_st.heap)) if variant else None
            for s2, kind, p in self.exec_block(node.body, body_st):
                if kind in ('next', 'continue'):
                    self.oblige_all('inv%d.preserve' % ordinal, s2,
                                    inv(self.c, View(self.c, s2.env, s2.heap, s2.trace), v0, None), node)
                    if variant:
                        v_after = variant(self.c, View(self.c, s2.env, s2.heap))
                        self.oblige('inv%d.variant' % ordinal, s2, z3.And(v_after < v_before, v_before >= 0), node)
                elif kind == 'break':
                    outs.append((s2, 'next', None))
                else:
                    outs.append((s2, kind, p))
            cond2 = self.truth(self.eval(node.test, exit_st), exit_st)
            exit_st.assume(self.c.Not(cond2))
            outs.append((exit_st, 'next', None))
            return outs
        outs = []
        cur = [st]
        for _ in range(bound + 1):
            nxt = []
            for s in cur:
                cond = self.truth(self.eval(node.test, s), s)
                if cond is False:
                    outs.append((s, 'next', None))
                    continue
                if cond is not True:
                    s_exit = s.fork()
                    s_exit.assume(z3.Not(cond))
                    outs.append((s_exit, 'next', None))
                    s.assume(cond)
                for s2, kind, p in self.exec_block(node.body, s):
                    if kind in ('next', 'continue'):
                        nxt.append(s2)
                    elif kind == 'break':
                        outs.append((s2, 'next', None))
                    else:
                        outs.append((s2, kind, p))
            cur = nxt
            if not cur:
                break
        # states still looping after the bound are cut (bounded instance only)
        return outs

    def modified(self, body, st, node):
        names, cells, attrs = set(), set(), set()

        def cell_of(expr):
            try:
                v = self.eval_quiet(expr, st)
            except (Unsupported, EngineError, KeyError, _Raise):
                return None
            return v if isinstance(v, Ref) else None
        for n in _walk_stmts(body):
            if isinstance(n, (ast.Assign, ast.AugAssign, ast.AnnAssign)):
                tgts = n.targets if isinstance(n, ast.Assign) else [n.target]
                for t in tgts:
                    for tt in ([t] if not isinstance(t, (ast.Tuple, ast.List)) else t.elts):
                        if isinstance(tt, ast.Name):
                            if isinstance(n, ast.AugAssign):
                                r = st.env.get(tt.id)
                                if isinstance(r, Ref) and isinstance(st.heap.get(r.id), (Arr, ViewCell)):
                                    cells.add(r.id)
                                    continue
                            names.add(tt.id)
                        elif isinstance(tt, ast.Subscript):
                            if isinstance(tt.value, ast.Name) and tt.value.id not in st.env:
                                continue          # array created inside the loop body: not loop-carried state
                            r = cell_of(tt.value)
                            if r is None:
                                if isinstance(tt.value, ast.Name) and st.env.get(tt.value.id, _MISSING) is None:
                                    continue      # the name is bound to None here: a store through it can only raise, it modifies nothing
                                raise Unsupported('store into unresolvable base %s in loop' % ast.unparse(tt.value))
                            cells.add(r.id)
                        elif isinstance(tt, ast.Attribute):
                            r = cell_of(tt.value)
                            if r is None:
                                raise Unsupported('attribute store on unresolvable base in loop')
                            attrs.add((r.id, tt.attr))
            elif isinstance(n, ast.For):
                for tn in _target_names(n.target):
                    names.add(tn)
            elif isinstance(n, ast.Call) and isinstance(n.func, ast.Attribute) and n.func.attr in ('append', 'extend') \
                    and cell_of(n.func.value) is not None and isinstance(st.heap.get(cell_of(n.func.value).id), (PyList, Ragged)):
                cells.add(cell_of(n.func.value).id)
            elif isinstance(n, ast.Call):
                u, bound = self.resolve_call_static(n, st)
                if u is not None:
                    for pname in u.frame:
                        idx = u.param_index(pname)
                        arg = bound.get(pname)
                        if arg is not None:
                            r = cell_of(arg) if isinstance(arg, ast.AST) else (arg if isinstance(arg, Ref) else None)
                            if r is not None:
                                cells.add(r.id)
                    for (pname, attr) in u.frame_attrs:
                        arg = bound.get(pname)
                        r = cell_of(arg) if isinstance(arg, ast.AST) else (arg if isinstance(arg, Ref) else None)
                        if r is not None:
                            attrs.add((r.id, attr))
        return names, cells, attrs

    def fresh_like(self, v, name, st):
        if isinstance(v, bool):
            return self.c.fresh(name, BOOL)
        if isinstance(v, int):
            return self.c.fresh(name, INT)
        if isinstance(v, float):
            return self.c.fresh(name, REAL)
        if is_sym(v):
            return self.c.fresh(name, v.sort())
        if v is None or isinstance(v, str):
            raise Unsupported('loop rebinds %s from %r (needs a typed initial value)' % (name, v))
        if isinstance(v, Ref):
            cell = st.heap[v.id]
            if isinstance(cell, Arr):
                return st.alloc(self.c, self.c.fresh_array(name, cell.shape, cell.kind))
        if isinstance(v, tuple):
            return tuple(self.fresh_like(x, name, st) for x in v)
        if isinstance(v, Ref) and isinstance(st.heap.get(v.id), (PyList, PyDict)):
            # a list / dictionary bound before the loop and rebound inside it (typically a temporary that every iteration assigns
            # before it uses it): no abstraction of its value at an arbitrary iteration -- any READ of it before it is assigned
            # again makes the unit unsupported, an assignment simply replaces the marker
            return _Undef('was a %s before the loop' % type(st.heap[v.id]).__name__)
        raise Unsupported('cannot havoc %s = %r' % (name, v))

    # ------------------------------------------------------------------ generators (DESIGN 2.8)
    # `for target in gen(args): body` is executed as a coroutine: the generator body runs in its own environment;
    # at every `yield v` the consumer body runs right there on the same heap (so a buffer the generator re-uses
    # between yields is seen by the consumer exactly when Python would show it), then the generator resumes.
    def generator_def(self, call, st):
        try:
            f = self.eval_quiet(call.func, st)
        except (Unsupported, EngineError, KeyError, _Raise):
            return None
        if not isinstance(f, FuncV):
            return None
        if f.kind == 'method':
            ci, fn = f.target
            if any(isinstance(n, (ast.Yield, ast.YieldFrom)) for n in ast.walk(fn)):
                return f
        if f.kind == 'closure' and any(isinstance(n, (ast.Yield, ast.YieldFrom)) for n in ast.walk(f.target)):
            return f
        return None

    def is_generator_call(self, call, st):
        return self.generator_def(call, st) is not None

    def for_generator(self, node, st):
        call = node.iter
        f = self.eval(call.func, st)
        args = [self.eval(a, st) for a in call.args]
        kwargs = {k.arg: self.eval(k.value, st) for k in call.keywords}
        if f.kind == 'method':
            ci, fn = f.target
            mi, clsname = source.load_module(ci.modname), ci.name
            if f.self_val is not None:
                args = [f.self_val] + args
            closure_env = {}
        else:
            fn, mi, clsname, closure_env = f.target, f.mi, self.cur_class, dict(f.env)
        genv = dict(closure_env)
        genv.update(self.bind(fn, args, kwargs, st))
        st.consumer_envs.append(st.env)
        st.env = genv
        saved = (self.mi, self.cur_class, self.fn_imports)
        self.mi, self.cur_class, self.fn_imports = mi, clsname, dict(mi.imports)
        self._consumers.append((node.target, node.body, saved, (mi, clsname)))
        try:
            outs = self.exec_block(fn.body, st)
        finally:
            self._consumers.pop()
            self.mi, self.cur_class, self.fn_imports = saved
        res = []
        for s2, kind, p in outs:
            if kind in ('next', 'return', 'genbreak'):
                s2.env = s2.consumer_envs.pop()
                res.append((s2, 'next', None))
            else:
                if s2.consumer_envs:
                    s2.env = s2.consumer_envs.pop()
                res.append((s2, kind, p))
        return res

    def do_yield(self, node, st):
        if isinstance(node, ast.YieldFrom):
            raise Unsupported('yield from')
        v = self.eval(node.value, st) if node.value is not None else None
        if not self._consumers:
            # the generator itself is the unit under verification: record what a consumer receives at this moment
            # (a buffer the generator re-uses later is seen with its content of NOW) and prove the yield invariant
            k = sum(1 for t in st.trace if t[0] == 'yield')
            snap = self.snapshot(v, st)
            st.trace.append(('yield', snap))
            if getattr(self.unit, 'yields', None):
                v0 = self.unit._view0
                vnow = View(self.c, object.__getattribute__(v0, '_env'), st.heap)
                goals = self.unit.yields(self.c, v0, vnow, k, self.wrap_ret(snap, st))
                self.oblige_all('yield', st, dict(_named(goals)), node)
            return [(st, 'next', None)]
        target, body, consumer_ctx, gen_ctx = self._consumers[-1]
        genv = st.env
        st.env = st.consumer_envs.pop()
        saved = (self.mi, self.cur_class, self.fn_imports)
        self.mi, self.cur_class, self.fn_imports = consumer_ctx
        consumers = self._consumers
        self._consumers = consumers[:-1]
        try:
            self.assign(target, v, st, node)
            outs = self.exec_block(body, st)
        finally:
            self._consumers = consumers
            self.mi, self.cur_class, self.fn_imports = saved
        res = []
        for s2, kind, p in outs:
            if kind in ('next', 'continue'):
                s2.consumer_envs.append(s2.env)
                s2.env = dict(genv)
                res.append((s2, 'next', None))
            elif kind == 'break':
                s2.consumer_envs.append(s2.env)
                s2.env = dict(genv)
                res.append((s2, 'genbreak', None))
            else:
                s2.consumer_envs.append(s2.env)
                res.append((s2, kind, p))
        return res

    def snapshot(self, v, st):
        if isinstance(v, tuple):
            return tuple(self.snapshot(x, st) for x in v)
        if isinstance(v, Ref) and isinstance(st.heap.get(v.id), (Arr, ViewCell)):
            a = st.get(v)
            return st.alloc(self.c, Arr(a.shape, a.elem, a.kind))
        return v

    # ------------------------------------------------------------------ expressions
    def eval_quiet(self, node, st):
        """evaluate without recording obligations (used for static resolution)"""
        saved = (self.obls, dict(self.counts))
        self.obls = []
        try:
            return self.eval(node, st.fork())
        finally:
            self.obls, self.counts = saved

    def eval(self, node, st):
        m = getattr(self, 'ev_' + type(node).__name__, None)
        if m is None:
            raise Unsupported('expression %s at line %d' % (type(node).__name__, getattr(node, 'lineno', 0)))
        return m(node, st)

    def ev_Constant(self, node, st):
        return node.value

    def ev_JoinedStr(self, node, st):
        parts = []
        for v in node.values:
            if isinstance(v, ast.Constant):
                parts.append(str(v.value))
            elif isinstance(v, ast.FormattedValue) and v.format_spec is None and v.conversion == -1:
                try:
                    x = self.eval_quiet(v.value, st)
                except (Unsupported, EngineError, KeyError, _Raise):
                    return '<fstring>'
                if isinstance(x, (str, int)) and not isinstance(x, bool):
                    parts.append(str(x))
                else:
                    return '<fstring>'
            else:
                return '<fstring>'
        return ''.join(parts)

    def ev_Name(self, node, st):
        n = node.id
        if n in st.env:
            v = st.env[n]
            if isinstance(v, _Undef):
                raise Unsupported('reads %s, a variable rebound inside a loop whose value there could not be abstracted (%s)' % (n, v.why))
            return v
        if n in self.fn_imports:
            return self.import_value(self.fn_imports[n])
        if n in self.mi.functions or n in self.mi.aliases:
            return FuncV('repo', '%s:%s' % (self.mi.modname, n))
        if n in self.mi.classes:
            return FuncV('class', n)
        if n in ('True', 'False', 'None'):
            return {'True': True, 'False': False, 'None': None}[n]
        if n in BUILTINS:
            return FuncV('lib', 'builtins.' + n)
        cv = self.unit.module_consts.get(n, _MISSING)
        if cv is not _MISSING:
            return cv
        if n in self.mi.consts and _plain_const(self.mi.consts[n]):
            return self.mi.consts[n]
        raise EngineError('unbound name %s at line %d in %s' % (n, node.lineno, self.unit.qualname))

    def import_value(self, dotted):
        root = dotted.split('.')[0]
        if root == 'taurex':
            mod, _, name = dotted.rpartition('.')
            cv = self.unit.module_consts.get(dotted, _MISSING)
            if cv is not _MISSING:
                return cv
            if mod == 'taurex.constants':
                return self.c.constant(name)
            try:
                mi = source.load_module(mod)
            except (FileNotFoundError, IsADirectoryError):
                return ModV(dotted)
            if name in mi.classes:
                return FuncV('class', name)
            if name in mi.functions or name in mi.aliases:
                return FuncV('repo', '%s:%s' % (mod, name))
            if name in mi.imports:        # re-export
                return self.import_value(mi.imports[name])
            return ModV(dotted)
        from . import lib
        canon = CANON.get(root, root) + dotted[len(root):]
        if canon in lib.HANDLERS:
            return FuncV('lib', canon)
        if canon in lib.CONSTS:
            return lib.CONSTS[canon]
        return ModV(dotted)

    def ev_Attribute(self, node, st):
        base = self.eval(node.value, st)
        return self.getattr(base, node.attr, st, node)

    def getattr(self, base, attr, st, node):
        if attr == 'decode' and (is_sym(base) or isinstance(base, (int, float, tuple)) or
                                 (isinstance(base, Ref) and isinstance(st.get(base), (Arr, PyList, PyDict, Ragged)))):
            # numbers, arrays, lists, tuples and dictionaries have no decode(): callers that accept bytes-or-anything rely on it
            raise _Raise(st, ExcV('AttributeError', getattr(node, 'lineno', 0)))
        if isinstance(base, ModV):
            dotted = base.dotted + '.' + attr
            dotted = CANON.get(dotted.split('.')[0], dotted.split('.')[0]) + dotted[len(dotted.split('.')[0]):]
            from . import lib
            if dotted in lib.CONSTS:
                return lib.CONSTS[dotted]
            if dotted in lib.HANDLERS:
                return FuncV('lib', dotted)
            if dotted.startswith('taurex.'):
                return self.import_value(dotted)
            return ModV(dotted)
        if isinstance(base, Ref):
            cell = st.get(base)
            if isinstance(cell, Obj):
                if attr in cell.attrs:
                    return cell.attrs[attr]
                if attr == '__class__':
                    return FuncV('class', cell.cls)
                if attr in LOGGER_METHODS:
                    return FuncV('logger', attr)
                ci, fn = source.find_method(cell.cls, attr)
                if fn is None and ('call:' + attr) in self.unit.abstract:
                    # a method the class leaves to its subclasses, given an assumed (abstract) contract by the unit
                    h = self.unit.abstract['call:' + attr]
                    return FuncV('pyfunc', lambda ex, st2, a, k, n, h=h, base=base: h(ex, st2, [base] + list(a), k, n))
                if fn is None and source.class_stores_attr(cell.cls, attr):
                    raise Unsupported('attribute %s of %s is state kept between calls that the contract does not describe '
                                      '(line %d): its value at entry depends on the history of the object'
                                      % (attr, cell.cls, getattr(node, 'lineno', 0)))
                if fn is None:
                    raise EngineError('object of class %s has no attribute %s (line %d); declare it in the contract'
                                      % (cell.cls, attr, getattr(node, 'lineno', 0)))
                if attr in ci.properties:
                    u = self.registry.get('%s:%s.%s' % (ci.modname, ci.name, fn.name))
                    if u is not None and u is not self.unit and attr not in self.unit.inline:
                        return self.call_contract(u, [base], {}, st, node)
                    return self.inline_call(ci, fn, [base], {}, st, node)
                decs = [ast.unparse(d) for d in getattr(fn, 'decorator_list', [])]
                if 'staticmethod' in decs:        # obj.f(...) of a static method: nothing is bound
                    return FuncV('method', (ci, fn), self_val=None)
                if 'classmethod' in decs:
                    return FuncV('method', (ci, fn), self_val=FuncV('class', cell.cls))
                return FuncV('method', (ci, fn), self_val=base)
            if isinstance(cell, Arr):
                return self.arr_attr(base, cell, attr, st, node)
            if isinstance(cell, (PyList, Ragged)):
                return FuncV('listmeth', attr, self_val=base)
            if isinstance(cell, PyDict):
                return FuncV('dictmeth', attr, self_val=base)
        if isinstance(base, SuperV):
            o = st.get(base.self_val)
            ci, fn = source.find_method(o.cls, attr, after=base.after)
            if fn is None:
                raise EngineError('super() has no %s' % attr)
            return FuncV('method', (ci, fn), self_val=base.self_val)
        if isinstance(base, AbsObj):
            if attr in base.attrs:
                return base.attrs[attr]
            return FuncV('absmethod', attr, self_val=base)
        if isinstance(base, ExcV):
            return '<exc-attr>'
        if isinstance(base, FuncV) and base.kind == 'class' and attr == '__name__':
            return base.target
        if isinstance(base, FuncV) and base.kind == 'class':
            # Class.method(self, ...) style or classmethod
            ci, fn = source.find_method(base.target, attr)
            if fn is not None:
                return FuncV('method', (ci, fn), self_val=None)
            cinfo = source.get_class(base.target)
            if cinfo is not None:
                for n in cinfo.node.body:
                    if isinstance(n, ast.Assign) and any(isinstance(t, ast.Name) and t.id == attr for t in n.targets):
                        # member of an IntEnum: its integer value (ordering comparisons are those of the integers)
                        if any(b in ('IntEnum',) for b in cinfo.bases) and isinstance(n.value, ast.Constant) and \
                                isinstance(n.value.value, int) and not isinstance(n.value.value, bool):
                            return n.value.value
                        # class-level constant (enum member): identified by its qualified name
                        return '%s.%s' % (base.target, attr)
        if isinstance(base, str):
            return FuncV('strmeth', attr, self_val=base)
        if is_sym(base) or isinstance(base, (int, float)):
            if attr == 'shape':
                return ()
        raise Unsupported('attribute %s of %r at line %d' % (attr, base, getattr(node, 'lineno', 0)))

    def arr_attr(self, ref, a, attr, st, node):
        if attr == 'shape':
            return tuple(a.shape)
        if attr == 'size':
            n = 1
            for d in a.shape:
                n = n * d
            return n
        if attr == 'ndim':
            return a.ndim
        if attr == 'dtype':       # numeric arrays only: the scalar type is never numpy.bytes_ / numpy.str_
            return AbsObj('dtype', a.kind, {'type': ModV('numpy.int64' if a.kind == 'int' else 'numpy.float64')})
        if attr == 'T':
            if a.ndim == 1:
                return ref
            if a.ndim == 2:
                return st.alloc(self.c, Arr((a.shape[1], a.shape[0]), lambda ix, a=a: a.elem((ix[1], ix[0])), a.kind))
        return FuncV('arrmeth', attr, self_val=ref)

    def _elts(self, node, st):
        out = []
        for e in node.elts:
            if isinstance(e, ast.Starred):          # [a, *xs, b]: the elements of a list/tuple of concrete length
                lo, hi, elem = self.iter_value(self.eval(e.value, st), st, node)
                clo, chi = conc_int(lo), conc_int(hi)
                if clo is None or chi is None:
                    raise Unsupported('starred sequence of symbolic length')
                out += [elem(k, st) if elem else k for k in range(clo, chi)]
            else:
                out.append(self.eval(e, st))
        return out

    def ev_Slice(self, node, st):
        # only reached for subscripts of abstract objects (arrays parse their slices themselves)
        return slice(*[None if x is None else self.eval(x, st) for x in (node.lower, node.upper, node.step)])

    def ev_Tuple(self, node, st):
        return tuple(self._elts(node, st))

    def ev_List(self, node, st):
        return st.alloc(self.c, PyList(self._elts(node, st)))

    def ev_Dict(self, node, st):
        d = {}
        for k, v in zip(node.keys, node.values):
            kk = self.eval(k, st)
            if is_sym(kk) or isinstance(kk, Ref):
                raise Unsupported('dict with symbolic key')
            d[kk] = self.eval(v, st)
        return st.alloc(self.c, PyDict(d))

    def _nested_comp(self, node, st):
        """[elt for a in A for b in B(a) ...]: every generator over a sequence of concrete length, filters concrete"""
        out = []
        saved = dict(st.env)
        names = []

        def rec(gi):
            if gi == len(node.generators):
                out.append(self.eval(node.elt, st))
                return
            g = node.generators[gi]
            names.extend(_target_names(g.target))
            lo, hi, elem = self.iter_info(g.iter, st, node)
            clo, chi = conc_int(lo), conc_int(hi)
            if clo is None or chi is None:
                raise Unsupported('nested comprehension over a sequence of symbolic length')
            for k in range(clo, chi):
                self.assign(g.target, elem(k, st) if elem else k, st, node)
                ok = True
                for cnd in g.ifs:
                    t = self.truth(self.eval(cnd, st), st)
                    if t is False:
                        ok = False
                    elif t is not True:
                        raise Unsupported('comprehension filter on symbolic condition')
                if ok:
                    rec(gi + 1)
        rec(0)
        for n in names:
            if n in saved:
                st.env[n] = saved[n]
            else:
                st.env.pop(n, None)
        return st.alloc(self.c, PyList(out))

    def ev_ListComp(self, node, st):
        if len(node.generators) != 1:
            return self._nested_comp(node, st)
        g = node.generators[0]
        lo, hi, elem = self.iter_info(g.iter, st, node)
        clo, chi = conc_int(lo), conc_int(hi)
        if clo is None or chi is None:
            return self.symbolic_comprehension(node, g, lo, hi, elem, st)
        out = []
        saved = dict(st.env)
        for k in range(clo, chi):
            self.assign(g.target, elem(k, st) if elem else k, st, node)
            ok = True
            for cnd in g.ifs:
                t = self.truth(self.eval(cnd, st), st)
                if t is False:
                    ok = False
                elif t is not True:
                    raise Unsupported('comprehension filter on symbolic condition')
            if ok:
                out.append(self.eval(node.elt, st))
        for n in _target_names(g.target):
            if n in saved:
                st.env[n] = saved[n]
            else:
                st.env.pop(n, None)
        return st.alloc(self.c, PyList(out))

    ev_GeneratorExp = ev_ListComp

    def ev_DictComp(self, node, st):
        if len(node.generators) != 1 or node.generators[0].ifs:
            raise Unsupported('dict comprehension form')
        g = node.generators[0]
        lo, hi, elem = self.iter_info(g.iter, st, node)
        clo, chi = conc_int(lo), conc_int(hi)
        if clo is None or chi is None:
            raise Unsupported('dict comprehension over symbolic extent')
        out = {}
        saved = dict(st.env)
        for k in range(clo, chi):
            self.assign(g.target, elem(k, st) if elem else k, st, node)
            kk = self.eval(node.key, st)
            if is_sym(kk) or isinstance(kk, Ref):
                raise Unsupported('dict comprehension with symbolic key')
            out[kk] = self.eval(node.value, st)
        for n in _target_names(g.target):
            if n in saved:
                st.env[n] = saved[n]
            else:
                st.env.pop(n, None)
        return st.alloc(self.c, PyDict(out))

    def symbolic_comprehension(self, node, g, lo, hi, elem, st):
        """[expr(i) for i in <symbolic extent>] with scalar expr and no filter: the sequence k -> expr(k), obtained by
        evaluating expr once for an arbitrary index q in range (obligations met on the way are for that arbitrary q)"""
        if g.ifs:
            raise Unsupported('filtered comprehension over symbolic extent')
        q = self.c.fresh('ci')
        s2 = st.fork()
        lo_t, hi_t = to_int(lo), to_int(hi)
        s2.assume(lo_t <= q, q < hi_t)
        self.assign(g.target, elem(q, s2) if elem else q, s2, node)
        mark = len(self.obls)
        val = self.eval(node.elt, s2)
        if isinstance(val, (Ref, tuple, str)) or val is None:
            raise Unsupported('comprehension over symbolic extent with non-scalar elements')
        n = z3.If(hi_t > lo_t, hi_t - lo_t, 0)
        n = z3.simplify(hi_t - lo_t) if self.implied(st, hi_t >= lo_t) else n
        if is_sym(val):
            kind = 'int' if z3.is_int(val) else ('bool' if z3.is_bool(val) else 'real')
            return st.alloc(self.c, Arr((n,), lambda ix, val=val, q=q, lo_t=lo_t: z3.substitute(val, (q, z3.simplify(to_int(ix[0]) + lo_t))), kind))
        return st.alloc(self.c, Arr((n,), lambda ix, val=val: val, 'real' if isinstance(val, float) else 'int'))

    def ev_Lambda(self, node, st):
        return FuncV('lambda', node, env=st.env, mi=self.mi)

    def ev_IfExp(self, node, st):
        cond = self.truth(self.eval(node.test, st), st)
        if cond is True:
            return self.eval(node.body, st)
        if cond is False:
            return self.eval(node.orelse, st)
        st.pc.append(cond)
        a = self.eval(node.body, st)
        st.pc.pop()
        st.pc.append(z3.Not(cond))
        b = self.eval(node.orelse, st)
        st.pc.pop()
        return self.c.If(cond, a, b)

    def ev_UnaryOp(self, node, st):
        v = self.eval(node.operand, st)
        if isinstance(node.op, ast.Not):
            return self.c.Not(self.truth(v, st))
        if isinstance(node.op, ast.USub):
            return self.map1(lambda x: -x, v, st)
        if isinstance(node.op, ast.UAdd):
            return v
        if isinstance(node.op, ast.Invert):
            if isinstance(v, Ref) and st.get(v).kind == 'bool':
                return self.map1(lambda x: self.c.Not(x), v, st, kind='bool')
        raise Unsupported('unary %s' % type(node.op).__name__)

    def ev_BoolOp(self, node, st):
        # value semantics of `a or b` / `a and b` when the truth of the operands is concrete (e.g. `x or {}`)
        if all(not isinstance(e, (ast.Compare, ast.BoolOp, ast.UnaryOp)) for e in node.values[:-1]):
            snapshot_obls = (len(self.obls), dict(self.counts))
            cur = None
            decided = True
            for i, e in enumerate(node.values):
                cur = self.eval(e, st)
                if i == len(node.values) - 1:
                    break
                try:
                    t = self.truth(cur, st)
                except Unsupported:
                    decided = False
                    break
                if t is True:
                    if isinstance(node.op, ast.Or):
                        break
                elif t is False:
                    if isinstance(node.op, ast.And):
                        break
                else:
                    decided = False
                    break
            if decided:
                return cur
            del self.obls[snapshot_obls[0]:]
            self.counts = snapshot_obls[1]
        vals = []
        pushed = []
        try:
            for e in node.values:
                v = self.eval(e, st)
                t = self.truth(v, st)
                if isinstance(node.op, ast.And):
                    if t is False:
                        return False if len(vals) == 0 or all(x is True for x in vals) else self.c.And(*vals, False)
                    vals.append(t)
                    if t is not True:
                        g = t if is_sym(t) else as_term(t)
                        st.pc.append(g)
                        pushed.append(g)
                else:
                    if t is True:
                        return True if all(x is False for x in vals) else self.c.Or(*vals, True)
                    vals.append(t)
                    if t is not False:
                        g = z3.Not(t)
                        st.pc.append(g)
                        pushed.append(g)
        finally:
            # remove exactly the short-circuit guards (a later operand may have appended definitional facts of library
            # models after them: those stay, the guards go)
            for g in pushed:
                for k in range(len(st.pc) - 1, -1, -1):
                    if st.pc[k] is g:
                        del st.pc[k]
                        break
        # note: value semantics of `a or b` on non-bools is not modelled (truth only)
        return self.c.And(*vals) if isinstance(node.op, ast.And) else self.c.Or(*vals)

    def ev_Compare(self, node, st):
        left = self.eval(node.left, st)
        res = []
        for op, r in zip(node.ops, node.comparators):
            right = self.eval(r, st)
            res.append(self.compare(op, left, right, st, node))
            left = right
        return res[0] if len(res) == 1 else self.c.And(*res)

    def compare(self, op, a, b, st, node):
        if isinstance(op, (ast.Is, ast.IsNot)):
            if isinstance(a, Ref) and isinstance(b, Ref):
                r = a.id == b.id
            elif isinstance(a, Ref) or isinstance(b, Ref):
                r = False
            elif a is None or b is None:
                if is_sym(a) or is_sym(b):
                    r = False
                else:
                    r = a is b
            elif isinstance(a, ModV) and isinstance(b, ModV):       # two names of library objects (np.bytes_ is numpy.bytes_)
                canon = lambda d: CANON.get(d.split('.')[0], d.split('.')[0]) + d[len(d.split('.')[0]):]
                r = canon(a.dotted) == canon(b.dotted)
            elif isinstance(a, NanRef) or isinstance(b, NanRef):
                r = isinstance(a, NanRef) and isinstance(b, NanRef) and a.ident == b.ident
            elif isinstance(a, str) and isinstance(b, str):
                r = a == b
            elif isinstance(a, (bool, str)) or isinstance(b, (bool, str)):
                r = (a is b) if not (is_sym(a) or is_sym(b)) else False
            else:
                raise Unsupported('`is` on %r, %r' % (a, b))
            return r if isinstance(op, ast.Is) else (not r)
        if isinstance(op, (ast.In, ast.NotIn)):
            r = self.contains(b, a, st, node)
            return r if isinstance(op, ast.In) else self.c.Not(r)
        if isinstance(a, NanRef) or isinstance(b, NanRef):
            return isinstance(op, ast.NotEq)      # IEEE: every comparison with NaN is false except !=
        if self.is_arr(a, st) or self.is_arr(b, st):
            f = CMP[type(op)]
            return self.broadcast2(a, b, lambda x, y: f(*_unify(x, y)), st, node, kind='bool')
        if isinstance(a, (str, type(None))) or isinstance(b, (str, type(None))):
            if is_sym(a) or is_sym(b):
                raise Unsupported('comparison of symbolic value with str/None')
            if isinstance(op, ast.Eq):
                return a == b
            if isinstance(op, ast.NotEq):
                return a != b
            raise Unsupported('ordering on str/None')
        if isinstance(op, (ast.Eq, ast.NotEq)):
            la = isinstance(a, Ref) and isinstance(st.get(a), PyList)
            lb = isinstance(b, Ref) and isinstance(st.get(b), PyList)
            if la != lb and not isinstance(b if la else a, (Ref, tuple)):
                # a python list compared with a number: never equal (no broadcasting, unlike arrays)
                return isinstance(op, ast.NotEq)
        if isinstance(a, tuple) and isinstance(b, tuple) and isinstance(op, (ast.Eq, ast.NotEq)):
            if len(a) != len(b):
                r = False
            else:
                r = self.c.And(*[self.compare(ast.Eq(), x, y, st, node) for x, y in zip(a, b)])
            return r if isinstance(op, ast.Eq) else self.c.Not(r)
        if not (is_sym(a) or is_sym(b)):
            return PYCMP[type(op)](a, b)
        if is_sym(a) and is_sym(b) and a.eq(b):
            return isinstance(op, (ast.Eq, ast.LtE, ast.GtE))      # reals are never NaN
        x, y = _unify(a, b)
        return CMP[type(op)](x, y)

    def contains(self, container, item, st, node):
        if isinstance(container, Ref):
            cell = st.get(container)
            if isinstance(cell, PyDict):
                if is_sym(item):
                    raise Unsupported('symbolic key membership')
                return item in cell.items
            if isinstance(cell, PyList):
                return self.c.Or(*[self.compare(ast.Eq(), item, x, st, node) for x in cell.items])
        if isinstance(container, tuple):
            return self.c.Or(*[self.compare(ast.Eq(), item, x, st, node) for x in container])
        if isinstance(container, str) and isinstance(item, str):
            return item in container
        raise Unsupported('membership in %r' % (container,))

    def truth(self, v, st):
        if isinstance(v, bool):
            return v
        if v is None:
            return False
        if isinstance(v, (int, float)):
            return v != 0
        if isinstance(v, str):
            return len(v) > 0
        if is_sym(v):
            if z3.is_bool(v):
                s = z3.simplify(v)
                if z3.is_true(s):
                    return True
                if z3.is_false(s):
                    return False
                return v
            return v != 0
        if isinstance(v, tuple):
            return len(v) > 0
        if isinstance(v, Ref):
            cell = st.get(v)
            if isinstance(cell, PyList):
                return len(cell.items) > 0
            if isinstance(cell, PyDict):
                return len(cell.items) > 0
            if isinstance(cell, Obj):
                return True
            if isinstance(cell, Arr) and cell.ndim == 0:
                return self.truth(cell.elem(()), st)
        if isinstance(v, (FuncV, AbsObj)):
            return True
        raise Unsupported('truth value of %r' % (v,))

    # ---- arithmetic
    def is_arr(self, v, st):
        return isinstance(v, Ref) and isinstance(st.heap.get(v.id), (Arr, ViewCell))

    def ev_BinOp(self, node, st):
        a = self.eval(node.left, st)
        b = self.eval(node.right, st)
        return self.binop(node.op, a, b, st, node)

    def binop(self, op, a, b, st, node):
        if isinstance(a, NanRef) or isinstance(b, NanRef):
            return NanRef('computed')          # IEEE: any arithmetic with NaN is NaN (a fresh object, not the singleton)
        if self.is_arr(a, st) or self.is_arr(b, st):
            f = lambda x, y: self.scalar_binop(op, x, y, st, node, arrays=True)
            if isinstance(op, (ast.BitAnd, ast.BitOr)):
                return self.broadcast2(a, b, f, st, node, kind='bool')
            return self.broadcast2(a, b, f, st, node)
        if isinstance(a, str) and isinstance(b, str) and isinstance(op, ast.Add):
            return a + b
        if isinstance(a, str) and isinstance(op, ast.Mod):
            return '<fmt>'
        if isinstance(a, tuple) and isinstance(b, tuple) and isinstance(op, ast.Add):
            return a + b
        if isinstance(op, ast.Mult) and ((isinstance(a, Ref) and isinstance(st.get(a), PyList) and conc_int(b) is not None) or
                                         (isinstance(b, Ref) and isinstance(st.get(b), PyList) and conc_int(a) is not None)):
            lst, k = (st.get(a), conc_int(b)) if isinstance(a, Ref) else (st.get(b), conc_int(a))
            return st.alloc(self.c, PyList(lst.items * max(k, 0)))
        if isinstance(a, Ref) and isinstance(b, Ref) and isinstance(op, ast.Add):
            ca, cb = st.get(a), st.get(b)
            if isinstance(ca, PyList) and isinstance(cb, PyList):
                return st.alloc(self.c, PyList(ca.items + cb.items))
        return self.scalar_binop(op, a, b, st, node)

    def scalar_binop(self, op, a, b, st, node, arrays=False):
        if a is None or b is None or isinstance(a, (str, Ref, tuple)) or isinstance(b, (str, Ref, tuple)):
            raise Unsupported('binary %s on %r, %r at line %d' % (type(op).__name__, a, b, getattr(node, 'lineno', 0)))
        conc = not (is_sym(a) or is_sym(b))
        if isinstance(op, ast.Add):
            return a + b if conc else _arith(a, b, lambda x, y: x + y)
        if isinstance(op, ast.Sub):
            return a - b if conc else _arith(a, b, lambda x, y: x - y)
        if isinstance(op, ast.Mult):
            return a * b if conc else _arith(a, b, lambda x, y: x * y)
        if isinstance(op, ast.Div):
            if 'div' in self.safety and not arrays:
                self.oblige('safe.div', st, _ne0(b), node)
            if conc:
                if b == 0:
                    raise _Raise(st, ExcV('ZeroDivisionError', getattr(node, 'lineno', 0)))
                return a / b
            return to_real(a) / to_real(b)
        if isinstance(op, ast.FloorDiv):
            if _is_intlike(a) and _is_intlike(b):
                if 'div' in self.safety:
                    self.oblige('safe.div', st, _ne0(b), node)
                if conc:
                    return a // b
                cb = conc_int(b)
                if cb is not None and cb > 0:
                    return to_int(a) / to_int(b)      # z3 int div = floor for positive divisor
            raise Unsupported('floor division on non-integers / non-positive divisor')
        if isinstance(op, ast.Mod):
            if _is_intlike(a) and _is_intlike(b):
                if conc:
                    return a % b
                cb = conc_int(b)
                if cb is not None and cb > 0:
                    return to_int(a) % to_int(b)
            raise Unsupported('modulo')
        if isinstance(op, ast.Pow):
            return self.power(a, b, st, node)
        if isinstance(op, (ast.BitAnd, ast.BitOr)):
            ab = isinstance(a, bool) or (is_sym(a) and z3.is_bool(a))
            bb = isinstance(b, bool) or (is_sym(b) and z3.is_bool(b))
            if ab and bb:
                return self.c.And(a, b) if isinstance(op, ast.BitAnd) else self.c.Or(a, b)
        raise Unsupported('operator %s' % type(op).__name__)

    def power(self, a, b, st, node):
        if not (is_sym(a) or is_sym(b)):
            return a ** b
        cb = None
        if isinstance(b, (int, float)) and float(b).is_integer():
            cb = int(b)
        elif is_sym(b):
            cb = conc_int(b)
            if cb is None:
                s = z3.simplify(b)
                if z3.is_rational_value(s) and s.denominator_as_long() == 1:
                    cb = s.numerator_as_long()
        isfloat = isinstance(b, float) or (is_sym(b) and z3.is_real(b)) or (is_sym(a) and z3.is_real(a)) \
            or isinstance(a, float)
        if cb is not None and 0 <= cb <= 8:
            x = to_real(a) if isfloat else as_term(a)
            if cb == 0:
                return z3.RealVal(1) if isfloat else z3.IntVal(1)
            r = x
            for _ in range(cb - 1):
                r = r * x
            return r
        if cb is not None and -8 <= cb < 0:
            x = to_real(a)
            r = z3.RealVal(1)
            for _ in range(-cb):
                r = r * x
            return z3.RealVal(1) / r
        if isinstance(b, float) and b == 0.5:
            return self.c.sqrt(a)
        if isinstance(a, (int, float)) and a == 10:
            return self.c.pow10(b)
        return self.c.pow(a, b)

    def map1(self, f, v, st, kind=None):
        if self.is_arr(v, st):
            a = st.get(v)
            return st.alloc(self.c, Arr(a.shape, lambda ix, a=a: f(a.elem(ix)), kind or a.kind))
        if isinstance(v, Ref) and isinstance(st.get(v), PyList):
            a = self.list_to_arr(st.get(v), st)       # numpy converts a list of numbers to an array first
            return st.alloc(self.c, Arr(a.shape, lambda ix, a=a: f(a.elem(ix)), kind or a.kind))
        if isinstance(v, (Ref, str, tuple)) or v is None:
            raise Unsupported('unary arithmetic on %r' % (v,))
        return f(v)

    def broadcast2(self, a, b, f, st, node, kind=None):
        A = st.get(a) if self.is_arr(a, st) else None
        B = st.get(b) if self.is_arr(b, st) else None
        if A is None and isinstance(a, Ref) or B is None and isinstance(b, Ref):
            other = st.get(a if A is None else b)
            if isinstance(other, PyList):
                lst = self.list_to_arr(other, st)
                if A is None:
                    A = lst
                else:
                    B = lst
            else:
                raise Unsupported('array arithmetic with %r' % (other,))
        if A is None:
            k = kind or _rkind(B.kind, a)
            return st.alloc(self.c, Arr(B.shape, lambda ix: f(a, B.elem(ix)), k))
        if B is None:
            k = kind or _rkind(A.kind, b)
            return st.alloc(self.c, Arr(A.shape, lambda ix: f(A.elem(ix), b), k))
        n = max(A.ndim, B.ndim)
        sa = (1,) * (n - A.ndim) + A.shape
        sb = (1,) * (n - B.ndim) + B.shape
        shape = []
        for x, y in zip(sa, sb):
            if _is_one(x):
                shape.append(y)
            elif _is_one(y):
                shape.append(x)
            else:
                if not _same(x, y):
                    self.oblige('safe.shape', st, as_term(x) == as_term(y), node)
                shape.append(x)

        def el(ix, sa=sa, sb=sb):
            ia = tuple(0 if _is_one(d) else i for i, d in zip(ix, sa))[n - A.ndim:]
            ib = tuple(0 if _is_one(d) else i for i, d in zip(ix, sb))[n - B.ndim:]
            return f(A.elem(ia), B.elem(ib))
        k = kind or ('real' if 'real' in (A.kind, B.kind) else A.kind)
        return st.alloc(self.c, Arr(tuple(shape), el, k))

    def list_to_ragged(self, lst, st):
        rows = []
        for x in lst.items:
            a = st.get(x) if isinstance(x, Ref) else None
            if not isinstance(a, Arr) or a.ndim != 1:
                raise Unsupported('list that grows in an invariant loop must hold 1-D arrays')
            rows.append(a)

        def rowlen(i, rows=rows):
            r = z3.IntVal(0)
            for k in range(len(rows) - 1, -1, -1):
                r = z3.If(to_int(i) == k, to_int(rows[k].shape[0]), r)
            return r

        def elem(i, j, rows=rows):
            r = z3.RealVal(0)
            for k in range(len(rows) - 1, -1, -1):
                r = z3.If(to_int(i) == k, to_real(rows[k].elem((j,))), r)
            return r
        return Ragged(len(rows), rowlen, elem)

    def list_to_arr(self, lst, st):
        items = lst.items
        if all(not isinstance(x, (Ref, tuple, str)) and x is not None for x in items):
            kind = 'int' if all(_is_intlike(x) for x in items) else 'real'

            def el(ix, items=items):
                i = ix[0]
                ci = conc_int(i)
                if ci is not None:
                    return items[ci]
                r = as_term(items[-1]) if kind == 'int' else to_real(items[-1])
                for j in range(len(items) - 2, -1, -1):
                    r = z3.If(i == j, as_term(items[j]) if kind == 'int' else to_real(items[j]), r)
                return r
            return Arr((len(items),), el, kind)
        rows = [st.get(x) if isinstance(x, Ref) else None for x in items]
        if rows and all(isinstance(r, Arr) and r.ndim == 1 for r in rows) and all(_same(r.shape[0], rows[0].shape[0]) for r in rows[1:]):
            # np.array([row_0, row_1, ...]) of 1-D arrays of (syntactically) one length: the 2-D stack of the rows
            kind = 'int' if all(r.kind == 'int' for r in rows) else 'real'

            def el2(ix, rows=rows):
                ci = conc_int(ix[0])
                if ci is not None:
                    return rows[ci].elem((ix[1],))
                r = rows[-1].elem((ix[1],))
                for j in range(len(rows) - 2, -1, -1):
                    r = z3.If(to_int(ix[0]) == j, rows[j].elem((ix[1],)), r)
                return r
            return Arr((len(rows), rows[0].shape[0]), el2, kind)
        raise Unsupported('list of non-scalars as array')

    # ---- subscripts
    def ev_Subscript(self, node, st):
        base = self.eval(node.value, st)
        return self.subscript(base, node.slice, st, node)

    def subscript(self, base, sl, st, node):
        if isinstance(base, tuple):
            i = self.eval(sl, st) if not isinstance(sl, ast.Slice) else None
            if isinstance(sl, ast.Slice):
                lo = self.eval(sl.lower, st) if sl.lower else None
                hi = self.eval(sl.upper, st) if sl.upper else None
                return base[lo:hi]
            ci = conc_int(i)
            if ci is None:
                raise Unsupported('tuple index symbolic')
            if not -len(base) <= ci < len(base):
                raise _Raise(st, ExcV('IndexError', node.lineno))
            return base[ci]
        if isinstance(base, str):
            if isinstance(sl, ast.Slice):
                lo = conc_int(self.eval(sl.lower, st)) if sl.lower else None
                hi = conc_int(self.eval(sl.upper, st)) if sl.upper else None
                if (sl.lower is None or lo is not None) and (sl.upper is None or hi is not None) and sl.step is None:
                    return base[lo:hi]
            return '<strslice>'
        if isinstance(base, SeqV):
            i = self.eval(sl, st)
            if 'index' in self.safety:
                self.oblige('safe.index', st, z3.And(to_int(i) >= 0, to_int(i) < to_int(base.n)), node)
            return base.elem(i)
        if isinstance(base, Ref):
            cell = st.get(base)
            if isinstance(cell, Arr):
                return self.index_arr(base, sl, st, node)
            if isinstance(cell, PyList):
                if isinstance(sl, ast.Slice):
                    lo = conc_int(self.eval(sl.lower, st)) if sl.lower else None
                    hi = conc_int(self.eval(sl.upper, st)) if sl.upper else None
                    stp = conc_int(self.eval(sl.step, st)) if sl.step else None
                    return st.alloc(self.c, PyList(cell.items[lo:hi:stp]))
                i = conc_int(self.eval(sl, st))
                if i is None:
                    raise Unsupported('list index symbolic')
                if not -len(cell.items) <= i < len(cell.items):
                    raise _Raise(st, ExcV('IndexError', node.lineno))
                return cell.items[i]
            if isinstance(cell, Ragged):
                i = self.eval(sl, st)
                if 'index' in self.safety:
                    self.oblige('safe.index', st, z3.And(to_int(i) >= 0, to_int(i) < to_int(cell.n)), node)
                return st.alloc(self.c, Arr((cell.rowlen(i),), lambda ix, cell=cell, i=i: cell.elem(i, ix[0]), 'real'))
            if isinstance(cell, PyDict):
                k = self.eval(sl, st)
                if is_sym(k):
                    raise Unsupported('dict key symbolic')
                if k not in cell.items:
                    raise _Raise(st, ExcV('KeyError', node.lineno))
                return cell.items[k]
            if isinstance(cell, Obj):
                ci, fn = source.find_method(cell.cls, '__getitem__')
                if fn is not None:       # obj[key]  ->  type(obj).__getitem__(obj, key)
                    return self.call(FuncV('method', (ci, fn), self_val=base), [self.eval(sl, st)], {}, st, node)
        if isinstance(base, AbsObj):
            h = self.unit.abstract.get('%s.__getitem__' % base.cls)
            if h is not None:       # abstract object: obj[key] by the assumed contract of its __getitem__
                return h(self, st, base, [self.eval(sl, st)], {}, node)
        raise Unsupported('subscript of %r at line %d' % (base, node.lineno))

    def parse_index(self, sl, a, st, node, pre=None):
        """-> list of per-source-dimension specs: ('i', term) | ('s', lo, n, step) and out-shape plan.
        `pre` supplies already evaluated scalar indices."""
        if pre is not None:
            items = [('val', p) for p in pre]
        else:
            elts = sl.elts if isinstance(sl, ast.Tuple) else [sl]
            items = []
            for e in elts:
                if isinstance(e, ast.Slice):
                    items.append(('slice', e))
                elif isinstance(e, ast.Constant) and e.value is None:
                    items.append(('new', None))
                elif isinstance(e, ast.Constant) and e.value is Ellipsis:
                    items.append(('ell', None))
                elif isinstance(e, ast.Attribute) and ast.unparse(e) in ('np.newaxis', 'numpy.newaxis'):
                    items.append(('new', None))
                else:
                    items.append(('val', self.eval(e, st)))
        n_src = sum(1 for k, _ in items if k in ('slice', 'val'))
        if any(k == 'ell' for k, _ in items):
            fill = a.ndim - n_src
            out = []
            for k, v in items:
                if k == 'ell':
                    out.extend([('slice', None)] * fill)
                else:
                    out.append((k, v))
            items = out
        else:
            items = items + [('slice', None)] * (a.ndim - n_src)
        plan = []     # per output/source: ('i', term) consumes src dim; ('s', lo, n, step) src dim -> out dim; ('n',) out dim only
        d = 0
        for k, v in items:
            if k == 'new':
                plan.append(('n',))
                continue
            if d >= a.ndim:
                raise _Raise(st, ExcV('IndexError', getattr(node, 'lineno', 0)))
            dim = a.shape[d]
            if k == 'val':
                if isinstance(v, Ref):
                    plan.append(('f', v))
                    d += 1
                    continue
                if isinstance(v, (float, str)) or v is None:
                    raise Unsupported('index %r' % (v,))
                ci = conc_int(v)
                if ci is not None and ci < 0:
                    idx = dim + ci
                    if 'index' in self.safety:
                        self.oblige('safe.index', st, as_term(idx) >= 0, node)
                else:
                    idx = v
                    if 'index' in self.safety:
                        cd = conc_int(dim)
                        if ci is not None and cd is not None:
                            if not ci < cd:
                                self.oblige('safe.index', st, False, node)
                        else:
                            lo_ok = True if ci is not None else (to_int(idx) >= 0)
                            self.oblige('safe.index', st, self.c.And(lo_ok, to_int(idx) < to_int(dim)), node)
                plan.append(('i', idx))
            else:
                if v is None:
                    plan.append(('s', 0, dim, 1))
                else:
                    lo = self.eval(v.lower, st) if v.lower else None
                    hi = self.eval(v.upper, st) if v.upper else None
                    step = conc_int(self.eval(v.step, st)) if v.step else 1
                    if step == -1 and lo is None and hi is None:
                        plan.append(('s', dim - 1, dim, -1))
                    elif step == 1:
                        lo_t = self.clamp_bound(lo, dim, 0, st)
                        hi_t = self.clamp_bound(hi, dim, dim, st)
                        n = _sub(hi_t, lo_t)
                        cn = conc_int(n)
                        if cn is None:
                            n = z3.simplify(n) if self.implied(st, to_int(n) >= 0) else self.c.Max(n, 0)
                        elif cn < 0:
                            n = 0
                        plan.append(('s', lo_t, n, 1))
                    elif step is not None and step > 1:
                        # a[lo:hi:k], k > 1 concrete: ceil((hi-lo)/k) elements lo, lo+k, ...
                        lo_t = self.clamp_bound(lo, dim, 0, st)
                        hi_t = self.clamp_bound(hi, dim, dim, st)
                        d_ = _sub(hi_t, lo_t)
                        cd_ = conc_int(d_)
                        if cd_ is not None:
                            n = max(0, -(-cd_ // step))
                        else:
                            n = z3.If(to_int(d_) > 0, (to_int(d_) + (step - 1)) / step, z3.IntVal(0))
                        plan.append(('s', lo_t, n, step))
                    else:
                        raise Unsupported('slice step %r' % step)
            d += 1
        return plan

    def clamp_bound(self, b, dim, default, st=None):
        """numpy slice bound semantics (negative wraps once, then clamps to [0, dim]).  When the path condition
        already implies 0 <= b <= dim the bound is used as written (no ite terms)."""
        if b is None:
            return default
        cb = conc_int(b)
        cd = conc_int(dim)
        if cb is not None:
            if cb < 0:
                if cd is not None:
                    return max(cd + cb, 0)
                if st is not None and self.implied(st, to_int(dim) + cb >= 0):
                    return to_int(dim) + cb
                return self.c.Max(dim + cb, 0)
            if cd is not None:
                return min(cb, cd)
            if cb == 0:
                return 0
            if st is not None and self.implied(st, to_int(dim) >= cb):
                return cb
            return self.c.Min(cb, dim)
        b = to_int(b)
        if st is not None and self.implied(st, z3.And(b >= 0, b <= to_int(dim))):
            return b
        # numpy: negative wraps once, then clamps to [0, dim]
        w = z3.If(b < 0, b + to_int(dim), b)
        return z3.If(w < 0, z3.IntVal(0), z3.If(w > to_int(dim), to_int(dim), w))

    def implied(self, st, cond, timeout=200):
        """True only if the path condition definitely implies cond (used to simplify terms, never to decide)"""
        s = z3.Solver()
        s.set('timeout', timeout)
        for a in st.pc:
            if not z3.is_quantifier(a):
                s.add(a)
        s.add(z3.Not(cond))
        return s.check() == z3.unsat

    def index_arr(self, ref, sl, st, node, pre=None):
        a = st.get(ref)
        plan = self.parse_index(sl, a, st, node, pre=pre)
        if any(p[0] == 'f' for p in plan):
            return self.fancy_index(ref, a, plan, st, node)
        if all(p[0] == 'i' for p in plan):
            return a.elem(tuple(p[1] for p in plan))
        shape = []
        for p in plan:
            if p[0] == 's':
                shape.append(p[2])
            elif p[0] == 'n':
                shape.append(1)

        def el(ix, plan=plan, a=a):
            src = []
            o = 0
            for p in plan:
                if p[0] == 'i':
                    src.append(p[1])
                elif p[0] == 's':
                    src.append(_add(p[1], ix[o]) if p[3] == 1 else (_sub(p[1], ix[o]) if p[3] == -1 else _add(p[1], _mulk(ix[o], p[3]))))
                    o += 1
                else:
                    o += 1
            return a.elem(tuple(src))
        def mapfn(ix, plan=plan):
            src = []
            o = 0
            for p in plan:
                if p[0] == 'i':
                    src.append(p[1])
                elif p[0] == 's':
                    src.append(_add(p[1], ix[o]) if p[3] == 1 else (_sub(p[1], ix[o]) if p[3] == -1 else _add(p[1], _mulk(ix[o], p[3]))))
                    o += 1
                else:
                    o += 1
            return tuple(src)
        return st.alloc(self.c, ViewCell(ref, tuple(shape), mapfn, a.kind, plan))

    def fancy_index(self, ref, a, plan, st, node):
        # 1-D integer / boolean array index on a 1-D array (permutations, masks via lib.where)
        if len(plan) == 1 and a.ndim == 1:
            idx = st.get(plan[0][1])
            if isinstance(idx, Arr) and idx.kind == 'bool' and idx.ndim == 1:
                from . import lib
                if not _same(idx.shape[0], a.shape[0]):
                    self.oblige('safe.shape', st, as_term(idx.shape[0]) == as_term(a.shape[0]), node)
                sel = lib.mask_indices(self, st, idx)
                return st.alloc(self.c, Arr(sel.shape, lambda ix, a=a, sel=sel: a.elem((sel.elem(ix),)), a.kind))
            if isinstance(idx, PyList):
                idx = self.list_to_arr(idx, st)
            if isinstance(idx, Arr) and idx.kind == 'int' and idx.ndim == 1:
                if 'index' in self.safety:
                    self.oblige('safe.index', st, self.c.Forall(0, idx.shape[0], lambda i: z3.And(
                        idx.elem((i,)) >= 0, idx.elem((i,)) < to_int(a.shape[0]))), node)
                return st.alloc(self.c, Arr(idx.shape, lambda ix, a=a, idx=idx: a.elem((idx.elem(ix),)), a.kind))
        if a.ndim >= 1 and plan[0][0] == 'f' and all(p[0] == 's' and conc_int(p[1]) == 0 for p in plan[1:]):
            idx = st.get(plan[0][1])
            if isinstance(idx, Arr) and idx.kind == 'int' and idx.ndim == 1:
                if 'index' in self.safety:
                    self.oblige('safe.index', st, self.c.Forall(0, idx.shape[0], lambda i: z3.And(
                        idx.elem((i,)) >= 0, idx.elem((i,)) < to_int(a.shape[0]))), node)
                return st.alloc(self.c, Arr(idx.shape + a.shape[1:],
                                            lambda ix, a=a, idx=idx: a.elem((idx.elem((ix[0],)),) + tuple(ix[1:])), a.kind))
        fs = [p for p in plan if p[0] == 'f']
        if len(fs) == 1 and all(p[0] in ('i', 'f') for p in plan) and len(plan) == a.ndim:
            idx = st.get(fs[0][1])
            if isinstance(idx, Arr) and idx.kind == 'int' and idx.ndim == 1:
                pos = [k for k, p in enumerate(plan) if p[0] == 'f'][0]
                if 'index' in self.safety:
                    self.oblige('safe.index', st, self.c.Forall(0, idx.shape[0], lambda i: z3.And(
                        idx.elem((i,)) >= 0, idx.elem((i,)) < to_int(a.shape[pos]))), node)

                def el(ix, a=a, idx=idx, plan=plan):
                    return a.elem(tuple(idx.elem((ix[0],)) if p[0] == 'f' else p[1] for p in plan))
                return st.alloc(self.c, Arr(idx.shape, el, a.kind))
        if a.ndim == 2 and len(plan) == 2 and plan[0][0] == 's' and conc_int(plan[0][1]) == 0 and plan[0][3] == 1 \
                and _same(plan[0][2], a.shape[0]) and plan[1][0] == 'f':
            # a[..., idx] / a[:, idx] on a 2-D array: an integer index array on the last axis
            idx = st.get(plan[1][1])
            if isinstance(idx, Arr) and idx.kind == 'int' and idx.ndim == 1:
                if 'index' in self.safety:
                    self.oblige('safe.index', st, self.c.Forall(0, idx.shape[0], lambda i: z3.And(
                        idx.elem((i,)) >= 0, idx.elem((i,)) < to_int(a.shape[1]))), node)
                return st.alloc(self.c, Arr((a.shape[0], idx.shape[0]), lambda ix, a=a, idx=idx: a.elem((ix[0], idx.elem((ix[1],)))), a.kind))
        if a.ndim >= 2 and len(plan) == a.ndim and plan[-1][0] == 'f' and all(
                p[0] == 's' and conc_int(p[1]) == 0 and p[3] == 1 and _same(p[2], a.shape[k]) for k, p in enumerate(plan[:-1])):
            # a[:, :, idx]: whole leading axes, an integer index array on the last axis (any rank)
            idx = st.get(plan[-1][1])
            if isinstance(idx, Arr) and idx.kind == 'int' and idx.ndim == 1:
                if 'index' in self.safety:
                    self.oblige('safe.index', st, self.c.Forall(0, idx.shape[0], lambda i: z3.And(
                        idx.elem((i,)) >= 0, idx.elem((i,)) < to_int(a.shape[-1]))), node)
                return st.alloc(self.c, Arr(tuple(a.shape[:-1]) + (idx.shape[0],),
                                            lambda ix, a=a, idx=idx: a.elem(tuple(ix[:-1]) + (idx.elem((ix[-1],)),)), a.kind))
        raise Unsupported('fancy / boolean indexing at line %d' % getattr(node, 'lineno', 0))

    def store(self, base, sl, v, st, node):
        if isinstance(base, Ref):
            cell = st.get(base)
            if isinstance(cell, Arr):
                return self.store_arr(base, cell, sl, v, st, node)
            if isinstance(cell, PyList):
                i = conc_int(self.eval(sl, st))
                if i is None:
                    raise Unsupported('list store symbolic index')
                items = list(cell.items)
                if not -len(items) <= i < len(items):
                    raise _Raise(st, ExcV('IndexError', node.lineno))
                items[i] = v
                st.put(base, PyList(items))
                return
            if isinstance(cell, PyDict):
                k = self.eval(sl, st)
                if is_sym(k):
                    raise Unsupported('dict store symbolic key')
                d = dict(cell.items)
                d[k] = v
                st.put(base, PyDict(d))
                return
            if isinstance(cell, Obj):
                ci, fn = source.find_method(cell.cls, '__setitem__')
                if fn is not None:       # obj[key] = v  ->  type(obj).__setitem__(obj, key, v)
                    self.call(FuncV('method', (ci, fn), self_val=base), [self.eval(sl, st), v], {}, st, node)
                    return
        raise Unsupported('store into %r' % (base,))

    def store_arr(self, ref, a, sl, v, st, node):
        plan = self.parse_index(sl, a, st, node)
        if plan and plan[0][0] == 'f' and all(p[0] == 's' and conc_int(p[1]) == 0 and _same(p[2], d)
                                               for p, d in zip(plan[1:], a.shape[1:])):
            mask = st.get(plan[0][1])
            if isinstance(mask, Arr) and mask.kind == 'bool' and mask.ndim == 1 and self.is_arr(v, st) \
                    and st.get(v).ndim == 1 and a.ndim == 2:
                V = st.get(v)
                if not _same(V.shape[0], a.shape[1]):
                    self.oblige('safe.shape', st, as_term(V.shape[0]) == as_term(a.shape[1]), node)
                if not _same(mask.shape[0], a.shape[0]):
                    self.oblige('safe.shape', st, as_term(mask.shape[0]) == as_term(a.shape[0]), node)
                st.put(ref, Arr(a.shape, lambda ix, a=a, mask=mask, V=V: self.c.If(mask.elem((ix[0],)), to_real(V.elem((ix[1],))),
                                                                               a.elem(ix)), a.kind))
                return
            if isinstance(mask, Arr) and mask.kind == 'bool' and mask.ndim == 1 and not self.is_arr(v, st) \
                    and not isinstance(v, (Ref, tuple, str)) and v is not None:
                # a[mask, ...] = scalar   (boolean mask over the first axis)
                if not _same(mask.shape[0], a.shape[0]):
                    self.oblige('safe.shape', st, as_term(mask.shape[0]) == as_term(a.shape[0]), node)
                vv = to_real(v) if a.kind == 'real' else v
                st.put(ref, Arr(a.shape, lambda ix, a=a, mask=mask: z3.If(mask.elem((ix[0],)), vv, a.elem(ix))
                                if is_sym(mask.elem((ix[0],))) else (vv if mask.elem((ix[0],)) else a.elem(ix)), a.kind))
                return
        if len(plan) == 1 and plan[0][0] == 'f' and a.ndim == 1 and self.is_arr(v, st):
            idx = st.get(plan[0][1])
            V = st.get(v)
            if isinstance(idx, Arr) and idx.kind == 'int' and idx.inv is not None and V.ndim == 1:
                # a[p] = v with p a permutation of 0..n-1: new[j] = v[p^-1(j)]
                if not _same(idx.shape[0], a.shape[0]):
                    self.oblige('safe.shape', st, as_term(idx.shape[0]) == as_term(a.shape[0]), node)
                if not _same(V.shape[0], a.shape[0]):
                    self.oblige('safe.shape', st, as_term(V.shape[0]) == as_term(a.shape[0]), node)
                st.put(ref, Arr(a.shape, lambda ix, V=V, idx=idx: V.elem((idx.inv(ix[0]),)), 'real' if 'real' in (a.kind, V.kind) else a.kind))
                return
        if any(p[0] in ('f', 'n') for p in plan):
            raise Unsupported('fancy store')
        V = st.get(v) if self.is_arr(v, st) else None
        if V is None and isinstance(v, (Ref, tuple, str)) or v is None:
            raise Unsupported('store of %r into array' % (v,))
        region_dims = [p for p in plan if p[0] == 's']
        if V is not None:
            # broadcast V to the region shape (right aligned)
            rshape = [p[2] for p in region_dims]
            if V.ndim > len(rshape):
                raise Unsupported('store of higher-rank value')
            for x, y in zip(V.shape[::-1], rshape[::-1]):
                if not _is_one(x) and not _same(x, y):
                    self.oblige('safe.shape', st, as_term(x) == as_term(y), node)
        conv = to_real if a.kind == 'real' else (lambda x: x)
        if self.c.mode == 'sym' and getattr(self.unit, 'store', 'ite') == 'fresh' and V is None \
                and all(p[0] == 'i' for p in plan):
            # select/store axioms on a fresh function instead of nested ite terms: keeps non-linear terms atomic
            new = self.c.fresh_array('st', a.shape, a.kind)
            idx = tuple(to_int(p[1]) for p in plan)
            js = [self.c.fresh('j') for _ in plan]
            st.assume(new.elem(idx) == conv(v))
            same = z3.And(*[j == i for j, i in zip(js, idx)])
            st.assume(z3.ForAll(js, z3.Implies(z3.Not(same), new.elem(tuple(js)) == a.elem(tuple(js))),
                                patterns=[new.elem(tuple(js))]))
            st.put(ref, new)
            return

        def el(ix, plan=plan, a=a, V=V, v=v):
            conds = []
            rel = []
            for p, i in zip(plan, ix):
                if p[0] == 'i':
                    c1 = _eq(i, p[1])
                    if c1 is not True:
                        conds.append(c1)
                else:
                    if p[3] == -1:
                        raise Unsupported('store through reversed slice')
                    lo, n = p[1], p[2]
                    if p[3] == 1:
                        r = _sub(i, lo)
                        c1 = self.c.And(_ge(i, lo), _lt(r, n))
                    else:
                        k_ = p[3]       # strided store a[lo::k] = v: position i is written iff (i-lo) is a non-negative multiple of k
                        off = _sub(i, lo)
                        co = conc_int(off)
                        if co is not None:
                            r = co // k_
                            c1 = self.c.And(co >= 0 and co % k_ == 0, _lt(r, n))
                        else:
                            r = to_int(off) / k_
                            c1 = self.c.And(to_int(off) >= 0, to_int(off) % k_ == 0, _lt(r, n))
                    rel.append(r)
                    if c1 is not True:
                        conds.append(c1)
            if V is not None:
                vix = tuple(0 if _is_one(d) else r for r, d in zip(rel[len(rel) - V.ndim:], V.shape))
                newv = V.elem(vix)
            else:
                newv = v
            cond = self.c.And(*conds)
            if cond is True:
                return conv(newv)
            if cond is False:
                return a.elem(ix)
            x, y = _unify(conv(newv), a.elem(ix))
            return z3.If(cond, x, y)
        st.put(ref, Arr(a.shape, el, a.kind))

    # ------------------------------------------------------------------ calls
    def ev_Call(self, node, st):
        fn = node.func
        # logger calls are dropped, arguments not evaluated (DESIGN 2.1)
        if isinstance(fn, ast.Attribute) and fn.attr in LOGGER_METHODS:
            base = fn.value
            if (isinstance(base, ast.Name) and base.id in ('self', 'log', '_log', 'logger')) or \
                    (isinstance(base, ast.Attribute) and base.attr in ('log', '_log', 'logger', '_logger')):
                if fn.attr == 'error_and_raise':
                    raise Unsupported('error_and_raise')
                return None
        if isinstance(fn, ast.Name) and fn.id == 'print':
            return None
        if isinstance(fn, ast.Name) and fn.id == 'super' and not node.args:
            return SuperV(st.env['self'], self.cur_class)
        f = self.eval(fn, st)
        args = []
        for a in node.args:
            if isinstance(a, ast.Starred):
                v = self.eval(a.value, st)
                if isinstance(v, tuple):
                    args.extend(v)
                elif isinstance(v, Ref) and isinstance(st.get(v), PyList):
                    args.extend(st.get(v).items)
                else:
                    raise Unsupported('*args of %r' % (v,))
            else:
                args.append(self.eval(a, st))
        kwargs = {}
        for k in node.keywords:
            if k.arg is None:
                d = self.eval(k.value, st)          # f(**d) with a dict of concrete string keys
                if isinstance(d, Ref) and isinstance(st.get(d), PyDict) and all(isinstance(x, str) for x in st.get(d).items):
                    kwargs.update(st.get(d).items)
                    continue
                raise Unsupported('**kwargs at call')
            kwargs[k.arg] = self.eval(k.value, st)
        return self.call(f, args, kwargs, st, node)

    def call(self, f, args, kwargs, st, node):
        from . import lib
        if isinstance(f, ModV):
            ha = self.unit.abstract.get('call:' + f.dotted.split('.')[-1])
            if ha is not None:        # a function of a module without model (pickle.load, pathlib.Path ...): the unit's abstract contract
                return ha(self, st, args, kwargs, node)
        if not isinstance(f, FuncV):
            raise Unsupported('call of %r at line %d' % (f, getattr(node, 'lineno', 0)))
        if f.kind == 'logger':
            return None
        if f.kind == 'pyfunc':           # a callable value produced by a library model (e.g. an interp1d object)
            return f.target(self, st, args, kwargs, node)
        if f.kind == 'lib':
            ha = self.unit.abstract.get('call:' + f.target.split('.')[-1])
            if ha is not None:        # the unit states its own (abstract) contract for this library function
                return ha(self, st, args, kwargs, node)
            h = lib.HANDLERS.get(f.target)
            if h is None:
                raise Unsupported('library function %s has no model' % f.target)
            return h(self, st, args, kwargs, node)
        if f.kind == 'arrmeth':
            h = lib.ARRAY_METHODS.get(f.target)
            if h is None:
                raise Unsupported('array method %s has no model' % f.target)
            return h(self, st, [f.self_val] + args, kwargs, node)
        if f.kind == 'listmeth':
            return lib.list_method(self, st, f.self_val, f.target, args, kwargs, node)
        if f.kind == 'dictmeth':
            return lib.dict_method(self, st, f.self_val, f.target, args, kwargs, node)
        if f.kind == 'strmeth':
            return lib.str_method(self, st, f.self_val, f.target, args, kwargs, node)
        if f.kind in ('closure', 'lambda'):
            return self.inline_closure(f, args, kwargs, st, node)
        if f.kind == 'repo':
            h = self.unit.abstract.get('call:' + f.target.split(':')[1])
            if h is not None:        # assumed (abstract) contract of an out-of-reach function, stated by the unit
                return h(self, st, args, kwargs, node)
            short = f.target.split(':')[1]
            if f.target in self.unit.inline or short in self.unit.inline:      # the unit asks for the callee's real body
                mi2, fn2, _ = source.find_function(_resolve_alias(f.target))
                return self._inline(fn2, {}, mi2, None, args, kwargs, st, node)
            u = self.registry.get(f.target) or self.registry.get(_resolve_alias(f.target))
            if u is None:
                # no contract stated for this callee: its real body is executed in place (strongest postcondition through
                # the callee), so that moving code into a helper neither hides it from the proof nor blocks the proof
                stack = self.__dict__.setdefault('_auto_inl', [])
                if f.target in stack or len(stack) >= 4:
                    raise Unsupported('call to %s which has no contract' % f.target)
                try:
                    mi2, fn2, _ = source.find_function(_resolve_alias(f.target))
                except (KeyError, FileNotFoundError, SyntaxError):
                    raise Unsupported('call to %s which has no contract' % f.target)
                if getattr(fn2, 'decorator_list', None) and any('cache' in ast.unparse(d) for d in fn2.decorator_list):
                    raise Unsupported('call to %s which has no contract and keeps its results between calls (%s)'
                                      % (f.target, ', '.join(ast.unparse(d) for d in fn2.decorator_list)))
                note = 'callee without contract executed in place: %s' % f.target
                if note not in self.notes:
                    self.notes.append(note)
                stack.append(f.target)
                try:
                    return self._inline(fn2, {}, mi2, None, args, kwargs, st, node)
                finally:
                    stack.pop()
            return self.call_contract(u, args, kwargs, st, node)
        if f.kind == 'method':
            ci, fn = f.target
            if ci.name == 'Logger' and fn.name == '__init__':
                return None          # logging infrastructure: dropped like the logger calls
            qn = '%s:%s.%s' % (ci.modname, ci.name, fn.name)
            h = self.unit.abstract.get('call:' + fn.name)
            if h is not None:        # assumed (abstract) contract of an out-of-reach method, stated by the unit
                return h(self, st, ([f.self_val] if f.self_val is not None else []) + args, kwargs, node)
            u = self.registry.get(qn)
            a = ([f.self_val] if f.self_val is not None else []) + args
            if qn in self.unit.inline or fn.name in self.unit.inline:
                return self.inline_call(ci, fn, a, kwargs, st, node)       # the unit asks for the callee's real body
            if u is None:
                stack = self.__dict__.setdefault('_auto_inl', [])
                if qn in stack or len(stack) >= 4:
                    raise Unsupported('call to %s which has no contract' % qn)
                if getattr(fn, 'decorator_list', None) and any('cache' in ast.unparse(d) for d in fn.decorator_list):
                    raise Unsupported('call to %s which has no contract and keeps its results between calls' % qn)
                note = 'callee without contract executed in place: %s' % qn
                if note not in self.notes:
                    self.notes.append(note)
                stack.append(qn)
                try:
                    return self.inline_call(ci, fn, a, kwargs, st, node)
                finally:
                    stack.pop()
            return self.call_contract(u, a, kwargs, st, node)
        if f.kind == 'absmethod':
            o = f.self_val
            h = self.unit.abstract.get('%s.%s' % (o.cls, f.target))
            if h is None:
                raise Unsupported('abstract method %s.%s has no contract' % (o.cls, f.target))
            return h(self, st, o, args, kwargs, node)
        if f.kind == 'class':
            h = self.unit.abstract.get('new:' + f.target)
            if h is not None:
                return h(self, st, args, kwargs, node)
            if exc_is_subclass(f.target, 'Exception') or f.target.endswith('Exception') or f.target.endswith('Error'):
                return ExcV(f.target, getattr(node, 'lineno', 0))
            raise Unsupported('construction of %s' % f.target)
        raise Unsupported('call kind %s' % f.kind)

    def bind(self, fndef, args, kwargs, st, defaults_env=None):
        a = fndef.args
        if a.vararg or a.kwarg or a.posonlyargs:
            raise Unsupported('*args/**kwargs parameters')
        names = [x.arg for x in a.args]
        env = {}
        if len(args) > len(names):
            raise EngineError('too many arguments for %s' % fndef.name)
        for n, v in zip(names, args):
            env[n] = v
        for k, v in kwargs.items():
            if k not in names and k not in [x.arg for x in a.kwonlyargs]:
                raise EngineError('unexpected keyword %s for %s' % (k, fndef.name))
            env[k] = v
        nd = len(a.defaults)
        for i, d in enumerate(a.defaults):
            n = names[len(names) - nd + i]
            if n not in env:
                env[n] = self.eval(d, State())
        for x, d in zip(a.kwonlyargs, a.kw_defaults):
            if x.arg not in env and d is not None:
                env[x.arg] = self.eval(d, State())
        for n in names:
            if n not in env:
                raise EngineError('missing argument %s for %s' % (n, fndef.name))
        return env

    def inline_closure(self, f, args, kwargs, st, node):
        if f.kind == 'lambda':
            lam = f.target
            names = [x.arg for x in lam.args.args]
            saved = dict(st.env)
            st.env = dict(f.env)
            st.env.update(zip(names, args))
            try:
                return self.eval(lam.body, st)
            finally:
                st.env = saved
        return self._inline(f.target, f.env, f.mi, None, args, kwargs, st, node)

    def inline_call(self, ci, fn, args, kwargs, st, node):
        mi = source.load_module(ci.modname)
        return self._inline(fn, {}, mi, ci.name, args, kwargs, st, node)

    def _inline(self, fndef, closure_env, mi, clsname, args, kwargs, st, node):
        """execute a callee body in place; only single-outcome bodies (getters, tiny helpers)"""
        import hashlib
        self.__dict__.setdefault('deps', {})['%s:%s%s' % (getattr(mi, 'modname', '?'), (clsname + '.') if clsname else '', fndef.name)] = \
            hashlib.sha256(ast.dump(fndef).encode()).hexdigest()[:16]
        env = dict(closure_env)
        env.update(self.bind(fndef, args, kwargs, st))
        saved = (st.env, self.mi, self.cur_class, self.fn_imports, self.loopno)
        st.env = env
        self.mi, self.cur_class, self.fn_imports = mi, clsname, dict(mi.imports)
        try:
            outs = self.exec_block(fndef.body, st)
        finally:
            senv = st.env
            st.env, self.mi, self.cur_class, self.fn_imports, _ = saved
        outs = [(s, 'return' if k == 'next' else k, p) for s, k, p in outs]
        if len(outs) > 1:
            # outcomes on dead paths (a guard the caller's state excludes, e.g. an argument check that raises) do not count
            live = [o for o in outs if self.feasible(o[0], 2000)]
            if live:
                outs = live
        if len(outs) != 1:
            # several outcomes: merge is only supported when all return scalars under exclusive conditions
            rets = [(s, p) for s, k, p in outs if k == 'return']
            raises = [(s, p) for s, k, p in outs if k == 'raise']
            if len(rets) == 1 and all(s is not st for s, _ in raises) is False:
                pass
            if not outs or not self._dec:
                raise Unsupported('inlined callee %s has %d outcomes' % (fndef.name, len(outs)))
            # several feasible outcomes: the calling statement is executed once per outcome (the body is re-executed
            # deterministically from the statement's snapshot, so outcome k is the same outcome each time)
            choice = self.decide(list(range(len(outs))))
            if choice >= len(outs):
                raise Unsupported('inlined callee %s: outcomes changed between re-executions' % fndef.name)
            outs = [outs[choice]]
        s, k, p = outs[0]
        if s is not st:
            # the callee branched and exactly one branch is feasible: the caller's state continues as that branch
            st.heap, st.pc, st.ver, st.views, st.trace, st.tags = s.heap, s.pc, s.ver, s.views, s.trace, s.tags
            st.consumer_envs = s.consumer_envs
        if k == 'raise':
            raise _Raise(st, p)
        return p

    def resolve_call_static(self, call, st):
        """for modifies analysis: (callee Unit or None, {param name -> arg AST/value})"""
        try:
            f = self.eval_quiet(call.func, st)
        except (Unsupported, EngineError, KeyError, _Raise):
            # callee not resolvable at loop entry (e.g. a method of an inner loop variable): conservatively every
            # array passed by name may be written
            class _U:
                frame_attrs = []
            u2 = _U()
            names = [a for a in list(call.args) + [k.value for k in call.keywords] if isinstance(a, ast.Name)]
            u2.frame = ['#%d' % i for i in range(len(names))]
            u2.param_index = lambda n: int(n[1:])
            return u2, {'#%d' % i: a for i, a in enumerate(names)}
        if not isinstance(f, FuncV):
            return None, {}
        u = None
        selfarg = []
        if f.kind == 'repo':
            u = self.registry.get(f.target) or self.registry.get(_resolve_alias(f.target))
        elif f.kind == 'method':
            ci, fn = f.target
            u = self.registry.get('%s:%s.%s' % (ci.modname, ci.name, fn.name))
            selfarg = [f.self_val] if f.self_val is not None else []
        elif f.kind == 'absmethod':
            h = self.unit.abstract.get('%s.%s' % (f.self_val.cls, f.target))
            fr = getattr(h, 'frame_args', None)
            if fr:
                class _U:
                    frame, frame_attrs = [], []
                u2 = _U()
                u2.frame = ['#%d' % i for i in fr]
                u2.param_index = lambda n: int(n[1:])
                bound = {'#%d' % i: call.args[i] for i in fr if i < len(call.args)}
                return u2, bound
            return None, {}
        if u is None:
            return None, {}
        names = u.param_names()
        bound = {}
        allargs = selfarg + list(call.args)
        for n, a in zip(names, allargs):
            bound[n] = a
        for k in call.keywords:
            bound[k.arg] = k.value
        return u, bound

    def call_contract(self, u, args, kwargs, st, node):
        """modular call: assert requires, havoc frame, assume ensures"""
        c = self.c
        names = u.param_names()
        env = {}
        for n, v in zip(names, args):
            env[n] = v
        env.update(kwargs)
        dflt = u.param_defaults(self)
        for n in names:
            if n not in env:
                if n in dflt:
                    env[n] = dflt[n]
                else:
                    raise EngineError('call to %s misses argument %s' % (u.qualname, n))
        v0 = View(c, env, dict(st.heap))
        tag = 'call.%s' % u.short
        pre = u.pre(c, v0) if u.pre else {}
        for k, g in _named(pre):
            self.oblige('%s.pre.%s' % (tag, k), st, g, node)
        st.assume(*[g for _, g in _named(pre)])
        if u.raises_spec:
            # exceptional outcomes are part of the callee contract
            spec = {k: g for k, g in u.raises_spec(c, v0).items() if g is not False}
            if spec:
                choice = self.decide(['normal'] + sorted(spec))
                if choice == 'normal':
                    st.assume(*[c.Not(g) for g in spec.values()])
                else:
                    st.assume(spec[choice])
                    raise _Raise(st, ExcV(choice, getattr(node, 'lineno', 0)))
        # havoc frame
        for pname in u.frame:
            r = env.get(pname)
            if isinstance(r, Ref):
                cell = st.get(r)
                if isinstance(cell, Arr):
                    st.put(r, c.fresh_array('f', cell.shape, cell.kind))
        for (pname, attr) in u.frame_attrs:
            r = env.get(pname)
            if isinstance(r, Ref):
                o = st.get(r)
                new = Obj(o.cls, o.attrs)
                new.attrs[attr] = u.fresh_attr(self, st, v0, attr)
                st.put(r, new)
        ret = u.result(self, st, v0) if u.result else None
        v1 = View(c, env, st.heap)
        c.assuming = True
        try:
            post = u.post(c, v0, v1, self.wrap_ret(ret, st)) if u.post else {}
        finally:
            c.assuming = False
        st.assume_named(tag, _named(post))
        # ghost witness: which callee contract was used on this path, with which arguments and result (contracts name
        # these instead of the caller's local variables, whose names are not part of anybody's behaviour)
        st.trace.append(('ghost', ('call:' + u.short, dict(env), ret)))
        return ret

    def wrap_ret(self, ret, st):
        return View(self.c, {'r': ret}, st.heap).r



class SeqV:
    """symbolic-length sequence of abstract values: n and elem(k)"""

    def __init__(self, n, elem):
        self.n, self.elem = n, elem


class NanRef:
    """the np.nan singleton or a (serialised) copy of it: `is` compares identity"""

    def __init__(self, ident):
        self.ident = ident


def _plain_const(v):
    """module-level literal that cannot change at run time: a scalar, or a (nested) tuple of such"""
    if isinstance(v, tuple):
        return all(_plain_const(x) for x in v)
    return isinstance(v, (int, float, str, bool, type(None)))


class _Undef:
    """marker for a local variable whose value at loop entry has no abstraction (see fresh_like)"""

    def __init__(self, why):
        self.why = why


class _Raise(Exception):
    def __init__(self, state, exc):
        self.state, self.exc = state, exc


class _Fork(Exception):
    def __init__(self, choices):
        self.choices = list(choices)


_MISSING = object()
BUILTINS = {'len', 'range', 'min', 'max', 'abs', 'int', 'float', 'sum', 'zip', 'enumerate', 'isinstance', 'list',
            'tuple', 'bool', 'str', 'sorted', 'hasattr', 'round', 'any', 'all', 'dict', 'getattr', 'type', 'map',
            'reversed', 'set', 'callable', 'repr', 'pow', 'slice'}
CANON = {'np': 'numpy', 'numpy': 'numpy', 'math': 'math', 'scipy': 'scipy'}
CMP = {ast.Lt: lambda a, b: a < b, ast.LtE: lambda a, b: a <= b, ast.Gt: lambda a, b: a > b,
       ast.GtE: lambda a, b: a >= b, ast.Eq: lambda a, b: a == b, ast.NotEq: lambda a, b: a != b}
PYCMP = CMP


def taurex_constant(name):
    vals = {}
    mi = source.load_module('taurex.constants')
    for n in mi.tree.body:
        if isinstance(n, ast.Assign) and isinstance(n.targets[0], ast.Name):
            try:
                vals[n.targets[0].id] = eval(compile(ast.Expression(n.value), '<const>', 'eval'),
                                              {'__builtins__': {}}, dict(vals))
            except Exception:
                pass
    if name not in vals:
        raise EngineError('taurex.constants.%s not evaluable' % name)
    return vals[name]


def _resolve_alias(qn):
    mod, _, name = qn.partition(':')
    try:
        mi = source.load_module(mod)
    except Exception:
        return qn
    seen = set()
    while name in mi.aliases and name not in seen:
        seen.add(name)
        name = mi.aliases[name]
    return '%s:%s' % (mod, name)


def _named(x):
    if x is None:
        return []
    if isinstance(x, dict):
        return list(x.items())
    if isinstance(x, (list, tuple)):
        return [(str(i), g) for i, g in enumerate(x)]
    return [('0', x)]


def _conj(x):
    return [g for _, g in _named(x)]


def _walk_stmts(body):
    for s in body:
        for n in ast.walk(s):
            yield n


def _target_names(t):
    if isinstance(t, ast.Name):
        return [t.id]
    if isinstance(t, (ast.Tuple, ast.List)):
        out = []
        for e in t.elts:
            out.extend(_target_names(e))
        return out
    return []


def _need_conc(k):
    ck = conc_int(k)
    if ck is None:
        raise Unsupported('symbolic index into a concrete sequence')
    return ck


def _same(x, y):
    cx, cy = conc_int(x), conc_int(y)
    if cx is not None and cy is not None:
        return cx == cy
    if is_sym(x) and is_sym(y):
        return z3.simplify(x - y).eq(z3.IntVal(0)) if z3.is_int(x) and z3.is_int(y) else x.eq(y)
    return False


def _is_one(d):
    return conc_int(d) == 1


def _is_intlike(x):
    return (isinstance(x, int)) or (is_sym(x) and z3.is_int(x))


def _rkind(kind, scalar):
    if kind == 'real' or isinstance(scalar, float) or (is_sym(scalar) and z3.is_real(scalar)):
        return 'real'
    return kind


def _arith(a, b, f):
    if _is_intlike(a) and _is_intlike(b):
        return f(to_int(a), to_int(b))
    return f(to_real(a), to_real(b))


def _ne0(b):
    if not is_sym(b):
        return b != 0
    return b != 0


def _add(a, b):
    if not (is_sym(a) or is_sym(b)):
        return a + b
    return to_int(a) + to_int(b)


def _sub(a, b):
    if not (is_sym(a) or is_sym(b)):
        return a - b
    return to_int(a) - to_int(b)


def _eq(a, b):
    if not (is_sym(a) or is_sym(b)):
        return a == b
    return to_int(a) == to_int(b)


def _ge(a, b):
    if not (is_sym(a) or is_sym(b)):
        return a >= b
    return to_int(a) >= to_int(b)


def _lt(a, b):
    if not (is_sym(a) or is_sym(b)):
        return a < b
    return to_int(a) < to_int(b)
