#!/bin/sh
# setup_cmd: builds /verif/.venv (python 3.12 of /venv + z3-solver, cvc5, jsonschema from the offline
# wheelhouse) with a .pth that makes /venv's site-packages (the repository and its dependencies) visible.
set -e
cd "$(dirname "$0")"
if [ ! -x .venv/bin/python ] || ! .venv/bin/python -c "import z3, numpy, jsonschema" 2>/dev/null; then
  rm -rf .venv
  /venv/bin/python -m venv .venv
  PIP_NO_INDEX=1 .venv/bin/python -m pip install -q --no-index --find-links /opt/veriftools/wheels \
      z3-solver cvc5 jsonschema >/dev/null
  SP=$(.venv/bin/python -c "import sysconfig;print(sysconfig.get_paths()['purelib'])")
  echo "import site; site.addsitedir('/venv/lib/python3.12/site-packages')" > "$SP/zz_repo_venv.pth"
fi
.venv/bin/python -c "import z3, numpy, jsonschema; print('verif venv ok: z3', z3.get_version_string())"
