"""C09 -- posterior summaries are the weighted statistics of the stored samples."""
import z3
from pyvc.unit import Unit, ObjSpec, Lemma, Bounded, GenTrace
from pyvc.engine import AbsObj, FuncV
from pyvc.core import Arr, Obj, PyDict, PyList, Ref, to_int, to_real, is_sym, INT, REAL

UT = 'taurex.util.util:'
NE = 'taurex.optimizer.nestle:NestleOptimizer.'


class _NS:
    def __init__(self, **kw):
        self.__dict__.update(kw)


def _quiet(o):
    for nm in ('debug', 'info', 'warning', 'error', 'critical'):
        setattr(o, nm, lambda *a, **k: None)
    return o


# ------------------------------------------------------------------ quantile_corner (weighted branch)
def _qc_params(c):
    n = c.int('n')
    return dict(x=c.array('x', (n,)), q=[0.16, 0.5, 0.84], weights=c.array('w', (n,)))


def _qc_pre(c, v):
    n = c.Len(v.x)
    return {'sizes': c.And(n >= 1, c.Len(v.weights) == n),
            'weights': c.And(c.Forall(0, n, lambda i: c.Le(0, v.weights[i])), c.Exists(0, n, lambda i: c.Lt(0, v.weights[i])))}


def quantile_clauses(c, x, w, n, qs, r, perm):
    """weighted quantile by sorted cumulative weights: with p the sorting permutation of x, X_i = x[p_i] and
    C_i = (sum_{j<=i} w[p_j]) / (sum_j w[p_j]), r_k is the piecewise-linear function through the points (C_i, X_i)
    evaluated at q_k, held constant outside [C_0, C_{n-1}]"""
    pf = perm
    X = lambda i: x[pf(i)]
    tot = c.Sum(0, n, lambda j: w[pf(j)])
    C = lambda i: c.Sum(0, i + 1, lambda j: w[pf(j)]) / tot
    d = {}
    # which segment a level falls into is a GUARD: evaluated exactly when replaying on floats (a tolerant <= would put a level that
    # lies within the tolerance of a knot into two segments at once; the function is continuous there, the claim per segment is not)
    le = (lambda a, b: a <= b) if c.mode == 'conc' else c.Le
    for k, qk in enumerate(qs):
        d['q%d_below_first' % k] = c.Implies(c.Lt(qk, C(0)), lambda k=k: c.Eq(r[k], X(0)))
        d['q%d_above_last' % k] = c.Implies(le(C(n - 1), qk), lambda k=k: c.Eq(r[k], X(n - 1)))
        d['q%d_between' % k] = c.ForallAdj(0, n - 1, lambda i, j, k=k, qk=qk: c.Implies(
            c.And(le(C(i), qk), c.Lt(qk, C(j))),
            # (replayed on floats the three levels reach this clause as value - sigma_m, value, value + sigma_p: accurate relative
            #  to the samples they were formed from, not to a result that happens to be zero)
            lambda: c.Eq(r[k], X(i) + (qk - C(i)) * ((X(j) - X(i)) / (C(j) - C(i))), scale=(max(abs(X(i)), abs(X(j))) if c.mode == 'conc' else None))))
    return d


def _qc_post(c, v0, v1, r):
    n = c.Len(v0.x)
    if c.mode == 'conc':
        import numpy as np
        p = np.argsort(np.asarray(v0.x))          # the function's own (deterministic) tie order
        perm = lambda i: int(p[i])
    elif c.mode == 'bmc':
        return {'three_values': c.Len(r) == 3}        # bounded instances: the permutation is not exposed; run-time search instead
    elif getattr(c, 'assuming', False):
        # at a call site: SOME sorting permutation of x exists for which the clauses hold (the callee's argsort)
        pf, qf = _fresh_sorting_perm(c, v0.x, n)
        c.__dict__.setdefault('perms', []).append((pf, qf))
        perm = lambda i: pf(to_int(i))
    else:
        pf, qf = c.last_perm
        perm = lambda i: pf(to_int(i))
    d = {'three_values': c.Len(r) == 3}
    d.update(quantile_clauses(c, v0.x, v0.weights, n, [0.16, 0.5, 0.84], r, perm))
    return d


def _fresh_sorting_perm(c, x, n):
    pf = z3.Function('qperm!%d' % next(c._fresh), INT, INT)
    qf = z3.Function('qiperm!%d' % next(c._fresh), INT, INT)
    i, j = c.fresh('pi'), c.fresh('pj')
    n = to_int(n)
    c.assumed.append(z3.ForAll([i], z3.Implies(z3.And(0 <= i, i < n), z3.And(0 <= pf(i), pf(i) < n, qf(pf(i)) == i)), patterns=[pf(i)]))
    c.assumed.append(z3.ForAll([j], z3.Implies(z3.And(0 <= j, j < n), z3.And(0 <= qf(j), qf(j) < n, pf(qf(j)) == j)), patterns=[qf(j)]))
    i2, j2 = c.fresh('pi'), c.fresh('pj')
    body = z3.Implies(z3.And(0 <= i2, i2 < j2, j2 < n), x[pf(i2)] <= x[pf(j2)])
    c.assumed.append(z3.ForAll([i2, j2], body, patterns=[z3.MultiPattern(pf(i2), pf(j2))]) if c.mode == 'sym' and not z3.is_true(z3.simplify(body))
                     else z3.ForAll([i2, j2], body))
    return pf, qf


def _qc_native(c, p):
    import numpy as np
    from taurex.util.util import quantile_corner
    return quantile_corner(np.array(p['x'], dtype=float), list(p['q']), weights=np.array(p['weights'], dtype=float)), p


def _qc_gen(rng):
    n = rng.randint(1, 6)
    tie = rng.random() < 0.3
    w = [0.25] * n if tie else [rng.choice([0.0, rng.uniform(0, 1)]) for _ in range(n)]
    if sum(w) == 0:
        w[0] = 1.0
    return dict(n=n, x=[round(rng.uniform(-3, 3), 2) for _ in range(n)], w=w)


QC = Unit('C09', UT + 'quantile_corner', _qc_params, pre=_qc_pre, post=_qc_post, native=_qc_native, gen=_qc_gen, bounds=[dict(n=2), dict(n=3)],
          safety=('index', 'sorted'), result=lambda ex, st, v0: st.alloc(ex.c, ex.c.fresh_array('quant', (3,))),
          short='quantile_corner', timeout_ms=20000,
          doc='weighted quantiles by sorted cumulative weights (argsort, cumulative sum, np.interp models assumed); the '
              'sortedness np.interp needs is a discharged call-site obligation (weights >= 0)')


# ------------------------------------------------------------------ NestleOptimizer.store_nestle_output
NAMES = ['T', 'log_R']


def _h_mean_and_cov(ex, st, args, kwargs, node):
    """assumed contract of nestle.mean_and_cov(samples, weights): weighted mean per column (and a covariance matrix
    about which nothing is claimed)"""
    c = ex.c
    S, W = st.get(args[0]), st.get(args[1])
    N, D = S.shape
    tot = c.Sum(0, N, lambda j: W.elem((j,)))
    mean = Arr((D,), lambda ix: c.Sum(0, N, lambda j: W.elem((j,)) * S.elem((j, ix[0]))) / tot, 'real')
    return (st.alloc(c, mean), st.alloc(c, c.fresh_array('cov', (D, D))))


def _so_params(c):
    D = c.choice('D')
    N = c.int('N')
    res = dict(logz=c.real('logz'), logzerr=c.real('logzerr'), h=c.real('h'), samples=c.array('samples', (N, D)), weights=c.array('weights', (N,)))
    return dict(self=ObjSpec('NestleOptimizer', fit_names=list(NAMES[:D])),
                result=dict(res, __obj__='Result') if c.mode == 'conc' else ObjSpec('Result', **res))


def _so_pre(c, v):
    N = c.Len(v.result.weights)
    return {'sizes': c.And(N >= 1, c.Shape(v.result.samples)[0] == N),
            'weights': c.And(c.Forall(0, N, lambda i: c.Le(0, v.result.weights[i])), c.Exists(0, N, lambda i: c.Lt(0, v.result.weights[i])))}


def _so_post(c, v0, v1, r):
    """the stored traces and weights are the sampler's own; per parameter: value / sigma_m / sigma_p are the weighted
    50%, 50-16% and 84-50% quantiles of ITS column, MAP is the sample of greatest weight, mean is the weighted mean"""
    D = len(v0.self.fit_names)
    res = v0.result
    N = c.Len(res.weights)
    if not isinstance(r, dict) or 'solution' not in r:
        return {'dict': False}
    sol = r['solution']
    d = {}
    if c.mode == 'conc':
        import numpy as np
        d['samples_unchanged'] = np.array_equal(sol['samples'], res.samples)
        d['weights_unchanged'] = np.array_equal(sol['weights'], res.weights)
    else:
        raw = c.raw['state'].heap
        rsol = raw[raw[c.raw['ret'].id].items['solution'].id].items
        me = c.raw['state'].get(c.raw['env']['result'])
        d['samples_unchanged'] = rsol['samples'].id == me.attrs['samples'].id
        d['weights_unchanged'] = rsol['weights'].id == me.attrs['weights'].id
    d['stats'] = c.And(c.Eq(r['Stats']['Log-Evidence'], res.logz), c.Eq(r['Stats']['Log-Evidence-Error'], res.logzerr))
    d['one_entry_per_parameter'] = list(sol['fitparams'].keys()) == list(v0.self.fit_names)
    if not d['one_entry_per_parameter']:
        return d
    if c.mode == 'conc':
        import numpy as np
        wmax = int(np.argmax(res.weights))
    tot = c.Sum(0, N, lambda j: res.weights[j])
    for k, nm in enumerate(v0.self.fit_names):
        e = sol['fitparams'][nm]
        col = res.samples[:, k] if c.mode == 'conc' else Arr((N,), lambda ix, k=k: res.samples.elem((ix[0], k)), 'real')
        # quantiles: value, sigma_m, sigma_p re-express the three quantiles q16 = value - sigma_m, q84 = value + sigma_p
        q = [e['value'] - e['sigma_m'], e['value'], e['value'] + e['sigma_p']]
        if c.mode == 'conc':
            import numpy as np
            p = np.argsort(np.asarray(col))
            perm = lambda i, p=p: int(p[i])
        elif c.mode == 'bmc':
            perm = None
        else:
            perm = (lambda i, pf=c.perms[k][0]: pf(to_int(i))) if k < len(getattr(c, 'perms', [])) else None
        if perm is not None:
            for name, g in quantile_clauses(c, col, res.weights, N, [0.16, 0.5, 0.84], q, perm).items():
                d['%s.%s' % (nm, name)] = g
        d['%s.map_is_sample_of_greatest_weight' % nm] = c.Exists(0, N, lambda m, k=k, e=e: c.And(
            c.Eq(e['map'], res.samples[m, k]), c.Forall(0, N, lambda j: c.Le(res.weights[j], res.weights[m])))) \
            if c.mode != 'conc' else c.Eq(e['map'], res.samples[wmax, k])
        # (a mean that cancels to zero is accurate relative to the samples, not to itself: scale for the float replay)
        d['%s.mean_is_weighted_mean' % nm] = c.Eq(e['mean'], c.Sum(0, N, lambda j, k=k: res.weights[j] * res.samples[j, k]) / tot,
                                                  scale=(max(abs(float(res.samples[j, k])) for j in range(N)) if c.mode == 'conc' and N else None))
        d['%s.trace_is_its_column' % nm] = c.Forall(0, N, lambda j, k=k, e=e: c.Eq(e['trace'][j], res.samples[j, k]))
    return d


def _so_native(c, p):
    import numpy as np
    from taurex.optimizer.nestle import NestleOptimizer

    class _O(NestleOptimizer):
        fit_names = property(lambda self: self._names)
    o = _quiet(_O.__new__(_O))
    o._names = list(p['self']['fit_names'])
    r = p['result']
    res = _NS(logz=r['logz'], logzerr=r['logzerr'], h=r['h'], samples=np.array(r['samples'], dtype=float), weights=np.array(r['weights'], dtype=float))
    q = dict(p, result=dict(r, samples=res.samples, weights=res.weights))
    out = o.store_nestle_output(res)
    return out, q


def _so_gen(rng):
    D, N = rng.randint(1, 2), rng.randint(1, 6)
    w = [rng.choice([0.0, rng.uniform(0, 1)]) for _ in range(N)]
    if rng.random() < 0.3:
        w = [0.5] * N
    if sum(w) == 0:
        w[-1] = 0.7
    return dict(D=D, N=N, logz=rng.uniform(-100, 0), logzerr=rng.uniform(0, 1), h=rng.uniform(0, 5),
                samples=[[round(rng.uniform(-3, 3), 2) for _ in range(D)] for _ in range(N)], weights=w)


class _PermExec:
    pass


def _so_argsort_hook():
    """remember every permutation argsort hands out during the run (one per column, in order)"""
    from pyvc import lib
    orig = lib.HANDLERS['numpy.argsort']

    def wrapped(ex, st, args, kwargs, node):
        r = orig(ex, st, args, kwargs, node)
        if hasattr(ex.c, 'last_perm'):
            ex.c.__dict__.setdefault('perms', []).append(ex.c.last_perm)
        return r
    lib.HANDLERS['numpy.argsort'] = wrapped


_so_argsort_hook()


def _install_nestle_model():
    from pyvc import lib

    def h(ex, st, args, kwargs, node):
        lib.USED.add('nestle.mean_and_cov')
        return _h_mean_and_cov(ex, st, args, kwargs, node)
    lib.HANDLERS['nestle.mean_and_cov'] = h


_install_nestle_model()


SO = Unit('C09', NE + 'store_nestle_output', _so_params, pre=_so_pre, post=_so_post, native=_so_native, gen=_so_gen,
          cases=[{'D': 1}, {'D': 2}], bounds=[dict(N=2)],
          safety=('index', 'sorted'), short='NestleOptimizer.store_nestle_output', timeout_ms=30000,
          doc='summaries of a nestle run: traces / weights stored by reference, quantile rule per column (quantile_corner '
              'by contract on the column view), MAP = sample of greatest weight, weighted mean (nestle.mean_and_cov: assumed)')


# ------------------------------------------------------------------ NestleOptimizer.get_solution (generator)
from contracts import c07 as _c07


def _gs_params(c):
    d = _c07._view_params(c)
    combo = _c07._COMBOTAB[c.choice('combo')]
    names = [('log_' + n if pr == _c07.LOG else n) for n, pm, pr in combo]
    N = c.int('N')
    fitparams = {nm: {'map': c.real('map_' + nm), 'value': c.real('med_' + nm)} for nm in names}
    s = d['self'].attrs
    s['_nestle_output'] = {'Stats': {'Log-Evidence': c.real('logz')},
                           'solution': {'samples': c.array('samples', (N, len(names))), 'weights': c.array('weights', (N,)),
                                        'fitparams': fitparams}}
    d['self'] = ObjSpec('NestleOptimizer', **s)
    return d


def _gs_yields(c, v0, v, k, val):
    """solution 0: MAP vector and median vector in the order of the fitted parameters, each entry taken from the
    summary stored under that parameter's reported name"""
    combo = _c07._combo(c)
    names = [('log_' + n if pr == _c07.LOG else n) for n, pm, pr in combo]
    fp = v0.self._nestle_output['solution']['fitparams']
    if k != 0 or len(val) != 4:
        return {'one_solution': False}
    idx, omap, omed, extra = val
    d = {'solution_index': idx == 0, 'lengths': len(omap) == len(names) and len(omed) == len(names)}
    if not d['lengths']:
        return d
    for i, nm in enumerate(names):
        d['map_%s' % nm] = c.Eq(omap[i], fp[nm]['map'])
        d['median_%s' % nm] = c.Eq(omed[i], fp[nm]['value'])
    keys = [x[0] for x in extra]
    d['extras'] = keys == ['Statistics', 'fit_params', 'tracedata', 'weights']
    return d


def _gs_native(c, p):
    import numpy as np
    import taurex.core.priors as P
    from taurex.optimizer.nestle import NestleOptimizer
    s = p['self']
    store = {}
    fp = []
    for t in s['fitting_parameters']:
        store[t['name']] = t['value']
        fp.append((t['name'], '$x$', (lambda n=t['name']: store[n]), None, t['mode'], True, list(t['bounds'])))
    o = _quiet(NestleOptimizer.__new__(NestleOptimizer))
    o.fitting_parameters = fp
    o._fit_priors = {n: (P.LogUniform(bounds=[0, 1]) if e['_prior_mode'] == _c07.LOG else P.Uniform(bounds=[0, 1])) for n, e in s['_fit_priors'].items()}
    o.fitting_priors = [o._fit_priors[t[0]] for t in fp]
    out = s['_nestle_output']
    o._nestle_output = {'Stats': dict(out['Stats']), 'solution': {'samples': np.array(out['solution']['samples'], dtype=float),
                                                                  'weights': np.array(out['solution']['weights'], dtype=float),
                                                                  'fitparams': {k: dict(v) for k, v in out['solution']['fitparams'].items()}}}
    vals, states = [], []
    for item in o.get_solution():
        vals.append((item[0], list(item[1]), list(item[2]), list(item[3])))
        states.append(p)
    return GenTrace(vals, states), p


def _gs_gen(rng):
    d = _c07._view_gen(rng)
    N = rng.randint(1, 3)
    D = len(_c07._COMBOTAB[d['combo']])
    d.update(N=N, logz=-3.0, samples=[[rng.uniform(-1, 1) for _ in range(D)] for _ in range(N)], weights=[rng.uniform(0, 1) for _ in range(N)])
    for nm in ('T', 'R', 'log_T', 'log_R'):
        d['map_' + nm], d['med_' + nm] = rng.uniform(-5, 5), rng.uniform(-5, 5)
    return d


GS = Unit('C09', NE + 'get_solution', _gs_params, pre=_c07._view_pre, yields=_gs_yields,
          post=lambda c, v0, v1, r: {'exactly_one_solution': len(r) == 1}, abstract=_c07._ABS,
          cases=[{'combo': x} for x in _c07._COMBOTAB], native=_gs_native, gen=_gs_gen, bounds=[dict(N=1)],
          short='NestleOptimizer.get_solution', safety=('index',), inline=['fit_names', 'fit_values'],
          doc='MAP and median vectors handed to the post-processing: entry i is the map / value stored for the i-th '
              'fitted parameter (fit_names / fit_values inlined from the real properties: two independent lists)')


# ------------------------------------------------------------------ Optimizer.generate_solution (effect trace)
OPQ = 'taurex.optimizer.optimizer:Optimizer.'


def _ev(st, *payload):
    st.trace.append(('ev', tuple(payload)))


def _tag(ex, st, v):
    tags = ex.c.__dict__.setdefault('_tags', {})
    return tags.get(v.id if isinstance(v, Ref) else id(v), '?')


def _h_get_solution(ex, st, args, kwargs, node):
    c = ex.c
    S = c.fixed['S']
    tags = c.__dict__.setdefault('_tags', {})
    out = []
    for k in range(S):
        m = st.alloc(c, PyList([c.fresh('map', REAL)]))
        d = st.alloc(c, PyList([c.fresh('med', REAL)]))
        tags[m.id], tags[d.id] = 'map%d' % k, 'median%d' % k
        vals = st.alloc(c, PyList([('Statistics', 'stats%d' % k), ('fit_params', 'fp%d' % k)]))
        out.append((k, m, d, vals))
    return st.alloc(c, PyList(out))


def _h_um(ex, st, args, kwargs, node):
    _ev(st, 'update_model', _tag(ex, st, args[1]))
    return None


def _h_model(ex, st, o, args, kwargs, node):
    t = sum(1 for tag, y in st.trace if tag == 'ev' and y[0] == 'model')
    _ev(st, 'model', tuple(sorted((k, v) for k, v in kwargs.items())), 'res%d' % t)
    return ('grid%d' % t, 'spec%d' % t, 'tau%d' % t, None)


def _h_spec_out(ex, st, o, args, kwargs, node):
    res = args[0]
    _ev(st, 'spectrum_output', res[1] if isinstance(res, tuple) else '?', kwargs.get('output_size'))
    return st.alloc(ex.c, PyDict({'native_spectrum': res[1] if isinstance(res, tuple) else '?'}))


def _h_store_contrib(ex, st, args, kwargs, node):
    _ev(st, 'store_contributions', kwargs.get('output_size'))
    return 'contributions'


def _h_model_profiles(ex, st, o, args, kwargs, node):
    t = sum(1 for tag, y in st.trace if tag == 'ev' and y[0] == 'model')
    _ev(st, 'model.generate_profiles', 'after_res%d' % (t - 1))
    return st.alloc(ex.c, PyDict({'made_after': 'res%d' % (t - 1)}))


def _h_gen_profiles(ex, st, args, kwargs, node):
    _ev(st, 'generate_profiles', args[1], _tag(ex, st, args[2]) if isinstance(args[2], Ref) else '?')
    return (st.alloc(ex.c, PyDict({})), st.alloc(ex.c, PyDict({})))


def _h_derived_trace(ex, st, args, kwargs, node):
    _ev(st, 'compute_derived_trace', args[1])
    return st.alloc(ex.c, PyDict({'mu_derived': 'trace%s' % (args[1],)}))


def _noop(ex, st, args, kwargs, node):
    return None


def _gsol_params(c):
    S, nd = c.choice('S'), c.choice('nderived')
    if c.mode == 'conc':
        model, binner = dict(__obj__='ForwardModel'), dict(__obj__='Binner')
    else:
        model, binner = AbsObj('ForwardModel', 0, {}), AbsObj('Binner', 0, {})
        c.__dict__.setdefault('_tags', {})
    grid = c.array('obsgrid', (c.int('B'),))
    return dict(self=ObjSpec('Optimizer', _model=model, _binner=binner, _observed=ObjSpec('BaseSpectrum', wavenumberGrid=grid),
                             derived_parameters=[('mu', '$mu$', None, True)] * nd), output_size=c.int('osize'))


def _gsol_expected(S, nd, osize):
    out = []
    t = 0
    for k in range(S):
        out += [('update_model', 'map%d' % k), ('model', (('cutoff_grid', False),), 'res%d' % t), ('spectrum_output', 'spec%d' % t, osize),
                ('store_contributions', osize - 3)]
        t += 1
        out += [('update_model', 'median%d' % k), ('model', (('cutoff_grid', False),), 'res%d' % t), ('model.generate_profiles', 'after_res%d' % t),
                ('generate_profiles', k, 'obsgrid')]
        t += 1
    if nd:
        out += [('compute_derived_trace', k) for k in range(S)]
    return out


def _gsol_post(c, v0, v1, r):
    """per solution: the stored spectrum is the binner's output for the forward model evaluated (on the full native
    grid) right after the MAP vector was written; the stored profiles are those generated right after the median
    vector was written and the model re-evaluated; derived traces are attached per solution"""
    S, nd = (c.fixed['S'], c.fixed['nderived']) if c.mode != 'conc' else (c.values['S'], c.values['nderived'])
    osize = v0.output_size
    tr = list(c.trace or [])
    if c.mode != 'conc':
        tags = c._tags
        tags[v0.self._observed.ref('wavenumberGrid').id] = 'obsgrid'
        tr = [tuple('obsgrid' if (e[0] == 'generate_profiles' and i == 2 and x == '?') else x for i, x in enumerate(e)) for e in tr]
    want = _gsol_expected(S, nd, osize)
    d = {'number_of_effects': len(tr) == len(want)}
    if not d['number_of_effects']:
        return d
    ok = True
    for a, b in zip(tr, want):
        ok = ok and len(a) == len(b) and all(c.Eq(x, y) is True if not isinstance(x, (str, tuple, bool)) and not isinstance(y, (str, tuple, bool)) and
                                              (is_sym(x) or is_sym(y)) and False else _same(c, x, y) for x, y in zip(a, b))
    d['order_of_effects'] = ok
    d['one_entry_per_solution'] = isinstance(r, dict) and list(r.keys()) == ['solution%d' % k for k in range(S)]
    if not d['one_entry_per_solution']:
        return d
    for k in range(S):
        sol = r['solution%d' % k]
        d['solution%d.spectra_of_map_run' % k] = sol['Spectra'].get('native_spectrum') == 'spec%d' % (2 * k) and \
            sol['Spectra'].get('Contributions') == 'contributions'
        d['solution%d.profiles_of_median_run' % k] = sol['Profiles'].get('made_after') == 'res%d' % (2 * k + 1)
        d['solution%d.summaries_kept' % k] = sol.get('Statistics') == 'stats%d' % k and sol.get('fit_params') == 'fp%d' % k
        d['solution%d.derived' % k] = (sol.get('derived_params') == {'mu_derived': 'trace%d' % k}) if nd else ('derived_params' not in sol)
    return d


def _same(c, x, y):
    if is_sym(x) or is_sym(y):
        return is_sym(x) and is_sym(y) and z3.simplify(x - y).eq(z3.IntVal(0)) if (is_sym(x) and is_sym(y) and z3.is_int(x) and z3.is_int(y)) else \
            (is_sym(x) and is_sym(y) and x.eq(y))
    return x == y


def _gsol_native(c, p):
    import numpy as np
    from taurex.optimizer.optimizer import Optimizer
    import taurex.util.output as uo
    S, nd = c.values['S'], c.values['nderived']
    trace = []
    tags = {}
    grid = np.array(p['self']['_observed']['wavenumberGrid'], dtype=float)
    tags[id(grid)] = 'obsgrid'

    class _O(Optimizer):
        derived_names = property(lambda self: ['mu'] * nd)

        def get_solution(self):
            for k in range(S):
                m, d = [0.1 + k], [0.2 + k]
                tags[id(m)], tags[id(d)] = 'map%d' % k, 'median%d' % k
                self._keep = getattr(self, '_keep', []) + [m, d]
                yield k, m, d, [('Statistics', 'stats%d' % k), ('fit_params', 'fp%d' % k)]

        def update_model(self, v):
            trace.append(('update_model', tags.get(id(v), '?')))

        def generate_profiles(self, solution, binning):
            trace.append(('generate_profiles', solution, tags.get(id(binning), '?')))
            return {}, {}

        def compute_derived_trace(self, solution):
            trace.append(('compute_derived_trace', solution))
            return {'mu_derived': 'trace%d' % solution}
    o = _quiet(_O.__new__(_O))

    def model(**kw):
        t = sum(1 for e in trace if e[0] == 'model')
        trace.append(('model', tuple(sorted(kw.items())), 'res%d' % t))
        return ('grid%d' % t, 'spec%d' % t, 'tau%d' % t, None)

    def gen_profiles():
        t = sum(1 for e in trace if e[0] == 'model')
        trace.append(('model.generate_profiles', 'after_res%d' % (t - 1)))
        return {'made_after': 'res%d' % (t - 1)}
    o._model = _NS(model=model, generate_profiles=gen_profiles)
    o._binner = _NS(generate_spectrum_output=lambda res, output_size=None: (trace.append(('spectrum_output', res[1], output_size)),
                                                                            {'native_spectrum': res[1]})[1])
    o._observed = _NS(wavenumberGrid=grid)
    real = uo.store_contributions
    uo.store_contributions = lambda b, m, output_size=None: (trace.append(('store_contributions', output_size)), 'contributions')[1]
    try:
        r = o.generate_solution(output_size=p['output_size'])
    finally:
        uo.store_contributions = real
    return r, dict(p, __trace__=trace)


_GSOL_CASES = [{'S': s, 'nderived': nd} for s in (0, 1, 2) for nd in (0, 1)]

GSOL = Unit('C09', OPQ + 'generate_solution', _gsol_params, post=_gsol_post, cases=_GSOL_CASES, native=_gsol_native, bounds=[dict(B=2)],
            gen=lambda rng: dict(rng.choice(_GSOL_CASES), B=2, obsgrid=[1.0, 2.0], osize=rng.choice([1, 3, 5])),
            abstract={'call:get_solution': _h_get_solution, 'call:update_model': _h_um, 'ForwardModel.model': _h_model,
                      'Binner.generate_spectrum_output': _h_spec_out, 'call:store_contributions': _h_store_contrib,
                      'ForwardModel.generate_profiles': _h_model_profiles, 'call:generate_profiles': _h_gen_profiles,
                      'call:compute_derived_trace': _h_derived_trace, 'call:enableLogging': _noop, 'call:disableLogging': _noop},
            inline=['derived_names'], short='Optimizer.generate_solution',
            doc='post-processing: spectrum stored = binner output of the model evaluated at the MAP (full grid), profiles '
                'stored = those of the median run; effects in this order for every solution (0..2 solutions, with and '
                'without derived parameters); model, binner and samplers are abstract')


# ------------------------------------------------------------------ Optimizer.compute_derived_trace (one process)
def _DV(c):
    return c.func('DV', INT, REAL)


def _h_um_idx(ex, st, args, kwargs, node):
    """update_model(samples[idx]): record WHICH sample row was written"""
    v = args[1]
    cell = st.heap.get(v.id) if isinstance(v, Ref) else None
    idx = cell.mapfn((0,))[0] if type(cell).__name__ == 'ViewCell' else None
    _ev(st, 'update_model', idx)
    return None


def _h_dget(ex, st, o, args, kwargs, node):
    """the derived parameter's getter: a function of the model state = of the sample written last"""
    last = [y[1] for tag, y in st.trace if tag == 'ev' and y[0] == 'update_model']
    if not last or last[-1] is None:
        return ex.c.fresh('dv_unknown', REAL)
    return _DV(ex.c)(to_int(last[-1]))


def _dt_params(c):
    N = c.choice('N')
    if c.mode == 'conc':
        import numpy as np
        dv = np.array(c.values.get('dv', [float(i + 1) for i in range(N)]), dtype=float)    # (models of bounded instances leave DV open)
        c.inputs.append(('arr', 'dv', ((N,), None, 'real')))
        c.concrete_funcs = {'DV': lambda i: float(dv[i])}
        dp = [dict(__obj__='DParamTuple', name='mu')]
        model = dict(__obj__='ForwardModel')
    else:
        p = AbsObj('DParam', 'mu', {})
        dp = [('mu', '$mu$', FuncV('absmethod', 'get', self_val=p), True)]
        model = AbsObj('ForwardModel', 0, {})
    return dict(self=ObjSpec('Optimizer', derived_parameters=dp, _model=model, g_samples=c.array('samples', (N, 2)),
                             g_weights=c.array('weights', (N,))), solution=0)


def _dt_pre(c, v):
    N = c.Len(v.self.g_weights)
    w = v.self.g_weights
    return {'weights': c.And(c.Forall(0, N, lambda i: c.Le(0, w[i])), c.Exists(0, N, lambda i: c.Lt(0, w[i])))}


def _dt_post(c, v0, v1, r):
    """one trace entry per sample, entry i computed after sample i was written to the model, in sample order; summaries
    by the same weighted-quantile rule, mean = weighted mean"""
    N = c.Len(v0.self.g_weights)
    w = v0.self.g_weights
    if not isinstance(r, dict) or 'mu_derived' not in r:
        return {'derived_entry': False}
    e = r['mu_derived']
    tr = e['trace']
    d = {'one_entry_per_sample': c.Len(tr) == N}
    if c.mode == 'conc' and not d['one_entry_per_sample']:
        return d
    DV = _DV(c)
    d['entry_i_belongs_to_sample_i'] = c.Forall(0, N, lambda i: c.Eq(tr[i], DV(i)))
    ev = [x for x in (c.trace or []) if x[0] == 'update_model']
    d['each_sample_written_once_in_order'] = [x[1] for x in ev] == list(range(N)) if c.mode == 'conc' else \
        (len(ev) == N and all(z3.simplify(to_int(x[1]) - k).eq(z3.IntVal(0)) for k, x in enumerate(ev) if x[1] is not None) and all(x[1] is not None for x in ev))
    # summaries: quantile_corner (under its own contract) applied to exactly this trace with exactly these weights
    if c.mode == 'conc':
        import numpy as np
        from taurex.util.util import quantile_corner
        q16, q50, q84 = quantile_corner(np.array([DV(i) for i in range(N)]), [0.16, 0.5, 0.84], weights=np.asarray(w, dtype=float))
        d['summary_by_the_quantile_rule'] = c.And(c.Eq(e['value'], q50), c.Eq(e['sigma_m'], q50 - q16), c.Eq(e['sigma_p'], q84 - q50))
    else:
        calls = [x for x in (c.trace or []) if x[0] == 'quantile_corner']
        d['one_quantile_call'] = len(calls) == 1
        if calls:
            _, X, Q, Wt, out = calls[0]
            d['quantiles_of_the_trace'] = c.And(X.shape[0] == N, c.Forall(0, N, lambda i: X.elem((i,)) == DV(i)))
            d['with_the_sample_weights'] = c.And(Wt.shape[0] == N, c.Forall(0, N, lambda i: Wt.elem((i,)) == w[i]))
            d['levels_16_50_84'] = Q == (0.16, 0.5, 0.84)
            d['summary_by_the_quantile_rule'] = c.And(c.Eq(e['value'], out[1]), c.Eq(e['sigma_m'], out[1] - out[0]),
                                                      c.Eq(e['sigma_p'], out[2] - out[1]))
    d['mean'] = c.Eq(e['mean'], c.Sum(0, N, lambda j: w[j] * DV(j)) / c.Sum(0, N, lambda j: w[j]),
                     scale=(max(abs(float(DV(j))) for j in range(N)) if c.mode == 'conc' and N else None))
    return d


def _dt_native(c, p):
    import numpy as np
    from taurex.optimizer.optimizer import Optimizer
    import taurex.mpi as mpi
    N = c.values['N']
    S, W = np.array(p['self']['g_samples'], dtype=float), np.array(p['self']['g_weights'], dtype=float)
    trace = []
    state = {'last': None}

    class _O(Optimizer):
        def get_samples(self, k):
            return S

        def get_weights(self, k):
            return W

        def update_model(self, v):
            i = [k for k in range(N) if np.shares_memory(v, S[k])]
            state['last'] = i[0] if i else None
            trace.append(('update_model', state['last']))
    o = _quiet(_O.__new__(_O))
    o.derived_parameters = [('mu', '$mu$', (lambda: c.concrete_funcs['DV'](state['last'])), True)]
    o._model = _NS(initialize_profiles=lambda: None)
    r = o.compute_derived_trace(0)
    return r, dict(p, __trace__=trace)


def _dt_gen(rng):
    N = rng.randint(1, 4)
    w = [rng.choice([0.0, 0.0, rng.uniform(0, 1)]) for _ in range(N)]
    if rng.random() < 0.3:
        w = [0.5] * N
    if sum(w) == 0:
        w[0] = 0.3
    return dict(N=N, samples=[[rng.uniform(-1, 1), rng.uniform(-1, 1)] for _ in range(N)], weights=w, dv=[round(rng.uniform(1, 9), 2) for _ in range(N)])


def _h_quantile(ex, st, args, kwargs, node):
    """quantile_corner by its contract (unit above), kept opaque here: the call is recorded with the content of its
    arguments and returns three values"""
    c = ex.c
    from pyvc import lib
    X, Wt = lib.arr(ex, st, args[0]), lib.arr(ex, st, kwargs.get('weights', args[2] if len(args) > 2 else None))
    Q = tuple(st.get(args[1]).items) if isinstance(args[1], Ref) else tuple(args[1])
    out = [c.fresh('quant', REAL) for _ in range(3)]
    _ev(st, 'quantile_corner', X, Q, Wt, out)
    return st.alloc(c, PyList(out))


DT = Unit(['C09', 'C18'], OPQ + 'compute_derived_trace', _dt_params, pre=_dt_pre, post=_dt_post, cases=[{'N': k} for k in (1, 2, 3, 4)],
          native=_dt_native, gen=_dt_gen, bounds=[{}], safety=('index', 'sorted'), timeout_ms=30000,
          abstract={'call:get_samples': lambda ex, st, args, kwargs, node: st.get(args[0]).attrs['g_samples'],
                    'call:get_weights': lambda ex, st, args, kwargs, node: st.get(args[0]).attrs['g_weights'],
                    'call:get_rank': lambda ex, st, args, kwargs, node: 0, 'call:nprocs': lambda ex, st, args, kwargs, node: 1,
                    'call:allreduce': lambda ex, st, args, kwargs, node: args[0], 'call:update_model': _h_um_idx,
                    'ForwardModel.initialize_profiles': lambda ex, st, o, args, kwargs, node: None, 'DParam.get': _h_dget,
                    'call:enableLogging': _noop, 'call:disableLogging': _noop, 'call:quantile_corner': _h_quantile},
          inline=['derived_names', 'derived_values'], short='Optimizer.compute_derived_trace',
          doc='single process (rank 0 of 1; allreduce = identity): trace entry i is the derived value after sample i was '
              'written, in sample order even when weights tie (argsort is a function of the array content); summaries by '
              'quantile_corner (by contract); 1..4 samples at code level')


# ------------------------------------------------------------------ Optimizer.compute_derived_trace on rank r of R processes
def _h_allreduce_ranks(ex, st, args, kwargs, node):
    """ASSUMED model of mpi.allreduce(list, op='SUM') (mpi4py reduces python objects with + in rank order): the
    concatenation over the ranks 0..R-1 of the list each rank built.  What another rank q built is what this very
    function builds there: one entry per sample index q, q+R, ... -- the derived value DV(idx), the weight of sample
    idx, or idx itself, according to which list is being exchanged (recognised by its local content; by its name when
    the local list is empty)."""
    c = ex.c
    N, R, r = c.fixed['N'], c.fixed['R'], c.fixed['rank']
    local = st.get(args[0])
    items = list(local.items)
    me = st.get(ex.root_env['self'])
    w = st.get(me.attrs['g_weights'])
    mine = list(range(r, N, R))
    if len(items) != len(mine):
        raise EngineError('allreduce model: this rank exchanged %d entries for %d samples' % (len(items), len(mine)))
    kind = None
    if items:
        x = items[0]
        if isinstance(x, int) or (is_sym(x) and z3.is_int(x)):
            kind = 'index'
        elif is_sym(x) and x.eq(w.elem((mine[0],))):
            kind = 'weight'
        else:
            kind = 'trace'
    else:
        import ast as _ast
        nm = _ast.unparse(node.args[0])
        kind = 'index' if 'ind' in nm or 'idx' in nm else ('weight' if nm.startswith('w') else 'trace')
    DV = _DV(c)
    out = []
    for q in range(R):
        if q == r:
            out += items
        else:
            for idx in range(q, N, R):
                out.append(idx if kind == 'index' else (w.elem((idx,)) if kind == 'weight' else DV(idx)))
    _ev(st, 'allreduce', kind)
    return st.alloc(c, PyList(out))


def _dtr_native(c, p):
    """R processes simulated one after the other in this process: taurex.mpi.get_rank / nprocs / allreduce are replaced;
    pass 1 records the list every rank hands to allreduce (k-th exchange), pass 2 runs rank r with allreduce returning
    the rank-ordered concatenation (the assumed model of the collective)"""
    import numpy as np
    from taurex.optimizer.optimizer import Optimizer
    import taurex.mpi as mpi
    N, R, r = c.values['N'], c.values['R'], c.values['rank']
    S, W = np.array(p['self']['g_samples'], dtype=float), np.array(p['self']['g_weights'], dtype=float)
    state = {'last': None}
    trace = []

    class _O(Optimizer):
        def get_samples(self, k):
            return S

        def get_weights(self, k):
            return W

        def update_model(self, v):
            i = [k for k in range(N) if np.shares_memory(v, S[k])]
            state['last'] = i[0] if i else None
            trace.append(('update_model', state['last']))
    o = _quiet(_O.__new__(_O))
    o.derived_parameters = [('mu', '$mu$', (lambda: c.concrete_funcs['DV'](state['last'])), True)]
    o._model = _NS(initialize_profiles=lambda: None)
    saved = (mpi.get_rank, mpi.nprocs, mpi.allreduce)
    handed = {}

    class _Stop(Exception):
        pass
    try:
        mpi.nprocs = lambda: R
        for q in range(R):
            mpi.get_rank = lambda comm=None, q=q: q
            handed[q] = []

            def rec(value, op, q=q):
                handed[q].append(list(value))
                return value
            mpi.allreduce = rec
            try:
                o.compute_derived_trace(0)
            except Exception:
                pass
        del trace[:]
        mpi.get_rank = lambda comm=None: r
        k = [0]

        def red(value, op):
            out = []
            for q in range(R):
                out += handed[q][k[0]] if k[0] < len(handed[q]) else []
            k[0] += 1
            return out
        mpi.allreduce = red
        res = o.compute_derived_trace(0)
    finally:
        mpi.get_rank, mpi.nprocs, mpi.allreduce = saved
    return res, dict(p, __trace__=trace)


def _dtr_post(c, v0, v1, r):
    """as on one process: one trace entry per sample IN SAMPLE ORDER (also when weights tie), the summaries over all
    samples; this rank writes exactly its own samples (r, r+R, ...) to the model, in order"""
    N = c.Len(v0.self.g_weights)
    w = v0.self.g_weights
    fx = c.fixed if c.mode != 'conc' else c.values
    R, rk = fx['R'], fx['rank']
    if not isinstance(r, dict) or 'mu_derived' not in r:
        return {'derived_entry': False}
    e = r['mu_derived']
    tr = e['trace']
    d = {'one_entry_per_sample': c.Len(tr) == N}
    if c.mode == 'conc' and not d['one_entry_per_sample']:
        return d
    DV = _DV(c)
    d['entry_i_belongs_to_sample_i'] = c.Forall(0, N, lambda i: c.Eq(tr[i], DV(i)))
    ev = [x for x in (c.trace or []) if x[0] == 'update_model']
    want = list(range(rk, N, R))
    d['own_samples_written_once_in_order'] = [x[1] for x in ev] == want if c.mode == 'conc' else \
        (len(ev) == len(want) and all(x[1] is not None and z3.simplify(to_int(x[1]) - k).eq(z3.IntVal(0)) for k, x in zip(want, ev)))
    if c.mode == 'conc':
        import numpy as np
        from taurex.util.util import quantile_corner
        q16, q50, q84 = quantile_corner(np.array([DV(i) for i in range(N)]), [0.16, 0.5, 0.84], weights=np.asarray(w, dtype=float))
        d['summary_by_the_quantile_rule'] = c.And(c.Eq(e['value'], q50), c.Eq(e['sigma_m'], q50 - q16), c.Eq(e['sigma_p'], q84 - q50))
    else:
        calls = [x for x in (c.trace or []) if x[0] == 'quantile_corner']
        d['one_quantile_call'] = len(calls) == 1
        if calls:
            _, X, Q, Wt, out = calls[0]
            d['quantiles_of_the_trace'] = c.And(X.shape[0] == N, c.Forall(0, N, lambda i: X.elem((i,)) == DV(i)))
            d['with_the_sample_weights'] = c.And(Wt.shape[0] == N, c.Forall(0, N, lambda i: Wt.elem((i,)) == w[i]))
            d['summary_by_the_quantile_rule'] = c.And(c.Eq(e['value'], out[1]), c.Eq(e['sigma_m'], out[1] - out[0]),
                                                      c.Eq(e['sigma_p'], out[2] - out[1]))
    d['mean'] = c.Eq(e['mean'], c.Sum(0, N, lambda j: w[j] * DV(j)) / c.Sum(0, N, lambda j: w[j]),
                     scale=(max(abs(float(DV(j))) for j in range(N)) if c.mode == 'conc' and N else None))
    return d


def _dtr_gen(rng):
    d = _dt_gen(rng)
    R = rng.randint(2, 3)
    N = rng.randint(1, 5)
    w = [rng.choice([0.0, rng.uniform(0, 1), 0.25]) for _ in range(N)]
    if rng.random() < 0.4:
        w = [0.5] * N
    if sum(w) == 0:
        w[0] = 0.3
    return dict(N=N, R=R, rank=rng.randrange(R), samples=[[rng.uniform(-1, 1), rng.uniform(-1, 1)] for _ in range(N)], weights=w,
                dv=[round(rng.uniform(1, 9), 2) for _ in range(N)])


_DTR_CASES = [dict(N=N, R=R, rank=r) for R in (2, 3) for N in (1, 2, 3, 4) for r in range(R)]
DTR = Unit(['C18', 'C09'], OPQ + 'compute_derived_trace', _dt_params, pre=_dt_pre, post=_dtr_post, cases=_DTR_CASES, variant='ranks',
           native=_dtr_native, gen=_dtr_gen, bounds=[{}], safety=('index', 'sorted'), timeout_ms=30000,
           abstract={'call:get_samples': lambda ex, st, args, kwargs, node: st.get(args[0]).attrs['g_samples'],
                     'call:get_weights': lambda ex, st, args, kwargs, node: st.get(args[0]).attrs['g_weights'],
                     'call:get_rank': lambda ex, st, args, kwargs, node: ex.c.fixed['rank'],
                     'call:nprocs': lambda ex, st, args, kwargs, node: ex.c.fixed['R'],
                     'call:allreduce': _h_allreduce_ranks, 'call:update_model': _h_um_idx,
                     'ForwardModel.initialize_profiles': lambda ex, st, o, args, kwargs, node: None, 'DParam.get': _h_dget,
                     'call:enableLogging': _noop, 'call:disableLogging': _noop, 'call:quantile_corner': _h_quantile},
           inline=['derived_names', 'derived_values'], short='Optimizer.compute_derived_trace@ranks',
           doc='rank r of R processes (2..3 ranks x 1..4 samples at code level, symbolic values and weights, ties included): the result '
               'equals the single-process one -- trace in sample order, summaries over all samples; allreduce(list, SUM) = rank-ordered '
               'concatenation (assumed model of the collective)')


# ------------------------------------------------------------------ MultiNest / PolyChord get_solution: one yield per stored solution (mode)
def _mgs_params(attr, cls, stats):
    def params(c):
        d = _c07._view_params(c)
        combo = _c07._COMBOTAB[c.choice('combo')]
        names = [('log_' + n if pr == _c07.LOG else n) for n, pm, pr in combo]
        S = c.choice('S')
        N = c.int('N')
        sols = {}
        for k in range(S):
            sols['solution%d' % k] = {'fit_params': {nm: {'nest_map': c.real('map%d_%s' % (k, nm)), 'value': c.real('med%d_%s' % (k, nm))} for nm in names},
                                      'tracedata': c.array('samples%d' % k, (N, len(names))), 'weights': c.array('weights%d' % k, (N,))}
        out = {'solutions': sols}
        if stats:
            out['NEST_stats'] = {'modes': [{'local log-evidence': c.real('lz%d' % k), 'local log-evidence error': c.real('lze%d' % k)} for k in range(S)]}
        s = d['self'].attrs
        s[attr] = out
        d['self'] = ObjSpec(cls, **s)
        return d
    return params


def _mgs_yields(attr, stats):
    def yields(c, v0, v, k, val):
        fx = c.fixed if c.mode != 'conc' else c.values
        combo = _c07._combo(c)
        names = [('log_' + n if pr == _c07.LOG else n) for n, pm, pr in combo]
        if k >= fx['S'] or len(val) != 4:
            return {'one_yield_per_solution': False}
        fp = getattr(v0.self, attr)['solutions']['solution%d' % k]['fit_params']
        idx, omap, omed, extra = val
        d = {'solution_index': idx == k, 'lengths': len(omap) == len(names) and len(omed) == len(names)}
        if not d['lengths']:
            return d
        for i, nm in enumerate(names):
            d['map_%s' % nm] = c.Eq(omap[i], fp[nm]['nest_map'])
            d['median_%s' % nm] = c.Eq(omed[i], fp[nm]['value'])
        d['extras'] = [x[0] for x in extra] == (['Statistics'] if stats else []) + ['fit_params', 'tracedata', 'weights']
        return d
    return yields


def _mgs_native(c, p):
    import numpy as np
    import taurex.core.priors as P
    from taurex.optimizer.multinest import MultiNestOptimizer
    s = p['self']
    store = {}
    fp = []
    for t in s['fitting_parameters']:
        store[t['name']] = t['value']
        fp.append((t['name'], '$x$', (lambda n=t['name']: store[n]), None, t['mode'], True, list(t['bounds'])))
    o = _quiet(MultiNestOptimizer.__new__(MultiNestOptimizer))
    o.fitting_parameters = fp
    o._fit_priors = {n: (P.LogUniform(bounds=[0, 1]) if e['_prior_mode'] == _c07.LOG else P.Uniform(bounds=[0, 1])) for n, e in s['_fit_priors'].items()}
    o.fitting_priors = [o._fit_priors[t[0]] for t in fp]
    out = s['_multinest_output']
    o._multinest_output = {'NEST_stats': {'modes': [dict(m) for m in out['NEST_stats']['modes']]},
                           'solutions': {k: {'fit_params': {n: dict(e) for n, e in v['fit_params'].items()},
                                             'tracedata': np.array(v['tracedata'], dtype=float), 'weights': np.array(v['weights'], dtype=float)}
                                         for k, v in out['solutions'].items()}}
    vals, states = [], []
    for item in o.get_solution():
        vals.append((item[0], list(item[1]), list(item[2]), list(item[3])))
        states.append(p)
    return GenTrace(vals, states), p


def _mgs_gen(rng):
    d = _c07._view_gen(rng)
    N, S = rng.randint(1, 3), rng.randint(1, 2)
    D = len(_c07._COMBOTAB[d['combo']])
    d.update(N=N, S=S)
    for k in range(2):
        d['samples%d' % k] = [[rng.uniform(-1, 1) for _ in range(D)] for _ in range(N)]
        d['weights%d' % k] = [rng.uniform(0, 1) for _ in range(N)]
        d['lz%d' % k], d['lze%d' % k] = rng.uniform(-9, 0), rng.uniform(0, 1)
        for nm in ('T', 'R', 'log_T', 'log_R'):
            d['map%d_%s' % (k, nm)], d['med%d_%s' % (k, nm)] = rng.uniform(-5, 5), rng.uniform(-5, 5)
    return d


_MGS_CASES = [{'combo': x, 'S': S} for x in _c07._COMBOTAB for S in (1, 2)]
MGS = Unit('C09', 'taurex.optimizer.multinest:MultiNestOptimizer.get_solution', _mgs_params('_multinest_output', 'MultiNestOptimizer', True),
           pre=_c07._view_pre, yields=_mgs_yields('_multinest_output', True),
           post=lambda c, v0, v1, r: {'one_yield_per_solution': len(r) == (c.fixed if c.mode != 'conc' else c.values)['S']}, abstract=_c07._ABS,
           cases=_MGS_CASES, native=_mgs_native, gen=_mgs_gen, bounds=[dict(N=1)], short='MultiNestOptimizer.get_solution', safety=('index',),
           inline=['fit_names', 'fit_values'],
           doc='one yield per stored solution (1..2 modes): its index, MAP and median vectors in fitted-parameter order taken from that '
               'solution, statistics / fit_params / traces / weights of that solution')

PGS = Unit('C09', 'taurex.optimizer.polychord:PolyChordOptimizer.get_solution', _mgs_params('_polychord_output', 'PolyChordOptimizer', False),
           pre=_c07._view_pre, yields=_mgs_yields('_polychord_output', False),
           post=lambda c, v0, v1, r: {'one_yield_per_solution': len(r) == c.fixed['S']}, abstract=_c07._ABS,
           cases=_MGS_CASES, bounds=[dict(N=1)], short='PolyChordOptimizer.get_solution', safety=('index',), inline=['fit_names', 'fit_values'],
           doc='as MultiNestOptimizer.get_solution; proof only -- pypolychord is not installed, so the module cannot be imported for the '
               'run-time replay of the contract')
