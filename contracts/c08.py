"""C08 -- prior transforms are monotone inverse-CDF maps in the declared space."""
import z3
from pyvc.unit import Unit, ObjSpec, Lemma, Bounded

PR = 'taurex.core.priors:'
LIN, LOG = 'PriorMode.LINEAR', 'PriorMode.LOG'


# ---- Prior.__init__ / Prior.prior
P_INIT = Unit('C08', PR + 'Prior.__init__', lambda c: dict(self=ObjSpec('Prior', _prior_mode=None)),
              post=lambda c, v0, v1, r: {'linear': v1.self._prior_mode == LIN},
              frame_attrs=[('self', '_prior_mode')], fresh_attr=lambda ex, st, v0, attr: LIN, bounds=[{}],
              native=lambda c, p: (None, dict(p, self=dict(p['self'], _prior_mode=_mode_name(_mk('Prior')._prior_mode)))),
              gen=lambda rng: {}, short='Prior.__init__', doc='a new prior is in linear space')


def _mk(cls, **kw):
    import taurex.core.priors as m
    return getattr(m, cls)(**kw)


def _mode_name(m):
    return 'PriorMode.' + m.name


def _prior_native(c, p):
    import taurex.core.priors as m
    o = m.Prior()
    o._prior_mode = m.PriorMode.LINEAR if p['self']['_prior_mode'] == LIN else m.PriorMode.LOG
    return o.prior(p['value']), p


P_PRIOR = Unit(['C08', 'C06'], PR + 'Prior.prior', lambda c: dict(self=ObjSpec('Prior', _prior_mode=c.choice('pmode')),
                                                                   value=c.real('value')),
               post=lambda c, v0, v1, r: {'transform': c.Eq(r, v0.value if v0.self._prior_mode == LIN else c.pow10(v0.value))},
               result=lambda ex, st, v0: ex.c.fresh('pv', z3.RealSort()),
               cases=[{'pmode': LIN}, {'pmode': LOG}], bounds=[{}], native=_prior_native,
               gen=lambda rng: dict(pmode=rng.choice([LIN, LOG]), value=rng.uniform(-8, 8)), short='Prior.prior',
               doc='identity in linear space, 10**x in log space')


# ---- Uniform
def _uni_self(c, **kw):
    return ObjSpec('Uniform', _prior_mode=LIN, _low_bounds=kw.get('low'), _up_bounds=kw.get('up'), _scale=kw.get('scale'))


def _sb_post(c, v0, v1, r):
    b0, b1 = v0.bounds[0], v0.bounds[1]
    s = v1.self
    return {'low': c.Eq(s._low_bounds, c.Min(b0, b1)), 'up': c.Eq(s._up_bounds, c.Max(b0, b1)),
            'scale': c.And(c.Eq(s._scale, c.Max(b0, b1) - c.Min(b0, b1)), c.Le(0, s._scale))}


def _sb_native(c, p):
    o = _mk('Uniform')
    o.set_bounds(list(p['bounds']))
    return None, dict(p, self=dict(p['self'], _low_bounds=o._low_bounds, _up_bounds=o._up_bounds, _scale=o._scale))


U_SB = Unit('C08', PR + 'Uniform.set_bounds', lambda c: dict(self=_uni_self(c), bounds=[c.real('b0'), c.real('b1')]),
            post=_sb_post, native=_sb_native, gen=lambda rng: dict(b0=rng.uniform(-9, 9), b1=rng.uniform(-9, 9)),
            frame_attrs=[('self', a) for a in ('_low_bounds', '_up_bounds', '_scale')], bounds=[{}],
            fresh_attr=lambda ex, st, v0, attr: ex.c.fresh(attr, z3.RealSort()), short='Uniform.set_bounds',
            doc='bounds in either order')


def _us_params(c):
    return dict(self=_uni_self(c, low=c.real('low'), up=c.real('up'), scale=c.real('scale')), x=c.real('x'))


def _us_pre(c, v):
    s = v.self
    return {'inv': c.And(c.Le(s._low_bounds, s._up_bounds), c.Eq(s._scale, s._up_bounds - s._low_bounds)),
            'unit': c.And(c.Le(0, v.x), c.Le(v.x, 1))}


def _us_post(c, v0, v1, r):
    s = v0.self
    return {'inverse_cdf': c.Eq(r, s._low_bounds + v0.x * (s._up_bounds - s._low_bounds)),
            'in_support': c.And(c.Le(s._low_bounds, r), c.Le(r, s._up_bounds)),
            'ends': c.And(c.Implies(c.Eq(v0.x, 0), c.Eq(r, s._low_bounds)), c.Implies(c.Eq(v0.x, 1), c.Eq(r, s._up_bounds)))}


def _us_obj(c, p):
    return _mk('Uniform')


def _us_call(c, o, p):
    """one prior object serves many samples; its bounds are changed the way users and the optimizer change them
    (set_bounds), then the cube value is mapped"""
    s = p['self']
    o.set_bounds([s['_low_bounds'], s['_up_bounds']])
    return float(o.sample(p['x'])), p


def _us_gen(rng):
    lo = rng.uniform(-9, 9)
    sc = rng.uniform(0, 9)
    return dict(low=lo, up=lo + sc, scale=sc, x=rng.choice([0.0, 1.0, rng.random()]))


U_S = Unit(['C08', 'C06'], PR + 'Uniform.sample', _us_params, pre=_us_pre, post=_us_post, native_obj=_us_obj, native_call=_us_call, gen=_us_gen,
           result=lambda ex, st, v0: ex.c.fresh('u', z3.RealSort()), bounds=[{}], short='Uniform.sample',
           doc='scipy.stats.uniform.ppf assumed = loc + x*scale on [0,1]')


def _mono_uniform(c):
    lo, up, x1, x2 = z3.Reals('lo up x1 x2')
    f = lambda x: lo + x * (up - lo)
    return [('monotone', [lo <= up, 0 <= x1, x1 <= x2, x2 <= 1], f(x1) <= f(x2)),
            ('strict', [lo < up, 0 <= x1, x1 < x2, x2 <= 1], f(x1) < f(x2))]


Lemma('C08', 'uniform_inverse_cdf_monotone', _mono_uniform, doc='the closed form of Uniform.sample is non-decreasing in u')


# ---- Uniform.__init__, LogUniform.__init__
def _ui_native(cls):
    def native(c, p):
        kw = {k: list(v) for k, v in p.items() if k in ('bounds', 'lin_bounds') and v is not None}
        o = _mk(cls, **kw)
        return None, dict(p, self=dict(p['self'], _prior_mode=_mode_name(o._prior_mode), _low_bounds=o._low_bounds,
                                       _up_bounds=o._up_bounds, _scale=o._scale))
    return native


def _ui_post(mode, log):
    def post(c, v0, v1, r):
        if log and v0.lin_bounds is not None:
            b0, b1 = c.log10(v0.lin_bounds[0]), c.log10(v0.lin_bounds[1])
        else:
            b0, b1 = v0.bounds[0], v0.bounds[1]
        s = v1.self
        return {'mode': s._prior_mode == mode, 'low': c.Eq(s._low_bounds, c.Min(b0, b1)),
                'up': c.Eq(s._up_bounds, c.Max(b0, b1)), 'scale': c.Eq(s._scale, c.Max(b0, b1) - c.Min(b0, b1))}
    return post


_ATTRS = [('self', a) for a in ('_prior_mode', '_low_bounds', '_up_bounds', '_scale')]


def _fresh_prior_attr(ex, st, v0, attr):
    return LIN if attr == '_prior_mode' else ex.c.fresh(attr, z3.RealSort())


U_INIT = Unit('C08', PR + 'Uniform.__init__',
              lambda c: dict(self=ObjSpec('Uniform', _prior_mode=None, _low_bounds=None, _up_bounds=None, _scale=None),
                             bounds=[c.real('b0'), c.real('b1')]),
              post=_ui_post(LIN, False), native=_ui_native('Uniform'), frame_attrs=_ATTRS, fresh_attr=_fresh_prior_attr,
              gen=lambda rng: dict(b0=rng.uniform(-9, 9), b1=rng.uniform(-9, 9)), bounds=[{}], short='Uniform.__init__')


def _lu_params(c):
    lin = c.choice('lin')
    d = dict(self=ObjSpec('LogUniform', _prior_mode=None, _low_bounds=None, _up_bounds=None, _scale=None),
             bounds=[c.real('b0'), c.real('b1')], lin_bounds=None)
    if lin:
        d['lin_bounds'] = [c.real('l0'), c.real('l1')]
    return d


LU_INIT = Unit('C08', PR + 'LogUniform.__init__', _lu_params,
               pre=lambda c, v: {'pos': True if v.lin_bounds is None else c.And(c.Lt(0, v.lin_bounds[0]), c.Lt(0, v.lin_bounds[1]))},
               post=_ui_post(LOG, True), native=_ui_native('LogUniform'), frame_attrs=_ATTRS, fresh_attr=_fresh_prior_attr,
               cases=[{'lin': False}, {'lin': True}], bounds=[{}],
               gen=lambda rng: dict(lin=rng.random() < 0.5, b0=rng.uniform(-9, 9), b1=rng.uniform(-9, 9),
                                    l0=10 ** rng.uniform(-9, 9), l1=10 ** rng.uniform(-9, 9)),
               short='LogUniform.__init__', safety=('index', 'div', 'domain'),
               doc='lin_bounds=[a,b] is the same prior as bounds=[log10 a, log10 b]; log space')


# ---- Gaussian / LogGaussian
def _g_params(c):
    return dict(self=ObjSpec('Gaussian', _prior_mode=LIN, _loc=c.real('loc'), _scale=c.real('scale')), x=c.real('x'))


def _gs_native(c, p):
    o = _mk('Gaussian', mean=p['self']['_loc'], std=p['self']['_scale'])
    return float(o.sample(p['x'])), p


G_S = Unit(['C08', 'C06'], PR + 'Gaussian.sample', _g_params,
           pre=lambda c, v: {'std': c.Lt(0, v.self._scale), 'unit': c.And(c.Lt(0, v.x), c.Lt(v.x, 1))},
           post=lambda c, v0, v1, r: {'inverse_cdf': c.Eq(r, v0.self._loc + v0.self._scale * c.probit(v0.x)),
                                      'median': c.Implies(c.Eq(v0.x, 0.5), c.Eq(r, v0.self._loc))},
           native=_gs_native, gen=lambda rng: dict(loc=rng.uniform(-5, 5), scale=rng.uniform(0.1, 3),
                                                   x=rng.choice([0.5, rng.uniform(0.01, 0.99), rng.uniform(0.01, 0.99), 10 ** rng.uniform(-300, -3),
                                                                 1 - 10 ** rng.uniform(-15, -3)])),
           result=lambda ex, st, v0: ex.c.fresh('g', z3.RealSort()), bounds=[{}], short='Gaussian.sample',
           doc='scipy.stats.norm.ppf assumed = loc + scale*probit(x)')


def _mono_gauss(c):
    loc, sc, x1, x2 = z3.Reals('loc sc x1 x2')
    f = lambda x: loc + sc * c.probit(x)
    return [('strict', [sc > 0, 0 < x1, x1 < x2, x2 < 1], f(x1) < f(x2))]


Lemma('C08', 'gaussian_inverse_cdf_monotone', _mono_gauss, doc='strictly increasing for std > 0 (probit strictly increasing)')


def _gi_native(cls):
    def native(c, p):
        kw = {k: v for k, v in p.items() if k in ('mean', 'std', 'lin_mean', 'lin_std') and v is not None}
        o = _mk(cls, **kw)
        return None, dict(p, self=dict(p['self'], _prior_mode=_mode_name(o._prior_mode), _loc=o._loc, _scale=o._scale))
    return native


_GATTRS = [('self', a) for a in ('_prior_mode', '_loc', '_scale')]
G_INIT = Unit('C08', PR + 'Gaussian.__init__',
              lambda c: dict(self=ObjSpec('Gaussian', _prior_mode=None, _loc=None, _scale=None), mean=c.real('mean'),
                             std=c.real('std')),
              post=lambda c, v0, v1, r: {'mode': v1.self._prior_mode == LIN, 'loc': c.Eq(v1.self._loc, v0.mean),
                                         'scale': c.Eq(v1.self._scale, v0.std)},
              native=_gi_native('Gaussian'), frame_attrs=_GATTRS, fresh_attr=_fresh_prior_attr, bounds=[{}],
              gen=lambda rng: dict(mean=rng.uniform(-5, 5), std=rng.uniform(0.1, 3)), short='Gaussian.__init__')


def _lg_params(c):
    lm, ls = c.choice('lin_mean'), c.choice('lin_std')
    return dict(self=ObjSpec('LogGaussian', _prior_mode=None, _loc=None, _scale=None), mean=c.real('mean'),
                std=c.real('std'), lin_mean=c.real('lmean') if lm else None, lin_std=c.real('lstd') if ls else None)


def _lg_post(c, v0, v1, r):
    mean = v0.mean if v0.lin_mean is None else c.log10(v0.lin_mean)
    std = v0.std if v0.lin_std is None else c.log10(v0.lin_std)
    return {'mode': v1.self._prior_mode == LOG, 'loc': c.Eq(v1.self._loc, mean), 'scale': c.Eq(v1.self._scale, std)}


LG_INIT = Unit('C08', PR + 'LogGaussian.__init__', _lg_params,
               pre=lambda c, v: {'pos': c.And(True if v.lin_mean is None else c.Lt(0, v.lin_mean),
                                              True if v.lin_std is None else c.Lt(0, v.lin_std))},
               post=_lg_post, native=_gi_native('LogGaussian'), frame_attrs=_GATTRS, fresh_attr=_fresh_prior_attr,
               cases=[{'lin_mean': a, 'lin_std': b} for a in (False, True) for b in (False, True)], bounds=[{}],
               gen=lambda rng: dict(lin_mean=rng.random() < 0.5, lin_std=rng.random() < 0.5, mean=rng.uniform(-5, 5),
                                    std=rng.uniform(0.1, 3), lmean=10 ** rng.uniform(-5, 5), lstd=10 ** rng.uniform(0.1, 2)),
               short='LogGaussian.__init__', safety=('index', 'div', 'domain'),
               doc='lin_mean=m is the same prior as mean=log10 m')


# ------------------------------------------------------------------ bounded stand-ins (never counted as proved)
def _b_scipy(seed, tier):
    """the assumed scipy models against the real library"""
    import random
    import numpy as np
    import scipy.stats as stats
    rng = random.Random(seed)
    n = 200 if tier == 'quick' else 5000
    fails, samples = [], []
    for i in range(n):
        lo, sc = rng.uniform(-1e3, 1e3), rng.uniform(0, 1e3)
        x = rng.choice([0.0, 1.0, rng.random()])
        got = float(stats.uniform.ppf(x, loc=lo, scale=sc))
        want = lo + x * sc
        if abs(got - want) > 1e-9 * max(1, abs(lo), sc):
            fails.append({'clause': 'uniform.ppf', 'inputs': [x, lo, sc], 'got': got, 'want': want})
        x1, x2 = sorted([rng.uniform(1e-6, 1 - 1e-6), rng.uniform(1e-6, 1 - 1e-6)])
        m, s = rng.uniform(-10, 10), rng.uniform(1e-3, 10)
        a, b = float(stats.norm.ppf(x1, loc=m, scale=s)), float(stats.norm.ppf(x2, loc=m, scale=s))
        z1 = float(stats.norm.ppf(x1))
        if not (a <= b) or abs(a - (m + s * z1)) > 1e-9 * max(1, abs(m), s * abs(z1)) or abs(float(stats.norm.ppf(0.5))) > 1e-12:
            fails.append({'clause': 'norm.ppf', 'inputs': [x1, x2, m, s], 'got': [a, b]})
        if i < 2:
            samples.append({'uniform.ppf': [x, lo, sc, got], 'norm.ppf': [x1, m, s, a]})
    return {'cases': 2 * n, 'failures': fails, 'bound': '%d random (x, loc, scale) per model incl. x in {0,1}' % n,
            'samples': samples}


Bounded('C08', 'scipy_ppf_models', _b_scipy, doc='exercises the assumed contracts of scipy.stats.uniform/norm.ppf')


def _prior_fields(o):
    d = {k: v for k, v in vars(o).items() if k.startswith('_') and k not in ('_log', '_logger')}
    d['class'] = type(o).__name__
    d['_prior_mode'] = o._prior_mode.name
    return {k: (round(v, 12) if isinstance(v, float) else v) for k, v in d.items() if isinstance(v, (int, float, str))}


def _b_text(seed, tier):
    """a prior written as text produces the same object as constructing it directly"""
    import random
    import taurex.core.priors as m
    from taurex.parameter.factory import create_prior
    rng = random.Random(seed)
    n = 60 if tier == 'quick' else 2000
    fails, samples = [], []

    def num():
        return rng.choice([0, 0.0, 1, -1, 0.5, rng.uniform(-9, 9), round(rng.uniform(1e-6, 1e6), 3), 10 ** rng.randint(-8, 8)])

    def pos():
        return rng.choice([1, 1.0, 10 ** rng.uniform(-8, 8), round(rng.uniform(1e-6, 1e6), 6)])
    for i in range(n):
        kind = rng.choice(['Uniform', 'LogUniform', 'LogUniformLin', 'Gaussian', 'LogGaussian', 'LogGaussianLin'])
        if kind == 'Uniform':
            kw = {'bounds': [num(), num()]}
            cls = 'Uniform'
        elif kind == 'LogUniform':
            kw = {'bounds': [num(), num()]}
            cls = 'LogUniform'
        elif kind == 'LogUniformLin':
            kw = {'lin_bounds': [pos(), pos()]}
            cls = 'LogUniform'
        elif kind == 'Gaussian':
            kw = {'mean': num(), 'std': pos()}
            cls = 'Gaussian'
        elif kind == 'LogGaussian':
            kw = {'mean': num(), 'std': pos()}
            cls = 'LogGaussian'
        else:
            kw = {'lin_mean': pos(), 'std': pos()}
            cls = 'LogGaussian'
        name = rng.choice([cls, cls.lower(), cls.upper()])
        text = '%s(%s)' % (name, ', '.join('%s=%r' % kv for kv in kw.items()))
        try:
            got = _prior_fields(create_prior(text))
        except Exception as e:
            got = {'raised': repr(e)}
        want = _prior_fields(getattr(m, cls)(**kw))
        if got != want:
            fails.append({'clause': 'text_equals_direct', 'inputs': text, 'got': got, 'want': want})
        if i < 3:
            samples.append(text)
    return {'cases': n, 'failures': fails, 'samples': samples,
            'bound': '%d prior strings from the documented grammar Name(kw=literal,...), incl. zero/negative/huge values' % n}


def _b_text_replay(inputs):
    import taurex.core.priors as m
    from taurex.parameter.factory import create_prior
    import ast
    got = _prior_fields(create_prior(inputs))
    call = ast.parse(inputs).body[0].value
    cls = [k for k in ('Uniform', 'LogUniform', 'Gaussian', 'LogGaussian') if k.lower() == call.func.id.lower()][0]
    want = _prior_fields(getattr(m, cls)(**{k.arg: ast.literal_eval(k.value) for k in call.keywords}))
    return {'status': 'violation' if got != want else 'ok', 'got': got, 'want': want}


Bounded('C08', 'prior_text_equals_direct', _b_text, replay=_b_text_replay,
        doc='parse_priors/create_prior use ast + class lookup by name: outside the verified subset, run-time contract only')
