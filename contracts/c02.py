"""C02 -- emission / direct-image spectra equal the documented layered thermal integral."""
import math
import z3
from pyvc.unit import Unit, ObjSpec, Lemma, Bounded
from pyvc.engine import AbsObj
from pyvc.core import Arr, PyList, to_int, to_real, INT, REAL

EM = 'taurex.model.emission:EmissionModel.'


# ------------------------------------------------------------------ Planck function (numba, wavenumber form)
def planck_closed(c, nu, T):
    """documented Planck function in wavenumber form: pi * 2 h c^2 / lambda^5 / (exp(h c / (lambda k T)) - 1) * 1e-6
    with lambda = 10000 * 1e-6 / nu (metres for nu in cm^-1)"""
    PI, H, C, K = (c.constant(x) for x in ('PI', 'PLANCK', 'SPDLIGT', 'KBOLTZ'))
    wl = 10000 * 1e-6 / nu
    wl5 = wl * wl * wl * wl * wl
    return (PI * (2.0 * H * (C * C)) / wl5) * (1.0 / (c.exp((H * C) / (wl * K * T)) - 1)) * 1e-6


def _bb_params(c):
    W = c.int('W')
    return dict(lamb=c.array('nu', (W,)), temp=c.real('T'))


def _bb_pre(c, v):
    return {'positive': c.And(c.Len(v.lamb) >= 0, c.Lt(0, v.temp), c.Forall(0, c.Len(v.lamb), lambda i: c.Lt(0, v.lamb[i])))}


def _bb_post(c, v0, v1, r):
    W = c.Len(v0.lamb)
    return {'len': c.Len(r) == W,
            'planck': c.Forall(0, W, lambda i: c.Eq(r[i], planck_closed(c, v0.lamb[i], v0.temp)))}


def _bb_native(c, p):
    import numpy as np
    from taurex.util.emission import black_body
    return np.asarray(black_body(np.array(p['lamb'], dtype=float), float(p['temp']))), p


BB = Unit(['C02'], 'taurex.util.emission:black_body_numba', _bb_params, pre=_bb_pre, post=_bb_post, native=_bb_native,
          inline=['_convert_lamb', '_black_body_vec'], bounds=[dict(W=2)], safety=('index',),
          gen=lambda rng: (lambda W: dict(W=W, nu=[rng.uniform(300, 30000) for _ in range(W)], T=rng.uniform(100, 4000)))(rng.randint(1, 4)),
          result=lambda ex, st, v0: st.alloc(ex.c, ex.c.fresh_array('bb', (ex.c.Len(v0.lamb),))),
          doc='Planck function, wavenumber form (the numba.vectorize scalar bodies are mapped elementwise; physical '
              'constants are arbitrary positive reals in the proof)')


def _planck_lemmas(c):
    """B > 0 for T, nu > 0 and B strictly increasing in T  (x = hc/(lambda k T) > 0, exp(x) > 1; larger T, smaller x)"""
    a, x1, x2 = z3.Reals('a x1 x2')          # a = prefactor > 0;  x_i = hc/(lambda k T_i)
    B = lambda x: a * (1.0 / (c.exp(x) - 1))
    return [('positive', [a > 0, x1 > 0], c.hint(B(x1) > 0, c.exp(x1) > 1)),
            ('increasing_in_T', [a > 0, x1 > 0, x2 > x1], c.hint(B(x1) > B(x2), c.exp(x1) > 1, c.exp(x2) > c.exp(x1),
                                                                 1.0 / (c.exp(x1) - 1) > 1.0 / (c.exp(x2) - 1)))]


Lemma('C02', 'planck_positive_and_monotone', _planck_lemmas,
      doc='the documented Planck function is positive and strictly increasing in temperature')


# ------------------------------------------------------------------ set_num_gauss: quadrature mapped to [0, 1]
def _sg_params(c):
    return dict(self=ObjSpec('EmissionModel', _ngauss=None, _mu_quads=None, _wi_quads=None, _coeffs=None), value=c.int('G'),
                coeffs=None)


def _sg_post(c, v0, v1, r):
    """mu_i = (x_i + 1)/2 in (0, 1), w_i = weight_i/2 > 0 for the Gauss-Legendre nodes/weights (x, weight) on [-1, 1]"""
    G = v0.value
    s = v1.self
    if c.mode == 'conc':
        import numpy as np
        x, w = np.polynomial.legendre.leggauss(int(G))
    else:
        xa, wa = c.last_gl
        x, w = xa, wa
    if s._mu_quads is None or s._wi_quads is None:
        return {'stored': False}
    return {'count': c.And(s._ngauss == G, c.Len(s._mu_quads) == G, c.Len(s._wi_quads) == G),
            'nodes': c.Forall(0, G, lambda i: c.And(c.Eq(s._mu_quads[i], (x[i] + 1) / 2), c.Lt(0, s._mu_quads[i]), c.Lt(s._mu_quads[i], 1))),
            'weights': c.Forall(0, G, lambda i: c.And(c.Eq(s._wi_quads[i], w[i] / 2), c.Lt(0, s._wi_quads[i])))}


def _sg_native(c, p):
    from taurex.model.emission import EmissionModel
    o = EmissionModel.__new__(EmissionModel)
    o.set_num_gauss(p['value'])
    return None, dict(p, self=dict(p['self'], _ngauss=o._ngauss, _mu_quads=o._mu_quads, _wi_quads=o._wi_quads))


def _sg_fresh(ex, st, v0, attr):
    c = ex.c
    if attr == '_ngauss':
        return v0.value
    if attr == '_coeffs':
        return None
    return st.alloc(c, c.fresh_array(attr, (v0.value,)))


SG = Unit('C02', EM + 'set_num_gauss', _sg_params, pre=lambda c, v: {'G': v.value >= 1}, post=_sg_post, native=_sg_native,
          gen=lambda rng: dict(G=rng.randint(1, 12)), bounds=[dict(G=2)], fresh_attr=_sg_fresh,
          frame_attrs=[('self', a) for a in ('_ngauss', '_mu_quads', '_wi_quads', '_coeffs')], short='EmissionModel.set_num_gauss',
          doc='Gauss-Legendre nodes/weights mapped from [-1,1] to [0,1] (leggauss itself: assumed model + bounded moments item)')


def _quad_lemma(c):
    """with sum w = 2 and sum w x = 0 on [-1,1]: the mapped weights w/2 sum to one and sum (w/2)((x+1)/2) = 1/2, for
    every number of nodes (induction on the two scaled sums)"""
    I, R = z3.IntSort(), z3.RealSort()
    x, w = z3.Function('x', I, R), z3.Function('w', I, R)
    m, n = z3.Ints('m n')
    W = lambda k: c.Sum(0, k, lambda i: w(i))
    WX = lambda k: c.Sum(0, k, lambda i: w(i) * x(i))
    A = lambda k: c.Sum(0, k, lambda i: w(i) / 2)
    B = lambda k: c.Sum(0, k, lambda i: (w(i) / 2) * ((x(i) + 1) / 2))
    P = lambda k: z3.And(A(k) * 2 == W(k), B(k) * 4 == WX(k) + W(k))
    mm = z3.Int('mm')
    return [('base', [], P(0)), ('step', [m >= 0, P(m)], P(m + 1)),
            ('weights_sum_to_one', [z3.ForAll([mm], z3.Implies(mm >= 0, P(mm))), n >= 1, W(n) == 2, WX(n) == 0],
             z3.And(A(n) == 1, B(n) * 2 == 1))]


Lemma('C02', 'quadrature_on_unit_interval', _quad_lemma,
      doc='sum of mapped weights = 1 and first moment = 1/2 (what the isothermal statement needs), any ngauss')


def _b_leggauss(seed, tier):
    """the assumed leggauss model, confirmed numerically"""
    import numpy as np
    fails, N = [], (16 if tier == 'quick' else 64)
    for n in range(1, N + 1):
        x, w = np.polynomial.legendre.leggauss(n)
        ok = len(x) == n and np.all(x > -1) and np.all(x < 1) and np.all(w > 0) and abs(w.sum() - 2) < 1e-12 and abs((w * x).sum()) < 1e-12
        if not ok:
            fails.append(dict(clause='leggauss.moments', inputs=dict(n=n)))
    return {'cases': N, 'failures': fails, 'bound': 'ngauss = 1..%d' % N, 'samples': [dict(n=1), dict(n=N)]}


Bounded('C02', 'leggauss_model', _b_leggauss, doc='numpy leggauss against its assumed contract (nodes in (-1,1), positive weights, two moments)')


# ------------------------------------------------------------------ flux normalisation
def _ff_params(cls, **star):
    def params(c):
        W = c.int('W')
        return dict(self=ObjSpec(cls, _star=ObjSpec('Star', **{k: f(c, W) for k, f in star.items()}),
                                 _planet=ObjSpec('BasePlanet', _radius=c.real('Rp'))), f_total=c.array('flux', (W,)))
    return params


def _ff_post(c, v0, v1, r):
    W = c.Len(v0.f_total)
    s = v0.self._star
    q = v0.self._planet._radius / s._radius
    return {'len': c.Len(r) == W,
            'eclipse_depth': c.Forall(0, W, lambda w: c.Eq(r[w], (v0.f_total[w] / s.sed[w]) * (q * q)))}


def _ff_native(c, p):
    import numpy as np
    from taurex.model.emission import EmissionModel
    o = _q(EmissionModel.__new__(EmissionModel))
    s = p['self']
    o._star = _NS(spectralEmissionDensity=np.array(s['_star']['sed'], dtype=float), radius=s['_star']['_radius'])
    o._planet = _NS(fullRadius=s['_planet']['_radius'])
    return np.asarray(o.compute_final_flux(np.array(p['f_total'], dtype=float))), p


class _NS:
    def __init__(self, **kw):
        self.__dict__.update(kw)


def _q(o):
    for nm in ('debug', 'info', 'warning', 'error', 'critical'):
        setattr(o, nm, lambda *a, **k: None)
    return o


FF = Unit('C02', EM + 'compute_final_flux', _ff_params('EmissionModel', sed=lambda c, W: c.array('sed', (W,)), _radius=lambda c, W: c.real('Rs')),
          pre=lambda c, v: {'W': c.Len(v.f_total) >= 0, 'sed': c.Len(v.self._star.sed) == c.Len(v.f_total)},
          post=_ff_post, native=_ff_native, inline=['spectralEmissionDensity', 'radius', 'fullRadius'], bounds=[dict(W=2)],
          gen=lambda rng: (lambda W: dict(W=W, flux=[rng.uniform(0, 5) for _ in range(W)], sed=[rng.uniform(1, 9) for _ in range(W)],
                                          Rp=rng.uniform(1e7, 1e8), Rs=rng.uniform(3e8, 9e8)))(rng.randint(1, 4)),
          result=lambda ex, st, v0: st.alloc(ex.c, ex.c.fresh_array('ff', (ex.c.Len(v0.f_total),))),
          short='EmissionModel.compute_final_flux', doc='flux / stellar SED x (Rp/Rs)^2', safety=('index',))


def _di_post(c, v0, v1, r):
    """flux x Rp^2 / d^2 with d = distance [pc] x 3.08567758e16 m, times the input-independent constant
    2 pi / (4 pi) = 1/2 of the pinned code (any change of the FORM -- Rp instead of Rp^2, d instead of d^2 -- fails)"""
    W = c.Len(v0.f_total)
    Rp = v0.self._planet._radius
    d = v0.self._star.distance * 3.08567758e16
    PI = c.constant('PI')
    return {'len': c.Len(r) == W,
            'direct_image_flux': c.Forall(0, W, lambda w: c.Eq(r[w], (v0.f_total[w] * (Rp * Rp) * 2.0 * PI) / (4 * PI * (d * d))))}


def _di_native(c, p):
    import numpy as np
    from taurex.model.directimage import DirectImageModel
    o = _q(DirectImageModel.__new__(DirectImageModel))
    s = p['self']
    o._star = _NS(distance=s['_star']['distance'])
    o._planet = _NS(fullRadius=s['_planet']['_radius'])
    return np.asarray(o.compute_final_flux(np.array(p['f_total'], dtype=float))), p


DI = Unit('C02', 'taurex.model.directimage:DirectImageModel.compute_final_flux',
          _ff_params('DirectImageModel', distance=lambda c, W: c.real('dist')),
          pre=lambda c, v: {'W': c.Len(v.f_total) >= 0, 'd': c.Lt(0, v.self._star.distance)}, post=_di_post, native=_di_native,
          inline=['fullRadius'], bounds=[dict(W=2)], safety=('index',),
          gen=lambda rng: (lambda W: dict(W=W, flux=[rng.uniform(0, 5) for _ in range(W)], Rp=rng.uniform(1e7, 1e8),
                                          dist=rng.uniform(1, 100)))(rng.randint(1, 4)),
          short='DirectImageModel.compute_final_flux', doc='flux x Rp^2 / d^2 (x 1/2)')


# ------------------------------------------------------------------ Star.initialize: SED of the CURRENT temperature
ST = 'taurex.data.stellar.star:BlackbodyStar.'


def _st_params(c):
    W = c.int('W')
    return dict(self=ObjSpec('BlackbodyStar', _temperature=c.real('Tstar'), sed=None), wngrid=c.array('nu', (W,)))


def _st_post(c, v0, v1, r):
    W = c.Len(v0.wngrid)
    sed = v1.self.sed
    if sed is None or not hasattr(sed, 'shape'):
        return {'stored': False}
    d = {'len': c.Len(sed) == W}
    if c.mode == 'conc' and not d['len']:
        return d
    d['sed_is_planck_at_current_temperature'] = c.Forall(0, W, lambda i: c.Eq(sed[i], planck_closed(c, v0.wngrid[i], v0.self._temperature)))
    return d


def _st_obj(c, p):
    from taurex.data.stellar.star import BlackbodyStar
    return BlackbodyStar(temperature=p['self']['_temperature'])


def _st_call(c, o, p):
    import numpy as np
    o.temperature = p['self']['_temperature']            # public setter (what a fit or a scan does between evaluations)
    o.initialize(np.array(p['wngrid'], dtype=float))
    return None, dict(p, self=dict(p['self'], sed=np.asarray(o.spectralEmissionDensity)))


def _st_gen(rng):
    last = getattr(rng, '_st_last', None)
    if last is not None and not last.get('second'):
        d = dict(last, Tstar=rng.uniform(2500, 9000), second=True)        # same grid, other temperature
    else:
        W = rng.randint(1, 4)
        d = dict(W=W, nu=[rng.uniform(300, 30000) for _ in range(W)], Tstar=rng.uniform(2500, 9000))
    rng._st_last = d
    return {k: v for k, v in d.items() if k != 'second'}


STI = Unit('C02', 'taurex.data.stellar.star:Star.initialize', _st_params, pre=lambda c, v: _bb_pre(c, _NS(lamb=v.wngrid, temp=v.self._temperature)),
           post=_st_post, native_obj=_st_obj, native_call=_st_call, gen=_st_gen, bounds=[dict(W=2)], inline=['temperature'],
           frame_attrs=[('self', 'sed')], fresh_attr=lambda ex, st, v0, attr: st.alloc(ex.c, ex.c.fresh_array('sed', (ex.c.Len(v0.wngrid),))),
           short='Star.initialize', doc='stellar SED = Planck function at the star\'s current temperature on the given grid '
           '(replayed as a two-call history on one object: temperature changed between the calls)')


# ------------------------------------------------------------------ evaluate_emission (cross-section branch)
# Contributions enter through the abstract contract K2E of contribute(model, start, end, 0, 0, density, row, path=dz):
#   row[0, w] += sum_{k=start}^{end-1} KAP(c, k, w),   KAP(c, k, w) >= 0 the vertical optical depth of layer k
# which is what K1 / contribute_cia give with layer = 0, offset = 0, path = dz (KAP = sigma_c[k,w] dz_k rho_k^(1|2));
# the obligations at every call site check exactly those arguments (offsets 0, the model's own dz and density,
# 0 <= start, end <= nLayers) -- a surface term that starts at layer 1 fails post.intensity.
def KAP(c):
    return c.func('KAP', INT, INT, INT, REAL)


def _k2e(ex, st, o, args, kwargs, node):
    c = ex.c
    model, start, end, offset, layer, density, tau = args[:7]
    path = kwargs.get('path_length', args[7] if len(args) > 7 else None)
    me = st.get(model)
    T = st.get(tau)
    n = me.attrs['nLayers']
    ex.oblige('call.contribute.pre.offsets', st, c.And(to_int(offset) == 0, to_int(layer) == 0), node)
    ex.oblige('call.contribute.pre.range', st, c.And(to_int(start) >= 0, to_int(end) <= to_int(n)), node)
    ex.oblige('call.contribute.pre.path_is_dz', st, isinstance(path, type(density)) and path.id == me.attrs['deltaz'].id, node)
    ex.oblige('call.contribute.pre.density', st, density.id == st.env.get('density', density).id and
              density.id == getattr(ex, '_density_ref', density).id, node)
    ex.oblige('call.contribute.pre.row', st, c.And(to_int(T.shape[0]) == 1), node)
    f = KAP(c)
    cid = o.ident
    s_, e_ = to_int(start), to_int(end)
    hi = e_ if ex.implied(st, s_ <= e_) else z3.If(e_ >= s_, e_, s_)
    st.put(tau, Arr(T.shape, lambda ix, T=T: z3.If(to_int(ix[0]) == 0, T.elem(ix) + c.Sum(s_, hi, lambda k: f(cid, k, to_int(ix[1]))),
                                                   T.elem(ix)) if conc0(ix[0]) is None else
                    (T.elem(ix) + c.Sum(s_, hi, lambda k: f(cid, k, to_int(ix[1]))) if conc0(ix[0]) == 0 else T.elem(ix)), 'real'))
    return None


_k2e.frame_args = [6]


def conc0(i):
    from pyvc.core import conc_int
    return conc_int(i)


def _abs_bb(ex, st, args, kwargs, node):
    """black_body(wngrid, T) by its proved contract (unit black_body_numba), kept opaque: PL(T, w) stands for the
    documented Planck function at wngrid[w]"""
    c = ex.c
    wn, T = args
    W = st.get(wn).shape[0]
    f = c.func('PL', REAL, INT, REAL)
    return st.alloc(c, Arr((W,), lambda ix, T=T: f(to_real(T), to_int(ix[0])), 'real'))


def _ee_params(c):
    M = c.choice('M')
    n, W, G = c.int('n'), c.int('W'), c.int('G')
    if c.mode == 'conc':
        import numpy as np
        sig = [np.array(c.values['sigma%d' % k], dtype=float).reshape(n, W) for k in range(M)]
        for k in range(M):
            c.inputs.append(('arr', 'sigma%d' % k, ((n, W), None, 'real')))
        contribs = [dict(__obj__='Contribution', ident=k, sigma=sig[k]) for k in range(M)]
    else:
        contribs = [AbsObj('Contribution', k, {}) for k in range(M)]
    d = dict(self=ObjSpec('EmissionModel', nLayers=n, deltaz=c.array('dz', (n,)), contribution_list=contribs, usingKTables=False,
                          _clamp=c.real('clamp'), _mu_quads=c.array('muq', (G,)), _wi_quads=c.array('wq', (G,)),
                          _pressure_profile=ObjSpec('PressureProfile', profile=c.array('P', (n,))),
                          _temperature_profile=ObjSpec('TemperatureProfile', profile=c.array('T', (n,)))),
             wngrid=c.array('wngrid', (W,)), return_contrib=False)
    if c.mode == 'conc':
        import numpy as np
        Kb = c.constant('KBOLTZ')
        s = d['self'].attrs
        dens = np.array(s['_pressure_profile'].attrs['profile']) / (Kb * np.array(s['_temperature_profile'].attrs['profile']))
        dz = s['deltaz']
        from taurex.util.emission import black_body
        wn = d['wngrid']
        c.concrete_funcs = {'KAP': lambda ci, k, w: float(sig[ci][k, w] * dz[k] * dens[k]),
                            'PL': lambda T, w: float(black_body(np.array([wn[w]], dtype=float), float(T))[0])}
    return d


def _ee_pre(c, v):
    s = v.self
    n, W, G = s.nLayers, c.Len(v.wngrid), c.Len(s._mu_quads)
    return {'sizes': c.And(n >= 1, W >= 1, G >= 1, c.Len(s.deltaz) == n, c.Len(s._wi_quads) == G,
                           c.Len(s._pressure_profile.profile) == n, c.Len(s._temperature_profile.profile) == n),
            'mu': c.Forall(0, G, lambda m: c.Lt(0, s._mu_quads[m]))}


class _Spec:
    """the documented layered integral, written over KAP"""

    def __init__(self, c, v0):
        self.c, self.v0 = c, v0
        s = v0.self
        self.n, self.W, self.G = s.nLayers, c.Len(v0.wngrid), c.Len(s._mu_quads)
        self.M = len(s.contribution_list)
        self.clamp = s._clamp
        self.T = s._temperature_profile.profile
        self.PI = c.constant('PI')

    def KS(self, lo, hi, w):
        c = self.c
        f = KAP(c)
        tot = 0.0
        for ci in range(self.M):
            tot = tot + c.Sum(lo, hi, lambda k, ci=ci: f(ci, k, w))
        return tot

    def LT(self, l, w):          # optical depth of everything above layer l
        return self.KS(l + 1, self.n, w)

    def DT(self, l, w):          # ... including layer l
        c = self.c
        f = KAP(c)
        own = 0.0
        for ci in range(self.M):
            own = own + f(ci, l, w)
        return own + self.LT(l, w)

    def CL(self, which, l):
        """clamp: the transmittance of a level is treated as zero unless the optical depth is below the clamp at
        some wavenumber (min over the grid < clamp)"""
        c = self.c
        X = self.LT if which == 'L' else self.DT
        if c.mode == 'conc':
            return any(X(l, w) < self.clamp for w in range(self.W))
        if c.mode == 'bmc':
            return c.Exists(0, self.W, lambda w: X(l, w) < self.clamp)
        P = c.func('CL' + which, INT, z3.BoolSort())
        Wit = c.func('WIT' + which, INT, INT)
        key = 'clamp_axioms' + which
        if key not in c.uf:
            c.uf[key] = True
            li, w = z3.Ints('l?c w?c')
            c.assumed.append(z3.ForAll([li, w], z3.Implies(z3.And(0 <= w, w < self.W, X(li, w) < self.clamp), P(li)),
                                       patterns=[z3.MultiPattern(P(li), self._pat(which, li, w))] if self.M else []))
            c.assumed.append(z3.ForAll([li], z3.Implies(P(li), z3.And(0 <= Wit(li), Wit(li) < self.W, X(li, Wit(li)) < self.clamp)),
                                       patterns=[P(li)]))
        return P(l)

    def _pat(self, which, l, w):
        c = self.c
        f = KAP(c)
        return c.Sum(l + 1, self.n, lambda k: f(0, k, w))

    def E(self, which, l, mu, w):
        c = self.c
        X = self.LT if which == 'L' else self.DT
        return c.If(self.CL(which, l), c.exp((-X(l, w)) * mu), 0.0)

    def PL(self, l, w):
        c = self.c
        return c.func('PL', REAL, INT, REAL)(self.T[l], w) / self.PI

    def term(self, l, m, w):
        mu = 1.0 / self.v0.self._mu_quads[m]
        return self.PL(l, w) * (self.E('L', l, mu, w) - self.E('D', l, mu, w))

    def layers(self, m, w, upto):
        return self.c.Sum(0, upto, lambda l: self.term(l, m, w))

    def I(self, m, w, upto=None):
        c = self.c
        mu = 1.0 / self.v0.self._mu_quads[m]
        n = self.n if upto is None else upto
        return self.PL(0, w) * c.exp((-self.KS(0, self.n, w)) * mu) + self.layers(m, w, n)

    def tau(self, l, w):
        return self.E('L', l, 1.0, w) - self.E('D', l, 1.0, w)


def _ee_post(c, v0, v1, r):
    S = _Spec(c, v0)
    I, mu, wq, tau = r
    n, W, G = S.n, S.W, S.G
    return {'shapes': c.And(c.Shape(I)[0] == G, c.Shape(I)[1] == W, c.Shape(mu)[0] == G, c.Shape(wq)[0] == G,
                            c.Shape(tau)[0] == n, c.Shape(tau)[1] == W),
            'angles': c.Forall(0, G, lambda m: c.And(c.Eq(mu[m, 0], 1.0 / v0.self._mu_quads[m]), c.Eq(wq[m, 0], v0.self._wi_quads[m]))),
            'intensity': c.Forall2((0, G), (0, W), lambda m, w: c.Eq(I[m, w], S.I(m, w))),
            'layer_weights': c.Forall2((0, n), (0, W), lambda l, w: c.Eq(tau[l, w], S.tau(l, w)))}


def _ee_inv1(c, v, v0, layer):
    S = _Spec(c, v0)
    n, W, G = S.n, S.W, S.G
    return {'locals': c.And(v.total_layers == n, v.wngrid_size == W, c.Shape(v.tau)[0] == n, c.Shape(v.tau)[1] == W,
                            c.Shape(v.I)[0] == G, c.Shape(v.I)[1] == W, c.Shape(v.layer_tau)[0] == 1, c.Shape(v.layer_tau)[1] == W,
                            c.Shape(v.dtau)[0] == 1, c.Shape(v.dtau)[1] == W, c.Shape(v._mu)[0] == G, c.Shape(v._mu)[1] == 1,
                            c.Shape(v._w)[0] == G, c.Shape(v._w)[1] == 1, c.Len(v.temperature) == n),
            'angles': c.Forall(0, G, lambda m: c.And(v._mu[m, 0] == 1.0 / v0.self._mu_quads[m], v._w[m, 0] == v0.self._wi_quads[m])),
            'temperature': c.Forall(0, n, lambda l: v.temperature[l] == S.T[l]),
            'intensity': _ee_intensity(c, v, v0, S, layer),
            'tau_done': _ee_tau_done(c, v, v0, S, layer),
            'tau_todo': c.Forall2((layer, n), (0, W), lambda l, w: v.tau[l, w] == 0)}


def _ee_clamp_facts(c, v, S, L):
    """in the state after the body of iteration L: what the two clamp tests decided, stated over the spec"""
    out = []
    for which, name in (('L', 'layer_tau_calc'), ('D', 'dtau_calc')):
        val = v[name]
        active = not isinstance(val, (int, float))
        out.append(S.CL(which, L) if active else z3.Not(S.CL(which, L)))
    return out


def _ee_intensity(c, v, v0, S, layer):
    G, W = S.G, S.W
    plain = lambda m, w: v.I[m, w] == S.I(m, w, upto=layer)
    if getattr(c, 'assuming', False) or c.mode != 'sym' or not v.has('layer_tau_calc'):
        return c.Forall2((0, G), (0, W), plain)
    L = z3.simplify(layer - 1)

    def G1(m, w):
        return c.hint(plain(m, w), v.layer_tau[0, w] == S.LT(L, w), v.dtau[0, w] == S.DT(L, w), *_ee_clamp_facts(c, v, S, L),
                      c.pure_ground(S.layers(m, w, layer) == S.layers(m, w, L) + S.term(L, m, w), L >= 0, layer == L + 1,
                                    c.sum_step(0, layer, lambda l: S.term(l, m, w))))
    return c.ForallH(0, G, lambda m: c.ForallH(0, W, lambda w: G1(m, w)))


def _ee_tau_done(c, v, v0, S, layer):
    W = S.W
    plain = lambda l, w: v.tau[l, w] == S.tau(l, w)
    if getattr(c, 'assuming', False) or c.mode != 'sym' or not v.has('layer_tau_calc'):
        return c.Forall2((0, layer), (0, W), plain)
    L = z3.simplify(layer - 1)

    def G1(l, w):
        return c.hint(plain(l, w), c.Implies(l < L, plain(l, w)), v.layer_tau[0, w] == S.LT(L, w), v.dtau[0, w] == S.DT(L, w),
                      *_ee_clamp_facts(c, v, S, L))
    return c.ForallH(0, layer, lambda l: c.ForallH(0, W, lambda w: G1(l, w)))


def _ee_native(c, p):
    import numpy as np
    from taurex.model.emission import EmissionModel
    from taurex.contributions.contribution import Contribution
    s = p['self']

    class _M(EmissionModel):
        nLayers = property(lambda self: self._n)
        densityProfile = property(lambda self: self._dens)
        temperatureProfile = property(lambda self: self._T)
        usingKTables = property(lambda self: False)
    m = _q(_M.__new__(_M))
    m._n = s['nLayers']
    m.deltaz = np.array(s['deltaz'], dtype=float)
    m._T = np.array(s['_temperature_profile']['profile'], dtype=float)
    m._dens = np.array(s['_pressure_profile']['profile'], dtype=float) / (c.constant('KBOLTZ') * m._T)
    m._clamp = s['_clamp']
    m._mu_quads, m._wi_quads = np.array(s['_mu_quads'], dtype=float), np.array(s['_wi_quads'], dtype=float)
    lst = []
    for d in s['contribution_list']:
        cc = _q(Contribution.__new__(Contribution))
        cc.sigma_xsec = np.array(d['sigma'], dtype=float)
        cc._nlayers, cc._ngrid = cc.sigma_xsec.shape
        lst.append(cc)
    m.contribution_list = lst
    I, mu, w, tau = m.evaluate_emission(np.array(p['wngrid'], dtype=float), False)
    return (np.asarray(I), np.asarray(mu), np.asarray(w), np.asarray(tau)), p


def _ee_gen(rng):
    M, n, W, G = rng.randint(0, 2), rng.randint(1, 4), rng.randint(1, 3), rng.randint(1, 3)
    d = dict(M=M, n=n, W=W, G=G, clamp=10.0, dz=[rng.uniform(1e3, 1e5) for _ in range(n)],
             muq=sorted(rng.uniform(0.05, 0.95) for _ in range(G)), wq=[1.0 / G] * G,
             P=sorted((10 ** rng.uniform(0, 5) for _ in range(n)), reverse=True), T=[rng.uniform(300, 2500) for _ in range(n)],
             wngrid=[1000.0 * (i + 1) for i in range(W)])
    for k in range(M):
        d['sigma%d' % k] = [[10 ** rng.uniform(-31, -24) for _ in range(W)] for _ in range(n)]
    return d


EE = Unit(['C02', 'C13'], EM + 'evaluate_emission', _ee_params, pre=_ee_pre, post=_ee_post, invariants={1: _ee_inv1},
          abstract={'Contribution.contribute': _k2e, 'call:black_body': _abs_bb}, cases=[{'M': k} for k in (0, 1, 2)],
          inline=['densityProfile', 'temperatureProfile', 'pressureProfile', 'usingKTables'], native=_ee_native, gen=_ee_gen,
          bounds=[dict(n=2, W=1, G=1), dict(n=1, W=2, G=2)], short='EmissionModel.evaluate_emission', timeout_ms=20000,
          doc='I(mu, w) = B(T_0)/pi exp(-tau_s/mu) + sum_l B(T_l)/pi (E(above l) - E(above and including l)), E clamped to 0 '
              'when the optical depth exceeds the clamp at every wavenumber; code level: 0..2 contributions, every '
              'layer / grid / angle count')


# ------------------------------------------------------------------ path_integral: angle quadrature + normalisation
def _pi_params(c):
    d = _ee_params(c)
    W = c.int('W')
    s = d['self'].attrs
    s['_star'] = ObjSpec('Star', sed=c.array('sed', (W,)), _radius=c.real('Rs'))
    s['_planet'] = ObjSpec('BasePlanet', _radius=c.real('Rp'))
    return d


def _pi_pre(c, v):
    d = _ee_pre(c, v)
    d['sed'] = c.Len(v.self._star.sed) == c.Len(v.wngrid)
    return d


def _pi_flux(c, S, v0, w):
    """2 pi sum_m I(mu_m, w) w_m mu_m   (the code divides the weight by 1/mu_m)"""
    s = v0.self
    return (2.0 * math.pi) * c.Sum(0, S.G, lambda m: S.I(m, w) * (s._wi_quads[m] / (1.0 / s._mu_quads[m])))


def _pi_post(c, v0, v1, r):
    S = _Spec(c, v0)
    s = v0.self
    q = s._planet._radius / s._star._radius
    flux, tau = r
    goal = lambda w: c.Eq(flux[w], (_pi_flux(c, S, v0, w) / s._star.sed[w]) * (q * q))
    if c.mode == 'sym' and not getattr(c, 'assuming', False) and getattr(c, 'ee_result', None) is not None:
        I, mu, wq = c.ee_result

        def G1(w):
            return c.hint(goal(w), c.congr(0, S.G, lambda m: I[m, w] * (wq[m, 0] / mu[m, 0]),
                                           lambda m: S.I(m, w) * (s._wi_quads[m] / (1.0 / s._mu_quads[m]))))
        flux_clause = c.ForallH(0, S.W, G1)
    else:
        flux_clause = c.Forall(0, S.W, goal)
    return {'shapes': c.And(c.Len(flux) == S.W, c.Shape(tau)[0] == S.n, c.Shape(tau)[1] == S.W),
            'eclipse_depth': flux_clause,
            'layer_weights': c.Forall2((0, S.n), (0, S.W), lambda l, w: c.Eq(tau[l, w], S.tau(l, w)))}


def _ee_result(ex, st, v0):
    c = ex.c
    s = v0.self
    n, W, G = s.nLayers, c.Len(v0.wngrid), c.Len(s._mu_quads)
    I, mu, wq, tau = (c.fresh_array('I', (G, W)), c.fresh_array('mu', (G, 1)), c.fresh_array('wq', (G, 1)), c.fresh_array('tau', (n, W)))
    c.ee_result = (I, mu, wq)
    return tuple(st.alloc(c, a) for a in (I, mu, wq, tau))


EE.result = _ee_result


def _pi_native(c, p):
    import numpy as np
    from taurex.model.emission import EmissionModel
    from taurex.contributions.contribution import Contribution
    s = p['self']

    class _M(EmissionModel):
        nLayers = property(lambda self: self._n)
        densityProfile = property(lambda self: self._dens)
        temperatureProfile = property(lambda self: self._T)
        usingKTables = property(lambda self: False)
    m = _q(_M.__new__(_M))
    m._n = s['nLayers']
    m.deltaz = np.array(s['deltaz'], dtype=float)
    m._T = np.array(s['_temperature_profile']['profile'], dtype=float)
    m._dens = np.array(s['_pressure_profile']['profile'], dtype=float) / (c.constant('KBOLTZ') * m._T)
    m._clamp = s['_clamp']
    m._mu_quads, m._wi_quads = np.array(s['_mu_quads'], dtype=float), np.array(s['_wi_quads'], dtype=float)
    m._star = _NS(spectralEmissionDensity=np.array(s['_star']['sed'], dtype=float), radius=s['_star']['_radius'])
    m._planet = _NS(fullRadius=s['_planet']['_radius'])
    lst = []
    for d in s['contribution_list']:
        cc = _q(Contribution.__new__(Contribution))
        cc.sigma_xsec = np.array(d['sigma'], dtype=float)
        cc._nlayers, cc._ngrid = cc.sigma_xsec.shape
        lst.append(cc)
    m.contribution_list = lst
    f, tau = m.path_integral(np.array(p['wngrid'], dtype=float), False)
    return (np.asarray(f), np.asarray(tau)), p


def _pi_gen(rng):
    d = _ee_gen(rng)
    d.update(sed=[rng.uniform(1, 9) for _ in range(d['W'])], Rp=rng.uniform(1e7, 1e8), Rs=rng.uniform(3e8, 9e8))
    return d


PIE = Unit(['C02', 'C13'], EM + 'path_integral', _pi_params, pre=_pi_pre, post=_pi_post, cases=[{'M': k} for k in (0, 1, 2)],
           native=_pi_native, gen=_pi_gen, bounds=[dict(n=2, W=1, G=1)], short='EmissionModel.path_integral',
           inline=['spectralEmissionDensity', 'radius', 'fullRadius'],
           doc='flux = 2 pi sum over angles of I mu w, then compute_final_flux (both callees by contract)')


# ------------------------------------------------------------------ lemmas: isothermal case and hot/cold bounds
def _iso(c):
    """the optical depth above-and-including layer l equals the optical depth above layer l-1, so the layer terms
    telescope: sum_l (e(l+1) - e(l)) = e(n) - e(0), with e(n) = E(0) = 1 (top of the atmosphere) and e(0) = E(tau_s).
    Hence for equal layer temperatures  I pi / B = exp(-tau_s mu) + 1 - E(tau_s)  which is exactly 1 unless the
    whole column is clamped (tau_s >= clamp at every wavenumber), and then exceeds 1 by at most exp(-clamp)."""
    I, R = z3.IntSort(), z3.RealSort()
    e = z3.Function('e', I, R)
    m, n = z3.Ints('m n')
    S = lambda k: c.Sum(0, k, lambda l: e(l + 1) - e(l))
    P = lambda k: S(k) == e(k) - e(0)
    ts, mu, clamp, e0 = z3.Reals('ts mu clamp e0')
    cl = z3.Bool('cl')
    b = c.exp(-(ts * mu)) + 1 - e0
    mm = z3.Int('mm')
    B, Bs, PI, q = z3.Reals('B Bs PI q')
    return [('telescope.base', [], P(0)), ('telescope.step', [m >= 0, P(m)], P(m + 1)),
            ('bracket', [e0 == z3.If(cl, c.exp(-(ts * mu)), 0), z3.Implies(z3.Not(cl), ts >= clamp), clamp >= 0, mu >= 1],
             c.hint(z3.And(z3.Implies(cl, b == 1), b >= 1, b <= 1 + c.exp(-clamp)),
                    z3.Implies(z3.Not(cl), ts * mu >= clamp), c.exp(-(ts * mu)) > 0,
                    z3.Implies(z3.Not(cl), c.exp(-(ts * mu)) <= c.exp(-clamp)), c.exp(-clamp) > 0)),
            ('blackbody_ratio', [PI > 0, Bs > 0], ((2.0 * PI) * ((B / PI) * (1 / z3.RealVal(2))) / Bs) * (q * q) == (B / Bs) * (q * q))]


Lemma('C02', 'isothermal_returns_blackbody_ratio', _iso,
      doc='telescoping of the layer terms (induction), the clamp deviation <= exp(-clamp), and 2 pi (B/pi) sum w mu = B '
          'with sum w mu = 1/2 (lemma quadrature_on_unit_interval)')


def _bounds(c):
    """non-negative weights a_l (transmittance differences; D_l >= L_l because every layer term is >= 0) and layer
    values lo <= x_l <= hi:  lo * sum a <= sum a x <= hi * sum a  (induction) -- with x_l = B(T_l), lo/hi = B at the
    coldest/hottest layer (Planck monotone in T, lemma planck_positive_and_monotone)"""
    I, R = z3.IntSort(), z3.RealSort()
    a, x = z3.Function('a', I, R), z3.Function('x', I, R)
    lo, hi = z3.Reals('lo hi')
    m, q = z3.Ints('m q')
    A = lambda k: c.Sum(0, k, lambda l: a(l))
    AX = lambda k: c.Sum(0, k, lambda l: a(l) * x(l))
    P = lambda k: z3.And(AX(k) >= lo * A(k), AX(k) <= hi * A(k))
    hyp = z3.ForAll([q], z3.And(a(q) >= 0, lo <= x(q), x(q) <= hi))
    tl, td, mu = z3.Reals('tl td mu')
    return [('base', [hyp], P(0)),
            ('step', [hyp, m >= 0, P(m)], c.hint(P(m + 1), z3.And(a(m) * x(m) >= lo * a(m), a(m) * x(m) <= hi * a(m)))),
            ('weights_nonnegative', [td >= tl, mu > 0], c.hint(c.exp(-(tl * mu)) - c.exp(-(td * mu)) >= 0, td * mu >= tl * mu))]


Lemma('C02', 'between_coldest_and_hottest_layer', _bounds,
      doc='the spectrum is a non-negatively weighted combination of the layer blackbodies')
