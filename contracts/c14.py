"""C14 -- opacity / CIA files of every supported format load to the same physical table; caches serve one object.

Deductive part: the process-wide caches as maps (OpacityCache, KTableCache, CIACache, GlobalCache): what is served for
a key, that it is loaded at most once, that mode changes empty every cache that serves opacities.  The loaders
(discovery + per-format readers: pickle, HDF5, Exo-Transmit text, HITRAN text) are I/O and enter through an assumed
contract; they are exercised by the bounded format round-trip item below (labelled bounded, never counted as proved)."""
import z3
from pyvc.unit import Unit, ObjSpec, Lemma, Bounded
from pyvc.engine import AbsObj, ExcV, _Raise
from pyvc.core import Arr, Obj, PyDict, PyList, Ref

CA = 'taurex.cache.'
MOLS = ['H2O', 'CH4']


def _ev(st, *payload):
    st.trace.append(('ev', tuple(payload)))


class _NS:
    def __init__(self, **kw):
        self.__dict__.update(kw)


def _opac(c, name, mode):
    """an opacity object: its molecule name and the interpolation mode it was constructed with"""
    if c.mode == 'conc':
        return dict(__obj__='Opacity', moleculeName=name, g_mode=mode)
    return AbsObj('Opacity', name, {'moleculeName': name, 'g_mode': mode})


def _global(c, **vals):
    return ObjSpec('GlobalCache', variable_dict=dict(vals), log=ObjSpec('Logger'))


def _singletons(st, ex=None):
    me = st.get((ex.root_env if ex is not None else st.env)['self'])
    return me.attrs


_NEW = {'new:GlobalCache': lambda ex, st, args, kwargs, node: _singletons(st, ex)['g_global'],
        'new:KTableCache': lambda ex, st, args, kwargs, node: _singletons(st, ex)['g_ktables'],
        'new:OpacityCache': lambda ex, st, args, kwargs, node: _singletons(st, ex)['g_xsecs']}


# ------------------------------------------------------------------ GlobalCache as a map
def _gc_params(c):
    present = c.choice('present')
    d = {'xsec_interpolation': 'linear'}
    if present:
        d['k'] = c.real('val')
    return dict(self=ObjSpec('GlobalCache', variable_dict=d), key='k')


GCG = Unit('C14', CA + 'globalcache:GlobalCache.__getitem__', _gc_params,
           post=lambda c, v0, v1, r: {'stored_value_or_none': (c.Eq(r, v0.self.variable_dict['k']) if 'k' in v0.self.variable_dict else r is None)},
           cases=[{'present': True}, {'present': False}], bounds=[{}],
           native=lambda c, p: (_gc_native(p, 'get'), p), gen=lambda rng: dict(present=rng.random() < 0.5, val=rng.uniform(-5, 5)),
           short='GlobalCache.__getitem__', doc='a setting that was never stored reads as None (no KeyError)')


def _gc_native(p, what, value=None):
    from taurex.cache.globalcache import GlobalCache
    g = object.__new__(GlobalCache)
    g.variable_dict = dict(p['self']['variable_dict'])
    if what == 'get':
        return g[p['key']]
    g[p['key']] = value
    return g.variable_dict


def _gcs_post(c, v0, v1, r):
    d0, d1 = v0.self.variable_dict, v1.self.variable_dict
    return {'stored': 'k' in d1 and c.Eq(d1['k'], v0.value),
            'every_other_setting_untouched': all(k in d1 and d1[k] == d0[k] for k in d0 if k != 'k') and set(d1) == set(d0) | {'k'}}


GCS = Unit('C14', CA + 'globalcache:GlobalCache.__setitem__', lambda c: dict(_gc_params(c), value=c.real('new')), post=_gcs_post,
           cases=[{'present': True}, {'present': False}], bounds=[{}],
           native=lambda c, p: (None, dict(p, self=dict(p['self'], variable_dict=_gc_native(p, 'set', p['value'])))),
           gen=lambda rng: dict(present=rng.random() < 0.5, val=rng.uniform(-5, 5), new=rng.uniform(-5, 5)),
           frame_attrs=[('self', 'variable_dict')], short='GlobalCache.__setitem__', doc='stores the setting, touches no other')


# ------------------------------------------------------------------ OpacityCache / KTableCache . __getitem__
def _cache_params(cls, dictname):
    def params(c):
        held = c.choice('held')            # molecules already in the cache
        loadable = c.choice('loadable')    # molecules the configured path can supply
        mode = c.choice('mode')            # current interpolation mode in GlobalCache
        d = {m: _opac(c, m, 'old-' + m) for m in held}
        return dict(self=ObjSpec(cls, **{dictname: d, 'log': ObjSpec('Logger'), '_opacity_path': 'path',
                                         'g_global': _global(c, xsec_interpolation=mode, xsec_path='path', ktable_path='path'),
                                         'g_loadable': list(loadable)}), key=c.choice('key'))
    return params


def _h_load(dictname):
    def h(ex, st, args, kwargs, node):
        """assumed contract of load_opacity(molecule_filter=[k]) (discovery + format readers; bounded item below): for
        every requested molecule the path supplies and the cache does not hold yet, ONE object is constructed with the
        CURRENT settings of GlobalCache and stored under its molecule name; nothing else changes"""
        c = ex.c
        me = st.get(args[0])
        flt = st.get(kwargs['molecule_filter']).items
        cur = st.get(me.attrs[dictname]).items
        mode = st.get(st.get(me.attrs['g_global']).attrs['variable_dict']).items.get('xsec_interpolation')
        new = dict(cur)
        for m in flt:
            if m in st.get(me.attrs['g_loadable']).items and m not in cur:
                _ev(st, 'load', m, mode)
                new[m] = _opac(c, m, mode)
        st.put(me.attrs[dictname], PyDict(new))
        return None
    return h


def _gi_raises(dictname):
    def raises(c, v):
        return {'Exception': v.key not in getattr(v.self, dictname) and v.key not in v.self.g_loadable}
    return raises


def _gi_post(dictname):
    def post(c, v0, v1, r):
        """a held molecule: the held object, nothing loaded, cache unchanged.  Otherwise it is loaded ONCE from the
        configured path with the current settings, stored, and that stored object is returned"""
        d0, d1 = getattr(v0.self, dictname), getattr(v1.self, dictname)
        key = v0.key
        loads = [e for e in (c.trace or []) if e[0] == 'load']
        mode = v0.self.g_global.variable_dict['xsec_interpolation'] if c.mode != 'conc' else v0.self.g_global['variable_dict']['xsec_interpolation']
        served_mode = r['g_mode'] if isinstance(r, dict) else (r.g_mode if r is not None else None)
        served_name = r['moleculeName'] if isinstance(r, dict) else (r.moleculeName if r is not None else None)
        d = {'serves_that_molecule': served_name == key}
        if key in d0:
            d['held_object_served'] = served_mode == 'old-' + key
            d['nothing_loaded'] = loads == [] and list(d1) == list(d0)
        else:
            d['loaded_once_with_current_settings'] = loads == [('load', key, mode)] and served_mode == mode
            d['now_held'] = key in d1 and list(d1) == list(d0) + [key]
        return d
    return post


def _cache_native(modname, clsname, dictname):
    def native(c, p):
        import importlib
        mod = importlib.import_module(modname)
        K = getattr(mod, clsname)
        s = p['self']
        o = object.__new__(K)
        setattr(o, dictname, {m: _NS(moleculeName=m, g_mode=e['g_mode']) for m, e in s[dictname].items()})
        o.log = _NS(**{n: (lambda *a, **k: None) for n in ('debug', 'info', 'warning', 'error', 'critical')})
        o._opacity_path = 'path'
        trace = []
        mode = s['g_global']['variable_dict']['xsec_interpolation']

        def load_opacity(opacities=None, opacity_path=None, molecule_filter=None):
            for m in molecule_filter:
                if m in s['g_loadable'] and m not in getattr(o, dictname):
                    trace.append(('load', m, mode))
                    getattr(o, dictname)[m] = _NS(moleculeName=m, g_mode=mode)
        o.load_opacity = load_opacity
        fake_gc = lambda: {'xsec_path': 'path', 'ktable_path': 'path', 'xsec_interpolation': mode}
        saved = getattr(mod, 'GlobalCache')
        setattr(mod, 'GlobalCache', fake_gc)
        try:
            r = o[p['key']]
        finally:
            setattr(mod, 'GlobalCache', saved)
        after = dict(s, **{dictname: {m: dict(__obj__='Opacity', moleculeName=x.moleculeName, g_mode=x.g_mode) for m, x in getattr(o, dictname).items()}})
        return dict(__obj__='Opacity', moleculeName=r.moleculeName, g_mode=r.g_mode), dict(p, self=after, __trace__=trace)
    return native


_GI_CASES = [dict(held=h, loadable=l, key=k, mode=m) for h in ((), ('H2O',), ('H2O', 'CH4')) for l in ((), ('CH4',), ('H2O', 'CH4'))
             for k in ('H2O', 'CH4') for m in ('linear', 'exp')]

for _mod, _cls, _dn in (('opacitycache', 'OpacityCache', 'opacity_dict'), ('ktablecache', 'KTableCache', 'opacity_dict')):
    Unit(['C14', 'C20'] if _cls == 'KTableCache' else 'C14', CA + '%s:%s.__getitem__' % (_mod, _cls), _cache_params(_cls, _dn), raises=_gi_raises(_dn), post=_gi_post(_dn),
         abstract=dict(_NEW, **{'call:load_opacity': _h_load(_dn)}), cases=_GI_CASES, bounds=[{}],
         native=_cache_native('taurex.cache.' + _mod, _cls, _dn), gen=lambda rng: dict(rng.choice(_GI_CASES)),
         frame_attrs=[('self', _dn)], short='%s.__getitem__' % _cls,
         doc='a molecule is loaded at most once (with the settings current at that moment) and the same object is served '
             'thereafter; a molecule that cannot be found is an error (loader: assumed contract)')


# ------------------------------------------------------------------ add_opacity
def _ao_params(cls):
    def params(c):
        held = c.choice('held')
        flt = c.choice('filter')
        d = {m: _opac(c, m, 'old-' + m) for m in held}
        return dict(self=ObjSpec(cls, opacity_dict=d, log=ObjSpec('Logger')), opacity=_opac(c, c.choice('name'), 'new'),
                    molecule_filter=None if flt is None else list(flt))
    return params


def _ao_post(c, v0, v1, r):
    d0, d1 = v0.self.opacity_dict, v1.self.opacity_dict
    name = v0.opacity['moleculeName'] if isinstance(v0.opacity, dict) else v0.opacity.moleculeName
    flt = v0.molecule_filter
    mode_of = lambda x: x['g_mode'] if isinstance(x, dict) else x.g_mode
    wanted = name not in d0 and (flt is None or name in flt)
    d = {'held_objects_never_replaced': all(k in d1 and mode_of(d1[k]) == mode_of(d0[k]) for k in d0)}
    d['added_iff_new_and_requested'] = (list(d1) == list(d0) + [name] and mode_of(d1[name]) == 'new') if wanted else list(d1) == list(d0)
    return d


def _ao_native(modname, clsname):
    def native(c, p):
        import importlib
        K = getattr(importlib.import_module(modname), clsname)
        o = object.__new__(K)
        o.opacity_dict = {m: _NS(moleculeName=m, g_mode=e['g_mode']) for m, e in p['self']['opacity_dict'].items()}
        o.log = _NS(**{n: (lambda *a, **k: None) for n in ('debug', 'info', 'warning', 'error', 'critical')})
        o.add_opacity(_NS(moleculeName=p['opacity']['moleculeName'], g_mode='new'), molecule_filter=p['molecule_filter'])
        return None, dict(p, self=dict(p['self'], opacity_dict={m: dict(__obj__='Opacity', moleculeName=x.moleculeName, g_mode=x.g_mode)
                                                                for m, x in o.opacity_dict.items()}))
    return native


_AO_CASES = [dict(held=h, filter=f, name=n) for h in ((), ('H2O',)) for f in (None, ('H2O',), ('CH4',), ()) for n in ('H2O', 'CH4')]
for _mod, _cls in (('opacitycache', 'OpacityCache'), ('ktablecache', 'KTableCache')):
    Unit(['C14', 'C20'] if _cls == 'KTableCache' else 'C14', CA + '%s:%s.add_opacity' % (_mod, _cls), _ao_params(_cls), post=_ao_post, cases=_AO_CASES, bounds=[{}],
         native=_ao_native('taurex.cache.' + _mod, _cls), gen=lambda rng: dict(rng.choice(_AO_CASES)), frame_attrs=[('self', 'opacity_dict')],
         short='%s.add_opacity' % _cls, doc='an object is stored only for a molecule that is not held yet and is requested; held objects are never replaced')


# ------------------------------------------------------------------ mode changes empty every cache that serves opacities
def _si_params(c):
    hx, hk = c.choice('held_xsec'), c.choice('held_ktab')
    kt = ObjSpec('KTableCache', opacity_dict={m: _opac(c, m, 'old') for m in hk}, _opacity_path='path', log=ObjSpec('Logger'))
    gl = _global(c, xsec_interpolation='linear', ktable_path='path')
    kt.attrs['g_global'] = gl
    return dict(self=ObjSpec('OpacityCache', opacity_dict={m: _opac(c, m, 'old') for m in hx}, log=ObjSpec('Logger'), g_global=gl,
                             g_ktables=kt), **{c.choice('arg'): c.choice('value')})


def _si_post(setting):
    def post(c, v0, v1, r):
        """the setting is stored and NO cache that serves opacities still holds an object built under the old setting:
        every opacity served afterwards is constructed anew, under the new setting (see __getitem__)"""
        arg = c.fixed['arg'] if c.mode != 'conc' else c.values['arg']
        val = v0[arg]
        g = v1.self.g_global.variable_dict if c.mode != 'conc' else v1.self.g_global['variable_dict']
        kd = v1.self.g_ktables.opacity_dict if c.mode != 'conc' else v1.self.g_ktables['opacity_dict']
        d = {'setting_stored': g.get(setting) == val, 'cross_section_cache_emptied': len(v1.self.opacity_dict) == 0}
        if setting == 'xsec_interpolation':
            # k-table readers take the interpolation mode from the same setting when they are constructed; none of
            # them reads the memory-mode setting, so that one need not touch the k-table cache
            d['ktable_cache_emptied'] = len(kd) == 0
        return d
    return post


def _si_native(method, setting):
    def native(c, p):
        import taurex.cache.opacitycache as oc
        import taurex.cache.ktablecache as kc
        from taurex.cache.globalcache import GlobalCache
        s = p['self']
        g = object.__new__(GlobalCache)
        g.variable_dict = dict(s['g_global']['variable_dict'])
        kt = object.__new__(kc.KTableCache)
        kt.opacity_dict = dict(s['g_ktables']['opacity_dict'])
        kt._opacity_path = 'path'
        o = object.__new__(oc.OpacityCache)
        o.opacity_dict = dict(s['opacity_dict'])
        saved = (oc.GlobalCache, kc.GlobalCache, kc.KTableCache)
        K = kc.KTableCache
        oc.GlobalCache = kc.GlobalCache = lambda: g
        real_new = K.__new__
        K.__new__ = staticmethod(lambda cls, *a, **k: kt)
        try:
            getattr(o, method)(p[c.values['arg']])
        finally:
            oc.GlobalCache, kc.GlobalCache = saved[0], saved[1]
            K.__new__ = real_new
        return None, dict(p, self=dict(s, opacity_dict=dict(o.opacity_dict), g_global=dict(s['g_global'], variable_dict=dict(g.variable_dict)),
                                       g_ktables=dict(s['g_ktables'], opacity_dict=dict(kt.opacity_dict))))
    return native


def _si_cases(arg, values):
    return [dict(held_xsec=hx, held_ktab=hk, arg=arg, value=v) for hx in ((), ('H2O',)) for hk in ((), ('H2O', 'CH4')) for v in values]


for _meth, _arg, _setting, _vals in (('set_interpolation', 'interpolation_mode', 'xsec_interpolation', ('exp', 'linear')),
                                     ('set_memory_mode', 'in_memory', 'xsec_in_memory', (True, False))):
    Unit('C14', CA + 'opacitycache:OpacityCache.' + _meth, _si_params, post=_si_post(_setting), abstract=_NEW, cases=_si_cases(_arg, _vals),
         bounds=[{}], native=_si_native(_meth, _setting), gen=(lambda cs: lambda rng: dict(rng.choice(cs)))(_si_cases(_arg, _vals)),
         inline=['clear_cache', '__setitem__', '__getitem__'], frame_attrs=[('self', 'opacity_dict')], short='OpacityCache.' + _meth,
         doc='changing the %s setting takes effect for every opacity served afterwards, cross-sections and k-tables alike' % _setting)


# ------------------------------------------------------------------ CIACache.__getitem__
def _cia_params(c):
    held, loadable = c.choice('held'), c.choice('loadable')
    mk = (lambda m: dict(__obj__='CIA', pairName=m, g_mode='old-' + m)) if c.mode == 'conc' else (lambda m: AbsObj('CIA', m, {'pairName': m, 'g_mode': 'old-' + m}))
    return dict(self=ObjSpec('CIACache', cia_dict={m: mk(m) for m in held}, log=ObjSpec('Logger'), _cia_path='path', g_loadable=list(loadable)),
                key=c.choice('key'))


def _h_load_cia(ex, st, args, kwargs, node):
    """assumed contract of load_cia(pair_filter=[k]): every requested pair the path supplies and the cache does not
    hold is constructed once and stored under its pair name"""
    me = st.get(args[0])
    flt = st.get(kwargs['pair_filter']).items
    cur = st.get(me.attrs['cia_dict']).items
    new = dict(cur)
    for m in flt:
        if m in st.get(me.attrs['g_loadable']).items and m not in cur:
            _ev(st, 'load', m)
            new[m] = AbsObj('CIA', m, {'pairName': m, 'g_mode': 'fresh'})
    st.put(me.attrs['cia_dict'], PyDict(new))
    return None


def _cia_post(c, v0, v1, r):
    d0, d1 = v0.self.cia_dict, v1.self.cia_dict
    key = v0.key
    loads = [e for e in (c.trace or []) if e[0] == 'load']
    name = r['pairName'] if isinstance(r, dict) else r.pairName
    mode = r['g_mode'] if isinstance(r, dict) else r.g_mode
    d = {'serves_that_pair': name == key}
    if key in d0:
        d['held_object_served'] = mode == 'old-' + key
        d['nothing_loaded'] = loads == [] and list(d1) == list(d0)
    else:
        d['loaded_once'] = loads == [('load', key)] and mode == 'fresh'
        d['now_held'] = list(d1) == list(d0) + [key]
    return d


def _cia_native(c, p):
    from taurex.cache.ciaacache import CIACache
    s = p['self']
    o = object.__new__(CIACache)
    o.cia_dict = {m: _NS(pairName=m, g_mode=e['g_mode']) for m, e in s['cia_dict'].items()}
    o.log = _NS(**{n: (lambda *a, **k: None) for n in ('debug', 'info', 'warning', 'error', 'critical')})
    o._cia_path = 'path'
    trace = []

    def load_cia(cia_xsec=None, cia_path=None, pair_filter=None):
        for m in pair_filter:
            if m in s['g_loadable'] and m not in o.cia_dict:
                trace.append(('load', m))
                o.cia_dict[m] = _NS(pairName=m, g_mode='fresh')
    o.load_cia = load_cia
    r = o[p['key']]
    after = dict(s, cia_dict={m: dict(__obj__='CIA', pairName=x.pairName, g_mode=x.g_mode) for m, x in o.cia_dict.items()})
    return dict(__obj__='CIA', pairName=r.pairName, g_mode=r.g_mode), dict(p, self=after, __trace__=trace)


_CIA_CASES = [dict(held=h, loadable=l, key=k) for h in ((), ('H2-H2',), ('H2-H2', 'H2-He')) for l in ((), ('H2-He',), ('H2-H2', 'H2-He'))
              for k in ('H2-H2', 'H2-He')]
Unit('C14', CA + 'ciaacache:CIACache.__getitem__', _cia_params,
     raises=lambda c, v: {'Exception': v.key not in v.self.cia_dict and v.key not in v.self.g_loadable}, post=_cia_post,
     abstract={'call:load_cia': _h_load_cia}, cases=_CIA_CASES, bounds=[{}], native=_cia_native, gen=lambda rng: dict(rng.choice(_CIA_CASES)),
     frame_attrs=[('self', 'cia_dict')], short='CIACache.__getitem__',
     doc='a collision pair is loaded at most once and the same object is served thereafter; an unknown pair is an error')


def _served_again(c):
    """served thereafter: after any request for k that returned, k is held; a held key is served without loading --
    so two consecutive requests return the same object (composition of the two branches of __getitem__)"""
    held0, loadable, held1 = z3.Bools('held0 loadable held1')
    return [('second_request_is_a_hit', [z3.Or(held0, loadable), held1 == z3.Or(held0, loadable)], held1)]


Lemma('C14', 'same_object_served_thereafter', _served_again, doc='composition of the hit / miss branches of the cache contracts')


# ------------------------------------------------------------------ bounded: the same physical table in every container
def _write_formats(d, rng, table):
    """writes ONE physical cross-section table (SI: Pa, K, cm^-1, m^2), one k-table and one CIA table in every
    supported container under directory d; returns {label: path}"""
    import os
    import pickle
    import numpy as np
    import h5py
    T, P, wn, xs = table['T'], table['P'], table['wn'], table['xs']          # xs[P, T, wn] in m^2
    out = {}
    os.makedirs(os.path.join(d, 'xsec'), exist_ok=True)
    os.makedirs(os.path.join(d, 'ktab'), exist_ok=True)
    os.makedirs(os.path.join(d, 'cia'), exist_ok=True)
    name = table['file_mol']
    # pickle: bar, cm^2
    p = os.path.join(d, 'xsec', '%s.R10000.TauREx.pickle' % name)
    with open(p, 'wb') as f:
        pickle.dump({'name': name, 'wno': wn.copy(), 't': T.copy(), 'p': P / 1e5, 'xsecarr': xs * 1e4}, f)
    out['pickle'] = p
    # HDF5 with either declared pressure unit
    for unit, conv in (('bar', 1e-5), ('Pa', 1.0)):
        p = os.path.join(d, 'xsec', '%s_%s.h5' % (name, unit))
        with h5py.File(p, 'w') as f:
            f.create_dataset('bin_edges', data=wn)
            f.create_dataset('t', data=T)
            ds = f.create_dataset('p', data=P * conv)
            ds.attrs['units'] = unit
            f.create_dataset('xsecarr', data=xs * 1e4)
            f.create_dataset('mol_name', data=np.bytes_(table['mol']))
        out['hdf5_' + unit] = p
    # Exo-Transmit text: wavelength [m] lines, then one line per pressure [bar]: P xs(T_1) ... xs(T_n) [m^2]
    p = os.path.join(d, 'xsec', 'opac%s.dat' % table['mol'])
    order = list(range(len(wn)))[::-1]          # by increasing wavelength, as the real files are
    with open(p, 'w') as f:
        f.write(' '.join('%.17g' % t for t in T) + '\n')
        f.write(' '.join('%.17g' % (x / 1e5) for x in P) + '\n')
        for j in order:
            f.write('%.17g\n' % (10000 * 1e-6 / wn[j]))
            for i in range(len(P)):
                f.write('%.17g ' % (P[i] / 1e5) + ' '.join('%.17g' % xs[i, k, j] for k in range(len(T))) + '\n')
    out['exotransmit'] = p
    # k-tables
    kc, wts = table['kcoeff'], table['weights']            # kcoeff[P, T, wn, g] in cm^2 (as stored)
    p = os.path.join(d, 'ktab', '%s.R100.ktable.pickle' % name)
    with open(p, 'wb') as f:
        pickle.dump({'name': name, 'bin_centers': wn.copy(), 'ngauss': len(wts), 't': T.copy(), 'p': P / 1e5, 'kcoeff': kc.copy(),
                     'weights': wts.copy()}, f)
    out['kpickle'] = p
    p = os.path.join(d, 'ktab', '%s_R100.h5' % name)
    with h5py.File(p, 'w') as f:
        f.create_dataset('bin_centers', data=wn)
        f.create_dataset('ngauss', data=len(wts))
        f.create_dataset('t', data=T)
        ds = f.create_dataset('p', data=P / 1e5)
        ds.attrs['units'] = 'bar'
        f.create_dataset('kcoeff', data=kc)
        f.create_dataset('weights', data=wts)
    out['khdf5'] = p
    # CIA: pickle (m^5) and HITRAN text (cm^5, per temperature blocks, two wavenumber bands, blocks in shuffled order)
    cT, cw, cx = table['ciaT'], table['ciawn'], table['cia']             # cia[T, wn] in m^5
    p = os.path.join(d, 'cia', 'H2-He_2011.db')
    with open(p, 'wb') as f:
        pickle.dump({'wno': cw.copy(), 't': cT.copy(), 'xsecarr': cx.copy()}, f)
    out['ciapickle'] = p
    p = os.path.join(d, 'cia', 'H2-He_2011.cia')
    half = len(cw) // 2
    if table.get('interleave_bands') and len(cw) >= 4:
        # two wavenumber ranges that OVERLAP (as in H2-H2_2011.cia): alternate points belong to alternate ranges
        bands = [list(range(0, len(cw), 2)), list(range(1, len(cw), 2))]
    elif half >= 1 and len(cw) - half >= 1:
        bands = [list(range(0, half)), list(range(half, len(cw)))]
    else:
        bands = [list(range(len(cw)))]
    blocks = [(b, k) for b in bands for k in range(len(cT))]
    if table.get('shuffle_blocks'):
        rng.shuffle(blocks)
    with open(p, 'w') as f:
        for idx, k in blocks:
            f.write('%20s%10.3f%10.3f%7d%7.1f%10.3e\n' % ('H2-He', cw[idx[0]], cw[idx[-1]], len(idx), cT[k], cx[k, idx].max() * 1e10))
            for j in idx:
                f.write('%.17g %.17g\n' % (cw[j], cx[k, j] * 1e10))
    out['hitran'] = p
    return out


def _b_formats(seed, tier):
    import random
    import shutil
    import tempfile
    import os
    import numpy as np
    rng = random.Random(seed)
    N = 4 if tier == 'quick' else 120
    fails, samples, cases = [], [], 0
    here = os.path.dirname(os.path.dirname(os.path.abspath(__file__)))
    base = os.path.join(here, '.cache', 'c14')
    os.makedirs(base, exist_ok=True)
    from taurex.opacity.pickleopacity import PickleOpacity
    from taurex.opacity.hdf5opacity import HDF5Opacity
    from taurex.opacity.exotransmit import ExoTransmitOpacity
    from taurex.opacity.ktables.picklektable import PickleKTable
    from taurex.opacity.ktables.hdfktable import HDF5KTable
    from taurex.cia.picklecia import PickleCIA
    from taurex.cia.hitrancia import HitranCIA
    for it in range(N):
        d = tempfile.mkdtemp(prefix='t', dir=base)
        try:
            nT, nP, nW, nG = rng.randint(2, 4), rng.randint(2, 4), rng.randint(3, 7), rng.randint(1, 3)
            T = np.array(sorted(rng.uniform(100, 3000) for _ in range(nT)))
            P = np.array(sorted(10 ** rng.uniform(-2, 7) for _ in range(nP)))
            wn = np.array(sorted(rng.uniform(200, 20000) for _ in range(nW)))
            xs = 10 ** np.array([[[rng.uniform(-30, -18) for _ in range(nW)] for _ in range(nT)] for _ in range(nP)])
            mol = rng.choice(['H2O', 'CH4', 'CO2', 'TiO'])
            file_mol = rng.choice([mol, '1H2-16O' if mol == 'H2O' else mol, mol + '_extra'])
            wts = np.array([rng.uniform(0.1, 1) for _ in range(nG)])
            wts /= wts.sum()
            nCT, nCW = rng.randint(2, 4), rng.randint(2, 8)
            table = dict(T=T, P=P, wn=wn, xs=xs, mol=mol, file_mol=file_mol, weights=wts,
                         kcoeff=10 ** np.array([[[[rng.uniform(-26, -16) for _ in range(nG)] for _ in range(nW)] for _ in range(nT)] for _ in range(nP)]),
                         ciaT=np.array(sorted(round(rng.uniform(100, 3000), 1) for _ in range(nCT))),
                         ciawn=np.array(sorted(round(rng.uniform(20, 10000), 3) for _ in range(nCW))), shuffle_blocks=rng.random() < 0.6, interleave_bands=rng.random() < 0.5)
            table['cia'] = 10 ** np.array([[rng.uniform(-60, -50) for _ in range(nCW)] for _ in range(nCT)])
            if len(set(table['ciaT'])) < nCT or len(set(table['ciawn'])) < nCW:
                continue
            paths = _write_formats(d, rng, table)
            inp = dict(case=it, seed=seed, nT=nT, nP=nP, nW=nW, mol=mol, file_mol=file_mol, shuffled_hitran_blocks=table['shuffle_blocks'], overlapping_hitran_ranges=table['interleave_bands'])
            cases += 1
            readers = {'pickle': lambda: PickleOpacity(paths['pickle'], 'linear'), 'hdf5_bar': lambda: HDF5Opacity(paths['hdf5_bar'], 'linear', True),
                       'hdf5_Pa': lambda: HDF5Opacity(paths['hdf5_Pa'], 'linear', True), 'exotransmit': lambda: ExoTransmitOpacity(paths['exotransmit'], 'linear')}
            objs = {}
            for lab, mk in readers.items():
                try:
                    objs[lab] = mk()
                except Exception as e:
                    fails.append(dict(clause='format.%s.raises' % lab, inputs=inp, got=repr(e)[:200]))
            # probe points: nodes, interior, outside
            probes = [(T[0], P[0]), (T[-1], P[-1]), (T[0], P[-1]), (0.5 * (T[0] + T[1]), float(np.sqrt(P[0] * P[1]))), (T[0] * 0.5, P[0] * 0.1), (T[-1] * 1.5, P[-1] * 10)]
            ref = None
            for lab, o in objs.items():
                ok = np.allclose(o.wavenumberGrid, wn, rtol=1e-12) and np.allclose(o.temperatureGrid, T, rtol=1e-12) and \
                    np.allclose(o.pressureGrid, P, rtol=1e-9)
                if not ok:
                    fails.append(dict(clause='format.%s.axes' % lab, inputs=inp, got=[list(map(float, o.wavenumberGrid))[:3], list(map(float, o.pressureGrid))[:3]]))
                    continue
                if lab != 'exotransmit' and o.moleculeName != mol:
                    fails.append(dict(clause='format.%s.molecule_name' % lab, inputs=inp, got=str(o.moleculeName)))
                vals = np.array([o.opacity(t, p) for t, p in probes])
                node = np.array([xs[0, 0], xs[-1, -1], xs[-1, 0]])
                if not np.allclose(vals[:3], node, rtol=1e-9, atol=1e-9 * xs.max()):     # rounding in log10(P) mixes in a 1e-16 share of a neighbour
                    fails.append(dict(clause='format.%s.nodes_in_SI' % lab, inputs=inp, got=float(np.max(np.abs(vals[:3] / node - 1)))))
                if ref is None:
                    ref = (lab, vals)
                elif not np.allclose(vals, ref[1], rtol=1e-9, atol=1e-9 * xs.max()):
                    fails.append(dict(clause='format.%s.differs_from_%s' % (lab, ref[0]), inputs=inp, got=float(np.max(np.abs(vals / ref[1] - 1)))))
            # k-tables
            try:
                k1, k2 = PickleKTable(paths['kpickle'], 'linear'), HDF5KTable(paths['khdf5'], 'linear')
                for t, p in probes:
                    a, b = k1.opacity(t, p), k2.opacity(t, p)
                    if a.shape != (nW, nG) or not np.allclose(a, b, rtol=1e-9, atol=1e-13 * table['kcoeff'].max()):
                        fails.append(dict(clause='format.ktable.pickle_vs_hdf5', inputs=inp, got=[list(a.shape)]))
                        break
                a = k1.opacity(T[0], P[0])
                if not np.allclose(a, table['kcoeff'][0, 0] / 1e4, rtol=1e-9, atol=1e-13 * table['kcoeff'].max()) or not np.allclose(k1.weights, wts) or k2.moleculeName != mol:
                    fails.append(dict(clause='format.ktable.node_in_SI_or_name', inputs=inp, got=str(k2.moleculeName)))
            except Exception as e:
                fails.append(dict(clause='format.ktable.raises', inputs=inp, got=repr(e)[:200]))
            # CIA
            try:
                c1, c2 = PickleCIA(paths['ciapickle'], 'H2-He'), HitranCIA(paths['hitran'])
                cT = table['ciaT']
                tprobes = [cT[0], cT[-1], 0.5 * (cT[0] + cT[1]), cT[0] * 0.5, cT[-1] * 2]
                okc = np.allclose(c2.wavenumberGrid, table['ciawn'], rtol=1e-12) and np.allclose(c2.temperatureGrid, cT)
                for t in tprobes:
                    if not okc:
                        break
                    a, b = c1.cia(t), c2.cia(t)
                    if not np.allclose(a, b, rtol=1e-9, atol=1e-75):
                        okc = False
                if not okc:
                    fails.append(dict(clause='format.cia.hitran_vs_pickle', inputs=inp, got='tables differ'))
                if c1.pairName != 'H2-He' or c2.pairName != 'H2-He':
                    fails.append(dict(clause='format.cia.pair_name', inputs=inp, got=[c1.pairName, c2.pairName]))
            except Exception as e:
                fails.append(dict(clause='format.cia.raises', inputs=inp, got=repr(e)[:200]))
            if it < 2:
                samples.append(inp)
        finally:
            shutil.rmtree(d, ignore_errors=True)
    return {'cases': cases, 'failures': fails, 'samples': samples,
            'bound': '%d random physical tables (2..4 T, 2..4 P, 3..7 wavenumbers, 1..3 quadrature points; CIA 2..4 T x 2..8 wavenumbers in '
                     'two bands, temperature blocks in file order or shuffled), each written in every container and read back by the '
                     'real readers; probed at nodes, inside and outside the grid' % N}


Bounded('C14', 'formats_load_to_the_same_table', _b_formats,
        doc='pickle / HDF5 (bar, Pa) / Exo-Transmit cross-sections, pickle / HDF5 k-tables, pickle / HITRAN CIA: same SI values, '
            'axes and molecule name (readers are I/O: run-time contract only)')


def _b_cache_history(seed, tier):
    """real OpacityCache on real files: one object per molecule, and a change of interpolation mode reaches every
    opacity served afterwards (pickle, HDF5 and k-table readers alike)"""
    import random
    import shutil
    import tempfile
    import os
    import numpy as np
    rng = random.Random(seed)
    here = os.path.dirname(os.path.dirname(os.path.abspath(__file__)))
    base = os.path.join(here, '.cache', 'c14')
    os.makedirs(base, exist_ok=True)
    from taurex.cache import OpacityCache, GlobalCache
    from taurex.cache.ktablecache import KTableCache
    fails, cases = [], 0
    N = 2 if tier == 'quick' else 12
    for it in range(N):
        d = tempfile.mkdtemp(prefix='h', dir=base)
        saved = dict(GlobalCache().variable_dict)
        try:
            T, P, wn = np.array([300.0, 1000.0, 2000.0]), np.array([1e2, 1e4, 1e6]), np.array([500.0, 1000.0, 1500.0, 2500.0])
            xs = 10 ** np.array([[[rng.uniform(-26, -20) for _ in wn] for _ in T] for _ in P])
            table = dict(T=T, P=P, wn=wn, xs=xs, mol='H2O', file_mol='H2O', weights=np.array([0.5, 0.5]),
                         kcoeff=10 ** np.array([[[[rng.uniform(-24, -18) for _ in range(2)] for _ in wn] for _ in T] for _ in P]),
                         ciaT=np.array([200.0, 400.0]), ciawn=np.array([10.0, 20.0]), cia=np.ones((2, 2)) * 1e-55)
            paths = _write_formats(d, rng, table)
            kind = ['pickle', 'hdf5'][it % 2]
            os.remove(paths['exotransmit'])
            os.remove(paths['hdf5_Pa'])
            os.remove(paths['pickle'] if kind == 'hdf5' else paths['hdf5_bar'])
            os.remove(paths['khdf5'] if it % 4 < 2 else paths['kpickle'])
            inp = dict(case=it, xsec_format=kind)
            oc, kc = OpacityCache(), KTableCache()
            oc.clear_cache()
            kc.clear_cache()
            GlobalCache()['xsec_path'] = os.path.join(d, 'xsec')
            GlobalCache()['ktable_path'] = os.path.join(d, 'ktab')
            kc.clear_cache()
            first, second = rng.sample(['linear', 'exp'], 2)
            oc.set_interpolation(first)
            a, k = oc['H2O'], kc['H2O']
            cases += 1
            if oc['H2O'] is not a or kc['H2O'] is not k:
                fails.append(dict(clause='cache.same_object_served', inputs=inp))
            if a._interp_mode != first or k._interp_mode != first:
                fails.append(dict(clause='cache.mode_at_first_load', inputs=inp, got=[a._interp_mode, k._interp_mode]))
            oc.set_interpolation(second)
            b, k2 = oc['H2O'], kc['H2O']
            if b._interp_mode != second:
                fails.append(dict(clause='cache.mode_change_reaches_cross_sections', inputs=inp, got=b._interp_mode))
            if k2._interp_mode != second:
                fails.append(dict(clause='cache.mode_change_reaches_ktables', inputs=inp, got=k2._interp_mode))
        except Exception as e:
            fails.append(dict(clause='cache.raises', inputs=dict(case=it), got=repr(e)[:300]))
        finally:
            OpacityCache().clear_cache()
            KTableCache().clear_cache()
            GlobalCache().variable_dict.clear()
            GlobalCache().variable_dict.update(saved)
            shutil.rmtree(d, ignore_errors=True)
    return {'cases': cases, 'failures': fails, 'samples': [dict(sequence='set_interpolation(a); cache[mol]; set_interpolation(b); cache[mol]')],
            'bound': '%d histories on the real caches with files on disk (pickle / HDF5 cross-sections, pickle / HDF5 k-tables)' % N}


Bounded('C14', 'cache_histories_on_real_files', _b_cache_history,
        doc='the loader contract assumed by the deductive cache units, exercised end to end (discovery, constructors, settings)')


# ------------------------------------------------------------------ PickleOpacity._load_pickle_file: which entry of the file becomes which grid, in which unit
def _pk_params(c):
    W, NT, NP = c.int('W'), c.int('NT'), c.int('NP')
    return dict(self=ObjSpec('PickleOpacity', _spec_dict=None, _wavenumber_grid=None, _temperature_grid=None, _pressure_grid=None, _xsec_grid=None,
                             _resolution=None, _molecule_name=None, _min_pressure=None, _max_pressure=None, _min_temperature=None, _max_temperature=None),
                filename='xsec/H2O_pokazatel.R15000.TauREx.pickle',
                _file=dict(wno=c.array('wno', (W,)), t=c.array('t', (NT,)), p=c.array('p', (NP,)), xsecarr=c.array('xs', (NP, NT, W))))


def _h_open(ex, st, args, kwargs, node):
    st.trace.append(('ev', ('open', args[0], args[1] if len(args) > 1 else kwargs.get('mode'))))
    return AbsObj('File', args[0], {})


def _h_pickle_load(ex, st, args, kwargs, node):
    """pickle.load(f): the dictionary stored in the file (the ghost parameter _file)"""
    st.trace.append(('ev', ('pickle.load', args[0].ident if isinstance(args[0], AbsObj) else args[0])))
    return ex.root_env['_file']


def _pk_post(c, v0, v1, r):
    f = v0._file
    s = v1.self
    W, NT, NP = c.Len(f['wno']), c.Len(f['t']), c.Len(f['p'])
    ev = [e for e in (c.trace or []) if e[0] in ('open', 'pickle.load')]
    d = {'reads_the_named_file_once': [tuple(e) for e in ev] == [('open', v0.filename, 'rb'), ('pickle.load', v0.filename)] if c.mode != 'conc' else True,
         'wavenumbers_are_the_wno_entry': c.And(c.Len(s._wavenumber_grid) == W, c.Forall(0, W, lambda i: s._wavenumber_grid[i] == f['wno'][i])),
         'temperatures_are_the_t_entry': c.And(c.Len(s._temperature_grid) == NT, c.Forall(0, NT, lambda i: s._temperature_grid[i] == f['t'][i])),
         'pressures_are_the_p_entry_converted_from_bar_to_pascal': c.And(c.Len(s._pressure_grid) == NP,
                                                                           c.Forall(0, NP, lambda i: c.Eq(s._pressure_grid[i], f['p'][i] * 1e5))),
         'molecule_named_after_the_file': s._molecule_name == 'H2O'}
    if c.mode == 'sym':
        heap = c.raw['state'].heap
        d['cross_sections_are_the_xsecarr_entry'] = heap[v1.self.ref('_xsec_grid').id] is heap[heap[c.raw['env']['_file'].id].items['xsecarr'].id]
        d['ranges_are_the_extremes_of_the_grids'] = c.And(
            c.Forall(0, NP, lambda i: c.And(s._min_pressure <= s._pressure_grid[i], s._pressure_grid[i] <= s._max_pressure)),
            c.Forall(0, NT, lambda i: c.And(s._min_temperature <= s._temperature_grid[i], s._temperature_grid[i] <= s._max_temperature)))
    return d


def _pk_native(c, p):
    import os
    import pickle
    import tempfile
    import numpy as np
    from taurex.opacity.pickleopacity import PickleOpacity
    f = p['_file']
    here = os.path.dirname(os.path.dirname(os.path.abspath(__file__)))
    base = os.path.join(here, '.cache', 'c14')
    os.makedirs(os.path.join(base, 'xsec'), exist_ok=True)
    path = os.path.join(base, p['filename'])
    with open(path, 'wb') as fh:
        pickle.dump({k: np.array(v, dtype=float) for k, v in f.items()}, fh)
    try:
        o = PickleOpacity.__new__(PickleOpacity)
        for nm in ('debug', 'info', 'warning', 'error', 'critical'):
            setattr(o, nm, lambda *a, **k: None)
        o._load_pickle_file(path)
    finally:
        os.remove(path)
    s = dict(p['self'], _wavenumber_grid=np.asarray(o._wavenumber_grid), _temperature_grid=np.asarray(o._temperature_grid),
             _pressure_grid=np.asarray(o._pressure_grid), _xsec_grid=np.asarray(o._xsec_grid), _molecule_name=o._molecule_name,
             _min_pressure=float(o._min_pressure), _max_pressure=float(o._max_pressure), _min_temperature=float(o._min_temperature),
             _max_temperature=float(o._max_temperature))
    return None, dict(p, self=s)


def _pk_gen(rng):
    W, NT, NP = rng.randint(2, 5), rng.randint(1, 3), rng.randint(1, 3)
    return dict(W=W, NT=NT, NP=NP, wno=sorted(rng.uniform(100, 9000) for _ in range(W)), t=sorted(rng.uniform(100, 3000) for _ in range(NT)),
                p=sorted(10 ** rng.uniform(-6, 2) for _ in range(NP)), xs=[[[10 ** rng.uniform(-30, -18) for _ in range(W)] for _ in range(NT)] for _ in range(NP)])


PKL = Unit('C14', 'taurex.opacity.pickleopacity:PickleOpacity._load_pickle_file', _pk_params,
           pre=lambda c, v: {'sizes': c.And(c.Len(v._file['wno']) >= 2, c.Len(v._file['t']) >= 1, c.Len(v._file['p']) >= 1)}, post=_pk_post,
           abstract={'call:open': _h_open, 'call:load': _h_pickle_load, 'call:allocate_as_shared': lambda ex, st, args, kwargs, node: args[0],
                     'call:sanitize_molecule_string': lambda ex, st, args, kwargs, node: args[0], 'call:Path': lambda ex, st, args, kwargs, node: AbsObj('Path', args[0], {'stem': args[0].split('/')[-1].rsplit('.', 1)[0]})},
           frame_attrs=[('self', a) for a in ('_spec_dict', '_wavenumber_grid', '_temperature_grid', '_pressure_grid', '_xsec_grid', '_resolution',
                                               '_molecule_name', '_min_pressure', '_max_pressure', '_min_temperature', '_max_temperature')],
           inline=['clean_molecule_name', 'moleculeName'], native=_pk_native, gen=_pk_gen, bounds=[dict(W=2, NT=1, NP=1)], safety=('index',),
           short='PickleOpacity._load_pickle_file',
           doc='the pickle reader: wavenumbers, temperatures, cross-sections are the entries wno / t / xsecarr of the stored dictionary, pressures '
               'the entry p converted from bar to pascal, ranges the extremes of the grids, the molecule named after the file (open / '
               'pickle.load / allocate_as_shared / pathlib abstract)')


# ------------------------------------------------------------------ PickleKTable._load_pickle_file: the k-table pickle reader
_KT_ATTRS = ('_spec_dict', '_wavenumber_grid', '_ngauss', '_temperature_grid', '_pressure_grid', '_xsec_grid', '_weights', '_molecule_name',
             '_min_pressure', '_max_pressure', '_min_temperature', '_max_temperature')


def _pkk_params(c):
    W, NT, NP, G = c.int('W'), c.int('NT'), c.int('NP'), c.int('G')
    return dict(self=ObjSpec('PickleKTable', **{a: None for a in _KT_ATTRS}), filename='ktables/H2O_R100.pickle',
                _file=dict(bin_centers=c.array('wno', (W,)), ngauss=G, t=c.array('t', (NT,)), p=c.array('p', (NP,)),
                           kcoeff=c.array('ks', (NP, NT, W, G)), weights=c.array('wt', (G,)), name='H2O_R100'))


def _same_cell(c, v1, attr, key):
    heap = c.raw['state'].heap
    return heap[v1.self.ref(attr).id] is heap[heap[c.raw['env']['_file'].id].items[key].id]


def _pkk_post(c, v0, v1, r):
    f = v0._file
    s = v1.self
    NT, NP = c.Len(f['t']), c.Len(f['p'])
    ev = [tuple(e) for e in (c.trace or []) if e[0] in ('open', 'pickle.load')]
    d = {'reads_the_named_file_once': ev == [('open', v0.filename, 'rb'), ('pickle.load', v0.filename)] if c.mode != 'conc' else True,
         'pressures_are_the_p_entry_converted_from_bar_to_pascal': c.And(c.Len(s._pressure_grid) == NP,
                                                                           c.Forall(0, NP, lambda i: c.Eq(s._pressure_grid[i], f['p'][i] * 1e5))),
         'molecule_is_the_name_entry_up_to_the_first_underscore': s._molecule_name == 'H2O'}
    if c.mode == 'sym':
        d['wavenumbers_are_the_bin_centers_entry'] = _same_cell(c, v1, '_wavenumber_grid', 'bin_centers')
        d['temperatures_are_the_t_entry'] = _same_cell(c, v1, '_temperature_grid', 't')
        d['coefficients_are_the_kcoeff_entry'] = _same_cell(c, v1, '_xsec_grid', 'kcoeff')
        d['weights_are_the_weights_entry'] = _same_cell(c, v1, '_weights', 'weights')
        d['quadrature_size_is_the_ngauss_entry'] = c.Eq(s._ngauss, f['ngauss'])
        d['ranges_are_the_extremes_of_the_grids'] = c.And(
            c.Forall(0, NP, lambda i: c.And(s._min_pressure <= s._pressure_grid[i], s._pressure_grid[i] <= s._max_pressure)),
            c.Forall(0, NT, lambda i: c.And(s._min_temperature <= f['t'][i], f['t'][i] <= s._max_temperature)))
    else:
        W, G = c.Len(f['bin_centers']), c.Len(f['weights'])
        d['wavenumbers_are_the_bin_centers_entry'] = c.And(c.Len(s._wavenumber_grid) == W, c.Forall(0, W, lambda i: s._wavenumber_grid[i] == f['bin_centers'][i]))
        d['temperatures_are_the_t_entry'] = c.And(c.Len(s._temperature_grid) == NT, c.Forall(0, NT, lambda i: s._temperature_grid[i] == f['t'][i]))
        d['weights_are_the_weights_entry'] = c.And(c.Len(s._weights) == G, c.Forall(0, G, lambda i: s._weights[i] == f['weights'][i]))
        d['quadrature_size_is_the_ngauss_entry'] = s._ngauss == f['ngauss']
        d['coefficients_are_the_kcoeff_entry'] = s._xsec_equal
    return d


def _pkk_native(c, p):
    import os
    import pickle
    import numpy as np
    from taurex.opacity.ktables.picklektable import PickleKTable
    f = p['_file']
    here = os.path.dirname(os.path.dirname(os.path.abspath(__file__)))
    base = os.path.join(here, '.cache', 'c14')
    os.makedirs(os.path.join(base, 'ktables'), exist_ok=True)
    path = os.path.join(base, p['filename'])
    stored = {k: (np.array(v, dtype=float) if isinstance(v, list) else v) for k, v in f.items()}
    with open(path, 'wb') as fh:
        pickle.dump(stored, fh)
    try:
        o = PickleKTable.__new__(PickleKTable)
        for nm in ('debug', 'info', 'warning', 'error', 'critical'):
            setattr(o, nm, lambda *a, **k: None)
        o._load_pickle_file(path)
    finally:
        os.remove(path)
    s = dict(p['self'], _wavenumber_grid=np.asarray(o._wavenumber_grid), _temperature_grid=np.asarray(o._temperature_grid),
             _pressure_grid=np.asarray(o._pressure_grid), _weights=np.asarray(o._weights), _ngauss=int(o._ngauss), _molecule_name=o._molecule_name,
             _xsec_equal=bool(np.array_equal(np.asarray(o._xsec_grid), stored['kcoeff'])))
    return None, dict(p, self=s)


def _pkk_gen(rng):
    W, NT, NP, G = rng.randint(2, 4), rng.randint(1, 3), rng.randint(1, 3), rng.randint(1, 3)
    return dict(W=W, NT=NT, NP=NP, G=G, wno=sorted(rng.uniform(100, 9000) for _ in range(W)), t=sorted(rng.uniform(100, 3000) for _ in range(NT)),
                p=sorted(10 ** rng.uniform(-6, 2) for _ in range(NP)), wt=[rng.uniform(0.1, 1) for _ in range(G)],
                ks=[[[[10 ** rng.uniform(-30, -18) for _ in range(G)] for _ in range(W)] for _ in range(NT)] for _ in range(NP)])


PKK = Unit(['C14', 'C20'], 'taurex.opacity.ktables.picklektable:PickleKTable._load_pickle_file', _pkk_params,
           pre=lambda c, v: {'sizes': c.And(c.Len(v._file['bin_centers']) >= 1, c.Len(v._file['t']) >= 1, c.Len(v._file['p']) >= 1, c.Len(v._file['weights']) >= 1)},
           post=_pkk_post, abstract={'call:open': _h_open, 'call:load': _h_pickle_load},
           frame_attrs=[('self', a) for a in _KT_ATTRS], inline=['clean_molecule_name', 'moleculeName'], native=_pkk_native, gen=_pkk_gen,
           bounds=[dict(W=2, NT=1, NP=1, G=2)], safety=('index',), short='PickleKTable._load_pickle_file',
           doc='the k-table pickle reader: bin centres, temperatures, k-coefficients, weights and quadrature size are the entries bin_centers / t / '
               'kcoeff / weights / ngauss of the stored dictionary themselves, pressures the entry p converted from bar to pascal, ranges the '
               'extremes of the grids, the molecule the name entry up to its first underscore (open / pickle.load abstract)')


# ------------------------------------------------------------------ PickleCIA._load_pickle_file
def _pkc_params(c):
    W, NT = c.int('W'), c.int('NT')
    return dict(self=ObjSpec('PickleCIA', _spec_dict=None, _wavenumber_grid=None, _temperature_grid=None, _xsec_grid=None),
                filename='cia/H2-He.db', _file=dict(wno=c.array('wno', (W,)), t=c.array('t', (NT,)), xsecarr=c.array('xs', (NT, W))))


def _pkc_post(c, v0, v1, r):
    f, s = v0._file, v1.self
    ev = [tuple(e) for e in (c.trace or []) if e[0] in ('open', 'pickle.load')]
    d = {'reads_the_named_file_once': ev == [('open', v0.filename, 'rb'), ('pickle.load', v0.filename)] if c.mode != 'conc' else True}
    if c.mode == 'sym':
        d['wavenumbers_are_the_wno_entry'] = _same_cell(c, v1, '_wavenumber_grid', 'wno')
        d['temperatures_are_the_t_entry'] = _same_cell(c, v1, '_temperature_grid', 't')
        d['cross_sections_are_the_xsecarr_entry'] = _same_cell(c, v1, '_xsec_grid', 'xsecarr')
    else:
        W, NT = c.Len(f['wno']), c.Len(f['t'])
        d['wavenumbers_are_the_wno_entry'] = c.And(c.Len(s._wavenumber_grid) == W, c.Forall(0, W, lambda i: s._wavenumber_grid[i] == f['wno'][i]))
        d['temperatures_are_the_t_entry'] = c.And(c.Len(s._temperature_grid) == NT, c.Forall(0, NT, lambda i: s._temperature_grid[i] == f['t'][i]))
        d['cross_sections_are_the_xsecarr_entry'] = s._xsec_equal
    return d


def _pkc_native(c, p):
    import os
    import pickle
    import numpy as np
    from taurex.cia.picklecia import PickleCIA
    f = p['_file']
    here = os.path.dirname(os.path.dirname(os.path.abspath(__file__)))
    base = os.path.join(here, '.cache', 'c14')
    os.makedirs(os.path.join(base, 'cia'), exist_ok=True)
    path = os.path.join(base, p['filename'])
    stored = {k: np.array(v, dtype=float) for k, v in f.items()}
    with open(path, 'wb') as fh:
        pickle.dump(stored, fh)
    try:
        o = PickleCIA.__new__(PickleCIA)
        for nm in ('debug', 'info', 'warning', 'error', 'critical'):
            setattr(o, nm, lambda *a, **k: None)
        o._load_pickle_file(path)
    finally:
        os.remove(path)
    s = dict(p['self'], _wavenumber_grid=np.asarray(o._wavenumber_grid), _temperature_grid=np.asarray(o._temperature_grid),
             _xsec_equal=bool(np.array_equal(np.asarray(o._xsec_grid), stored['xsecarr'])))
    return None, dict(p, self=s)


PKC = Unit('C14', 'taurex.cia.picklecia:PickleCIA._load_pickle_file', _pkc_params, post=_pkc_post,
           abstract={'call:open': _h_open, 'call:load': _h_pickle_load},
           frame_attrs=[('self', a) for a in ('_spec_dict', '_wavenumber_grid', '_temperature_grid', '_xsec_grid')], native=_pkc_native,
           gen=lambda rng: (lambda W, NT: dict(W=W, NT=NT, wno=sorted(rng.uniform(10, 9000) for _ in range(W)), t=sorted(rng.uniform(50, 3000) for _ in range(NT)),
                                               xs=[[10 ** rng.uniform(-50, -40) for _ in range(W)] for _ in range(NT)]))(rng.randint(1, 4), rng.randint(1, 3)),
           bounds=[dict(W=2, NT=1)], short='PickleCIA._load_pickle_file',
           doc='the CIA pickle reader: wavenumbers, temperatures and coefficients are the entries wno / t / xsecarr of the stored dictionary '
               'themselves, no conversion (open / pickle.load abstract)')


# ------------------------------------------------------------------ HDF5Opacity._load_hdf_file: the HDF5 reader with its declared pressure unit
_H5_ATTRS = ('_spec_dict', '_wavenumber_grid', '_temperature_grid', '_pressure_grid', '_xsec_grid', '_resolution', '_molecule_name', '_min_pressure',
             '_max_pressure', '_min_temperature', '_max_temperature', '_molecular_citation')


def _h5_params(c):
    W, NT, NP = c.int('W'), c.int('NT'), c.int('NP')
    fx = c.fixed if c.mode != 'conc' else c.values
    return dict(self=ObjSpec('HDF5Opacity', in_memory=fx['in_memory'], **{a: None for a in _H5_ATTRS}), filename='xsec/H2O.h5',
                _file=dict(bin_edges=c.array('wno', (W,)), t=c.array('t', (NT,)), p=c.array('p', (NP,)), xsecarr=c.array('xs', (NP, NT, W))),
                _conv=c.real('conv'))


def _h_h5file(ex, st, args, kwargs, node):
    _ev(st, 'h5py.File', args[0], args[1] if len(args) > 1 else kwargs.get('mode', 'r'))
    return AbsObj('H5File', args[0], {})


def _h5_get(extra):
    def h(ex, st, o, args, kwargs, node):
        """file[key]: a dataset of the file, KeyError when the file has none of that name"""
        key = args[0]
        fx = ex.c.fixed
        names = list(st.get(ex.root_env['_file']).items) + list(extra) + (['DOI'] if fx.get('doi') else [])
        if key not in names:
            raise _Raise(st, ExcV('KeyError', getattr(node, 'lineno', 0)))
        attrs = {}
        if key == 'p':
            attrs['attrs'] = st.alloc(ex.c, PyDict({'units': fx['unit']}))
        return AbsObj('H5Dataset', key, attrs)
    return h


_h_h5_get = _h5_get(['mol_name'])


def _h_h5_read(ex, st, o, args, kwargs, node):
    """dataset[:] / dataset[...] / dataset[()]: the stored values"""
    fx = ex.c.fixed
    _ev(st, 'read', o.ident)
    if o.ident == 'mol_name':
        kind = fx['name_kind']
        if kind == 'str':
            return 'H2O'
        if kind == 'bytes':
            return AbsObj('bytes', 'H2O', {})
        return AbsObj('ndarray', 'names', {})
    if o.ident == 'DOI':
        return AbsObj('ndarray', 'dois', {})
    return st.get(ex.root_env['_file']).items[o.ident]


def _h_nd_get(ex, st, o, args, kwargs, node):
    if o.ident == 'names':
        return AbsObj('bytes', 'H2O', {})
    return AbsObj('bytes', '10.1000/doi', {})


def _h_unit(ex, st, args, kwargs, node):
    """astropy (observed, 8.0.1): Unit(name) raises ValueError for a name it only knows in the CDS spelling (atm, mmHg);
    Unit(name, format='cds') accepts it"""
    fx = ex.c.fixed
    if fx['unit'] == 'cds-only' and kwargs.get('format') != 'cds':
        raise _Raise(st, ExcV('ValueError', getattr(node, 'lineno', 0)))
    return AbsObj('Unit', args[0], {})


def _h_unit_to(ex, st, o, args, kwargs, node):
    _ev(st, 'unit.to', o.ident)
    return ex.root_env['_conv']


def _h5_post(c, v0, v1, r):
    f, s = v0._file, v1.self
    fx = c.fixed if c.mode != 'conc' else c.values
    W, NT, NP = c.Len(f['bin_edges']), c.Len(f['t']), c.Len(f['p'])
    d = {'wavenumbers_are_the_bin_edges_entry': c.And(c.Len(s._wavenumber_grid) == W, c.Forall(0, W, lambda i: s._wavenumber_grid[i] == f['bin_edges'][i])),
         'temperatures_are_the_t_entry': c.And(c.Len(s._temperature_grid) == NT, c.Forall(0, NT, lambda i: s._temperature_grid[i] == f['t'][i])),
         'pressures_are_the_p_entry_converted_from_its_declared_unit_to_pascal':
             c.And(c.Len(s._pressure_grid) == NP, c.Forall(0, NP, lambda i: c.Eq(s._pressure_grid[i], f['p'][i] * (v1._conv if c.mode == 'conc' else v0._conv)))),
         'molecule_is_the_mol_name_entry_as_text': s._molecule_name == 'H2O'}
    if c.mode == 'sym':
        heap = c.raw['state'].heap
        ev = [tuple(e) for e in (c.trace or []) if e[0] in ('h5py.File', 'unit.to')]
        d['opens_the_named_file_for_reading_and_converts_the_declared_unit'] = ev == [('h5py.File', v0.filename, 'r'), ('unit.to', fx['unit'])]
        closes = [tuple(e) for e in (c.trace or []) if e[0] == 'close']
        d['file_closed_exactly_when_everything_was_read_into_memory'] = closes == ([('close', v0.filename)] if fx['in_memory'] else [])
        xs = c.raw['state'].heap[c.raw['env']['self'].id].attrs['_xsec_grid']
        if fx['in_memory']:
            d['cross_sections_are_the_xsecarr_entry'] = heap[xs.id] is heap[heap[c.raw['env']['_file'].id].items['xsecarr'].id]
        else:
            d['cross_sections_are_the_xsecarr_dataset_of_that_file'] = isinstance(xs, AbsObj) and (xs.cls, xs.ident) == ('H5Dataset', 'xsecarr')
        d['ranges_are_the_extremes_of_the_grids'] = c.And(
            c.Forall(0, NP, lambda i: c.And(s._min_pressure <= s._pressure_grid[i], s._pressure_grid[i] <= s._max_pressure)),
            c.Forall(0, NT, lambda i: c.And(s._min_temperature <= f['t'][i], f['t'][i] <= s._max_temperature)))
    else:
        d['cross_sections_are_the_xsecarr_entry'] = s._xsec_equal
    return d


_H5_UNITS = {'bar': 1e5, 'Pa': 1.0, 'atm': 101325.0, 'mbar': 100.0}


def _h5_native(c, p):
    import os
    import h5py
    import numpy as np
    from taurex.opacity.hdf5opacity import HDF5Opacity
    fx = c.values
    f = p['_file']
    unit = fx['unit'] if fx['unit'] != 'cds-only' else 'atm'
    here = os.path.dirname(os.path.dirname(os.path.abspath(__file__)))
    base = os.path.join(here, '.cache', 'c14')
    os.makedirs(os.path.join(base, 'xsec'), exist_ok=True)
    path = os.path.join(base, 'xsec', 'H2O_%d.h5' % os.getpid())
    with h5py.File(path, 'w') as fh:
        for k, v in f.items():
            ds = fh.create_dataset(k, data=np.array(v, dtype=float))
            if k == 'p':
                ds.attrs['units'] = unit
        kind = fx['name_kind']
        if kind == 'array':
            fh.create_dataset('mol_name', data=np.array([b'H2O']))
        elif kind == 'bytes':
            fh.create_dataset('mol_name', data=np.bytes_(b'H2O'))
        else:
            fh.create_dataset('mol_name', data='H2O')
        if fx.get('doi'):
            fh.create_dataset('DOI', data=np.array([b'10.1000/doi']))
    try:
        o = HDF5Opacity.__new__(HDF5Opacity)
        for nm in ('debug', 'info', 'warning', 'error', 'critical'):
            setattr(o, nm, lambda *a, **k: None)
        o.in_memory = fx['in_memory']
        o._load_hdf_file(path)
        xs = np.asarray(o._xsec_grid[...])
        if not fx['in_memory']:
            o._spec_dict.close()
    finally:
        os.remove(path)
    import astropy.units as u
    conv = float(u.Unit(unit).to(u.Pa)) if fx['unit'] != 'cds-only' else float(u.Unit(unit, format='cds').to(u.Pa))
    s = dict(p['self'], _wavenumber_grid=np.asarray(o._wavenumber_grid), _temperature_grid=np.asarray(o._temperature_grid),
             _pressure_grid=np.asarray(o._pressure_grid), _molecule_name=o._molecule_name,
             _xsec_equal=bool(np.array_equal(xs, np.array(f['xsecarr'], dtype=float))))
    return None, dict(p, self=s, _conv=conv)


_H5_CASES = [dict(in_memory=m, unit=u_, name_kind=k, doi=d) for m in (True, False) for u_ in ('bar', 'Pa', 'cds-only') for k in ('str', 'bytes', 'array')
             for d in (False, True)]


def _h5_gen(rng):
    W, NT, NP = rng.randint(2, 4), rng.randint(1, 3), rng.randint(1, 3)
    return dict(rng.choice(_H5_CASES), W=W, NT=NT, NP=NP, conv=1.0, wno=sorted(rng.uniform(100, 9000) for _ in range(W)),
                t=sorted(rng.uniform(100, 3000) for _ in range(NT)), p=sorted(10 ** rng.uniform(-6, 2) for _ in range(NP)),
                xs=[[[10 ** rng.uniform(-30, -18) for _ in range(W)] for _ in range(NT)] for _ in range(NP)])


H5O = Unit('C14', 'taurex.opacity.hdf5opacity:HDF5Opacity._load_hdf_file', _h5_params,
           pre=lambda c, v: {'sizes': c.And(c.Len(v._file['bin_edges']) >= 2, c.Len(v._file['t']) >= 1, c.Len(v._file['p']) >= 1)}, post=_h5_post,
           cases=_H5_CASES,
           abstract={'call:File': _h_h5file, 'H5File.__getitem__': _h_h5_get, 'H5Dataset.__getitem__': _h_h5_read, 'ndarray.__getitem__': _h_nd_get,
                     'call:Unit': _h_unit, 'Unit.to': _h_unit_to, 'H5File.close': lambda ex, st, o, args, kwargs, node: _ev(st, 'close', o.ident), 'bytes.decode': lambda ex, st, o, args, kwargs, node: o.ident,
                     'call:allocate_as_shared': lambda ex, st, args, kwargs, node: args[0],
                     'new:GlobalCache': lambda ex, st, args, kwargs, node: AbsObj('GlobalCache', 'g', {}),
                     'GlobalCache.__getitem__': lambda ex, st, o, args, kwargs, node: True,
                     'call:doi_to_bibtex': lambda ex, st, args, kwargs, node: None},
           frame_attrs=[('self', a) for a in _H5_ATTRS], inline=['ensure_string_utf8'], native=_h5_native, gen=_h5_gen,
           bounds=[dict(W=2, NT=1, NP=1)], safety=('index',), short='HDF5Opacity._load_hdf_file',
           doc='the HDF5 reader: wavenumbers / temperatures / cross-sections are the datasets bin_edges / t / xsecarr of the file (the dataset '
               'itself when not in memory), pressures the dataset p multiplied by the conversion of ITS DECLARED unit to pascal (astropy: '
               'plain or CDS spelling), ranges the extremes of the grids, the molecule the mol_name entry as text whether stored as str, '
               'bytes or a one-element byte array, with or without a DOI entry (h5py and astropy.units abstract)')


# ------------------------------------------------------------------ HDF5KTable._load_pickle_file: the HDF5 k-table reader
_HK_ATTRS = ('_spec_dict', '_wavenumber_grid', '_ngauss', '_temperature_grid', '_pressure_grid', '_xsec_grid', '_weights', '_min_pressure',
             '_max_pressure', '_min_temperature', '_max_temperature', '_molecule_name')


def _hk_params(c):
    W, NT, NP, G = c.int('W'), c.int('NT'), c.int('NP'), c.int('G')
    fx = c.fixed if c.mode != 'conc' else c.values
    return dict(self=ObjSpec('HDF5KTable', in_memory=fx['in_memory'], **dict({a: None for a in _HK_ATTRS}, _molecule_name='H2O_R100')), filename='ktables/H2O_R100.h5',
                _file=dict(bin_centers=c.array('wno', (W,)), ngauss=G, t=c.array('t', (NT,)), p=c.array('p', (NP,)),
                           kcoeff=c.array('ks', (NP, NT, W, G)), weights=c.array('wt', (G,))),
                _conv=c.real('conv'))


def _hk_post(c, v0, v1, r):
    f, s = v0._file, v1.self
    fx = c.fixed if c.mode != 'conc' else c.values
    W, NT, NP, G = c.Len(f['bin_centers']), c.Len(f['t']), c.Len(f['p']), c.Len(f['weights'])
    conv = v1._conv if c.mode == 'conc' else v0._conv
    d = {'wavenumbers_are_the_bin_centers_entry': c.And(c.Len(s._wavenumber_grid) == W, c.Forall(0, W, lambda i: s._wavenumber_grid[i] == f['bin_centers'][i])),
         'temperatures_are_the_t_entry': c.And(c.Len(s._temperature_grid) == NT, c.Forall(0, NT, lambda i: s._temperature_grid[i] == f['t'][i])),
         'weights_are_the_weights_entry': c.And(c.Len(s._weights) == G, c.Forall(0, G, lambda i: s._weights[i] == f['weights'][i])),
         'pressures_are_the_p_entry_converted_from_its_declared_unit_to_pascal':
             c.And(c.Len(s._pressure_grid) == NP, c.Forall(0, NP, lambda i: c.Eq(s._pressure_grid[i], f['p'][i] * conv))),
         'quadrature_size_is_the_ngauss_entry': c.Eq(s._ngauss, f['ngauss']) if c.mode != 'conc' else s._ngauss == f['ngauss'],
         'molecule_is_the_name_up_to_the_first_underscore': s._molecule_name == 'H2O'}
    if c.mode == 'sym':
        ev = [tuple(e) for e in (c.trace or []) if e[0] in ('h5py.File', 'unit.to')]
        d['opens_the_named_file_for_reading_and_converts_the_declared_unit'] = ev == [('h5py.File', v0.filename, 'r'), ('unit.to', fx['unit'])]
        closes = [tuple(e) for e in (c.trace or []) if e[0] == 'close']
        d['file_closed_exactly_when_everything_was_read_into_memory'] = closes == ([('close', v0.filename)] if fx['in_memory'] else [])
        xs = c.raw['state'].heap[c.raw['env']['self'].id].attrs['_xsec_grid']
        if fx['in_memory']:
            k0 = v0._file['kcoeff']
            k1 = s._xsec_grid
            d['coefficients_are_the_kcoeff_entry'] = c.Forall(0, NP, lambda i: c.Forall(0, NT, lambda j: c.Forall(0, W, lambda k: c.Forall(0, G, lambda g: k1[i, j, k, g] == k0[i, j, k, g]))))
        else:
            d['coefficients_are_the_kcoeff_dataset_of_that_file'] = isinstance(xs, AbsObj) and (xs.cls, xs.ident) == ('H5Dataset', 'kcoeff')
        d['ranges_are_the_extremes_of_the_grids'] = c.And(
            c.Forall(0, NP, lambda i: c.And(s._min_pressure <= s._pressure_grid[i], s._pressure_grid[i] <= s._max_pressure)),
            c.Forall(0, NT, lambda i: c.And(s._min_temperature <= f['t'][i], f['t'][i] <= s._max_temperature)))
    else:
        d['coefficients_are_the_kcoeff_entry'] = s._xsec_equal
    return d


def _hk_native(c, p):
    import os
    import h5py
    import numpy as np
    from taurex.opacity.ktables.hdfktable import HDF5KTable
    fx = c.values
    f = p['_file']
    unit = fx['unit'] if fx['unit'] != 'cds-only' else 'atm'
    here = os.path.dirname(os.path.dirname(os.path.abspath(__file__)))
    base = os.path.join(here, '.cache', 'c14')
    os.makedirs(os.path.join(base, 'ktables'), exist_ok=True)
    path = os.path.join(base, 'ktables', 'H2O_R100_%d.h5' % os.getpid())
    with h5py.File(path, 'w') as fh:
        for k, v in f.items():
            ds = fh.create_dataset(k, data=(np.array(v, dtype=float) if isinstance(v, list) else v))
            if k == 'p':
                ds.attrs['units'] = unit
    try:
        o = HDF5KTable.__new__(HDF5KTable)
        for nm in ('debug', 'info', 'warning', 'error', 'critical'):
            setattr(o, nm, lambda *a, **k: None)
        o.in_memory = fx['in_memory']
        o._molecule_name = 'H2O_R100'
        o._load_pickle_file(path)
        xs = np.asarray(o._xsec_grid[...])
        if not fx['in_memory']:
            o._spec_dict.close()
    finally:
        os.remove(path)
    import astropy.units as u
    conv = float(u.Unit(unit).to(u.Pa)) if fx['unit'] != 'cds-only' else float(u.Unit(unit, format='cds').to(u.Pa))
    s = dict(p['self'], _wavenumber_grid=np.asarray(o._wavenumber_grid), _temperature_grid=np.asarray(o._temperature_grid),
             _pressure_grid=np.asarray(o._pressure_grid), _weights=np.asarray(o._weights), _ngauss=int(o._ngauss), _molecule_name=o._molecule_name,
             _xsec_equal=bool(np.array_equal(xs, np.array(f['kcoeff'], dtype=float))))
    return None, dict(p, self=s, _conv=conv)


_HK_CASES = [dict(in_memory=m, unit=u_) for m in (True, False) for u_ in ('bar', 'Pa', 'cds-only')]


def _hk_gen(rng):
    return dict(_pkk_gen(rng), conv=1.0, **rng.choice(_HK_CASES))


def _h_hk_read(ex, st, o, args, kwargs, node):
    _ev(st, 'read', o.ident)
    return st.get(ex.root_env['_file']).items[o.ident]


H5K = Unit('C14', 'taurex.opacity.ktables.hdfktable:HDF5KTable._load_pickle_file', _hk_params,
           pre=lambda c, v: {'sizes': c.And(c.Len(v._file['bin_centers']) >= 1, c.Len(v._file['t']) >= 1, c.Len(v._file['p']) >= 1, c.Len(v._file['weights']) >= 1)},
           post=_hk_post, cases=_HK_CASES,
           abstract={'call:File': _h_h5file, 'H5File.__getitem__': _h5_get([]), 'H5Dataset.__getitem__': _h_hk_read, 'call:Unit': _h_unit, 'Unit.to': _h_unit_to,
                     'H5File.close': lambda ex, st, o, args, kwargs, node: _ev(st, 'close', o.ident)},
           frame_attrs=[('self', a) for a in _HK_ATTRS], inline=['clean_molecule_name', 'moleculeName'], native=_hk_native, gen=_hk_gen,
           bounds=[dict(W=2, NT=1, NP=1, G=2)], safety=('index',), short='HDF5KTable._load_pickle_file',
           doc='the HDF5 k-table reader: bin centres / temperatures / weights / k-coefficients / quadrature size are the datasets bin_centers / t / '
               'weights / kcoeff / ngauss of the file (the kcoeff dataset itself when not in memory), pressures the dataset p multiplied by the '
               'conversion of its declared unit to pascal (plain or CDS spelling), the file closed exactly when everything was read into memory '
               '(h5py and astropy.units abstract)')


# ------------------------------------------------------------------ discovery: which files become which molecule, with which settings
from pyvc.engine import FuncV

_DISC_FILES = {
    'PickleOpacity': (('*.pickle',), ['H2O.R15000.TauREx.pickle', '1H2-16O__POKAZATEL.R10000.pickle', 'CH4.pickle', 'notes.txt']),
    'ExoTransmitOpacity': (('*.dat',), ['opacH2O.dat', 'opacTiO.dat', 'readme.md']),
    'PickleKTable': (('*.pickle',), ['H2O_R100.ktable.pickle', 'CO2.R200.pickle', 'table.h5']),
    'HDF5KTable': (('*.hdf5', '*.h5'), ['H2O_R100.hdf5', '12C-16O2_x.h5', 'junk.pickle']),
    'HDF5Opacity': (('*.h5', '*.hdf5'), ['a.h5', 'b.hdf5', 'c.dat']),
}


def _disc_expected(clsname, fx):
    import fnmatch
    import re
    pats, files = _DISC_FILES[clsname]
    if fx['path'] is None:
        return []
    interp = fx['interp'] or 'linear'
    san = lambda s_: ''.join(''.join(t) for t in re.findall('([A-Z][a-z]?)([0-9]*)', s_))
    out = []
    for pat in pats:
        for f in files:
            if not fnmatch.fnmatch(f, pat):
                continue
            full = fx['path'] + '/' + f
            stem = f.rsplit('.', 1)[0]
            if clsname == 'PickleOpacity' or clsname == 'PickleKTable':
                out.append((san(stem.split('.')[0]), [full, interp]))
            elif clsname == 'ExoTransmitOpacity':
                out.append((san(stem[4:]), [full, interp]))
            elif clsname == 'HDF5KTable':
                out.append((san(stem.split('_')[0]), [full, interp]))
            else:
                out.append(('name-in:' + full, [full, interp, True]))
    return out


def _disc_unit(modname, clsname, pathkey):
    pats, files = _DISC_FILES[clsname]

    def params(c):
        return dict(cls=FuncV('class', clsname) if c.mode != 'conc' else dict(__obj__='class'))

    def h_gc_get(ex, st, o, args, kwargs, node):
        fx = ex.c.fixed
        _ev(st, 'setting', args[0])
        if args[0] == pathkey:
            return fx['path']
        if args[0] == 'xsec_interpolation':
            return fx['interp']
        if args[0] == 'xsec_in_memory':
            return fx.get('mem')
        raise _Raise(st, ExcV('KeyError', 0))

    def h_glob(ex, st, args, kwargs, node):
        import fnmatch
        pat = args[0]
        d, _, p = pat.rpartition('/')
        _ev(st, 'glob', pat)
        return st.alloc(ex.c, PyList([d + '/' + f for f in files if fnmatch.fnmatch(f, p)]))

    def h_path(ex, st, args, kwargs, node):
        return AbsObj('Path', args[0], {'stem': args[0].rsplit('/', 1)[-1].rsplit('.', 1)[0]})

    def h_new_h5(ex, st, args, kwargs, node):
        _ev(st, 'open-to-read-name', args[0], kwargs.get('interpolation_mode'), kwargs.get('in_memory'))
        return AbsObj('HDF5Opacity', args[0], {'moleculeName': 'name-in:' + args[0]})

    def post(c, v0, v1, r):
        fx = c.fixed if c.mode != 'conc' else c.values
        want = _disc_expected(clsname, fx)
        if c.mode == 'conc':
            got = [(k, list(v)) for k, v in r]
        else:
            heap = c.raw['state'].heap
            ret = c.raw['ret']
            got = None
            if isinstance(ret, Ref) and isinstance(heap[ret.id], PyList):
                got = []
                for it in heap[ret.id].items:
                    k, v = it
                    got.append((k, list(heap[v.id].items) if isinstance(v, Ref) else v))
        d = {'every_matching_file_under_the_configured_path_listed_under_its_sanitised_name_with_the_current_mode': got == want}
        if c.mode != 'conc':
            globs = [e[1] for e in (c.trace or []) if e[0] == 'glob']
            d['looks_only_under_the_configured_path'] = globs == ([] if fx['path'] is None else [fx['path'] + '/' + p for p in pats])
        return d

    def native(c, p):
        import importlib
        import glob as G
        import fnmatch
        from pyvc.unit import patched
        from taurex.cache import GlobalCache
        fx = c.values
        K = getattr(importlib.import_module(modname), clsname)
        gc = GlobalCache()
        saved = {k: gc[k] for k in (pathkey, 'xsec_interpolation', 'xsec_in_memory')}

        def fake_glob(pat, *a, **k):
            d, _, q = pat.rpartition('/')
            return [d + '/' + f for f in files if fnmatch.fnmatch(f, q)]
        real = G.glob
        G.glob = fake_glob
        gc[pathkey], gc['xsec_interpolation'], gc['xsec_in_memory'] = fx['path'], fx['interp'], fx.get('mem')
        try:
            if clsname == 'HDF5Opacity':
                class _Fake:
                    def __init__(self, f, interpolation_mode=None, in_memory=None):
                        self.moleculeName = 'name-in:' + f
                import taurex.opacity.hdf5opacity as M
                real_cls = M.HDF5Opacity
                M.HDF5Opacity = _Fake
                try:
                    r = real_cls.discover.__func__(real_cls)
                finally:
                    M.HDF5Opacity = real_cls
            else:
                r = K.discover()
        finally:
            G.glob = real
            for k, v in saved.items():
                gc[k] = v
        return r, p
    cases = [dict(path=pth, interp=i) for pth in (None, '/data/xsec') for i in (None, 'exp', 'linear')]
    if clsname == 'HDF5Opacity':
        cases = [dict(cs, mem=m) for cs in cases for m in (None, False)]
    ab = {'new:GlobalCache': lambda ex, st, args, kwargs, node: AbsObj('GlobalCache', 'g', {}), 'GlobalCache.__getitem__': h_gc_get,
          'call:glob': h_glob, 'call:join': lambda ex, st, args, kwargs, node: '/'.join(args), 'call:Path': h_path, 'new:HDF5Opacity': h_new_h5}
    return Unit(['C14', 'C20'] if clsname == 'PickleKTable' else 'C14', '%s:%s.discover' % (modname, clsname), params, post=post, cases=cases, bounds=[{}], abstract=ab, native=native,
                gen=lambda rng: dict(rng.choice(cases)), short=clsname + '.discover',
                doc='discovery: nothing when no path is configured; otherwise every file under the configured path that matches this reader\'s '
                    'pattern(s) is listed once, under the sanitised molecule name taken from its file name (HDF5 cross-sections: from the name '
                    'stored in the file), with the file and the interpolation mode configured AT THIS MOMENT (linear when none); files are '
                    'enumerated (isotopologue prefixes, suffixes, foreign files), glob / os.path / pathlib / GlobalCache abstract, the regular '
                    'expression of sanitize_molecule_string evaluated by Python\'s own re on the concrete names')


DISC = [_disc_unit('taurex.opacity.pickleopacity', 'PickleOpacity', 'xsec_path'), _disc_unit('taurex.opacity.exotransmit', 'ExoTransmitOpacity', 'xsec_path'),
        _disc_unit('taurex.opacity.ktables.picklektable', 'PickleKTable', 'ktable_path'), _disc_unit('taurex.opacity.ktables.hdfktable', 'HDF5KTable', 'ktable_path'),
        _disc_unit('taurex.opacity.hdf5opacity', 'HDF5Opacity', 'xsec_path')]


# ------------------------------------------------------------------ ExoTransmitOpacity._load_exo_transmit: the text reader
# File layout (Exo-Transmit): line 0 = temperatures, line 1 = pressures [bar]; then for every wavelength [m] one line holding
# that wavelength alone followed by one line per pressure holding the pressure and one cross-section [m2] per temperature.
_EX_ATTRS = ('_temperature_grid', '_pressure_grid', '_min_pressure', '_max_pressure', '_min_temperature', '_max_temperature', '_wavenumber_grid', '_xsec_grid')


def _ex_sizes(c):
    fx = c.fixed if c.mode != 'conc' else c.values
    return fx['NT'], fx['NP'], fx['W']


def _ex_params(c):
    NT, NP, W = _ex_sizes(c)
    return dict(self=ObjSpec('ExoTransmitOpacity', **{a: None for a in _EX_ATTRS}), filename='xsec/opacH2O.dat',
                _file=dict(T=c.array('T', (NT,)), P=c.array('P', (NP,)), WL=c.array('WL', (W,)), X=c.array('X', (W, NP, NT)), PC=c.array('PC', (W, NP))))


def _ex_lines(fx):
    """the kind of every line of the file: ('T',), ('P',), ('wl', k), ('row', k, p)"""
    NT, NP, W = fx['NT'], fx['NP'], fx['W']
    out = [('T',), ('P',)]
    for k in range(W):
        out.append(('wl', k))
        out += [('row', k, p) for p in range(NP)]
    return out


def _h_ex_readlines(ex, st, o, args, kwargs, node):
    _ev(st, 'readlines', o.ident)
    return st.alloc(ex.c, PyList([AbsObj('Line', kind, {}) for kind in _ex_lines(ex.c.fixed)]))


def _h_ex_split(ex, st, o, args, kwargs, node):
    fx = ex.c.fixed
    kind = o.ident
    n = {'T': fx['NT'], 'P': fx['NP'], 'wl': 1, 'row': 1 + fx['NT']}[kind[0]]
    return st.alloc(ex.c, PyList([AbsObj('Tok', kind + (j,), {}) for j in range(n)]))


def _h_ex_float(ex, st, args, kwargs, node):
    """float(token): the number written at that place of the file"""
    from pyvc import lib
    t = args[0]
    if not isinstance(t, AbsObj):
        return lib.HANDLERS['builtins.float'](ex, st, args, kwargs, node)
    f = st.get(ex.root_env['_file']).items
    A = lambda name: lib.arr(ex, st, f[name])
    k = t.ident
    if k[0] == 'T':
        return A('T').elem((k[1],))
    if k[0] == 'P':
        return A('P').elem((k[1],))
    if k[0] == 'wl':
        return A('WL').elem((k[1],))
    _, w, p, j = k
    return A('PC').elem((w, p)) if j == 0 else A('X').elem((w, p, j - 1))


def _ex_pre(c, v):
    f = v._file
    W = c.Len(f['WL'])
    return {'wavelengths_positive_and_distinct': c.And(c.Forall(0, W, lambda i: f['WL'][i] > 0),
                                                        c.Forall(0, W, lambda i: c.Forall(0, W, lambda j: c.Implies(i < j, f['WL'][i] != f['WL'][j]))))}


def _ex_post(c, v0, v1, r):
    f, s = v0._file, v1.self
    NT, NP, W = _ex_sizes(c)
    d = {'temperatures_are_the_first_line': c.And(c.Len(s._temperature_grid) == NT, c.Forall(0, NT, lambda i: c.Eq(s._temperature_grid[i], f['T'][i]))),
         'pressures_are_the_second_line_converted_from_bar_to_pascal': c.And(c.Len(s._pressure_grid) == NP,
                                                                               c.Forall(0, NP, lambda i: c.Eq(s._pressure_grid[i], f['P'][i] * 1e5))),
         'one_wavenumber_per_wavelength_block': c.Len(s._wavenumber_grid) == W,
         'wavenumbers_ascending': c.Forall(0, W - 1, lambda i: s._wavenumber_grid[i] <= s._wavenumber_grid[i + 1])}
    if c.mode == 'conc':
        import numpy as np
        wl = np.array(f['WL'], dtype=float)
        order = np.argsort(0.01 / wl)
        X = np.array(f['X'], dtype=float)
        d['wavenumbers_are_one_hundredth_over_the_wavelengths'] = bool(np.allclose(np.asarray(s._wavenumber_grid), (0.01 / wl)[order], rtol=1e-12))
        want = np.transpose(X[order], (1, 2, 0)) * 10000
        d['cross_sections_follow_their_wavelength_in_cm2'] = bool(np.asarray(s._xsec_grid).shape == want.shape and np.allclose(np.asarray(s._xsec_grid), want, rtol=1e-9, atol=1e-55))
        return d
    pf = c.last_perm[0]
    d['wavenumbers_are_one_hundredth_over_the_wavelengths'] = c.Forall(0, W, lambda k: c.Eq(s._wavenumber_grid[k] * f['WL'][pf(k)], 10000 * 1e-6))
    d['cross_sections_follow_their_wavelength_in_cm2'] = c.And(*[c.Forall(0, W, lambda k, p=p, t=t: c.Eq(s._xsec_grid[p, t, k], (f['X'][pf(k), p, t] + 1e-60) * 10000))
                                                                 for p in range(NP) for t in range(NT)])
    return d


def _ex_native(c, p):
    import os
    import numpy as np
    from taurex.opacity.exotransmit import ExoTransmitOpacity
    f = p['_file']
    here = os.path.dirname(os.path.dirname(os.path.abspath(__file__)))
    base = os.path.join(here, '.cache', 'c14', 'xsec')
    os.makedirs(base, exist_ok=True)
    path = os.path.join(base, 'opacH2O_%d.dat' % os.getpid())
    with open(path, 'w') as fh:
        fh.write(' '.join(repr(float(x)) for x in f['T']) + '\n')
        fh.write(' '.join(repr(float(x)) for x in f['P']) + '\n')
        for k, wl in enumerate(f['WL']):
            fh.write(repr(float(wl)) + '\n')
            for q in range(len(f['P'])):
                fh.write(' '.join([repr(float(f['PC'][k][q]))] + [repr(float(x)) for x in f['X'][k][q]]) + '\n')
    try:
        o = ExoTransmitOpacity.__new__(ExoTransmitOpacity)
        for nm in ('debug', 'info', 'warning', 'error', 'critical'):
            setattr(o, nm, lambda *a, **k: None)
        o._load_exo_transmit(path)
    finally:
        os.remove(path)
    s = dict(p['self'], _temperature_grid=np.asarray(o._temperature_grid), _pressure_grid=np.asarray(o._pressure_grid),
             _wavenumber_grid=np.asarray(o._wavenumber_grid), _xsec_grid=np.asarray(o._xsec_grid))
    return None, dict(p, self=s)


_EX_CASES = [dict(NT=a, NP=b, W=w) for a, b, w in ((1, 1, 1), (2, 1, 2), (2, 2, 2), (3, 2, 3))]


def _ex_gen(rng):
    cs = rng.choice(_EX_CASES)
    NT, NP, W = cs['NT'], cs['NP'], cs['W']
    wl = [10 ** rng.uniform(-7, -4) for _ in range(W)]
    if rng.random() < 0.6:
        wl.sort()
    return dict(cs, T=sorted(rng.uniform(100, 3000) for _ in range(NT)), P=sorted(10 ** rng.uniform(-6, 2) for _ in range(NP)), WL=wl,
                X=[[[10 ** rng.uniform(-30, -20) for _ in range(NT)] for _ in range(NP)] for _ in range(W)],
                PC=[[10 ** rng.uniform(-6, 2) for _ in range(NP)] for _ in range(W)])


EXO = Unit('C14', 'taurex.opacity.exotransmit:ExoTransmitOpacity._load_exo_transmit', _ex_params, pre=_ex_pre, post=_ex_post, cases=_EX_CASES, bounds=[{}],
           abstract={'call:open': _h_open, 'File.readlines': _h_ex_readlines, 'Line.split': _h_ex_split, 'call:float': _h_ex_float},
           frame_attrs=[('self', a) for a in _EX_ATTRS], inline=['pressureGrid', 'temperatureGrid', 'wavenumberGrid'], native=_ex_native, gen=_ex_gen,
           safety=('index',), short='ExoTransmitOpacity._load_exo_transmit',
           doc='the Exo-Transmit text reader (enumerated table shapes, symbolic numbers): temperatures = first line, pressures = second line bar -> '
               'pascal, one wavenumber per wavelength block = 0.01 / wavelength[m], sorted ascending, and the cross-section of pressure row p, '
               'temperature column t of that block (first column of a row = its pressure, skipped) times 10000 [m2 -> cm2] at the place of its '
               'own wavenumber after sorting; the reader adds 1e-60 to every value (recorded: the stored table differs from the file by that '
               'amount); tokenising abstract: float(token) = the number written there')


# ------------------------------------------------------------------ HitranCIA.compute_final_grid: the ranges of a HITRAN file unified into one table
def _hf_fx(c):
    return c.fixed if c.mode != 'conc' else c.values


def _hf_params(c):
    fx = _hf_fx(c)
    R, NT = fx['R'], fx['NT']
    grids = {}
    for r in range(R):
        L = c.int('L%d' % r)
        if c.mode == 'conc':
            grids['range%d' % r] = dict(__obj__='HitranCiaGrid', wn=c.array('wn%d' % r, (L,)), Tsigma=[(c.real('T%d' % t), c.array('s%d_%d' % (r, t), (L,))) for t in range(NT)])
        else:
            grids['range%d' % r] = ObjSpec('HitranCiaGrid', wn=c.array('wn%d' % r, (L,)), Tsigma=[(c.real('T%d' % t), c.array('s%d_%d' % (r, t), (L,))) for t in range(NT)])
    return dict(self=ObjSpec('HitranCIA', _wn_dict=grids, _temperature_grid=[c.real('T%d' % t) for t in range(NT)], _wavenumber_grid=None, _xsec_grid=None))


def _hf_post(c, v0, v1, r):
    fx = _hf_fx(c)
    R, NT = fx['R'], fx['NT']
    s = v1.self
    Ls = [c.Len(v0.self._wn_dict['range%d' % k]['wn'] if c.mode == 'conc' else v0.self._wn_dict['range%d' % k].wn) for k in range(R)]
    N = Ls[0]
    for x in Ls[1:]:
        N = N + x
    G = s._wavenumber_grid
    d = {'one_point_per_point_of_every_range': c.Len(G) == N,
         'unified_wavenumbers_ascending': c.Forall(0, N - 1, lambda i: G[i] <= G[i + 1])}
    if c.mode == 'conc':
        import numpy as np
        grids = [v0.self._wn_dict['range%d' % k] for k in range(R)]
        allwn = np.concatenate([np.asarray(g['wn'], dtype=float) for g in grids])
        order = np.argsort(allwn, kind='stable')
        X = np.asarray(s._xsec_grid, dtype=float)
        ok = X.shape == (NT, len(allwn)) and np.array_equal(np.asarray(G, dtype=float), allwn[order])
        if ok and len(set(allwn.tolist())) == len(allwn):
            for t in range(NT):
                sig = np.concatenate([np.asarray(g['Tsigma'][t][1], dtype=float) for g in grids])
                ok = ok and np.array_equal(X[t], sig[order])
        d['every_cross_section_stays_with_its_own_wavenumber_and_temperature'] = bool(ok)
        return d
    pf = c.last_perm[0]
    offs = [0]
    for x in Ls:
        offs.append(offs[-1] + x)

    def src(arrs, j):
        """element j of the concatenation of the per-range arrays"""
        out = arrs[-1][j - offs[R - 1]]
        for k in range(R - 2, -1, -1):
            out = c.If(j < offs[k + 1], arrs[k][j - offs[k]], out)
        return out
    wns = [v0.self._wn_dict['range%d' % k].wn for k in range(R)]
    d['wavenumbers_are_those_of_the_ranges'] = c.Forall(0, N, lambda i: G[i] == src(wns, pf(i)))
    d['every_cross_section_stays_with_its_own_wavenumber_and_temperature'] = c.And(*[
        c.Forall(0, N, lambda i, t=t: s._xsec_grid[t, i] == src([v0.self._wn_dict['range%d' % k].Tsigma[t][1] for k in range(R)], pf(i))) for t in range(NT)])
    return d


def _hf_native(c, p):
    import numpy as np
    from taurex.cia.hitrancia import HitranCIA
    fx = c.values
    s = p['self']

    class _G:
        pass
    o = HitranCIA.__new__(HitranCIA)
    for nm in ('debug', 'info', 'warning', 'error', 'critical'):
        setattr(o, nm, lambda *a, **k: None)
    o._wn_dict = {}
    for k, g in s['_wn_dict'].items():
        G_ = _G()
        G_.wn = np.array(g['wn'], dtype=float)
        G_.Tsigma = [(float(t), np.array(sg, dtype=float)) for t, sg in g['Tsigma']]
        o._wn_dict[k] = G_
    o._temperature_grid = [float(t) for t in s['_temperature_grid']]
    o.compute_final_grid()
    return None, dict(p, self=dict(s, _wavenumber_grid=np.asarray(o._wavenumber_grid), _xsec_grid=np.asarray(o._xsec_grid)))


_HF_CASES = [dict(R=r, NT=t) for r, t in ((1, 1), (2, 1), (2, 2), (3, 2))]


def _hf_gen(rng):
    cs = dict(rng.choice(_HF_CASES))
    kind = rng.choice(['disjoint', 'overlapping', 'out_of_order'])
    pts = sorted(set(round(rng.uniform(10, 9000), 3) for _ in range(rng.randint(cs['R'], 4 * cs['R']))))
    while len(pts) < cs['R']:
        pts.append(pts[-1] + 1.0)
    R = cs['R']
    if kind == 'overlapping':
        groups = [pts[k::R] for k in range(R)]
    else:
        cut = sorted(rng.sample(range(1, len(pts)), R - 1)) if R > 1 else []
        groups = [pts[a:b] for a, b in zip([0] + cut, cut + [len(pts)])]
        if kind == 'out_of_order':
            rng.shuffle(groups)
    for k, g in enumerate(groups):
        cs['L%d' % k] = len(g)
        cs['wn%d' % k] = g
        for t in range(cs['NT']):
            cs['s%d_%d' % (k, t)] = [10 ** rng.uniform(-50, -40) for _ in g]
    for t in range(cs['NT']):
        cs['T%d' % t] = 100.0 * (t + 1)
    return cs


HFG = Unit('C14', 'taurex.cia.hitrancia:HitranCIA.compute_final_grid', _hf_params, post=_hf_post, cases=_HF_CASES, bounds=[{}],
           pre=lambda c, v: {'ranges_not_empty': c.And(*[c.Len(v.self._wn_dict['range%d' % k]['wn'] if c.mode == 'conc' else v.self._wn_dict['range%d' % k].wn) >= 1
                                                          for k in range(_hf_fx(c)['R'])])},
           frame_attrs=[('self', '_wavenumber_grid'), ('self', '_xsec_grid')], native=_hf_native, gen=_hf_gen, safety=('index',),
           short='HitranCIA.compute_final_grid',
           doc='the wavenumber ranges of a HITRAN file (1..3 ranges of any lengths, disjoint, overlapping or out of order; 1..2 temperatures) '
               'unified: one ascending wavenumber grid holding every point of every range, and at every temperature each cross-section at the '
               'place of its own wavenumber (np.concatenate / argsort: assumed models)')
