"""C19 -- clouds and hazes act only inside their declared pressure range."""
import z3
from pyvc.unit import Unit, ObjSpec, Lemma, Bounded
from pyvc.core import to_int

SC = 'taurex.contributions.simpleclouds:SimpleCloudsContribution.'


# ------------------------------------------------------------------ SimpleClouds.prepare_each (generator)
def _sc_params(c):
    n, W = c.int('n'), c.int('W')
    return dict(self=ObjSpec('SimpleCloudsContribution', _cloud_pressure=c.real('Pcloud'), _contrib=None, sigma_xsec=None),
                model=ObjSpec('SimpleForwardModel', nLayers=n, pressureProfile=c.array('P', (n,))),
                wngrid=c.array('wngrid', (W,)))


def sc_post(c, v0, v1, r):
    """one component named 'Clouds': +inf in every layer at or below the cloud top (P >= P_cloud), 0 above, at all
    wavenumbers"""
    n, W = v0.model.nLayers, c.Len(v0.wngrid)
    if len(r) != 1:
        return {'one_component': False}
    name, sig = r[0]
    inf = c.inf()
    return {'one_component': name == 'Clouds', 'shape': c.And(c.Shape(sig)[0] == n, c.Shape(sig)[1] == W),
            'opaque_below_top': c.Forall2((0, n), (0, W), lambda l, w: c.Implies(
                c.Le(v0.self._cloud_pressure, v0.model.pressureProfile[l]), sig[l, w] == inf)),
            'clear_above_top': c.Forall2((0, n), (0, W), lambda l, w: c.Implies(
                c.Lt(v0.model.pressureProfile[l], v0.self._cloud_pressure), c.Eq(sig[l, w], 0)))}


def _sc_obj(c, p):
    from taurex.contributions.simpleclouds import SimpleCloudsContribution
    return SimpleCloudsContribution(clouds_pressure=p['self']['_cloud_pressure'])


def _sc_call(c, o, p):
    import numpy as np
    from types import SimpleNamespace as NS
    o.cloudsPressure = p['self']['_cloud_pressure']          # public fitting-parameter setter
    m = NS(nLayers=p['model']['nLayers'], pressureProfile=np.array(p['model']['pressureProfile'], dtype=float))
    return [(nm, np.asarray(s)) for nm, s in o.prepare_each(m, np.array(p['wngrid'], dtype=float))], p


def _sc_gen(rng):
    """every second case keeps the shapes and the cloud-top pressure of the previous one and moves only the
    pressure grid (what a retrieval of the pressure range does between two evaluations of one model)"""
    last = getattr(rng, '_sc_last', None)
    if last is not None and not last.get('second'):
        n, W, Pc = last['n'], last['W'], last['Pcloud']
        d = dict(n=n, W=W, P=sorted((10 ** rng.uniform(-2, 6) for _ in range(n)), reverse=True), wngrid=last['wngrid'],
                 Pcloud=Pc, second=True)
    else:
        n, W = rng.randint(1, 5), rng.randint(1, 3)
        P = sorted((10 ** rng.uniform(-2, 6) for _ in range(n)), reverse=True)
        d = dict(n=n, W=W, P=P, wngrid=[100.0 * (i + 1) for i in range(W)],
                 Pcloud=rng.choice([P[rng.randrange(n)], 10 ** rng.uniform(-1, 5)]))
    rng._sc_last = d
    return {k: v for k, v in d.items() if k != 'second'}


SCP = Unit('C19', SC + 'prepare_each', _sc_params,
           pre=lambda c, v: {'shape': c.And(v.model.nLayers >= 0, c.Len(v.wngrid) >= 0, c.Len(v.model.pressureProfile) == v.model.nLayers)},
           post=sc_post, native_obj=_sc_obj, native_call=_sc_call, gen=_sc_gen, bounds=[dict(n=2, W=1)],
           frame_attrs=[('self', '_contrib')], short='SimpleCloudsContribution.prepare_each',
           doc='cloud deck component; np.inf is an opaque positive constant in the proof')


# ------------------------------------------------------------------ SimpleClouds.contribute  (refines K2)
def _scc_params(c):
    n, W = c.int('n'), c.int('W')
    return dict(self=ObjSpec('SimpleCloudsContribution', sigma_xsec=c.array('sigma', (n, W))), model=None,
                start_layer=c.int('s'), end_layer=c.int('e'), density_offset=c.int('o'), layer=c.int('layer'),
                density=c.array('density', (n,)), tau=c.array('tau', (n, W)), path_length=None)


def scc_post(c, v0, v1, r):
    n, W = c.Shape(v0.tau)
    return {'row': c.Forall(0, W, lambda w: c.Eq(v1.tau[v0.layer, w], v0.tau[v0.layer, w] + v0.self.sigma_xsec[v0.layer, w])),
            'frame': c.Forall2((0, n), (0, W), lambda l, w: c.Implies(l != v0.layer, c.Eq(v1.tau[l, w], v0.tau[l, w])))}


def _scc_native(c, p):
    import numpy as np
    from taurex.contributions.simpleclouds import SimpleCloudsContribution
    o = SimpleCloudsContribution()
    o.sigma_xsec = np.array(p['self']['sigma_xsec'], dtype=float)
    o.contribute(None, p['start_layer'], p['end_layer'], p['density_offset'], p['layer'], p['density'], p['tau'],
                 path_length=None)
    return None, p


SCC = Unit(['C19', 'C03'], SC + 'contribute', _scc_params,
           pre=lambda c, v: {'layer': c.And(0 <= v.layer, v.layer < c.Shape(v.tau)[0]), 'n': c.And(c.Shape(v.tau)[0] >= 0, c.Shape(v.tau)[1] >= 0)},
           post=scc_post, frame=['tau'], native=_scc_native, bounds=[dict(n=2, W=2)],
           gen=lambda rng: (lambda n, W: dict(n=n, W=W, s=0, e=n, o=0, layer=rng.randrange(n),
                                              sigma=[[rng.choice([0.0, 5.0]) for _ in range(W)] for _ in range(n)],
                                              density=[1.0] * n, tau=[[rng.uniform(0, 3) for _ in range(W)] for _ in range(n)]))(rng.randint(1, 4), rng.randint(1, 3)),
           short='SimpleCloudsContribution.contribute',
           doc='K2 refinement: adds sigma[layer, :] (0 or inf) to tau[layer, :] and nothing else')


def _opaque_layer(c):
    """a layer whose optical depth exceeds every finite bound is opaque: with exp(-t) decreasing and t >= B,
    transmittance <= exp(-B); it contributes its full annulus (Rp+z) dz up to exp(-B)"""
    t, B, a = z3.Reals('t B a')
    return [('bounded_transmittance', [t >= B], c.exp(-t) <= c.exp(-B)),
            ('annulus', [t >= B, a >= 0], z3.And(a * (1 - c.exp(-t)) >= a * (1 - c.exp(-B)), a * (1 - c.exp(-t)) <= a))]


Lemma('C19', 'opaque_layer', _opaque_layer, doc='limit statement behind "those layers fully opaque"')


# ------------------------------------------------------------------ LeeMie.prepare_each
LM = 'taurex.contributions.leemie:LeeMieContribution.'


def _lm_params(c):
    n, W = c.int('n'), c.int('W')
    top_set, bot_set = c.choice('top_set'), c.choice('bottom_set')
    return dict(self=ObjSpec('LeeMieContribution', _mie_radius=c.real('a'), _mie_q=c.real('q'), _mie_mix=c.real('mix'),
                             _mie_bottom_pressure=c.real('Pbottom') if bot_set else -1,
                             _mie_top_pressure=c.real('Ptop') if top_set else -1, sigma_xsec=None, _nlayers=None, _ngrid=None),
                model=ObjSpec('SimpleForwardModel', nLayers=n, pressureProfile=c.array('P', (n,))),
                wngrid=c.array('wngrid', (W,)))


def _unset(x):
    return (not hasattr(x, 'sort')) and x == -1


def lm_pre(c, v):
    s = v.self
    d = {'shape': c.And(v.model.nLayers >= 1, c.Len(v.wngrid) >= 0, c.Len(v.model.pressureProfile) == v.model.nLayers),
         'positive': c.And(c.Lt(0, s._mie_radius), c.Forall(0, c.Len(v.wngrid), lambda w: c.Lt(0, v.wngrid[w])))}
    if not _unset(s._mie_bottom_pressure):
        d['bottom_set'] = c.Le(0, s._mie_bottom_pressure)
    if not _unset(s._mie_top_pressure):
        d['top_set'] = c.Le(0, s._mie_top_pressure)
    return d


def lm_post(c, v0, v1, r):
    """extinction Q(w) pi (a 1e-6)^2 mix in the layers with top <= P <= bottom (an unset bound = first / last layer
    pressure), zero in every other layer; Q(w) = 5/(q x^-4 + x^0.2), x = 2 pi a nu / 10000"""
    s, P = v0.self, v0.model.pressureProfile
    n, W = v0.model.nLayers, c.Len(v0.wngrid)
    if len(r) != 1:
        return {'one_component': False}
    name, sig = r[0]
    bottom = P[0] if _unset(s._mie_bottom_pressure) else s._mie_bottom_pressure
    top = P[n - 1] if _unset(s._mie_top_pressure) else s._mie_top_pressure
    import math
    pi = math.pi            # np.pi, the same float the code uses

    def val(w):
        x = 2.0 * pi * s._mie_radius / (10000 / v0.wngrid[w])
        Q = 5.0 / (s._mie_q * (1 / (x * x * x * x)) + c.pow(x, 0.2))
        am = s._mie_radius * 1e-6
        return Q * pi * (am * am) * s._mie_mix
    inside = lambda l: c.And(c.Le(P[l], bottom), c.Le(top, P[l]))
    return {'one_component': name == 'Lee', 'shape': c.And(c.Shape(sig)[0] == n, c.Shape(sig)[1] == W),
            'inside_window': c.Forall2((0, n), (0, W), lambda l, w: c.Implies(inside(l), c.Eq(sig[l, w], val(w)))),
            'outside_window': c.Forall2((0, n), (0, W), lambda l, w: c.Implies(c.Not(inside(l)), c.Eq(sig[l, w], 0))),
            'stored': v1.self.sigma_xsec is not None}


def _lm_obj(c, p):
    from taurex.contributions.leemie import LeeMieContribution
    return LeeMieContribution()


def _lm_call(c, o, p):
    import numpy as np
    from types import SimpleNamespace as NS
    s = p['self']
    o.mieRadius, o.mieQ, o.mieMixing = s['_mie_radius'], s['_mie_q'], s['_mie_mix']
    o.mieBottomPressure, o.mieTopPressure = s['_mie_bottom_pressure'], s['_mie_top_pressure']
    m = NS(nLayers=p['model']['nLayers'], pressureProfile=np.array(p['model']['pressureProfile'], dtype=float))
    out = [(nm, np.asarray(x)) for nm, x in o.prepare_each(m, np.array(p['wngrid'], dtype=float))]
    return out, dict(p, self=dict(s, sigma_xsec=o.sigma_xsec))


def _lm_gen(rng):
    n, W = rng.randint(1, 5), rng.randint(1, 3)
    P = sorted((10 ** rng.uniform(-2, 6) for _ in range(n)), reverse=True)
    a, b = sorted([10 ** rng.uniform(-3, 7), 10 ** rng.uniform(-3, 7)])
    return dict(n=n, W=W, P=P, wngrid=[rng.uniform(300, 30000) for _ in range(W)], a=rng.uniform(0.01, 0.5),
                q=rng.uniform(1, 100), mix=10 ** rng.uniform(-12, -6), top_set=rng.random() < 0.6,
                bottom_set=rng.random() < 0.6, Ptop=rng.choice([a, b, P[-1]]), Pbottom=rng.choice([a, b, P[0]]))


LMP = Unit('C19', LM + 'prepare_each', _lm_params, pre=lm_pre, post=lm_post, native_obj=_lm_obj, native_call=_lm_call, gen=_lm_gen,
           cases=[{'top_set': a, 'bottom_set': b} for a in (False, True) for b in (False, True)], bounds=[dict(n=2, W=1)],
           inline=['mieBottomPressure', 'mieTopPressure', 'mieRadius', 'mieQ', 'mieMixing'],
           frame_attrs=[('self', a) for a in ('sigma_xsec', '_nlayers', '_ngrid')], safety=('index',),
           short='LeeMieContribution.prepare_each', doc='Lee haze: window selection and wavelength law')


# ------------------------------------------------------------------ FlatMie.prepare_each: grey haze between two pressures
FM = 'taurex.contributions.flatmie:FlatMieContribution.'


def _fm_params(c):
    n, W = c.int('n'), c.int('W')
    top_set, bot_set = c.choice('top_set'), c.choice('bottom_set')
    return dict(self=ObjSpec('FlatMieContribution', _mie_mix=c.real('mix'), _mie_bottom_pressure=c.real('Pbottom') if bot_set else -1,
                             _mie_top_pressure=c.real('Ptop') if top_set else -1, sigma_xsec=None, _nlayers=None, _ngrid=None),
                model=ObjSpec('SimpleForwardModel', nLayers=n, pressure=ObjSpec('PressureProfile', pressure_profile_levels=c.array('lev', (n + 1,)))),
                wngrid=c.array('wngrid', (W,)))


def _fm_pre(c, v):
    s = v.self
    n = v.model.nLayers
    L = v.model.pressure.pressure_profile_levels
    d = {'shape': c.And(n >= 1, c.Len(v.wngrid) >= 0, c.Len(L) == n + 1), 'magnitude_non_negative': s._mie_mix >= 0,
         'levels_positive_decreasing': c.And(c.Forall(0, n + 1, lambda i: L[i] > 0),
                                             c.Forall2((0, n + 1), (0, n + 1), lambda i, j: c.Implies(i < j, L[i] > L[j])))}
    if not _unset(s._mie_bottom_pressure):
        d['bottom_set'] = c.Lt(0, s._mie_bottom_pressure)
    if not _unset(s._mie_top_pressure):
        d['top_set'] = c.Lt(0, s._mie_top_pressure)
    return d


def _fm_post(c, v0, v1, r):
    """layer l lies between the levels L[l+1] < L[l]; the window is [lo, hi] = the sorted pair (top, bottom), an unset bound being
    the outermost level; compared where the code compares, in log10(pressure) (log10 increasing: the same layers as in
    pressure).  No haze in a layer wholly outside the window, a positive amount in every layer overlapping it in positive
    length, never more than the declared magnitude."""
    s, L = v0.self, v0.model.pressure.pressure_profile_levels
    n, W = v0.model.nLayers, c.Len(v0.wngrid)
    if len(r) != 1:
        return {'one_component': False}
    name, sig = r[0]
    bottom = L[0] if _unset(s._mie_bottom_pressure) else s._mie_bottom_pressure
    top = L[n] if _unset(s._mie_top_pressure) else s._mie_top_pressure
    lt, lb = c.log10(top), c.log10(bottom)
    lo, hi = c.Min(lt, lb), c.Max(lt, lb)
    mix = s._mie_mix
    LL = lambda i: c.log10(L[i])
    tol = 1e-9 if c.mode == 'conc' else 0          # (array and scalar log10 of one number may differ in the last bit)
    outside = lambda l: c.Or(LL(l) <= lo - tol, hi + tol <= LL(l + 1))
    meets = lambda l: c.And(lo + tol < LL(l), LL(l + 1) < hi - tol, lo < hi)
    d = {'one_component': name == 'Flat', 'shape': c.And(c.Shape(sig)[0] == n, c.Shape(sig)[1] == W), 'stored': v1.self.sigma_xsec is not None}
    if d['stored']:
        # the yield invariant model_full_contrib relies on: the contribution's own sigma_xsec IS the component it hands out
        own = v1.self.sigma_xsec
        d['own_sigma_xsec_is_the_component'] = c.And(c.Shape(own)[0] == n, c.Shape(own)[1] == W, c.Forall2((0, n), (0, W), lambda l, w: c.Eq(own[l, w], sig[l, w])))
    A = lambda l, w: c.And(c.Le(0, sig[l, w]), sig[l, w] <= mix * (1 + tol))
    B = lambda l, w: c.Implies(outside(l), c.Eq(sig[l, w], 0))
    C = lambda l, w: c.Implies(c.And(meets(l), c.Lt(0, mix)), c.Lt(0, sig[l, w]))
    if c.mode != 'sym':
        d['never_more_than_the_declared_magnitude'] = c.Forall2((0, n), (0, W), A)
        d['none_in_layers_wholly_outside'] = c.Forall2((0, n), (0, W), B)
        d['some_in_every_layer_that_overlaps'] = c.Forall2((0, n), (0, W), C)
        return d
    # ---- proof: ghost access to the locals and to what searchsorted / max returned
    from pyvc.core import View
    loc = View(c, c.raw['state'].env, c.raw['state'].heap, c.raw['state'].trace)
    pl = loc.pressure_levels                      # log10 of the levels, ascending: pl[j] = log10 L[n-j]
    a_, b_ = loc.P_range[0], loc.P_range[1]
    s1, s2 = loc.ghost('searchsorted')[-2:]
    e1, e2 = loc.ghost('searchsorted_elements')[-2:]        # named elements of P_right and of P_left[1:]
    nn = to_int(n)
    unset = (1 if _unset(s._mie_bottom_pressure) else 0) + (1 if _unset(s._mie_top_pressure) else 0)
    ext_all = loc.ghost('extreme')
    ext = ext_all[unset:]                                    # the max()/min() of the levels come first, then those of the weights
    ends = []                                                # an unset bound is the outermost level: max / min of the ascending log-levels
    k_ = 0
    if _unset(s._mie_bottom_pressure):
        mb, wib, _, elb = ext_all[k_]
        k_ += 1
        ends += [c.And(elb(wib) == mb, elb(nn) <= mb, elb(nn) == pl[nn], elb(wib) == pl[wib], pl[nn] == LL(0), pl[wib] == c.log10(L[nn - wib])),
                 c.And(c.log10(L[nn - wib]) <= LL(0), mb == LL(0))]
    if _unset(s._mie_top_pressure):
        mt, wit, _, elt = ext_all[k_]
        ends += [c.And(elt(wit) == mt, elt(0) >= mt, elt(0) == pl[0], elt(wit) == pl[wit], pl[0] == LL(n), pl[wit] == c.log10(L[nn - wit])),
                 c.And(LL(n) <= c.log10(L[nn - wit]), mt == LL(n))]
    ends += [c.And(a_ == lo, b_ == hi)]
    zero_path = z3.is_rational_value(z3.simplify(sig[z3.Int('l?'), z3.Int('w?')]))

    def facts(l):
        jr = nn - 1 - to_int(l)
        wr = c.Min(b_, pl[jr + 1]) - c.Max(a_, pl[jr])
        base = ends + [c.And(pl[jr + 1] == LL(l), pl[jr] == LL(l + 1), 0 <= jr, jr < nn), LL(l + 1) < LL(l),
                       c.And(0 <= s1, s1 <= nn, 0 <= s2, s2 <= nn - 1)]
        return jr, wr, base

    def in_slice_when_meeting(l, jr):
        # the searchsorted windows: a layer whose upper edge is above lo is not among the s1 layers wholly below it, a layer
        # whose lower edge is below hi is not beyond s2
        return [z3.And(e1(jr) == pl[jr + 1], z3.Implies(jr >= 1, e2(jr - 1) == pl[jr])),
                z3.Implies(z3.And(jr < s1), pl[jr + 1] <= a_), z3.Implies(z3.And(jr > s2, jr >= 1), pl[jr] > b_),
                z3.Implies(meets(l), z3.And(s1 <= jr, jr <= s2))]

    def clause(kind):
        def per(l, w):
            jr, wr, base = facts(l)
            goal = {'A': A, 'B': B, 'C': C}[kind](l, w)
            if zero_path:
                if kind != 'C':
                    return goal
                hs = base + in_slice_when_meeting(l, jr)
                if ext:
                    m1, wi1, arr1, el1 = ext[0]
                    hs += [z3.Implies(z3.And(s1 <= jr, jr <= s2), el1(jr - s1) == wr),
                           z3.Implies(z3.And(s1 <= jr, jr <= s2), wr <= m1), z3.Implies(meets(l), wr > 0)]
                return c.hint(goal, *hs)
            m1, wi1, arr1, el1 = ext[0]
            m2, wi2, arr2, el2 = ext[-1]
            ins = z3.And(s1 <= jr, jr <= s2)
            val = mix * (c.Max(wr, 0) / m2)
            hs = base + [c.And(arr1.elem((wi2,)) <= m1, arr1.elem((wi1,)) == m1, arr2.elem((wi1,)) <= m2, arr2.elem((wi2,)) == m2),
                         c.And(m1 > 0, m1 <= m2, m2 <= m1), sig[l, w] == c.If(ins, val, 0),
                         z3.Implies(ins, z3.And(el2(jr - s1) == wr, el2(jr - s1) <= m2)), z3.Implies(ins, wr <= m2)]
            if kind == 'A':
                hs += [c.pure_ground(z3.And(0 <= val, val <= mix), z3.Implies(ins, wr <= m2), m2 > 0, mix >= 0, ins) if False else
                       z3.Implies(ins, z3.And(0 <= c.Max(wr, 0) / m2, c.Max(wr, 0) / m2 <= 1)),
                       z3.Implies(ins, z3.And(0 <= val, val <= mix))]
            elif kind == 'B':
                hs += [z3.Implies(outside(l), wr <= 0), z3.Implies(z3.And(outside(l), ins), val == 0)]
            else:
                hs += in_slice_when_meeting(l, jr) + [z3.Implies(meets(l), wr > 0), z3.Implies(z3.And(meets(l), mix > 0), c.Max(wr, 0) / m2 > 0),
                                                      z3.Implies(z3.And(meets(l), mix > 0), val > 0)]
            return c.hint(goal, *hs)
        return c.ForallH(0, n, lambda l: c.ForallH(0, W, lambda w: per(l, w)))
    d['never_more_than_the_declared_magnitude'] = clause('A')
    d['none_in_layers_wholly_outside'] = clause('B')
    d['some_in_every_layer_that_overlaps'] = clause('C')
    return d


def _fm_obj(c, p):
    from taurex.contributions.flatmie import FlatMieContribution
    return FlatMieContribution()


def _fm_call(c, o, p):
    import numpy as np
    from types import SimpleNamespace as NS
    s = p['self']
    o.mieMixing, o.mieBottomPressure, o.mieTopPressure = s['_mie_mix'], s['_mie_bottom_pressure'], s['_mie_top_pressure']
    m = NS(nLayers=p['model']['nLayers'], pressure=NS(pressure_profile_levels=np.array(p['model']['pressure']['pressure_profile_levels'], dtype=float)))
    out = [(nm, np.asarray(x)) for nm, x in o.prepare_each(m, np.array(p['wngrid'], dtype=float))]
    return out, dict(p, self=dict(s, sigma_xsec=o.sigma_xsec))


def _fm_gen(rng):
    n, W = rng.randint(1, 6), rng.randint(1, 3)
    lev = sorted((10 ** rng.uniform(-3, 6) for _ in range(n + 1)), reverse=True)
    a, b = 10 ** rng.uniform(-4, 7), 10 ** rng.uniform(-4, 7)
    return dict(n=n, W=W, lev=lev, wngrid=[rng.uniform(300, 30000) for _ in range(W)], mix=10 ** rng.uniform(-12, -6), top_set=rng.random() < 0.6,
                bottom_set=rng.random() < 0.6, Ptop=rng.choice([a, lev[-1], lev[rng.randrange(n + 1)]]), Pbottom=rng.choice([b, lev[0], lev[rng.randrange(n + 1)]]))


FMP = Unit('C19', FM + 'prepare_each', _fm_params, pre=_fm_pre, post=_fm_post, native_obj=_fm_obj, native_call=_fm_call, gen=_fm_gen,
           cases=[{'top_set': a, 'bottom_set': b} for a in (False, True) for b in (False, True)], bounds=[dict(n=2, W=1)],
           inline=['mieBottomPressure', 'mieTopPressure', 'mieMixing'], frame_attrs=[('self', a) for a in ('sigma_xsec', '_nlayers', '_ngrid')],
           safety=('index', 'sorted', 'domain'), timeout_ms=30000, short='FlatMieContribution.prepare_each',
           doc='grey haze: none in layers wholly outside the pressure window, a positive amount never above the declared magnitude in every '
               'layer that overlaps it, unset bounds = the outermost levels, bounds in either order')


# ------------------------------------------------------------------ FlatMie: bounded stand-in
def _b_flatmie(seed, tier):
    """grey haze: none in layers wholly outside [top, bottom], the declared magnitude in layers wholly inside, a
    fraction in (0, 1] of it in partially covered layers; unset bounds = whole atmosphere"""
    import random
    import numpy as np
    from types import SimpleNamespace as NS
    from taurex.contributions.flatmie import FlatMieContribution
    rng = random.Random(seed)
    N = 60 if tier == 'quick' else 3000
    fails, samples, cases = [], [], 0
    for it in range(N):
        n, W = rng.choice([1, 2, 3, 5, 10, 40]), rng.randint(1, 3)
        lev = np.logspace(rng.uniform(4, 7), rng.uniform(-5, 0), n + 1)        # decreasing levels
        mix = 10 ** rng.uniform(-12, -6)
        lo, hi = sorted([10 ** rng.uniform(-7, 8), 10 ** rng.uniform(-7, 8)])
        kind = rng.choice(['both', 'unset_top', 'unset_bottom', 'unset_both', 'inverted'])
        kw = dict(flat_mix_ratio=mix)
        if kind in ('both', 'unset_top', 'inverted'):
            kw['flat_bottomP'] = hi if kind != 'inverted' else lo
        if kind in ('both', 'unset_bottom', 'inverted'):
            kw['flat_topP'] = lo if kind != 'inverted' else hi
        inp = dict(n=n, W=W, levels=[float(lev[0]), float(lev[-1])], kind=kind, **kw)
        cases += 1
        try:
            o = FlatMieContribution(**kw)
            m = NS(nLayers=n, pressure=NS(pressure_profile_levels=lev))
            out = list(o.prepare_each(m, np.linspace(500, 5000, W)))
            sig = np.asarray(out[0][1], dtype=float)
        except Exception as e:
            fails.append(dict(clause='flatmie.raises', inputs=inp, got=repr(e)[:200]))
            continue
        top = kw.get('flat_topP', -1)
        bot = kw.get('flat_bottomP', -1)
        a, b = (lev[-1] if top < 0 else top), (lev[0] if bot < 0 else bot)
        a, b = min(a, b), max(a, b)
        if sig.shape != (n, W) or not np.all(np.isfinite(sig)) or sig.min() < 0 or sig.max() > mix * (1 + 1e-9):
            fails.append(dict(clause='flatmie.magnitude', inputs=inp, got=[list(sig.shape), float(np.nanmin(sig)), float(np.nanmax(sig))]))
            continue
        for l in range(n):
            p_hi, p_lo = lev[l], lev[l + 1]              # layer l spans [p_lo, p_hi]
            if p_lo >= b * (1 + 1e-9) or p_hi <= a * (1 - 1e-9):
                if np.any(sig[l] != 0):
                    fails.append(dict(clause='flatmie.outside_window', inputs=inp, layer=l, got=float(sig[l].max())))
                    break
            elif p_lo >= a * (1 + 1e-9) and p_hi <= b * (1 - 1e-9):
                if not np.allclose(sig[l], mix, rtol=1e-9):
                    fails.append(dict(clause='flatmie.inside_window', inputs=inp, layer=l, got=float(sig[l].max())))
                    break
            elif min(p_hi, b) > max(p_lo, a) * (1 + 1e-9):
                if np.any(sig[l] <= 0):
                    fails.append(dict(clause='flatmie.partial_layer', inputs=inp, layer=l, got=float(sig[l].min())))
                    break
        if it < 2:
            samples.append(inp)
    return {'cases': cases, 'failures': fails, 'samples': samples,
            'bound': '%d random (levels, window) configurations incl. unset and inverted bounds, 1..40 layers' % N}


Bounded('C19', 'flatmie_window_runtime', _b_flatmie,
        doc='FlatMieContribution.prepare_each: searchsorted on slices, sorted(), in-place normalisation and reversed '
            'stores are outside the verified subset')
