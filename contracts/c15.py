"""C15 -- an input file builds exactly the documented object graph.

Deductive part: the generic machinery that turns a typed section into a constructor call (get_keywordarg_dict,
create_klass, determine_klass, the selector -> class factories, generate_contributions), over abstract classes:
what is proved is which class is chosen, which keyword arguments reach its constructor, and which inputs are errors,
for every registry content / section content of the enumerated shapes.  The finite facts about the BUILT-IN classes
(selectors disjoint and documented, documented keys are constructor keywords) are an exhaustive enumeration over the
current tree; value typing of raw strings and the command-line program are bounded run-time items."""
import itertools
import z3
from pyvc.unit import Unit, ObjSpec, Lemma, Bounded
from pyvc.engine import AbsObj, FuncV, ExcV, _Raise
from pyvc.core import Arr, Obj, PyDict, PyList, Ref, is_sym

FA = 'taurex.parameter.factory:'


def _ev(st, *payload):
    st.trace.append(('ev', tuple(payload)))


class _NS:
    def __init__(self, **kw):
        self.__dict__.update(kw)


# ------------------------------------------------------------------ get_keywordarg_dict
def _h_argspec(ex, st, args, kwargs, node):
    """assumed contract of inspect.getfullargspec(f): the positional parameter names and the tuple of their
    defaults (None when there is none) -- reflection has no model beyond this"""
    c = ex.c
    names, defaults = c.fixed['sig']
    o = Obj('FullArgSpec', {'args': st.alloc(c, PyList(list(names))),
                            'defaults': None if defaults is None else tuple(c.real('dflt_%s' % n) for n in names[len(names) - defaults:]),
                            'varargs': None, 'varkw': None})
    return st.alloc(c, o)


def _install_inspect():
    from pyvc import lib

    def h(ex, st, args, kwargs, node):
        lib.USED.add('inspect.getfullargspec')
        return _h_argspec(ex, st, args, kwargs, node)
    lib.HANDLERS['inspect.getfullargspec'] = h


_install_inspect()


def _gk_params(c):
    sig = c.choice('sig')
    if c.mode == 'conc':
        return dict(klass=dict(__obj__='Klass', sig=sig), is_mixin=False)
    return dict(klass=AbsObj('Klass', 'K', {'__init__': '<init>'}), is_mixin=False)


def _gk_post(c, v0, v1, r):
    """{keyword: default} for exactly the parameters of the constructor that have a default"""
    names, nd = _sig(c)
    want = list(names[len(names) - nd:]) if nd else []
    d = {'keywords': isinstance(r, dict) and list(r.keys()) == want}
    if d['keywords'] and c.mode != 'conc':
        d['defaults'] = all(is_sym(r[k]) and r[k].eq(z3.Real('dflt_%s' % k)) for k in want)
    elif d['keywords']:
        d['defaults'] = all(r[k] == 10.0 + i for i, k in enumerate(want))
    return d


def _sig(c):
    names, nd = c.fixed['sig'] if c.mode != 'conc' else c.values['sig']
    return tuple(names), nd


def _gk_obj(c, p):
    return {}           # signature -> the class built for it (one process keeps asking about the same classes)


def _gk_call(c, reg, p):
    from taurex.parameter.factory import get_keywordarg_dict
    names, nd = c.values['sig']
    key = (tuple(names), nd)
    if key not in reg:
        nd_ = nd or 0
        params = list(names[1:])
        src = 'def __init__(self%s): pass' % ''.join(', %s%s' % (n, ('=%r' % (10.0 + (i - (len(params) - nd_)))) if i >= len(params) - nd_ else '')
                                                    for i, n in enumerate(params))
        ns = {}
        exec('class K:\n    ' + src, ns)
        reg[key] = ns['K']
    return get_keywordarg_dict(reg[key], False), p


_SIGS = [(('self',), None), (('self', 'a'), None), (('self', 'a'), 1), (('self', 'a', 'b'), 1), (('self', 'a', 'b'), 2), (('self', 'a', 'b', 'c'), 2)]
GK = Unit(['C15', 'C16'], FA + 'get_keywordarg_dict', _gk_params, post=_gk_post, cases=[{'sig': s} for s in _SIGS], bounds=[{}],
          native_obj=_gk_obj, native_call=_gk_call, fresh_result=True, gen=lambda rng: dict(sig=rng.choice(_SIGS)), short='get_keywordarg_dict',
          doc='constructor keyword discovery (non-mixin classes): keyword -> default for the defaulted parameters, in a '
              'dictionary the caller owns (create_klass overwrites its entries with the configured values) '
              '(inspect.getfullargspec: assumed model)')


# ------------------------------------------------------------------ create_klass: strict key check, defaults (+) config
def _ck_params(c):
    kw, cfg = c.choice('kw'), c.choice('cfg')
    config = {k: c.real('cfg_' + k) for k in cfg}
    if c.mode == 'conc':
        return dict(config=config, klass=dict(__obj__='Klass', kw=list(kw)), is_mixin=False)
    return dict(config=config, klass=FuncV('class', 'TheKlass'), is_mixin=False)


def _h_kwdict(ex, st, args, kwargs, node):
    """get_keywordarg_dict by its contract (unit above): keyword -> default of the class's constructor"""
    c = ex.c
    return st.alloc(c, PyDict({k: c.real('dflt_' + k) for k in c.fixed['kw']}))


def _h_construct(ex, st, args, kwargs, node):
    _ev(st, 'construct', 'TheKlass', tuple(args), dict(kwargs))
    return st.alloc(ex.c, Obj('TheKlass', dict(kwargs)))


def _ck_raises(c, v):
    kw = c.fixed['kw'] if c.mode != 'conc' else c.values['kw']
    return {'KeyError': any(k not in kw for k in v.config)}


def _ck_post(c, v0, v1, r):
    """the constructor is called once, with every keyword of the class: the value given in the section where there is
    one, the constructor's default otherwise -- and nothing else"""
    kw = c.fixed['kw'] if c.mode != 'conc' else c.values['kw']
    calls = [e for e in (c.trace or []) if e[0] == 'construct']
    d = {'one_construction': len(calls) == 1}
    if not d['one_construction']:
        return d
    _, _, pos, got = calls[0]
    d['keywords_only'] = len(pos) == 0 and list(got.keys()) == list(kw)
    if not d['keywords_only']:
        return d
    for k in kw:
        if c.mode == 'conc':
            want = v0.config[k] if k in v0.config else 100.0 + list(kw).index(k)
            d['value_%s' % k] = got[k] == want
        else:
            want = z3.Real('cfg_' + k) if k in v0.config else z3.Real('dflt_' + k)
            d['value_%s' % k] = is_sym(got[k]) and got[k].eq(want)
    return d


def _ck_native(c, p):
    from taurex.parameter import factory
    kw = list(c.values['kw'])
    trace = []
    src = 'def __init__(self%s): trace.append(("construct", "TheKlass", (), dict(%s)))' % (
        ''.join(', %s=%r' % (k, 100.0 + i) for i, k in enumerate(kw)), ', '.join('%s=%s' % (k, k) for k in kw))
    ns = {'trace': trace}
    exec('class TheKlass:\n    ' + src, ns)
    factory.create_klass(dict(p['config']), ns['TheKlass'], False)
    return None, dict(p, __trace__=trace)


_CK_CASES = [dict(kw=kw, cfg=cfg) for kw in ((), ('T',), ('T', 'P')) for cfg in ((), ('T',), ('P',), ('T', 'P'), ('nosuch',), ('T', 'nosuch'))]
CK = Unit(['C15', 'C16'], FA + 'create_klass', _ck_params, raises=_ck_raises, post=_ck_post, cases=_CK_CASES, bounds=[{}],
          abstract={'call:get_keywordarg_dict': _h_kwdict, 'new:TheKlass': _h_construct}, native=_ck_native,
          gen=lambda rng: dict(rng.choice(_CK_CASES), cfg_T=rng.uniform(1, 9), cfg_P=rng.uniform(1, 9), cfg_nosuch=1.0),
          short='create_klass',
          doc='every key of a component section reaches the constructor with the value given, defaults otherwise; a key the '
              'constructor does not know is an error, never ignored')


# ------------------------------------------------------------------ selector -> class factories
FACTORIES = [('gas_factory', 'gasKlasses', 'profile_type'), ('temp_factory', 'temperatureKlasses', 'profile_type'),
             ('chemistry_factory', 'chemistryKlasses', 'profile_type'), ('pressure_factory', 'pressureKlasses', 'profile_type'),
             ('star_factory', 'starKlasses', 'star_type'), ('model_factory', 'modelKlasses', 'model_type'),
             ('planet_factory', 'planetKlasses', 'planet_type'), ('optimizer_factory', 'optimizerKlasses', 'optimizer'),
             ('observation_factory', 'observationKlasses', 'observation'), ('instrument_factory', 'instrumentKlasses', 'instrument')]
# a registry: per class either its keyword list, or 'NotImplementedError' / 'AttributeError' (classes without usable keywords)
REGS = [(), (('a',),), (('a', 'b'), ('c',)), (('a',), 'NotImplementedError', ('c', 'a')), ('AttributeError', ('b',)), (('x',), ('y',), ('z',))]


def _h_keywords(ex, st, o, args, kwargs, node):
    kws = o.attrs['g_keywords']
    if isinstance(kws, str):
        raise _Raise(st, ExcV(kws, getattr(node, 'lineno', 0)))
    return st.alloc(ex.c, PyList(list(kws)))


def _fac_params(attr, argname, generic=False):
    def params(c):
        reg = c.choice('reg')
        if c.mode == 'conc':
            classes = [dict(__obj__='Klass', ident=k, g_keywords=kw) for k, kw in enumerate(reg)]
        else:
            classes = [AbsObj('Klass', k, {'g_keywords': kw}) for k, kw in enumerate(reg)]
        d = {argname: c.choice('selector'), 'g_registry': ObjSpec('ClassFactory', **{attr: classes})}
        if generic:
            d['baseclass'] = FuncV('class', 'TemperatureProfile') if c.mode != 'conc' else 'TemperatureProfile'
        return d
    return params


def _first_match(reg, sel):
    for k, kw in enumerate(reg):
        if not isinstance(kw, str) and sel in kw:
            return k
    return None


def _fac_raises(argname):
    def raises(c, v):
        reg = c.fixed['reg'] if c.mode != 'conc' else c.values['reg']
        return {'NotImplementedError': _first_match(reg, v[argname]) is None}
    return raises


def _fac_post(argname):
    def post(c, v0, v1, r):
        """the FIRST registered class whose keywords contain the selector (classes without usable keywords are skipped)"""
        reg = c.fixed['reg'] if c.mode != 'conc' else c.values['reg']
        k = _first_match(reg, v0[argname])
        got = r['ident'] if isinstance(r, dict) else getattr(r, 'ident', None) if not hasattr(r, '_env') else None
        if c.mode != 'conc':
            raw = c.raw['ret']
            got = raw.ident if isinstance(raw, AbsObj) else None
        return {'first_class_with_that_selector': got == k}
    return post


def _fac_native(fname, attr, argname, generic=False):
    def native(c, p):
        from taurex.parameter import factory
        reg = c.values['reg']

        def mk(k, kw):
            class K:
                ident = k

                @classmethod
                def input_keywords(cls):
                    if kw == 'NotImplementedError':
                        raise NotImplementedError
                    if kw == 'AttributeError':
                        raise AttributeError
                    return list(kw)
            return K
        classes = [mk(k, kw) for k, kw in enumerate(reg)]
        saved = factory.ClassFactory
        factory.ClassFactory = lambda: _NS(**{attr: classes})
        try:
            if generic:
                from taurex.data.profiles.temperature import TemperatureProfile
                r = factory.generic_factory(p[argname], TemperatureProfile)
            else:
                r = getattr(factory, fname)(p[argname])
        finally:
            factory.ClassFactory = saved
        return dict(__obj__='Klass', ident=r.ident), p
    return native


_FAC_CASES = [dict(reg=r, selector=s) for r in REGS for s in ('a', 'c', 'nosuch')]
_NEWCF = {'new:ClassFactory': lambda ex, st, args, kwargs, node: ex.root_env['g_registry'], 'Klass.input_keywords': _h_keywords}
for _f, _attr, _arg in FACTORIES:
    Unit('C15', FA + _f, _fac_params(_attr, _arg), raises=_fac_raises(_arg), post=_fac_post(_arg), abstract=_NEWCF, cases=_FAC_CASES,
         bounds=[{}], native=_fac_native(_f, _attr, _arg), gen=lambda rng: dict(rng.choice(_FAC_CASES)), short=_f,
         doc='selector keyword -> the first registered class that lists it; an unknown selector is an error')
Unit('C15', FA + 'generic_factory', _fac_params('temperatureKlasses', 'profile_type', generic=True), raises=_fac_raises('profile_type'),
     post=_fac_post('profile_type'), abstract=_NEWCF, cases=_FAC_CASES, bounds=[{}],
     native=_fac_native('generic_factory', 'temperatureKlasses', 'profile_type', generic=True), gen=lambda rng: dict(rng.choice(_FAC_CASES)),
     short='generic_factory', doc='the same lookup, registry chosen by the base class name')


# ------------------------------------------------------------------ determine_klass: selector forms
def _dk_params(c):
    sel = c.choice('selector')          # None = the selector key is missing from the section
    has_file = c.choice('python_file')
    cfg = {'T': c.real('T')}
    if sel is not None:
        cfg['profile_type'] = sel
    if has_file:
        cfg['python_file'] = 'file.py'
    if c.mode == 'conc':
        return dict(config=cfg, field='profile_type', factory=None, baseclass='Base')
    fac = FuncV('pyfunc', lambda ex, st, args, kwargs, node: (_ev(st, 'factory', args[0]), 'class:' + args[0])[1])
    return dict(config=cfg, field='profile_type', factory=fac, baseclass=FuncV('class', 'TemperatureProfile'))


def _dk_raises(c, v):
    sel = v.config.get('profile_type')
    return {'KeyError': sel is None or (sel.lower() == 'custom' and 'python_file' not in v.config)}


def _dk_post(c, v0, v1, r):
    """the selector key is consumed; 'custom' -> the class found in python_file; 'm1+m2+base' -> base from the factory,
    mixins m1, m2 (in the order written) from the mixin factory, combined; otherwise the factory's class for the
    lower-cased selector.  Every other key stays in the section."""
    sel = v0.config['profile_type'].lower()
    cfg, klass, mixin = r
    tr = [e for e in (c.trace or [])]
    d = {'selector_consumed': 'profile_type' not in cfg and 'T' in cfg}
    parts = sel.split('+')
    if sel == 'custom':
        d['custom_class_from_file'] = klass == 'custom:file.py' and mixin is False and 'python_file' not in cfg
    elif len(parts) == 1:
        d['factory_class'] = klass == 'class:' + sel and mixin is False and tr == [('factory', sel)]
    else:
        d['mixins_in_written_order'] = mixin is True and klass == ('mixed', 'class:' + parts[-1], tuple('mixin:' + m for m in parts[:-1]))
    return d


def _dk_native(c, p):
    from taurex.parameter import factory
    import taurex.mixin.core as mc
    trace = []
    saved = (factory.detect_and_return_klass, factory.mixin_factory, mc.build_new_mixed_class)
    factory.detect_and_return_klass = lambda f, b: 'custom:' + f
    factory.mixin_factory = lambda x, b: 'mixin:' + x
    mc.build_new_mixed_class = lambda base, mixins: ('mixed', base, tuple(mixins))
    try:
        cfg = dict(p['config'])
        r = factory.determine_klass(cfg, 'profile_type', lambda x: (trace.append(('factory', x)), 'class:' + x)[1], 'Base')
    finally:
        factory.detect_and_return_klass, factory.mixin_factory, mc.build_new_mixed_class = saved
    return r, dict(p, __trace__=trace)


_DK_CASES = [dict(selector=s, python_file=f) for s in (None, 'isothermal', 'Isothermal', 'custom', 'CUSTOM', 'a+b+isothermal', 'b+a+Base', 'm+base')
             for f in (False, True)]
DK = Unit('C15', FA + 'determine_klass', _dk_params, raises=_dk_raises, post=_dk_post, cases=_DK_CASES, bounds=[{}], native=_dk_native,
          gen=lambda rng: dict(rng.choice(_DK_CASES), T=rng.uniform(100, 3000)),
          abstract={'call:detect_and_return_klass': lambda ex, st, args, kwargs, node: 'custom:' + args[0],
                    'call:mixin_factory': lambda ex, st, args, kwargs, node: 'mixin:' + args[0],
                    'call:build_new_mixed_class': lambda ex, st, args, kwargs, node: ('mixed', args[0], tuple(st.get(args[1]).items))},
          frame=['config'], short='determine_klass',
          doc='selector forms: plain (case-insensitive), custom + python_file, mixin1+mixin2+base (mixins in the order written)')


# ------------------------------------------------------------------ generate_contributions
def _gc_params(c):
    keys = c.choice('keys')            # section keys: (name, is a sub-section?)
    reg = c.choice('reg')
    cfg = {}
    for name, sub in keys:
        cfg[name] = {'g_section': name} if sub else c.real('scalar_' + name)
    if c.mode == 'conc':
        classes = [dict(__obj__='Klass', ident=k, g_keywords=kw) for k, kw in enumerate(reg)]
    else:
        classes = [AbsObj('Klass', k, {'g_keywords': kw}) for k, kw in enumerate(reg)]
    return dict(config=cfg, g_registry=ObjSpec('ClassFactory', contributionKlasses=classes))


def _h_create_klass(ex, st, args, kwargs, node):
    cfg, klass, mixin = args
    sec = st.get(cfg).items.get('g_section') if isinstance(cfg, Ref) else None
    _ev(st, 'create_klass', sec, klass.ident if isinstance(klass, AbsObj) else None, mixin)
    return ('contribution', sec, klass.ident if isinstance(klass, AbsObj) else None)


def _gc_expected(keys, reg):
    out, unknown = [], []
    for name, sub in keys:
        k = _first_match(reg, name)
        if k is not None:
            out.append((name, k))
        elif sub:
            unknown.append(name)
    return out, unknown


def _gc_raises(c, v):
    keys, reg = (c.fixed['keys'], c.fixed['reg']) if c.mode != 'conc' else (c.values['keys'], c.values['reg'])
    exp, unknown = _gc_expected([tuple(k) for k in keys], reg)
    # a scalar key that happens to spell a contribution keyword is handed to create_klass as if it were a section
    return {'Exception': len(unknown) > 0}


def _gc_post(c, v0, v1, r):
    """one contribution per sub-section whose name is a contribution keyword, built from that sub-section by
    create_klass with the first class listing the keyword, in section order; a sub-section that is no contribution
    is an error (scalar keys of the model section are left alone)"""
    keys, reg = (c.fixed['keys'], c.fixed['reg']) if c.mode != 'conc' else (c.values['keys'], c.values['reg'])
    keys = [tuple(k) for k in keys]
    exp, unknown = _gc_expected(keys, reg)
    subs = dict(keys)
    calls = [e for e in (c.trace or []) if e[0] == 'create_klass']
    return {'one_contribution_per_matching_section': [(e[1], e[2]) for e in calls] == [(n, k) for n, k in exp if subs[n]] and
            all(e[3] is False for e in calls) and len(r) == len(exp)}


def _gc_native(c, p):
    from taurex.parameter import factory
    reg = c.values['reg']
    trace = []

    def mk(k, kw):
        class K:
            ident = k

            @classmethod
            def input_keywords(cls):
                if isinstance(kw, str):
                    raise {'NotImplementedError': NotImplementedError, 'AttributeError': AttributeError}[kw]
                return list(kw)
        return K
    classes = [mk(k, kw) for k, kw in enumerate(reg)]
    saved = (factory.ClassFactory, factory.create_klass)
    factory.ClassFactory = lambda: _NS(contributionKlasses=classes)
    factory.create_klass = lambda cfg, klass, mixin: (trace.append(('create_klass', cfg.get('g_section') if isinstance(cfg, dict) else None, klass.ident, mixin)), 'x')[1]
    try:
        r = factory.generate_contributions({k: (dict(v) if isinstance(v, dict) else v) for k, v in p['config'].items()})
    finally:
        factory.ClassFactory, factory.create_klass = saved
    return r, dict(p, __trace__=trace)


_GC_REG = (('Absorption', 'Molecules'), ('CIA',), 'NotImplementedError', ('Rayleigh',))
_GC_CASES = [dict(keys=k, reg=_GC_REG) for k in [(), (('model_type', False),), (('Absorption', True),), (('model_type', False), ('CIA', True), ('Molecules', True)),
                                                  (('Rayleigh', True), ('Absorption', True)), (('Clouds', True),), (('CIA', True), ('NoSuch', True)),
                                                  (('ngauss', False), ('Rayleigh', True))]]
GCO = Unit('C15', FA + 'generate_contributions', _gc_params, raises=_gc_raises, post=_gc_post, cases=_GC_CASES, bounds=[{}], native=_gc_native,
           abstract=dict(_NEWCF, **{'call:create_klass': _h_create_klass}),
           gen=lambda rng: dict(rng.choice(_GC_CASES), scalar_model_type=1.0, scalar_ngauss=4.0), short='generate_contributions',
           doc='contribution sub-sections of the model section -> contributions; an unknown contribution section is an error')


# ------------------------------------------------------------------ exhaustive enumeration over the built-in classes and the user documentation
def _doc_selectors(txt):
    """(selector, documented class path) pairs of a user-documentation page: ``- ``selector`` ... - Class: :class:`~path```"""
    import re
    return [(m.group(1), m.group(2)) for m in re.finditer(
        r'-\s+``([\w\-\+]+)``\s*\n(?:\s+-[^\n]*\n){0,3}?\s+-\s+Class:\s+:class:`~?([\w\.]+)`', txt)]


def _doc_keywords(txt):
    """{selector: [documented keys]} from the sections headed ``xxx_type = selector`` with a Keywords table"""
    import re
    out = {}
    heads = [(m.start(), m.group(2)) for m in re.finditer(r'^``(\w+)\s*=\s*([\w\-]+)``\s*$', txt, re.M)]
    for i, (pos, sel) in enumerate(heads):
        end = heads[i + 1][0] if i + 1 < len(heads) else len(txt)
        sec = txt[pos:end]
        k = re.search(r'-+\nKeywords\n-+\n(.*?)(?:\n-{4,}\n[A-Z]|\Z)', sec, re.S)
        if not k:
            continue
        keys = re.findall(r'^\|\s*``(\w+)``', k.group(1), re.M)
        out.setdefault(sel, [])
        out[sel] += [x for x in keys if x not in out[sel]]
    return out


def _b_builtin_tables(seed, tier):
    import glob
    import importlib
    import inspect
    import os
    from pyvc import source
    from taurex.parameter.classfactory import ClassFactory
    from taurex.parameter import factory
    cf = ClassFactory()
    fails, cases, samples = [], 0, []
    regs = ['temperatureKlasses', 'pressureKlasses', 'chemistryKlasses', 'gasKlasses', 'planetKlasses', 'starKlasses', 'modelKlasses',
            'optimizerKlasses', 'observationKlasses', 'instrumentKlasses', 'contributionKlasses']
    for attr in regs:
        seen = {}
        for k in sorted(getattr(cf, attr), key=lambda x: x.__name__):
            if not k.__module__.startswith('taurex.'):
                continue
            try:
                kws = k.input_keywords()
            except (NotImplementedError, AttributeError):
                continue
            for w in kws:
                cases += 1
                if w in seen and seen[w] is not k:
                    fails.append(dict(clause='selector_claimed_by_two_classes', inputs=dict(registry=attr, selector=w, classes=sorted([seen[w].__name__, k.__name__]))))
                seen[w] = k
    pages = {'temperature.rst': [factory.temp_factory], 'pressure.rst': [factory.pressure_factory], 'chemistry.rst': [factory.chemistry_factory, factory.gas_factory],
             'planet.rst': [factory.planet_factory], 'star.rst': [factory.star_factory], 'models.rst': [factory.model_factory],
             'optimizer.rst': [factory.optimizer_factory], 'observation.rst': [factory.observation_factory], 'instrument.rst': [factory.instrument_factory]}
    docdir = os.path.join(source.REPO, 'doc', 'source', 'user', 'taurex')
    for page, facs in pages.items():
        try:
            txt = open(os.path.join(docdir, page), encoding='utf-8').read()
        except OSError:
            continue
        resolved = {}
        for sel, path in _doc_selectors(txt):
            mod, _, cname = path.rpartition('.')
            try:
                documented = getattr(importlib.import_module(mod), cname)
            except Exception:
                continue          # documented for a class this tree does not contain (a plug-in): not a built-in component
            cases += 1
            got = []
            for f in facs:
                try:
                    got.append(f(sel))
                except NotImplementedError:
                    pass
            inp = dict(page=page, selector=sel, documented_class=path)
            if len(got) == 0:
                fails.append(dict(clause='documented_selector_does_not_resolve', inputs=inp))
            elif len(got) > 1 or got[0] is not documented:
                fails.append(dict(clause='documented_selector_resolves_to_another_class', inputs=inp, got=[g.__name__ for g in got]))
            else:
                resolved[sel] = got[0]
            if len(samples) < 3:
                samples.append(inp)
        for sel, keys in _doc_keywords(txt).items():
            k = resolved.get(sel)
            if k is None:
                continue
            kw = factory.get_keywordarg_dict(k, False)
            for key in keys:
                cases += 1
                if key not in kw:
                    fails.append(dict(clause='documented_key_is_not_a_constructor_keyword', inputs=dict(page=page, selector=sel, key=key, klass=k.__name__)))
    return {'cases': cases, 'failures': fails, 'samples': samples,
            'bound': 'exhaustive over the current tree: every selector of every registered built-in class (11 registries) and every '
                     'selector / keyword table found in doc/source/user/taurex/*.rst (%d facts)' % cases}


Bounded('C15', 'builtin_selectors_and_documented_keys', _b_builtin_tables,
        doc='finite facts about the built-in components: selectors pairwise disjoint per section, every documented selector '
            'resolves to exactly its documented class, every documented key is a constructor keyword (exhaustive '
            'enumeration, not an SMT proof)')


# ------------------------------------------------------------------ create_model: components wired by name, scalars passed through
COMPONENT_KW = ['planet', 'star', 'chemistry', 'temperature_profile', 'pressure_profile', 'observation']


def _cm_params(c):
    kw = c.choice('kw')                 # constructor keywords of the chosen model class
    scal, subs = c.choice('scalars'), c.choice('sections')
    cfg = {'model_type': 'transmission'}
    for s in scal:
        cfg[s] = c.real('cfg_' + s)
    for s in subs:
        cfg[s] = {'g_section': s}
    mk = (lambda n: dict(__obj__='Component', g_name=n)) if c.mode == 'conc' else (lambda n: AbsObj('Component', n, {'g_name': n, 'activeGases': []}))
    return dict(config=cfg, gas=mk('chemistry'), temperature=mk('temperature_profile'), pressure=mk('pressure_profile'), planet=mk('planet'),
                star=mk('star'), observation=mk('observation'))


def _h_determine(ex, st, args, kwargs, node):
    cfg = args[0]
    d = dict(st.get(cfg).items)
    d.pop(args[1], None)
    st.put(cfg, PyDict(d))
    return (cfg, FuncV('class', 'TheModel'), False)


def _h_kwdict_model(ex, st, args, kwargs, node):
    c = ex.c
    return st.alloc(c, PyDict({k: (None if k in COMPONENT_KW else c.real('dflt_' + k)) for k in c.fixed['kw']}))


def _h_new_model(ex, st, args, kwargs, node):
    _ev(st, 'construct', 'TheModel', tuple(args), dict(kwargs))
    return AbsObj('Model', 0, {})


def _h_gen_contribs(ex, st, args, kwargs, node):
    secs = [k for k, v in st.get(args[0]).items.items() if isinstance(v, Ref) and isinstance(st.get(v), PyDict)]
    _ev(st, 'generate_contributions', tuple(secs))
    return st.alloc(ex.c, PyList(['contrib:' + s for s in secs]))


def _h_add_contrib(ex, st, o, args, kwargs, node):
    _ev(st, 'add_contribution', args[0])
    return None


def _cm_post(c, v0, v1, r):
    """the model class chosen by model_type is constructed once: every component keyword the class has receives the
    component built for it (and only those), every scalar key of the section is passed with its value, defaults
    otherwise, sub-sections are not passed; then one add_contribution per contribution sub-section, in order"""
    kw = list(c.fixed['kw'] if c.mode != 'conc' else c.values['kw'])
    scal, subs = (c.fixed['scalars'], c.fixed['sections']) if c.mode != 'conc' else (c.values['scalars'], c.values['sections'])
    tr = list(c.trace or [])
    cons = [e for e in tr if e[0] == 'construct']
    d = {'one_construction': len(cons) == 1}
    if not d['one_construction']:
        return d
    got = cons[0][3]
    want_keys = kw + [s for s in scal if s not in kw]
    d['keywords'] = len(cons[0][2]) == 0 and list(got.keys()) == want_keys
    if not d['keywords']:
        return d
    comp = {'planet': 'planet', 'star': 'star', 'chemistry': 'chemistry', 'temperature_profile': 'temperature_profile',
            'pressure_profile': 'pressure_profile', 'observation': 'observation'}
    ok = True
    for k in want_keys:
        g = got[k]
        if k in scal:
            ok = ok and ((is_sym(g) and g.eq(z3.Real('cfg_' + k))) if c.mode != 'conc' else g == v0.config[k])
        elif k in comp:
            name = g.attrs.get('g_name') if isinstance(g, AbsObj) else (g.get('g_name') if isinstance(g, dict) else getattr(g, 'g_name', None))
            ok = ok and name == comp[k]
        else:
            ok = ok and ((is_sym(g) and g.eq(z3.Real('dflt_' + k))) if c.mode != 'conc' else g == 100.0 + kw.index(k))
    d['values'] = ok
    adds = [e[1] for e in tr if e[0] == 'add_contribution']
    d['contributions_added_in_order'] = adds == ['contrib:' + s for s in subs]
    return d


def _cm_native(c, p):
    from taurex.parameter import factory
    kw = list(c.values['kw'])
    trace = []
    src = 'def __init__(self%s): trace.append(("construct", "TheModel", (), dict(%s)))' % (
        ''.join(', %s=%s' % (k, 'None' if k in COMPONENT_KW else repr(100.0 + i)) for i, k in enumerate(kw)),
        ', '.join('%s=%s' % (k, k) for k in kw) + (', ' if kw else '') + '**extra')
    src = src.replace('): trace', ', **extra): trace')
    ns = {'trace': trace}
    exec('class TheModel:\n    ' + src + '\n    def add_contribution(self, x): trace.append(("add_contribution", x))', ns)
    saved = (factory.determine_klass, factory.generate_contributions)
    factory.determine_klass = lambda cfg, field, fac, base=None: (cfg.pop(field), (cfg, ns['TheModel'], False))[1]
    factory.generate_contributions = lambda cfg: ['contrib:' + k for k, v in cfg.items() if isinstance(v, dict)]
    mk = lambda d: _NS(g_name=d['g_name'], activeGases=[])
    try:
        factory.create_model({k: (dict(v) if isinstance(v, dict) else v) for k, v in p['config'].items()}, mk(p['gas']), mk(p['temperature']),
                             mk(p['pressure']), mk(p['planet']), mk(p['star']), observation=mk(p['observation']))
    finally:
        factory.determine_klass, factory.generate_contributions = saved
    return None, dict(p, __trace__=trace)


_CM_CASES = [dict(kw=kw, scalars=sc, sections=se) for kw in (tuple(COMPONENT_KW[:5]) + ('nlayers',), ('planet', 'star', 'ngauss'), ())
             for sc in ((), ('nlayers',), ('ngauss', 'extra_key')) for se in ((), ('Absorption',), ('CIA', 'Rayleigh'))]
CM = Unit('C15', FA + 'create_model', _cm_params, post=_cm_post, cases=_CM_CASES, bounds=[{}], native=_cm_native,
          abstract={'call:determine_klass': _h_determine, 'call:get_keywordarg_dict': _h_kwdict_model, 'new:TheModel': _h_new_model,
                    'call:generate_contributions': _h_gen_contribs, 'Model.add_contribution': _h_add_contrib},
          gen=lambda rng: dict(rng.choice(_CM_CASES), cfg_nlayers=30.0, cfg_ngauss=4.0, cfg_extra_key=1.0), short='create_model',
          doc='model assembly: components wired by keyword name, scalar keys passed through, contribution sections added in order')


# ------------------------------------------------------------------ bounded: value typing of the raw configuration
TRUE_WORDS = ['true', 'yes', 'yeah', 'yup', 'certainly', 'uh-huh']
FALSE_WORDS = ['false', 'no', 'nope', 'no-way', 'hell-no']


def _typing_oracle(val):
    """documented typing: a list becomes a list of floats when EVERY item is a number, otherwise it is left exactly as
    written; a scalar becomes True / False for the documented words (any case), a float when it is a number, otherwise
    it stays the string"""
    def num(s):
        try:
            return float(s)
        except (TypeError, ValueError):
            return None
    if isinstance(val, list):
        ns = [num(x) for x in val]
        return ns if all(n is not None for n in ns) else list(val)
    if isinstance(val, str):
        if val.lower() in TRUE_WORDS:
            return True
        if val.lower() in FALSE_WORDS:
            return False
        n = num(val)
        return n if n is not None else val
    return val


def _b_typing(seed, tier):
    import random
    from taurex.parameter.parameterparser import ParameterParser
    rng = random.Random(seed)
    N = 300 if tier == 'quick' else 20000
    atoms = ['H2O', 'CH4', 'NO', 'No', 'no', 'yes', 'True', 'FALSE', 'nope', '1', '1.5', '-2e-3', '1e5', 'linear', 'exp', 'TiO', 'CO2', 'inf',
             '  3 ', 'H2-He', 'certainly', 'uh-huh', 'path/to/file.dat', '0', '10', 'N2', 'yup', '', 'nan']
    pp = ParameterParser.__new__(ParameterParser)
    fails, cases = [], 0
    for it in range(N):
        if rng.random() < 0.5:
            val = [rng.choice(atoms) for _ in range(rng.randint(1, 4))]
        else:
            val = rng.choice(atoms + [str(round(rng.uniform(-1e3, 1e3), 3))])
        sec = {'k': list(val) if isinstance(val, list) else val, 'other': 'untouched'}
        want = _typing_oracle(val)
        cases += 1
        try:
            got = pp.transform(sec, 'k')
        except Exception as e:
            fails.append(dict(clause='typing.raises', inputs=dict(value=val), got=repr(e)[:200]))
            continue
        same = (got == want or (got != got and want != want)) and type(got) is type(want) and sec['k'] == got if not (isinstance(got, float) and got != got) \
            else (isinstance(want, float) and want != want)
        if isinstance(want, list) and isinstance(got, list):
            same = len(got) == len(want) and all((a == b or (a != a and b != b)) and type(a) is type(b) for a, b in zip(got, want))
        if not same or sec['other'] != 'untouched':
            fails.append(dict(clause='typing.value', inputs=dict(value=val), got=repr(got), want=repr(want)))
    return {'cases': cases, 'failures': fails, 'samples': [dict(value=['H2O', 'NO']), dict(value='1e5')],
            'bound': '%d raw values (strings and 1..4-item lists drawn from molecule names, numbers, boolean words, paths)' % N}


Bounded('C15', 'raw_value_typing', _b_typing, doc='ParameterParser.transform against the documented typing table (string handling: no SMT encoding)')


# ------------------------------------------------------------------ bounded: the command-line program = building the same components through the library
_CLI_COMBOS = [(None, None), (None, 'native'), ('file', None), ('file', 'native'), ('file', 'observed')]


def write_case(rng, d, combo=None):
    """a random but valid forward-model set-up: cross-sections on disk + the numbers of every component"""
    import os
    import numpy as np
    from contracts import c14
    nW = rng.randint(12, 40)
    T, P, wn = np.array([200.0, 1000.0, 3000.0]), np.array([1e-2, 1e3, 1e8]), np.linspace(rng.uniform(300, 600), rng.uniform(3000, 6000), nW)
    mols = rng.sample(['H2O', 'CH4', 'CO2'], rng.randint(1, 2))
    os.makedirs(d, exist_ok=True)
    for mol in mols:
        xs = 10 ** np.array([[[rng.uniform(-24, -21) for _ in wn] for _ in T] for _ in P])
        table = dict(T=T, P=P, wn=wn, xs=xs, mol=mol, file_mol=mol, weights=np.array([1.0]), kcoeff=np.ones((3, 3, nW, 1)),
                     ciaT=np.array([200.0, 400.0]), ciawn=np.array([10.0, 20.0]), cia=np.ones((2, 2)) * 1e-55)
        paths = c14._write_formats(d, rng, table)
        for k in ('hdf5_bar', 'hdf5_Pa', 'exotransmit'):
            os.remove(paths[k])
    case = dict(xsec_path=os.path.join(d, 'xsec'), mols=mols, mix={m: 10 ** rng.uniform(-7, -3) for m in mols}, ratio=round(rng.uniform(0.05, 0.3), 3),
                T=round(rng.uniform(500, 2500), 1), nlayers=rng.randint(5, 30), pmin=10 ** rng.uniform(-3, 0), pmax=10 ** rng.uniform(4, 6),
                mass=round(rng.uniform(0.3, 3), 2), radius=round(rng.uniform(0.5, 1.8), 2), tstar=round(rng.uniform(3500, 7000)), rstar=round(rng.uniform(0.5, 1.5), 2),
                model=rng.choice(['transmission', 'emission', 'directimage']), temp=rng.choice(['isothermal', 'guillot']), rayleigh=rng.random() < 0.5,
                new_path_method=rng.random() < 0.5, ngauss=rng.choice([2, 4, 6]))
    # which spectrum the program is asked to store: no observation / an observed spectrum file, and the [Binning] selector
    case['obs'], case['binning'] = combo if combo is not None else rng.choice(_CLI_COMBOS)
    if case['obs']:
        nb = rng.randint(4, 9)
        edges = np.sort(np.array([rng.uniform(wn[1], wn[-2]) for _ in range(nb + 1)]))
        cen = 0.5 * (edges[1:] + edges[:-1])
        wl = 10000 / cen
        rows = sorted(zip(wl, [rng.uniform(0.009, 0.011) for _ in cen], [rng.uniform(1e-5, 1e-4) for _ in cen]))
        case['obs_file'] = os.path.join(d, 'observed.dat')
        np.savetxt(case['obs_file'], np.array(rows))
    return case


def par_text(case):
    gases = ''.join('\n    [[%s]]\n    gas_type = constant\n    mix_ratio = %r\n' % (m, case['mix'][m]) for m in case['mols'])
    temp = 'profile_type = isothermal\nT = %r' % case['T'] if case['temp'] == 'isothermal' else 'profile_type = guillot\nT_irr = %r' % case['T']
    return """[Global]
xsec_path = %s

[Chemistry]
chemistry_type = taurex
fill_gases = H2, He
ratio = %r
%s
[Temperature]
%s

[Pressure]
profile_type = simple
atm_min_pressure = %r
atm_max_pressure = %r
nlayers = %d

[Planet]
planet_type = simple
planet_mass = %r
planet_radius = %r

[Star]
star_type = blackbody
temperature = %r
radius = %r

[Model]
model_type = %s
%s
    [[Absorption]]
%s""" % (case['xsec_path'], case['ratio'], gases, temp, case['pmin'], case['pmax'], case['nlayers'], case['mass'], case['radius'],
         case['tstar'], case['rstar'], case['model'], model_keys(case), '\n    [[Rayleigh]]\n' if case['rayleigh'] else '') + \
        ('\n[Observation]\nobserved_spectrum = %s\n' % case['obs_file'] if case.get('obs') else '') + \
        ('\n[Binning]\nbin_type = %s\n' % case['binning'] if case.get('binning') else '')


def model_keys(case):
    if case['model'] == 'transmission':
        return 'new_path_method = %s\n' % case.get('new_path_method', False)
    return 'ngauss = %d\n' % case.get('ngauss', 4)


def library_model(case):
    """the same components built directly through the library"""
    from taurex.cache import OpacityCache
    from taurex.data.profiles.temperature import Isothermal, Guillot2010
    from taurex.data.profiles.pressure import SimplePressureProfile
    from taurex.data.profiles.chemistry import TaurexChemistry, ConstantGas
    from taurex.data.planet import Planet
    from taurex.data.stellar import BlackbodyStar
    from taurex.model import TransmissionModel, EmissionModel, DirectImageModel
    from taurex.contributions import AbsorptionContribution, RayleighContribution
    OpacityCache().clear_cache()
    OpacityCache().set_opacity_path(case['xsec_path'])
    chem = TaurexChemistry(fill_gases=['H2', 'He'], ratio=case['ratio'])
    for m in case['mols']:
        chem.addGas(ConstantGas(m, mix_ratio=case['mix'][m]))
    temp = Isothermal(T=case['T']) if case['temp'] == 'isothermal' else Guillot2010(T_irr=case['T'])
    K = dict(transmission=TransmissionModel, emission=EmissionModel, directimage=DirectImageModel)[case['model']]
    extra = dict(new_path_method=case.get('new_path_method', False)) if case['model'] == 'transmission' else dict(ngauss=case.get('ngauss', 4))
    model = K(planet=Planet(planet_mass=case['mass'], planet_radius=case['radius']), star=BlackbodyStar(temperature=case['tstar'], radius=case['rstar']),
              pressure_profile=SimplePressureProfile(nlayers=case['nlayers'], atm_min_pressure=case['pmin'], atm_max_pressure=case['pmax']),
              temperature_profile=temp, chemistry=chem, **extra)
    model.add_contribution(AbsorptionContribution())
    if case['rayleigh']:
        model.add_contribution(RayleighContribution())
    model.build()
    return model


def run_cli(par, out, extra=()):
    import sys
    import io
    import contextlib
    from taurex import taurex as prog
    saved = sys.argv
    sys.argv = ['taurex', '-i', par, '-o', out] + list(extra)
    try:
        with contextlib.redirect_stdout(io.StringIO()):
            prog.main()
    finally:
        sys.argv = saved


def _b_cli(seed, tier):
    import os
    import random
    import shutil
    import tempfile
    import numpy as np
    import h5py
    from taurex.cache import OpacityCache, GlobalCache
    rng = random.Random(seed)
    here = os.path.dirname(os.path.dirname(os.path.abspath(__file__)))
    base = os.path.join(here, '.cache', 'c15')
    os.makedirs(base, exist_ok=True)
    N = len(_CLI_COMBOS) if tier == 'quick' else 4 * len(_CLI_COMBOS)
    fails, cases, samples = [], 0, []
    saved = dict(GlobalCache().variable_dict)
    for it in range(N):
        d = tempfile.mkdtemp(prefix='cli', dir=base)
        try:
            case = write_case(rng, d, _CLI_COMBOS[it % len(_CLI_COMBOS)])      # every observation x [Binning] combination, every run
            par, out = os.path.join(d, 'in.par'), os.path.join(d, 'out.h5')
            open(par, 'w').write(par_text(case))
            inp = {k: v for k, v in case.items() if k != 'xsec_path'}
            cases += 1
            try:
                OpacityCache().clear_cache()
                run_cli(par, out)
                with h5py.File(out, 'r') as f:
                    cli_spec = f['Output/Spectra/native_spectrum'][...]
                    cli_grid = f['Output/Spectra/native_wngrid'][...]
                    g = f['Output/Spectra']
                    # (the native binner stores no separate binned arrays: the stored spectrum is the native one)
                    cli_bgrid = g['binned_wngrid'][...] if 'binned_wngrid' in g else cli_grid
                    cli_bspec = g['binned_spectrum'][...] if 'binned_spectrum' in g else cli_spec
                lm = library_model(case)
                if case.get('obs'):
                    from taurex.data.spectrum.observed import ObservedSpectrum
                    obs = ObservedSpectrum(case['obs_file'])
                # the stored spectrum: the [Binning] selector decides, the observation's grid when there is none (and an observation)
                if case.get('binning') == 'native' or (case.get('binning') is None and not case.get('obs')):
                    want_grid, want_spec = cli_grid, cli_spec
                else:
                    res = obs.create_binner().bindown(cli_grid, cli_spec)
                    want_grid, want_spec = res[0], res[1]
                if cli_bgrid.shape != np.shape(want_grid) or not np.allclose(cli_bgrid, want_grid) or not np.allclose(cli_bspec, want_spec, rtol=1e-10, atol=0):
                    fails.append(dict(clause='cli.stored_spectrum_not_on_the_selected_binning', inputs=inp,
                                      got=dict(stored_points=int(cli_bgrid.shape[0]), expected_points=int(np.shape(want_grid)[0]))))
                lib = lm.model()
            except Exception as e:
                fails.append(dict(clause='cli.raises', inputs=inp, got=repr(e)[:300]))
                continue
            if cli_grid.shape != lib[0].shape or not np.allclose(cli_grid, lib[0]) or not np.allclose(cli_spec, lib[1], rtol=1e-10, atol=0):
                fails.append(dict(clause='cli.spectrum_differs_from_library', inputs=inp,
                                  got=float(np.max(np.abs(cli_spec / lib[1] - 1))) if cli_spec.shape == lib[1].shape else 'shape'))
            if it < 2:
                samples.append(inp)
        finally:
            OpacityCache().clear_cache()
            GlobalCache().variable_dict.clear()
            GlobalCache().variable_dict.update(saved)
            shutil.rmtree(d, ignore_errors=True)
    return {'cases': cases, 'failures': fails, 'samples': samples,
            'bound': '%d generated input files (1..2 molecules, isothermal / Guillot, transmission / emission / direct image, with and '
                     'without Rayleigh, with and without an observed spectrum, [Binning] absent / native / observed) run through '
                     'taurex.taurex.main and through the library' % N}


Bounded('C15', 'cli_equals_library', _b_cli, doc='whole-program statement: no contract within reach expresses it; bounded only')


# ------------------------------------------------------------------ build_new_mixed_class: mixins in the order written
def _bm_params(c):
    mix = c.choice('mixins')
    if c.mode == 'conc':
        return dict(base_klass='Base', mixins=list(mix))
    return dict(base_klass=FuncV('class', 'Base'), mixins=[FuncV('class', m) for m in mix])


def _h_type(ex, st, args, kwargs, node):
    """assumed: type(name, bases, namespace) creates a class with exactly these bases in this order"""
    if len(args) != 3:
        from pyvc.core import Unsupported
        raise Unsupported('type(x)')
    bases = st.get(args[1]).items if isinstance(args[1], Ref) else args[1]
    _ev(st, 'type', args[0], tuple(b.target if isinstance(b, FuncV) else b for b in bases))
    return FuncV('class', args[0])


def _bm_post(c, v0, v1, r):
    """the composite class lists the mixins as bases in the order they were written, then the base class (so the first
    mixin named comes first in the method resolution order), and is named after them"""
    mix = list(c.fixed['mixins'] if c.mode != 'conc' else c.values['mixins'])
    if c.mode == 'conc':
        bases, name = r
    else:
        ev = [e for e in (c.trace or []) if e[0] == 'type']
        if len(ev) != 1:
            return {'one_class_created': False}
        name, bases = ev[0][1], ev[0][2]
    return {'bases_in_written_order': list(bases) == mix + ['Base'], 'name': name == '+'.join(x[:10] for x in mix + ['Base'])}


def _bm_native(c, p):
    import taurex.mixin.core as mc
    ns = {}
    for m in list(p['mixins']) + ['Base']:
        exec('class %s:\n    pass' % m, ns)
    k = mc.build_new_mixed_class(ns['Base'], [ns[m] for m in p['mixins']])
    return ([b.__name__ for b in k.__bases__], k.__name__), p


_BM_CASES = [dict(mixins=m) for m in ((), ('MixA',), ('MixB', 'MixA'), ('MixA', 'MixB'), ('Zeta', 'Alpha', 'Mid'), ('AVeryLongMixinName', 'B'))]
BM = Unit('C15', 'taurex.mixin.core:build_new_mixed_class', _bm_params, post=_bm_post, cases=_BM_CASES, bounds=[{}], native=_bm_native,
          abstract={'new:type': _h_type},
          gen=lambda rng: dict(rng.choice(_BM_CASES)), short='build_new_mixed_class',
          doc='mixin1+mixin2+base builds a class whose bases are the mixins in the order written, then the base')


# ================================================================== ParameterParser: from the parsed sections to the object graph
PPQ = 'taurex.parameter.parameterparser:ParameterParser.'
_SECTIONS = ['Chemistry', 'Pressure', 'Temperature', 'Planet', 'Star']
_GEN = {'Chemistry': 'create_chemistry', 'Pressure': 'create_pressure_profile', 'Temperature': 'create_temperature_profile',
        'Planet': 'create_planet', 'Star': 'create_star'}


def _h_cfg_dict(ex, st, o, args, kwargs, node):
    c = ex.c
    secs = {}
    for nm in c.fixed['sections']:
        secs[nm] = st.alloc(c, PyDict({'tag': 'section:%s' % nm}))
    if c.fixed.get('fitting') is not None:
        secs['Fitting'] = st.alloc(c, PyDict(dict(c.fixed['fitting'])))
    if c.fixed.get('derive') is not None:
        secs['Derive'] = st.alloc(c, PyDict(dict(c.fixed['derive'])))
    return st.alloc(c, PyDict(secs))


def _h_create(kind):
    def h(ex, st, args, kwargs, node):
        cfg = st.get(args[0]).items.get('tag') if isinstance(args[0], Ref) else None
        _ev(st, kind, cfg)
        return AbsObj('Built', kind, {})
    return h


def _h_create_model(ex, st, args, kwargs, node):
    tag = lambda x: (x.ident if isinstance(x, AbsObj) else x)
    cfg = st.get(args[0]).items.get('tag') if isinstance(args[0], Ref) else None
    _ev(st, 'create_model', cfg, tuple(tag(a) for a in args[1:]), {k: tag(v) for k, v in kwargs.items()})
    return AbsObj('Built', 'model', {})


def _gm_params(c):
    given = c.choice('given')
    mk = lambda nm: AbsObj('Given', 'given:%s' % nm, {}) if nm in given else None
    if c.mode == 'conc':
        return dict(self=dict(__obj__='ParameterParser'), chemistry=None, pressure=None, temperature=None, planet=None, star=None, obs=None)
    return dict(self=ObjSpec('ParameterParser', _raw_config=AbsObj('ConfigObj', 0, {})), chemistry=mk('Chemistry'), pressure=mk('Pressure'),
                temperature=mk('Temperature'), planet=mk('Planet'), star=mk('Star'), obs=AbsObj('Given', 'given:obs', {}) if 'obs' in given else None)


def _gm_expected(fx):
    """documented: a component handed in is used as it is; a missing one is built from its own section (None when the section is
    missing); the model is built from the Model section with the components in the order chemistry, temperature, pressure,
    planet, star, and the observation by keyword"""
    secs, given = fx['sections'], fx['given']
    if 'Model' not in secs:
        return None, []
    built, comp = [], {}
    for nm in _SECTIONS:
        if nm in given:
            comp[nm] = 'given:%s' % nm
        elif nm in secs:
            built.append((_GEN[nm], 'section:%s' % nm))
            comp[nm] = _GEN[nm]
        else:
            comp[nm] = None
    call = ('create_model', 'section:Model', (comp['Chemistry'], comp['Temperature'], comp['Pressure'], comp['Planet'], comp['Star']),
            {'observation': 'given:obs' if 'obs' in given else None})
    return call, built


def _gm_post(c, v0, v1, r):
    fx = c.fixed if c.mode != 'conc' else c.values
    call, built = _gm_expected(fx)
    tr = list(c.trace or [])
    if call is None:
        return {'no_model_section_no_model': (r is None) and not tr}
    gens = [e for e in tr if e[0] != 'create_model']
    cm = [e for e in tr if e[0] == 'create_model']
    return {'missing_components_built_from_their_own_sections_in_order': [tuple(e) for e in gens] == built,
            'model_built_once_from_the_model_section_with_the_components_in_the_documented_order': [tuple(e) for e in cm] == [call],
            'returns_that_model': (r == 'model') if c.mode == 'conc' else (isinstance(c.raw['ret'], AbsObj) and c.raw['ret'].ident == 'model')}


def _gm_native(c, p):
    import taurex.parameter.parameterparser as mod
    fx = c.values
    trace = []

    class _Cfg:
        def dict(self):
            return {nm: {'tag': 'section:%s' % nm} for nm in fx['sections']}
    saved = {}
    tag = lambda x: getattr(x, 'tag', x)

    class _B:
        def __init__(self, t):
            self.tag = t
    pairs = []
    for sec, fn in _GEN.items():
        pairs += [getattr(mod, fn), (lambda cfg, fn=fn: (trace.append((fn, cfg.get('tag'))), _B(fn))[1])]

    def cm(cfg, *a, **k):
        trace.append(('create_model', cfg.get('tag'), tuple(tag(x) for x in a), {kk: tag(vv) for kk, vv in k.items()}))
        return 'model'
    pairs += [mod.create_model, cm]
    from pyvc.unit import patched
    with patched(*pairs):
        o = mod.ParameterParser.__new__(mod.ParameterParser)
        o._raw_config = _Cfg()
        kw = {nm.lower(): (_B('given:%s' % nm) if nm in fx['given'] else None) for nm in _SECTIONS}
        r = o.generate_model(obs=_B('given:obs') if 'obs' in fx['given'] else None, **kw)
    return r, dict(p, __trace__=trace)


_GM_CASES = [dict(sections=tuple(s), given=tuple(g)) for s, g in [
    (('Model',) + tuple(_SECTIONS), ()), (('Model',) + tuple(_SECTIONS), ('Chemistry', 'obs')), (('Model', 'Chemistry', 'Planet'), ()),
    (('Model',), ('Temperature', 'Pressure')), (tuple(_SECTIONS), ()), (('Model', 'Temperature', 'Pressure', 'Star'), ('Star', 'Planet'))]]
GMU = Unit('C15', PPQ + 'generate_model', _gm_params, post=_gm_post, cases=_GM_CASES, bounds=[{}], native=_gm_native,
           abstract=dict({'ConfigObj.dict': _h_cfg_dict, 'call:create_model': _h_create_model}, **{'call:' + fn: _h_create(fn) for fn in _GEN.values()}),
           inline=['generate_chemistry_profile', 'generate_pressure_profile', 'generate_temperature_profile', 'generate_planet', 'generate_star'],
           gen=lambda rng: dict(rng.choice(_GM_CASES)), short='ParameterParser.generate_model',
           doc='the model of an input file: built once from the Model section; every component not handed in is built from its own '
               'section (enumerated section sets), and the components reach create_model in the order chemistry, temperature, pressure, '
               'planet, star (create_* factories by their own units)')


# ------------------------------------------------------------------ generate_fitting_parameters / setup_optimizer: the Fitting and Derive sections
_FIT_CASES = [dict(sections=(), fitting=f, derive=d) for f, d in [
    (None, None),
    ((('T:fit', True), ('T:bounds', 'B1'), ('R:mode', 'LOG')), None),
    ((('T:fit', False), ('R:fit', True), ('R:factor', 'F1'), ('R:prior', 'Uniform(bounds=(1, 2))')), (('mu:compute', True), ('x:compute', False))),
    ((('R:bounds', 'B2'), ('R:fit', True), ('T:prior', 'LogUniform(bounds=(0, 1))'), ('T:mode', 'linear')), (('mu:compute', None),))]]


def _h_create_prior(ex, st, args, kwargs, node):
    _ev(st, 'create_prior', args[0])
    return AbsObj('Prior', 'prior<%s>' % args[0], {})


def _gf_expected(fx):
    out = {}
    for key, value in (fx['fitting'] or ()):
        nm, typ = key.split(':')
        out.setdefault(nm, {'fit': False, 'bounds': None, 'mode': None, 'factor': None, 'prior': None})
        out[nm][typ] = ('prior<%s>' % value) if typ == 'prior' else value
    return out


def _gf_post(c, v0, v1, r):
    fx = c.fixed if c.mode != 'conc' else c.values
    want = _gf_expected(fx)
    if c.mode == 'conc':
        got = {k: {kk: (getattr(vv, 'tag', vv)) for kk, vv in v.items()} for k, v in r.items()}
    else:
        heap = c.raw['state'].heap
        ret = c.raw['ret']
        top = heap[ret.id].items if isinstance(ret, Ref) and isinstance(heap[ret.id], PyDict) else None
        got = None if top is None else {k: {kk: (vv.ident if isinstance(vv, AbsObj) else vv) for kk, vv in heap[v.id].items.items()} for k, v in top.items()}
    return {'one_entry_per_parameter_with_every_setting_of_the_section': got == want,
            'parameters_in_the_order_of_the_file': got is not None and list(got.keys()) == list(want.keys())}


def _mk_parser(mod, fx):
    class _Cfg:
        def dict(self):
            d = {}
            if fx['fitting'] is not None:
                d['Fitting'] = dict(fx['fitting'])
            if fx['derive'] is not None:
                d['Derive'] = dict(fx['derive'])
            return d
    o = mod.ParameterParser.__new__(mod.ParameterParser)
    for nm in ('debug', 'info', 'warning', 'error', 'critical'):
        setattr(o, nm, lambda *a, **k: None)
    o._raw_config = _Cfg()
    return o


def _gf_native(c, p):
    import taurex.parameter.parameterparser as mod
    import taurex.parameter.factory as fac
    saved = fac.create_prior

    class _P:
        def __init__(self, t):
            self.tag = t
    from pyvc.unit import patched
    with patched(saved, lambda text: _P('prior<%s>' % text)):
        r = _mk_parser(mod, c.values).generate_fitting_parameters()
    return r, p


GFP = Unit('C15', PPQ + 'generate_fitting_parameters', lambda c: dict(self=ObjSpec('ParameterParser', _raw_config=AbsObj('ConfigObj', 0, {}))
                                                                      if c.mode != 'conc' else dict(__obj__='ParameterParser')),
           post=_gf_post, cases=_FIT_CASES, bounds=[{}], abstract={'ConfigObj.dict': _h_cfg_dict, 'call:create_prior': _h_create_prior}, native=_gf_native,
           gen=lambda rng: dict(rng.choice(_FIT_CASES)), short='ParameterParser.generate_fitting_parameters',
           doc='the Fitting section "name:setting = value" becomes one entry per parameter with fit / bounds / mode / factor / prior (a prior '
               'text through create_prior, by its own bounded item), unset settings None (fit False); enumerated sections')


def _h_opt(name):
    def h(ex, st, o, args, kwargs, node):
        _ev(st, name, *[(a.ident if isinstance(a, AbsObj) else a) for a in args])
        return None
    return h


def _so_expected(fx):
    out = []
    for nm, v in _gf_expected(fx).items():
        out.append(('enable_fit' if v['fit'] else 'disable_fit', nm))
        if v['factor']:
            out.append(('set_factor_boundary', nm, v['factor']))
        if v['bounds']:
            out.append(('set_boundary', nm, v['bounds']))
        if v['mode']:
            out.append(('set_mode', nm, v['mode'].lower()))
        if v['prior'] is not None:
            out.append(('set_prior', nm, v['prior']))
    for key, value in (fx['derive'] or ()):
        nm = key.split(':')[0]
        if value is not None:
            out.append(('enable_derived' if value else 'disable_derived', nm))
    return out


def _so_post(c, v0, v1, r):
    fx = c.fixed if c.mode != 'conc' else c.values
    tr = [tuple(e) for e in (c.trace or []) if e[0] != 'create_prior']
    return {'optimizer_configured_exactly_as_the_sections_say_in_file_order': tr == _so_expected(fx)}


def _so_native(c, p):
    import taurex.parameter.parameterparser as mod
    import taurex.parameter.factory as fac
    trace = []

    class _P:
        def __init__(self, t):
            self.tag = t

    class _Opt:
        def __getattr__(self, name):
            return lambda *a: trace.append((name,) + tuple(getattr(x, 'tag', x) for x in a))
    saved = fac.create_prior
    from pyvc.unit import patched
    with patched(saved, lambda text: _P('prior<%s>' % text)):
        _mk_parser(mod, c.values).setup_optimizer(_Opt())
    return None, dict(p, __trace__=trace)


SOP = Unit(['C15', 'C07'], PPQ + 'setup_optimizer', lambda c: dict(self=ObjSpec('ParameterParser', _raw_config=AbsObj('ConfigObj', 0, {}))
                                                                   if c.mode != 'conc' else dict(__obj__='ParameterParser'),
                                                                   optimizer=AbsObj('Optimizer', 0, {}) if c.mode != 'conc' else dict(__obj__='Optimizer')),
           post=_so_post, cases=_FIT_CASES, bounds=[{}], native=_so_native, gen=lambda rng: dict(rng.choice(_FIT_CASES)),
           abstract=dict({'ConfigObj.dict': _h_cfg_dict, 'call:create_prior': _h_create_prior},
                         **{'Optimizer.' + m: _h_opt(m) for m in ('enable_fit', 'disable_fit', 'set_factor_boundary', 'set_boundary', 'set_mode',
                                                                  'set_prior', 'enable_derived', 'disable_derived')}),
           inline=['generate_fitting_parameters', 'generate_derived_parameters'], short='ParameterParser.setup_optimizer',
           doc='what the input file asks of a retrieval reaches the optimizer: per parameter enable/disable, factor, bounds, lower-cased mode and '
               'prior, then the derived parameters, in file order and nothing else (the Optimizer mutators by their own units, C07)')


# ------------------------------------------------------------------ bounded: `... = custom` + python_file selects the class written in that file
def _b_custom(seed, tier):
    """a user file imports its base class and defines ONE subclass: the selector must resolve to that subclass whatever its name
    (importlib / inspect reflection: no contract within reach, bounded only)"""
    import os
    import random
    import tempfile
    from taurex.parameter.factory import detect_and_return_klass
    rng = random.Random(seed)
    here = os.path.dirname(os.path.dirname(os.path.abspath(__file__)))
    base = os.path.join(here, '.cache', 'c15')
    os.makedirs(base, exist_ok=True)
    bases = [('taurex.data.profiles.temperature', 'TemperatureProfile'), ('taurex.data.stellar.star', 'Star'), ('taurex.data.planet', 'Planet'),
             ('taurex.data.profiles.chemistry.chemistry', 'Chemistry'), ('taurex.contributions', 'Contribution'), ('taurex.data.profiles.pressure', 'PressureProfile')]
    fails, cases = [], 0
    rounds = 1 if tier == 'quick' else 6
    for _ in range(rounds):
        for mod, bname in bases:
            B = getattr(__import__(mod, fromlist=[bname]), bname)
            # names that sort before and after the base-class name, and around upper / lower case
            names = ['A' + bname, 'Z' + bname, bname + 'X', 'My' + rng.choice(['Warm', 'Rocky', 'Sun', 'Two']) + bname, 'aaa_' + bname.lower(), 'zzz_' + bname.lower()]
            for nm in names:
                cases += 1
                fd, path = tempfile.mkstemp(suffix='.py', dir=base)
                os.close(fd)
                try:
                    with open(path, 'w') as f:
                        f.write('import numpy as np\nfrom %s import %s\n\n\nclass %s(%s):\n    marker = %r\n' % (mod, bname, nm, bname, nm))
                    try:
                        K = detect_and_return_klass(path, B)
                    except Exception as e:
                        fails.append(dict(clause='custom.raises', inputs=dict(base=bname, user_class=nm), got=repr(e)[:200]))
                        continue
                    if K is B or getattr(K, '__name__', None) != nm or getattr(K, 'marker', None) != nm:
                        fails.append(dict(clause='custom.another_class_selected', inputs=dict(base=bname, user_class=nm), got=getattr(K, '__name__', repr(K))))
                finally:
                    os.remove(path)
            # a file without any subclass is an error, not a silent choice of the base class
            cases += 1
            fd, path = tempfile.mkstemp(suffix='.py', dir=base)
            os.close(fd)
            try:
                with open(path, 'w') as f:
                    f.write('from %s import %s\nx = 1\n' % (mod, bname))
                try:
                    K = detect_and_return_klass(path, B)
                    fails.append(dict(clause='custom.file_without_subclass_accepted', inputs=dict(base=bname), got=getattr(K, '__name__', repr(K))))
                except Exception:
                    pass
            finally:
                os.remove(path)
    return {'cases': cases, 'failures': fails, 'samples': [dict(base='Star', user_class='ZStar')],
            'bound': '%d generated user files (6 base classes x 6 class names sorting before / after the base name, plus a file without subclass) x %d rounds' % (cases // rounds, rounds)}


Bounded('C15', 'custom_python_file_selects_the_user_class', _b_custom, doc='detect_and_return_klass: importlib / inspect reflection; bounded only')
