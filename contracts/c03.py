"""C03 -- optical depth composes additively over contributions and species.

Under contract here: the component generators (`prepare_each` of CIA, Rayleigh, Absorption: what every component
is, and -- the yield invariant -- that the contribution's own `sigma_xsec` IS that component while the consumer
holds it, which is what model_full_contrib relies on), `prepare` (sum of the components although one buffer is
re-used between yields), the K2 refinements CIAContribution.contribute / AbsorptionContribution.contribute,
model_contrib / model_full_contrib (list swapped and restored, one evaluation per contribution / component) and the
lemmas that turn "tau is a sum" into "transmittance is a product, in any order".
K1, contribute_cia, Contribution.contribute and path_integral (C01) carry C03 as well (see kernels.py, c01.py)."""
import itertools
import z3
from pyvc.unit import Unit, ObjSpec, Lemma, GenTrace
from pyvc.engine import AbsObj
from pyvc.core import Arr, PyDict, PyList, Ref, to_int, to_real, INT, REAL

GASES = ['H2', 'He', 'N2', 'H2O']
PAIRS = [('H2-H2', 'H2', 'H2'), ('H2-He', 'H2', 'He'), ('N2-N2', 'N2', 'N2')]


def _chem(c, n, names, **extra):
    """chemistry double: one abstract mixing-ratio profile per gas name"""
    attrs = {'mix_' + g: c.array('mix_' + g, (n,)) for g in names}
    attrs.update(extra)
    if c.mode == 'conc':
        return dict(attrs, __obj__='Chemistry')
    return AbsObj('Chemistry', 0, attrs)


def _get_mix(ex, st, o, args, kwargs, node):
    """assumed contract of Chemistry.get_gas_mix_profile(name): the profile of that gas (one value per layer)"""
    return o.attrs['mix_' + args[0]]


def _mix(v, name):
    ch = v.model.chemistry
    return ch['mix_' + name]


class _NS:
    def __init__(self, **kw):
        self.__dict__.update(kw)


class _FakeChem:
    def __init__(self, d, active=(), inactive=()):
        self._d, self.activeGases, self.inactiveGases = d, list(active), list(inactive)

    def get_gas_mix_profile(self, name):
        import numpy as np
        return np.array(self._d['mix_' + name], dtype=float)


def _quiet(o):
    for nm in ('debug', 'info', 'warning', 'error', 'critical'):
        setattr(o, nm, lambda *a, **k: None)
    return o


def _same_arr(c, a, b, n, W):
    if a is None or b is None or not hasattr(a, 'shape') or not hasattr(b, 'shape'):
        return False
    if c.mode == 'conc' and tuple(a.shape) != tuple(b.shape):
        return False
    return c.Forall2((0, n), (0, W), lambda l, w: c.Eq(a[l, w], b[l, w]))


# ------------------------------------------------------------------ CIAContribution.prepare_each (generator)
CIA = 'taurex.contributions.cia:CIAContribution.'


def _ciax(c):
    return c.func('CIAx', INT, REAL, INT, REAL)


def _abs_cia(ex, st, o, args, kwargs, node):
    """assumed contract of CIA.cia(T, wngrid): one value per grid point, a function of the pair, T and the point"""
    c = ex.c
    T, wn = args
    W = st.get(wn).shape[0]
    f = _ciax(c)
    return st.alloc(c, Arr((W,), lambda ix, T=T: f(o.ident, to_real(T), to_int(ix[0])), 'real'))


def _cia_params(c):
    P = c.choice('P')
    n, W = c.int('n'), c.int('W')
    pairs = PAIRS[:P]
    names = sorted({g for _, a, b in pairs for g in (a, b)})
    if c.mode == 'conc':
        import numpy as np
        xs = [np.array(c.values.get('xs%d' % k, [1.0] * W), dtype=float) for k in range(P)]
        c.concrete_funcs = {'CIAx': lambda k, T, w: xs[k][w] * (1.0 + T / 1000.0)}
        cache = {nm: dict(__obj__='CIA', pairOne=a, pairTwo=b, ident=k) for k, (nm, a, b) in enumerate(pairs)}
        for k in range(P):
            c.inputs.append(('arr', 'xs%d' % k, ((W,), None, 'real')))
    else:
        cache = {nm: AbsObj('CIA', k, {'pairOne': a, 'pairTwo': b}) for k, (nm, a, b) in enumerate(pairs)}
    return dict(self=ObjSpec('CIAContribution', _cia_pairs=[nm for nm, _, _ in pairs], _cia_cache=cache, sigma_xsec=None,
                             _total_cia=None, _nlayers=None, _ngrid=None),
                model=ObjSpec('SimpleForwardModel', nLayers=n, temperatureProfile=c.array('T', (n,)),
                              chemistry=_chem(c, n, names)),
                wngrid=c.array('wngrid', (W,)))


def cia_pre(c, v):
    return {'sizes': c.And(v.model.nLayers >= 0, c.Len(v.wngrid) >= 0, c.Len(v.model.temperatureProfile) == v.model.nLayers)}


def _cia_comp(c, v0, k, l, w):
    """documented component: the pair's cross-section at the layer temperature times both partners' mixing ratios"""
    nm, a, b = PAIRS[k]
    return _ciax(c)(k, v0.model.temperatureProfile[l], w) * (_mix(v0, a)[l] * _mix(v0, b)[l])


def cia_yields(c, v0, v, k, val):
    n, W = v0.model.nLayers, c.Len(v0.wngrid)
    name, sig = val
    P = len(v0.self._cia_pairs)
    if k >= P:
        return {'count': False}
    s = v.self
    return {'name': name == PAIRS[k][0],
            'shape': c.And(c.Shape(sig)[0] == n, c.Shape(sig)[1] == W),
            'component': c.Forall2((0, n), (0, W), lambda l, w: c.Eq(sig[l, w], _cia_comp(c, v0, k, l, w))),
            'current_sigma_is_component': _same_arr(c, s.sigma_xsec, sig, n, W),
            'current_sizes': c.And(s._total_cia == P, s._nlayers == n, s._ngrid == W)}


def cia_post(c, v0, v1, r):
    return {'one_component_per_pair': len(r) == len(v0.self._cia_pairs)}


def cia_inv(c, v, v0, k):
    n, W = v0.model.nLayers, c.Len(v0.wngrid)
    pi = [nm for nm, _, _ in PAIRS].index(v.pairName)
    return {'shape': c.And(c.Shape(v.sigma_cia)[0] == n, c.Shape(v.sigma_cia)[1] == W),
            'done': c.Forall2((0, k), (0, W), lambda l, w: v.sigma_cia[l, w] == _cia_comp(c, v0, pi, l, w)),
            'todo': c.Forall2((k, n), (0, W), lambda l, w: v.sigma_cia[l, w] == 0)}


def _cia_obj(c, p):
    from taurex.contributions.cia import CIAContribution
    o = CIAContribution.__new__(CIAContribution)
    _quiet(o)
    o.sigma_xsec = None
    return o


def _fake_cia(c, k, a, b):
    import numpy as np
    f = c.concrete_funcs['CIAx']
    return _NS(pairOne=a, pairTwo=b, cia=lambda T, wn, k=k: np.array([f(k, float(T), w) for w in range(len(wn))]))


def _cia_model(c, p):
    import numpy as np
    m = p['model']
    return _NS(nLayers=m['nLayers'], temperatureProfile=np.array(m['temperatureProfile'], dtype=float),
               chemistry=_FakeChem(m['chemistry']))


def _state(p, o, attrs):
    import numpy as np
    s = dict(p['self'])
    for a in attrs:
        x = getattr(o, a, None)
        s[a] = np.array(x, dtype=float) if isinstance(x, np.ndarray) else x
    return dict(p, self=s)


def _cia_call(c, o, p):
    import numpy as np
    s = p['self']
    o._cia_pairs = list(s['_cia_pairs'])
    o._cia_cache = {nm: _fake_cia(c, d['ident'], d['pairOne'], d['pairTwo']) for nm, d in s['_cia_cache'].items()}
    vals, states = [], []
    for nm, sig in o.prepare_each(_cia_model(c, p), np.array(p['wngrid'], dtype=float)):
        vals.append((nm, np.array(sig, dtype=float)))
        states.append(_state(p, o, ('sigma_xsec', '_total_cia', '_nlayers', '_ngrid')))
    return GenTrace(vals, states), p


def _cia_gen(rng):
    P, n, W = rng.randint(0, 3), rng.randint(1, 4), rng.randint(1, 3)
    T0 = rng.uniform(300, 2000)
    d = dict(P=P, n=n, W=W, wngrid=[500.0 * (i + 1) for i in range(W)],
             T=[T0 if rng.random() < 0.4 else rng.uniform(300, 2000) for _ in range(n)])
    if rng.random() < 0.3:
        d['T'][-1] = d['T'][0]
    for g in ('H2', 'He', 'N2'):
        d['mix_' + g] = [rng.choice([0.0, rng.uniform(0, 1)]) for _ in range(n)]
    for k in range(P):
        d['xs%d' % k] = [10 ** rng.uniform(-3, 0) for _ in range(W)]
    return d


CIAP = Unit('C03', CIA + 'prepare_each', _cia_params, pre=cia_pre, post=cia_post, yields=cia_yields,
            invariants={1: cia_inv}, abstract={'Chemistry.get_gas_mix_profile': _get_mix, 'CIA.cia': _abs_cia},
            cases=[{'P': k} for k in (0, 1, 2, 3)], bounds=[dict(n=2, W=1)], native_obj=_cia_obj, native_call=_cia_call,
            gen=_cia_gen, frame_attrs=[('self', a) for a in ('sigma_xsec', '_total_cia', '_nlayers', '_ngrid')],
            short='CIAContribution.prepare_each',
            doc='k-th component = cia_k(T_layer) x mix_a x mix_b layer by layer; while the consumer holds it the '
                'contribution\'s own sigma_xsec is that component (code level: 0..3 pairs, every layer/grid count)')


# ------------------------------------------------------------------ RayleighContribution.prepare_each (generator)
RAY = 'taurex.contributions.rayleigh:RayleighContribution.'


def _rayx(c):
    return c.func('RAYx', INT, INT, REAL)


def _abs_ray_sigma(ex, st, args, kwargs, node):
    """assumed contract of rayleigh_sigma_from_name(name, wngrid): None for a gas without scattering data, else one
    value per grid point"""
    c = ex.c
    name, wn = args
    gi = GASES.index(name)
    if not c.fixed.get('ray', c.values.get('ray') if hasattr(c, 'values') else None)[gi]:
        return None
    W = st.get(wn).shape[0]
    f = _rayx(c)
    return st.alloc(c, Arr((W,), lambda ix: f(gi, to_int(ix[0])), 'real'))


def _ray_params(c):
    ray = c.choice('ray')               # per gas: does scattering data exist
    A = c.choice('A')                   # the first A gases are active, the others inactive
    G = len(ray)
    n, W = c.int('n'), c.int('W')
    names = GASES[:G]
    if c.mode == 'conc':
        import numpy as np
        rs = [np.array(c.values.get('ray%d' % k, [1.0] * W), dtype=float) for k in range(G)]
        c.concrete_funcs = {'RAYx': lambda g, w: rs[g][w]}
        for k in range(G):
            c.inputs.append(('arr', 'ray%d' % k, ((W,), None, 'real')))
    return dict(self=ObjSpec('RayleighContribution', sigma_xsec=None, _nlayers=None, _ngrid=None, _nmols=None),
                model=ObjSpec('SimpleForwardModel', nLayers=n,
                              chemistry=_chem(c, n, names, activeGases=list(names[:A]), inactiveGases=list(names[A:]))),
                wngrid=c.array('wngrid', (W,)))


def ray_pre(c, v):
    n = v.model.nLayers
    ch = v.model.chemistry
    names = list(ch.activeGases) + list(ch.inactiveGases)
    return {'sizes': c.And(n >= 1, c.Len(v.wngrid) >= 0),
            'mix_nonneg': c.And(*[c.Forall(0, n, lambda l, g=g: c.Le(0, _mix(v, g)[l])) for g in names])}


def _ray_flags(c):
    return c.fixed['ray'] if c.mode != 'conc' else c.values['ray']


def ray_yields(c, v0, v, k, val):
    n, W = v0.model.nLayers, c.Len(v0.wngrid)
    name, sig = val
    if name not in GASES:
        return {'name': False}
    gi = GASES.index(name)
    s = v.self
    return {'has_data': bool(_ray_flags(c)[gi]),
            'shape': c.And(c.Shape(sig)[0] == n, c.Shape(sig)[1] == W),
            'component': c.Forall2((0, n), (0, W), lambda l, w: c.Eq(sig[l, w], _rayx(c)(gi, w) * _mix(v0, name)[l])),
            'current_sigma_is_component': _same_arr(c, s.sigma_xsec, sig, n, W),
            'current_sizes': c.And(s._nlayers == n, s._ngrid == W)}


def ray_post(c, v0, v1, r):
    """every gas with scattering data is yielded once, in chemistry order (active then inactive), unless its
    abundance is zero in every layer (then its component would be zero anyway)"""
    ch = v0.model.chemistry
    n = v0.model.nLayers
    names = list(ch.activeGases) + list(ch.inactiveGases)
    got = [nm for nm, _ in r]
    flags = _ray_flags(c)
    d = {'order': got == [g for g in names if g in got], 'no_duplicates': len(set(got)) == len(got),
         'only_gases_with_data': all(flags[GASES.index(g)] for g in got)}
    for g in names:
        if flags[GASES.index(g)] and g not in got:
            d['skipped_%s_is_absent' % g] = c.Forall(0, n, lambda l, g=g: c.Le(_mix(v0, g)[l], 0))
    return d


def _ray_obj(c, p):
    from taurex.contributions.rayleigh import RayleighContribution
    o = RayleighContribution.__new__(RayleighContribution)
    _quiet(o)
    o.sigma_xsec = None
    return o


def _ray_call(c, o, p):
    import numpy as np
    import taurex.util.scattering as sc
    m = p['model']
    ch = m['chemistry']
    flags = c.values['ray']
    f = c.concrete_funcs['RAYx']
    model = _NS(nLayers=m['nLayers'], chemistry=_FakeChem(ch, ch['activeGases'], ch['inactiveGases']))
    real = sc.rayleigh_sigma_from_name
    sc.rayleigh_sigma_from_name = lambda name, wn: (np.array([f(GASES.index(name), w) for w in range(len(wn))])
                                                    if flags[GASES.index(name)] else None)
    vals, states = [], []
    try:
        for nm, sig in o.prepare_each(model, np.array(p['wngrid'], dtype=float)):
            vals.append((nm, np.array(sig, dtype=float)))
            states.append(_state(p, o, ('sigma_xsec', '_nlayers', '_ngrid', '_nmols')))
    finally:
        sc.rayleigh_sigma_from_name = real
    return GenTrace(vals, states), p


_RAY_CASES = [{'ray': pat, 'A': min(1, G)} for G in (0, 1, 2, 3) for pat in itertools.product((False, True), repeat=G)] + \
    [{'ray': (True, True), 'A': 2}, {'ray': (True, True), 'A': 0}]


def _ray_gen(rng):
    case = dict(rng.choice(_RAY_CASES))
    n, W = rng.randint(1, 4), rng.randint(1, 3)
    d = dict(case, n=n, W=W, wngrid=[500.0 * (i + 1) for i in range(W)])
    for k, g in enumerate(GASES[:len(case['ray'])]):
        d['mix_' + g] = [0.0] * n if rng.random() < 0.3 else [rng.choice([0.0, rng.uniform(0, 1)]) for _ in range(n)]
        d['ray%d' % k] = [10 ** rng.uniform(-3, 0) for _ in range(W)]
    return d


RAYP = Unit('C03', RAY + 'prepare_each', _ray_params, pre=ray_pre, post=ray_post, yields=ray_yields,
            abstract={'Chemistry.get_gas_mix_profile': _get_mix, 'call:rayleigh_sigma_from_name': _abs_ray_sigma},
            cases=_RAY_CASES, bounds=[dict(n=2, W=1)], native_obj=_ray_obj, native_call=_ray_call, gen=_ray_gen,
            frame_attrs=[('self', a) for a in ('sigma_xsec', '_nlayers', '_ngrid', '_nmols')],
            short='RayleighContribution.prepare_each',
            doc='component of a gas = its Rayleigh cross-section x its mixing ratio layer by layer; gases absent '
                'everywhere or without data contribute nothing (code level: 0..3 gases, every data pattern)')


# ------------------------------------------------------------------ AbsorptionContribution.prepare_each (generator)
ABS = 'taurex.contributions.absorption:AbsorptionContribution.'


def _xsx(c):
    return c.func('XSx', INT, REAL, REAL, INT, REAL)


def _abs_opacity(ex, st, o, args, kwargs, node):
    """assumed contract of Opacity.opacity(T, P, wngrid): one value per grid point, a function of the molecule, T,
    P and the point (C04/C13 say which function)"""
    c = ex.c
    T, P, wn = args
    W = st.get(wn).shape[0]
    f = _xsx(c)
    return st.alloc(c, Arr((W,), lambda ix, T=T, P=P: f(o.ident, to_real(T), to_real(P), to_int(ix[0])), 'real'))


def _new_cache(ex, st, args, kwargs, node):
    return st.alloc(ex.c, PyDict({g: AbsObj('Opacity', gi, {}) for gi, g in enumerate(GASES)}))


def _new_globalcache(ex, st, args, kwargs, node):
    return st.alloc(ex.c, PyDict({'opacity_method': 'xsec'}))


def _ab_params(c):
    G = c.choice('G')
    n, W = c.int('n'), c.int('W')
    names = GASES[:G]
    if c.mode == 'conc':
        import numpy as np
        xs = [np.array(c.values.get('xs%d' % k, [1.0] * W), dtype=float) for k in range(G)]
        c.concrete_funcs = {'XSx': lambda g, T, P, w: xs[g][w] * (1.0 + T / 1000.0) * (1.0 + P * 1e-6)}
        for k in range(G):
            c.inputs.append(('arr', 'xs%d' % k, ((W,), None, 'real')))
    return dict(self=ObjSpec('AbsorptionContribution', sigma_xsec=None, _nlayers=c.int('nl'), _ngrid=None, _use_ktables=None,
                             _opacity_cache=None, weights=None),
                model=ObjSpec('SimpleForwardModel', nLayers=n, temperatureProfile=c.array('T', (n,)),
                              pressureProfile=c.array('P', (n,)), chemistry=_chem(c, n, names, activeGases=list(names))),
                wngrid=c.array('wngrid', (W,)))


def ab_pre(c, v):
    n = v.model.nLayers
    return {'sizes': c.And(n >= 0, c.Len(v.wngrid) >= 0, c.Len(v.model.temperatureProfile) == n,
                           c.Len(v.model.pressureProfile) == n)}


def _ab_comp(c, v0, gi, l, w):
    m = v0.model
    return _xsx(c)(gi, m.temperatureProfile[l], m.pressureProfile[l], w) * _mix(v0, GASES[gi])[l]


def ab_yields(c, v0, v, k, val):
    n, W = v0.model.nLayers, c.Len(v0.wngrid)
    name, sig = val
    names = list(v0.model.chemistry.activeGases)
    if k >= len(names):
        return {'count': False}
    s = v.self
    d = {'name': name == names[k],
         'shape': c.And(len(c.Shape(sig)) == 2, c.Shape(sig)[0] == n, c.Shape(sig)[1] == W)}
    if c.mode == 'conc' and not d['shape']:
        return d
    d.update({'component': c.Forall2((0, n), (0, W), lambda l, w: c.Eq(sig[l, w], _ab_comp(c, v0, k, l, w))),
              'current_sigma_is_component': _same_arr(c, s.sigma_xsec, sig, n, W),
              'current_sizes': c.And(s._ngrid == W, s._use_ktables is False)})
    return d


def ab_post(c, v0, v1, r):
    return {'one_component_per_active_gas': len(r) == len(v0.model.chemistry.activeGases)}


def ab_inv(c, v, v0, k):
    n, W = v0.model.nLayers, c.Len(v0.wngrid)
    gi = GASES.index(v.gas)
    return {'shape': c.And(c.Shape(v.sigma_xsec)[0] == n, c.Shape(v.sigma_xsec)[1] == W),
            'done': c.Forall2((0, k), (0, W), lambda l, w: v.sigma_xsec[l, w] == _ab_comp(c, v0, gi, l, w)),
            'todo': c.Forall2((k, n), (0, W), lambda l, w: v.sigma_xsec[l, w] == 0)}


def _ab_obj(c, p):
    from taurex.contributions.absorption import AbsorptionContribution
    o = AbsorptionContribution.__new__(AbsorptionContribution)
    _quiet(o)
    o.sigma_xsec = None
    return o


def _ab_call(c, o, p):
    import numpy as np
    import taurex.contributions.absorption as mod
    m = p['model']
    ch = m['chemistry']
    f = c.concrete_funcs['XSx']
    o._nlayers = p['self']['_nlayers']
    model = _NS(nLayers=m['nLayers'], temperatureProfile=np.array(m['temperatureProfile'], dtype=float),
                pressureProfile=np.array(m['pressureProfile'], dtype=float), chemistry=_FakeChem(ch, ch['activeGases']))
    cache = {g: _NS(opacity=lambda T, P, wn, gi=gi: np.array([f(gi, float(T), float(P), w) for w in range(len(wn))]))
             for gi, g in enumerate(GASES)}
    saved = (mod.OpacityCache, mod.GlobalCache)
    mod.OpacityCache, mod.GlobalCache = (lambda: cache), (lambda: {'opacity_method': 'xsec'})
    vals, states = [], []
    try:
        for nm, sig in o.prepare_each(model, np.array(p['wngrid'], dtype=float)):
            vals.append((nm, np.array(sig, dtype=float)))
            states.append(_state(p, o, ('sigma_xsec', '_nlayers', '_ngrid', '_use_ktables')))
    finally:
        mod.OpacityCache, mod.GlobalCache = saved
    return GenTrace(vals, states), p


def _ab_gen(rng):
    G, n, W = rng.randint(0, 3), rng.randint(1, 4), rng.randint(1, 3)
    d = dict(G=G, n=n, W=W, nl=rng.choice([n, n, n, n + 1, max(n - 1, 0)]), wngrid=[500.0 * (i + 1) for i in range(W)],
             T=[rng.uniform(300, 2000) for _ in range(n)], P=[10 ** rng.uniform(0, 6) for _ in range(n)])
    for k, g in enumerate(GASES[:G]):
        d['mix_' + g] = [rng.choice([0.0, rng.uniform(0, 1)]) for _ in range(n)]
        d['xs%d' % k] = [10 ** rng.uniform(-3, 0) for _ in range(W)]
    return d


ABP = Unit(['C03', 'C20', 'C01'], ABS + 'prepare_each', _ab_params, pre=ab_pre, post=ab_post, yields=ab_yields, invariants={1: ab_inv},
           abstract={'Chemistry.get_gas_mix_profile': _get_mix, 'Opacity.opacity': _abs_opacity,
                     'new:OpacityCache': _new_cache, 'new:KTableCache': _new_cache, 'new:GlobalCache': _new_globalcache},
           cases=[{'G': k} for k in (0, 1, 2, 3)], bounds=[dict(n=2, W=1, nl=3), dict(n=2, W=1, nl=2)],
           native_obj=_ab_obj, native_call=_ab_call, gen=_ab_gen,
           frame_attrs=[('self', a) for a in ('sigma_xsec', '_ngrid', '_use_ktables', '_opacity_cache', 'weights')],
           short='AbsorptionContribution.prepare_each',
           doc='cross-section mode: k-th component = xsec_k(T_l, P_l) x mix_k[l] whatever an earlier prepare() left in '
               'the object (the layer count comes from the model); code level: 0..3 active gases. k-table mode: C20')


# ------------------------------------------------------------------ SimpleClouds / LeeMie: the yield invariant only
# (what the component IS is C19's business, contracts/c19.py; here: the contribution's own sigma_xsec is the
# component while the consumer holds it -- model_full_contrib calls path_integral -> contribute at that moment)
from contracts import c19 as _c19


def _sc_yields(c, v0, v, k, val):
    n, W = v0.model.nLayers, c.Len(v0.wngrid)
    name, sig = val
    return {'current_sigma_is_component': _same_arr(c, v.self.sigma_xsec, sig, n, W)}


def _sc_call(c, o, p):
    import numpy as np
    o.cloudsPressure = p['self']['_cloud_pressure']
    m = _NS(nLayers=p['model']['nLayers'], pressureProfile=np.array(p['model']['pressureProfile'], dtype=float))
    vals, states = [], []
    for nm, sig in o.prepare_each(m, np.array(p['wngrid'], dtype=float)):
        vals.append((nm, np.array(sig, dtype=float)))
        states.append(_state(p, o, ('sigma_xsec',)))
    return GenTrace(vals, states), p


SCY = Unit(['C03', 'C19'], _c19.SC + 'prepare_each', _c19._sc_params, pre=_c19.SCP.pre, yields=_sc_yields, variant='yield',
           native_obj=_c19._sc_obj, native_call=_sc_call, gen=_c19._sc_gen, bounds=[dict(n=2, W=1)],
           frame_attrs=[('self', '_contrib'), ('self', 'sigma_xsec')], short='SimpleCloudsContribution.prepare_each@yield',
           doc='yield invariant: the cloud component is the contribution\'s current sigma_xsec')


# ------------------------------------------------------------------ prepare: sigma_xsec = sum of the components
# The generator re-uses ONE buffer for all components; prepare() must have added component k before the generator
# is resumed and overwrites it.  The coroutine semantics of the engine (DESIGN 2.8) runs the consumer body at the
# yield, on the same heap, so a reordering that reads the buffer too late is visible to these obligations.
def _prep_post(comp, count, extra=()):
    def post(c, v0, v1, r):
        n, W = v0.model.nLayers, c.Len(v0.wngrid)
        s = v1.self
        K = count(v0)
        if K == 0 and s.sigma_xsec is None:
            return {'no_component': True}       # AbsorptionContribution.prepare leaves None when nothing absorbs
        if s.sigma_xsec is None or not hasattr(s.sigma_xsec, 'shape'):
            return {'stored': False}
        d = {'shape': c.And(c.Shape(s.sigma_xsec)[0] == n, c.Shape(s.sigma_xsec)[1] == W)}
        if c.mode == 'conc' and not d['shape']:
            return d
        d['sum_of_components'] = c.Forall2((0, n), (0, W), lambda l, w: c.Eq(
            s.sigma_xsec[l, w], sum((comp(c, v0, k, l, w) for k in range(K)), 0.0) if K else 0.0))
        d['sizes'] = c.And(s._nlayers == n, s._ngrid == W)
        return d
    return post


def _prep_native(obj, setup, attrs):
    def call(c, o, p):
        import numpy as np
        model, ctx = setup(c, o, p)
        try:
            o.prepare(model, np.array(p['wngrid'], dtype=float))
        finally:
            if ctx:
                ctx()
        return None, _state(p, o, attrs)
    return call


def _cia_setup(c, o, p):
    s = p['self']
    o._cia_pairs = list(s['_cia_pairs'])
    o._cia_cache = {nm: _fake_cia(c, d['ident'], d['pairOne'], d['pairTwo']) for nm, d in s['_cia_cache'].items()}
    return _cia_model(c, p), None


PREP_CIA = Unit(['C03', 'C01'], 'taurex.contributions.contribution:Contribution.prepare', _cia_params, pre=cia_pre, variant='CIA',
                post=_prep_post(_cia_comp, lambda v0: len(v0.self._cia_pairs)), invariants={1: cia_inv},
                abstract={'Chemistry.get_gas_mix_profile': _get_mix, 'CIA.cia': _abs_cia},
                cases=[{'P': k} for k in (0, 1, 2, 3)], bounds=[dict(n=2, W=1)], native_obj=_cia_obj,
                native_call=_prep_native(_cia_obj, _cia_setup, ('sigma_xsec', '_total_cia', '_nlayers', '_ngrid')),
                gen=_cia_gen, frame_attrs=[('self', a) for a in ('sigma_xsec', '_total_cia', '_nlayers', '_ngrid')],
                doc='CIA: sigma_xsec = sum over pairs of the pair components (0..3 pairs), despite the shared buffer')


def _ray_setup(c, o, p):
    import numpy as np
    import taurex.util.scattering as sc
    m = p['model']
    ch = m['chemistry']
    flags = c.values['ray']
    f = c.concrete_funcs['RAYx']
    real = sc.rayleigh_sigma_from_name
    sc.rayleigh_sigma_from_name = lambda name, wn: (np.array([f(GASES.index(name), w) for w in range(len(wn))])
                                                    if flags[GASES.index(name)] else None)

    def undo():
        sc.rayleigh_sigma_from_name = real
    return _NS(nLayers=m['nLayers'], chemistry=_FakeChem(ch, ch['activeGases'], ch['inactiveGases'])), undo


def _ray_comp(c, v0, k, l, w):
    """k-th gas in chemistry order; a gas without data contributes nothing (a gas absent everywhere: 0 = its component)"""
    ch = v0.model.chemistry
    names = list(ch.activeGases) + list(ch.inactiveGases)
    g = names[k]
    if not _ray_flags(c)[GASES.index(g)]:
        return 0.0
    return _rayx(c)(GASES.index(g), w) * _mix(v0, g)[l]


PREP_RAY = Unit(['C03', 'C01'], 'taurex.contributions.contribution:Contribution.prepare', _ray_params, pre=ray_pre, variant='Rayleigh',
                post=_prep_post(_ray_comp, lambda v0: len(list(v0.model.chemistry.activeGases) + list(v0.model.chemistry.inactiveGases))),
                abstract={'Chemistry.get_gas_mix_profile': _get_mix, 'call:rayleigh_sigma_from_name': _abs_ray_sigma},
                cases=_RAY_CASES, bounds=[dict(n=2, W=1)], native_obj=_ray_obj,
                native_call=_prep_native(_ray_obj, _ray_setup, ('sigma_xsec', '_nlayers', '_ngrid', '_nmols')), gen=_ray_gen,
                frame_attrs=[('self', a) for a in ('sigma_xsec', '_nlayers', '_ngrid', '_nmols')],
                doc='Rayleigh: sigma_xsec = sum over gases of rayleigh_g x mix_g (0..3 gases, every data pattern)')


def _ab_setup(c, o, p):
    import numpy as np
    import taurex.contributions.absorption as mod
    m = p['model']
    ch = m['chemistry']
    f = c.concrete_funcs['XSx']
    o._nlayers = p['self']['_nlayers']
    model = _NS(nLayers=m['nLayers'], temperatureProfile=np.array(m['temperatureProfile'], dtype=float),
                pressureProfile=np.array(m['pressureProfile'], dtype=float), chemistry=_FakeChem(ch, ch['activeGases']))
    cache = {g: _NS(opacity=lambda T, P, wn, gi=gi: np.array([f(gi, float(T), float(P), w) for w in range(len(wn))]))
             for gi, g in enumerate(GASES)}
    saved = (mod.OpacityCache, mod.GlobalCache)
    mod.OpacityCache, mod.GlobalCache = (lambda: cache), (lambda: {'opacity_method': 'xsec'})

    def undo():
        mod.OpacityCache, mod.GlobalCache = saved
    return model, undo


PREP_ABS = Unit(['C03', 'C01', 'C20'], ABS + 'prepare', _ab_params, pre=ab_pre,
                post=_prep_post(_ab_comp, lambda v0: len(v0.model.chemistry.activeGases)), invariants={1: ab_inv},
                abstract={'Chemistry.get_gas_mix_profile': _get_mix, 'Opacity.opacity': _abs_opacity,
                          'new:OpacityCache': _new_cache, 'new:KTableCache': _new_cache, 'new:GlobalCache': _new_globalcache},
                cases=[{'G': k} for k in (0, 1, 2, 3)], bounds=[dict(n=2, W=1, nl=2)], native_obj=_ab_obj,
                native_call=_prep_native(_ab_obj, _ab_setup, ('sigma_xsec', '_nlayers', '_ngrid', '_use_ktables')), gen=_ab_gen,
                frame_attrs=[('self', a) for a in ('sigma_xsec', '_nlayers', '_ngrid', '_use_ktables', '_opacity_cache', 'weights')],
                short='AbsorptionContribution.prepare',
                doc='Absorption (cross-section mode): sigma_xsec = sum over active gases of xsec_g(T,P) x mix_g (0..3 gases)')


# ------------------------------------------------------------------ K2 refinements: CIA / Absorption .contribute
from contracts import kernels as _k
from contracts import c20 as _c20


def _cc2_params(cls, **extra):
    def params(c):
        d = _k._cc_params(c)
        d['self'] = ObjSpec(cls, **dict(d['self'].attrs, **{k: f(c) for k, f in extra.items()}))
        return d
    return params


def _ciac_pre(c, v):
    return dict(_k.cc_pre(c, v), total=v.self._total_cia >= 0)


def _ciac_post(c, v0, v1, r):
    """density-squared kernel with the prepared sigma when there is at least one pair; nothing at all otherwise"""
    n, W = c.Shape(v0.tau)
    some = v0.self._total_cia > 0
    a = _k.k1_post(2)(c, _k._K1View(v0), _k._K1View(v1), r)
    return {'sum': c.Implies(some, a['sum']), 'frame': c.Implies(some, a['frame']),
            'no_pairs_no_change': c.Implies(c.Not(some), c.Forall2((0, n), (0, W), lambda l, w: c.Eq(v1.tau[l, w], v0.tau[l, w])))}


def _ciac_native(c, p):
    import numpy as np
    from taurex.contributions.cia import CIAContribution
    o = _quiet(CIAContribution.__new__(CIAContribution))
    s = p['self']
    o.sigma_xsec, o._nlayers, o._ngrid, o._total_cia = np.array(s['sigma_xsec'], dtype=float), s['_nlayers'], s['_ngrid'], s['_total_cia']
    o.contribute(None, p['start_layer'], p['end_layer'], p['density_offset'], p['layer'], p['density'], p['tau'],
                 path_length=p['path_length'])
    return None, p


def _ciac_gen(rng):
    d = _k._cc_gen(rng)
    d['total'] = rng.choice([0, 1, 2])
    return d


CIAC = Unit('C03', CIA + 'contribute', _cc2_params('CIAContribution', _total_cia=lambda c: c.int('total')), pre=_ciac_pre,
            post=_ciac_post, frame=['tau'], native=_ciac_native, gen=_ciac_gen,
            bounds=[dict(b, nlayers_=b['nlayers'], ngrid_=b['ngrid'], total=t) for b in _k._K1_BOUNDS for t in (0, 2)],
            short='CIAContribution.contribute',
            doc='K2 refinement: sigma x path x density^2 through contribute_cia (by contract) when pairs exist')


def _absc_native(c, p):
    import numpy as np
    from taurex.contributions.absorption import AbsorptionContribution
    o = _quiet(AbsorptionContribution.__new__(AbsorptionContribution))
    s = p['self']
    o.sigma_xsec, o._nlayers, o._ngrid, o._use_ktables = np.array(s['sigma_xsec'], dtype=float), s['_nlayers'], s['_ngrid'], False
    o.contribute(None, p['start_horz_layer'], p['end_horz_layer'], p['density_offset'], p['layer'], p['density'], p['tau'],
                 path_length=p['path_length'])
    return None, p


def _absc_params(c):
    d = _k._cc_params(c)
    d['self'] = ObjSpec('AbsorptionContribution', **dict(d['self'].attrs, _use_ktables=False))
    d['start_horz_layer'], d['end_horz_layer'] = d.pop('start_layer'), d.pop('end_layer')
    return d


class _AV:
    def __init__(self, v):
        self.start_layer, self.end_layer, self.density_offset = v.start_horz_layer, v.end_horz_layer, v.density_offset
        self.self, self.density, self.path_length, self.layer, self.tau = v.self, v.density, v.path_length, v.layer, v.tau


ABSC = Unit(['C03', 'C01', 'C20'], ABS + 'contribute', _absc_params, pre=lambda c, v: _k.cc_pre(c, _AV(v)),
            post=lambda c, v0, v1, r: _k.cc_post(c, _AV(v0), _AV(v1), r), frame=['tau'], native=_absc_native,
            gen=lambda rng: (lambda d: dict(d))(_k._cc_gen(rng)),
            bounds=[dict(b, nlayers_=b['nlayers'], ngrid_=b['ngrid']) for b in _k._K1_BOUNDS],
            short='AbsorptionContribution.contribute',
            doc='K2 refinement (cross-section mode): delegates to Contribution.contribute (by contract) with the same '
                'arguments; the k-table branch is contribute_ktau (C20)')


# ------------------------------------------------------------------ model_contrib / model_full_contrib (effect trace)
# Contributions are abstract objects; what is proved is the ORDER OF EFFECTS for every input: for each contribution
# (and, in model_full_contrib, each component at the moment it is yielded) exactly one evaluation of the path
# integral takes place while contribution_list is the singleton of that contribution, on one and the same grid, its
# result is stored under that name, and the full list is put back.
SM = 'taurex.model.simplemodel:SimpleForwardModel.'


def _ev(st, *payload):
    st.trace.append(('ev', tuple(payload)))


class _LazyYield(tuple):
    """element of an abstract generator: taking it from the loop is an effect (the generator advances to this yield)"""

    def __new__(cls, ident, j):
        return tuple.__new__(cls, ('comp_%d_%d' % (ident, j), None))

    def __init__(self, ident, j):
        self.ident, self.j = ident, j

    def on_take(self, st):
        _ev(st, 'yield', self.ident, self.j)


def _h_init_profiles(ex, st, args, kwargs, node):
    _ev(st, 'initialize_profiles')
    return None


def _h_star_init(ex, st, o, args, kwargs, node):
    _ev(st, 'star.initialize', args[0].id)
    return None


def _h_prepare(ex, st, o, args, kwargs, node):
    _ev(st, 'prepare', o.ident, args[1].id)
    return None


def _h_prepare_each(ex, st, o, args, kwargs, node):
    _ev(st, 'prepare_each', o.ident, args[1].id)
    return st.alloc(ex.c, PyList([_LazyYield(o.ident, j) for j in range(ex.c.fixed['comps'][o.ident])]))


def _h_path_integral(ex, st, args, kwargs, node):
    c = ex.c
    me = st.get(args[0])
    lst = st.get(me.attrs['contribution_list'])
    ids = tuple(x.ident for x in lst.items)
    a = st.alloc(c, c.fresh_array('absorp', (c.fresh('W'),)))
    tau = st.alloc(c, c.fresh_array('tau', (c.fresh('n'), c.fresh('W'))))
    _ev(st, 'path_integral', ids, args[1].id, a.id, tau.id)
    return (a, tau)


def _h_clip(ex, st, args, kwargs, node):
    r = st.alloc(ex.c, ex.c.fresh_array('clipped', (ex.c.fresh('Wc'),)))
    _ev(st, 'clip', args[0].id, args[1].id, r.id)
    return r


def _mc_params(c):
    comps = c.choice('comps')           # number of components of each contribution
    wn = c.choice('wn')                 # 'none' | 'cut' | 'nocut'
    M = len(comps)
    Wn, Wo = c.int('Wn'), c.int('Wo')
    if c.mode == 'conc':
        lst = [dict(__obj__='Contribution', name='c%d' % k, ident=k) for k in range(M)]
        star = dict(__obj__='Star')
    else:
        lst = [AbsObj('Contribution', k, {'name': 'c%d' % k}) for k in range(M)]
        star = AbsObj('Star', 0, {})
    return dict(self=ObjSpec('SimpleForwardModel', contribution_list=lst, nativeWavenumberGrid=c.array('native', (Wn,)), _star=star),
                wngrid=None if wn == 'none' else c.array('obs', (Wo,)), cutoff_grid=(wn != 'nocut'))


def _cfg(c, name):
    return c.fixed[name] if c.mode != 'conc' else c.values[name]


def _expected(comps, full):
    """the documented order of effects"""
    out = []
    for k, nk in enumerate(comps):
        if not full:
            out += [('prepare', k), ('path_integral', (k,))]
        else:
            out.append(('prepare_each', k))
            for j in range(nk):
                out += [('yield', k, j), ('path_integral', (k,))]
    return out


def _identities(c, v0, v1, r, full):
    """-> (native grid id, obs grid id, returned grid id, {name: entry of ids}, list restored?) in either mode"""
    M = len(_cfg(c, 'comps'))
    if c.mode == 'conc':
        grid, res = r
        return 'native', 'obs', grid, res, v1.self.contribution_list == 'same-object-same-members'
    gref, dref = c.raw['ret']
    heap = c.raw['state'].heap
    res = None
    if isinstance(dref, Ref) and isinstance(heap[dref.id], PyDict):
        res = {}
        for nm, ent in heap[dref.id].items.items():
            if full:
                items = heap[ent.id].items if isinstance(ent, Ref) and isinstance(heap[ent.id], PyList) else []
                res[nm] = [tuple(x.id if isinstance(x, Ref) else x for x in it) for it in items]
            else:
                res[nm] = tuple(x.id if isinstance(x, Ref) else x for x in ent) if isinstance(ent, tuple) else ent
    l0, l1 = v0.self.ref('contribution_list'), v1.self.ref('contribution_list')
    restored = isinstance(l1, Ref) and l1.id == l0.id and [x.ident for x in heap[l1.id].items] == list(range(M))
    wn = v0.ref('wngrid')
    return (v0.self.ref('nativeWavenumberGrid').id, wn.id if isinstance(wn, Ref) else None,
            gref.id if isinstance(gref, Ref) else gref, res, restored)


def _mc_post(full):
    def post(c, v0, v1, r):
        comps, wn = _cfg(c, 'comps'), _cfg(c, 'wn')
        M = len(comps)
        tr = list(c.trace or [])
        native_id, obs_id, grid_ret, res, restored = _identities(c, v0, v1, r, full)
        d = {}
        clips = [e for e in tr if e[0] == 'clip']
        d['clip_exactly_when_asked'] = len(clips) == (1 if wn == 'cut' else 0) and \
            all(e[1] == native_id and e[2] == obs_id for e in clips)
        grid_id = clips[0][3] if clips else native_id
        d['grid_returned'] = grid_ret == grid_id
        seq, grids, pis = [], set(), []
        for e in tr:
            if e[0] in ('prepare', 'prepare_each'):
                seq.append((e[0], e[1]))
                grids.add(e[2])
            elif e[0] == 'yield':
                seq.append(e)
            elif e[0] == 'path_integral':
                seq.append(('path_integral', tuple(e[1])))
                grids.add(e[2])
                pis.append((e[3], e[4]))
            elif e[0] == 'star.initialize':
                grids.add(e[1])
        d['order_of_effects'] = seq == _expected(comps, full)
        d['one_grid_throughout'] = grids <= {grid_id}
        first = [e[0] for e in tr if e[0] in ('initialize_profiles', 'prepare', 'prepare_each', 'path_integral')]
        d['profiles_initialised_before_anything_is_evaluated'] = first[:1] == ['initialize_profiles']
        d['list_restored'] = bool(restored)
        d['names'] = isinstance(res, dict) and list(res.keys()) == ['c%d' % k for k in range(M)]
        if not d['names'] or not d['order_of_effects']:
            return d
        t, ok = 0, True
        for k in range(M):
            ent = res['c%d' % k]
            if not full:
                ok = ok and tuple(ent) == (pis[t][0], pis[t][1], None)
                t += 1
            else:
                ok = ok and len(ent) == comps[k]
                for j, it in enumerate(list(ent)[:comps[k]]):
                    ok = ok and tuple(it) == ('comp_%d_%d' % (k, j), pis[t][0], pis[t][1], None)
                    t += 1
        d['results_stored_under_their_names'] = ok
        return d
    return post


def _mc_native(full):
    def native(c, p):
        import numpy as np
        from taurex.model.simplemodel import SimpleForwardModel
        comps, wn = c.values['comps'], c.values['wn']
        trace = []
        tags = {}

        def tag(x):
            return tags.get(id(x), '?')

        class _C:
            def __init__(self, k):
                self.k, self.name = k, 'c%d' % k

            def prepare(self, model, grid):
                trace.append(('prepare', self.k, tag(grid)))

            def prepare_each(self, model, grid):
                trace.append(('prepare_each', self.k, tag(grid)))
                for j in range(comps[self.k]):
                    trace.append(('yield', self.k, j))
                    yield 'comp_%d_%d' % (self.k, j), None

        class _M(SimpleForwardModel):
            nativeWavenumberGrid = property(lambda self: self._native)

            def initialize_profiles(self):
                trace.append(('initialize_profiles',))

            def path_integral(self, grid, rc):
                t = sum(1 for e in trace if e[0] == 'path_integral')
                trace.append(('path_integral', tuple(x.k for x in self.contribution_list), tag(grid), 'A%d' % t, 'T%d' % t))
                return 'A%d' % t, 'T%d' % t
        m = _quiet(_M.__new__(_M))
        m._native = np.array(p['self']['nativeWavenumberGrid'], dtype=float)
        tags[id(m._native)] = 'native'
        full_list = [_C(k) for k in range(len(comps))]
        m.contribution_list = full_list
        m._star = _NS(initialize=lambda g: trace.append(('star.initialize', tag(g))))
        obs = None if wn == 'none' else np.array(p['wngrid'], dtype=float)
        if obs is not None:
            tags[id(obs)] = 'obs'
        import taurex.model.simplemodel as mod
        real = mod.clip_native_to_wngrid

        def clip(a, b):
            r = real(a, b)
            tags[id(r)] = 'clipped'
            trace.append(('clip', tag(a), tag(b), 'clipped'))
            return r
        from pyvc.unit import patched
        with patched(real, clip):
            f = m.model_full_contrib if full else m.model_contrib
            grid, res = f(wngrid=obs, cutoff_grid=p['cutoff_grid'])
        same = m.contribution_list is full_list and [x.k for x in m.contribution_list] == list(range(len(comps)))
        after = dict(p, self=dict(p['self'], contribution_list='same-object-same-members' if same else 'changed'))
        after['__trace__'] = trace
        return (tag(grid), res), after
    return native


_MC_CASES = [{'comps': cs, 'wn': wn} for cs in [(), (1,), (2,), (0,), (1, 2), (2, 0), (1, 1, 1)] for wn in ('none', 'cut', 'nocut')]


def _mc_gen(rng):
    d = dict(rng.choice(_MC_CASES))
    Wn, Wo = rng.randint(3, 8), rng.randint(2, 4)
    d.update(Wn=Wn, Wo=Wo, native=[100.0 * (i + 1) for i in range(Wn)], obs=sorted(rng.uniform(150, 100.0 * Wn) for _ in range(Wo)))
    return d


_MC_ABS = {'call:initialize_profiles': _h_init_profiles, 'Star.initialize': _h_star_init, 'Contribution.prepare': _h_prepare,
           'Contribution.prepare_each': _h_prepare_each, 'call:path_integral': _h_path_integral,
           'call:clip_native_to_wngrid': _h_clip}

MCON = Unit('C03', SM + 'model_contrib', _mc_params, post=_mc_post(False), abstract=_MC_ABS, cases=_MC_CASES, bounds=[dict(Wn=3, Wo=2)],
            native=_mc_native(False), gen=_mc_gen, frame_attrs=[('self', 'contribution_list')], short='SimpleForwardModel.model_contrib',
            doc='one prepare + one path integral per contribution with contribution_list = [that contribution]; results '
                'under the contribution names; list restored; one grid throughout (0..3 contributions)')

MFUL = Unit('C03', SM + 'model_full_contrib', _mc_params, post=_mc_post(True), abstract=_MC_ABS, cases=_MC_CASES, bounds=[dict(Wn=3, Wo=2)],
            native=_mc_native(True), gen=_mc_gen, frame_attrs=[('self', 'contribution_list')], short='SimpleForwardModel.model_full_contrib',
            doc='one path integral per component, evaluated while the generator is suspended at that component (so that '
                'the yield invariants of the prepare_each units apply), with contribution_list = [its contribution]')


# ------------------------------------------------------------------ lemmas: from "tau is a sum" to the statement
def _product(c):
    """transmittance of k sources E(k) = exp(-sum_{i<k} t_i):  E(0) = 1 and E(k+1) = E(k) * exp(-t_k)  -- the
    recurrence that defines the product of the single-source transmittances exp(-t_i)"""
    I, R = z3.IntSort(), z3.RealSort()
    t = z3.Function('t', I, R)
    m = z3.Int('m')
    S = lambda k: c.Sum(0, k, lambda i: t(i))
    return [('empty_product', [], c.exp(-S(0)) == 1),
            ('one_more_factor', [m >= 0], c.hint(c.exp(-S(m + 1)) == c.exp(-S(m)) * c.exp(-t(m)),
                                                 S(m + 1) == S(m) + t(m), -S(m + 1) == (-S(m)) + (-t(m)),
                                                 c.exp((-S(m)) + (-t(m))) == c.exp(-S(m)) * c.exp(-t(m))))]


Lemma('C03', 'transmittance_is_product', _product,
      doc='exp(-(t_0+...+t_{k-1})) is the product of exp(-t_i) (induction step via exp(a+b) = exp(a) exp(b))')


def _order(c):
    """order independence: sums of pointwise equal terms are equal (induction), and exchanging two neighbours
    leaves the total unchanged; neighbour exchanges generate every reordering"""
    I, R = z3.IntSort(), z3.RealSort()
    f, g = z3.Function('f', I, R), z3.Function('g', I, R)
    m, n, i, q, a, b = z3.Ints('m n i q a b')
    F = lambda lo, hi: c.Sum(lo, hi, lambda k: f(k))
    G = lambda lo, hi: c.Sum(lo, hi, lambda k: g(k))
    agree = lambda lo, hi: z3.ForAll([q], z3.Implies(z3.And(lo <= q, q < hi), f(q) == g(q)))
    ext = z3.ForAll([a, b], z3.Implies(z3.And(a <= b, z3.ForAll([q], z3.Implies(z3.And(a <= q, q < b), f(q) == g(q)))),
                                       F(a, b) == G(a, b)))
    swapped = z3.And(0 <= i, i + 1 < n, g(i) == f(i + 1), g(i + 1) == f(i),
                     z3.ForAll([q], z3.Implies(z3.And(q != i, q != i + 1), g(q) == f(q))))
    split_f = z3.And(F(0, n) == F(0, i) + F(i, n), F(i, n) == F(i, i + 2) + F(i + 2, n), F(i, i + 2) == f(i) + f(i + 1))
    split_g = z3.And(G(0, n) == G(0, i) + G(i, n), G(i, n) == G(i, i + 2) + G(i + 2, n), G(i, i + 2) == g(i) + g(i + 1))
    return [('ext.base', [], F(a, a) == G(a, a)),
            ('ext.step', [a <= m, agree(a, m + 1), z3.Implies(agree(a, m), F(a, m) == G(a, m))], F(a, m + 1) == G(a, m + 1)),
            ('split.base', [a <= b], F(a, b) == F(a, b) + F(b, b)),
            ('split.step', [a <= b, b <= m, F(a, m) == F(a, b) + F(b, m)], F(a, m + 1) == F(a, b) + F(b, m + 1)),
            ('neighbour_exchange', [swapped, ext, split_f, split_g],
             c.hint(F(0, n) == G(0, n), F(0, i) == G(0, i), F(i + 2, n) == G(i + 2, n)))]


Lemma('C03', 'order_independence', _order,
      doc='the optical depth of a layer does not depend on the order of the contribution list (sum invariant under '
          'neighbour exchanges; extensionality and range splitting by induction)')


def _linear(c):
    """K1 increment is linear in the weighted cross-section: a component at zero abundance adds nothing, and a
    component's optical depth is proportional to its abundance"""
    I, R = z3.IntSort(), z3.RealSort()
    x, y, p = z3.Function('x', I, R), z3.Function('y', I, R), z3.Function('p', I, R)
    a = z3.Real('a')
    m, n, q = z3.Ints('m n q')
    X = lambda k: c.Sum(0, k, lambda i: x(i) * p(i))
    Y = lambda k: c.Sum(0, k, lambda i: y(i) * p(i))
    Z = lambda k: c.Sum(0, k, lambda i: (a * x(i) + y(i)) * p(i))
    P = lambda k: Z(k) == a * X(k) + Y(k)
    zero = z3.ForAll([q], x(q) == 0)
    return [('base', [], P(0)), ('step', [m >= 0, P(m)], P(m + 1)),
            ('zero_abundance.base', [zero], X(0) == 0), ('zero_abundance.step', [zero, m >= 0, X(m) == 0], X(m + 1) == 0)]


Lemma('C03', 'linear_in_weighted_cross_section', _linear,
      doc='sum_k (a x_k + y_k) p_k = a sum_k x_k p_k + sum_k y_k p_k; zero cross-section gives zero optical depth')


# ------------------------------------------------------------------ SimpleForwardModel.model (effect trace): the one evaluation everything else uses
def _model_post(c, v0, v1, r):
    comps, wn = _cfg(c, 'comps'), _cfg(c, 'wn')
    M = len(comps)
    tr = list(c.trace or [])
    if c.mode == 'conc':
        grid_ret, a_ret, t_ret, extra = r
        native_id, obs_id = 'native', 'obs'
    else:
        ret = c.raw['ret']
        ok_shape = isinstance(ret, tuple) and len(ret) == 4
        if not ok_shape:
            return {'returns_grid_depth_tau_none': False}
        grid_ret, a_ret, t_ret, extra = [x.id if isinstance(x, Ref) else x for x in ret]
        native_id = v0.self.ref('nativeWavenumberGrid').id
        wnr = v0.ref('wngrid')
        obs_id = wnr.id if isinstance(wnr, Ref) else None
    d = {}
    clips = [e for e in tr if e[0] == 'clip']
    d['clip_exactly_when_asked'] = len(clips) == (1 if wn == 'cut' else 0) and all(e[1] == native_id and e[2] == obs_id for e in clips)
    grid_id = clips[0][3] if clips else native_id
    seq = [(e[0],) + tuple(e[1:2]) for e in tr if e[0] in ('initialize_profiles', 'star.initialize', 'prepare', 'path_integral')]
    want = [('initialize_profiles',), ('star.initialize', grid_id)] + [('prepare', k) for k in range(M)] + [('path_integral', tuple(range(M)))]
    d['order_of_effects'] = [(e[0],) + ((tuple(e[1]),) if e[0] == 'path_integral' else tuple(e[1:])) for e in seq] == want
    grids = {e[2] for e in tr if e[0] in ('prepare', 'path_integral')} | {e[1] for e in tr if e[0] == 'star.initialize'}
    d['one_grid_throughout'] = grids <= {grid_id}
    pis = [e for e in tr if e[0] == 'path_integral']
    d['returns_grid_depth_tau_none'] = len(pis) == 1 and (grid_ret, a_ret, t_ret, extra) == (grid_id, pis[0][3], pis[0][4], None)
    return d


def _model_native(c, p):
    import numpy as np
    from taurex.model.simplemodel import SimpleForwardModel
    comps, wn = c.values['comps'], c.values['wn']
    trace, tags = [], {}
    tag = lambda x: tags.get(id(x), '?')

    class _C:
        def __init__(self, k):
            self.k, self.name = k, 'c%d' % k

        def prepare(self, model, grid):
            trace.append(('prepare', self.k, tag(grid)))

    class _M(SimpleForwardModel):
        nativeWavenumberGrid = property(lambda self: self._native)

        def initialize_profiles(self):
            trace.append(('initialize_profiles',))

        def path_integral(self, grid, rc):
            trace.append(('path_integral', tuple(x.k for x in self.contribution_list), tag(grid), 'A0', 'T0'))
            return 'A0', 'T0'
    m = _quiet(_M.__new__(_M))
    m._native = np.array(p['self']['nativeWavenumberGrid'], dtype=float)
    tags[id(m._native)] = 'native'
    m.contribution_list = [_C(k) for k in range(len(comps))]
    m._star = _NS(initialize=lambda g: trace.append(('star.initialize', tag(g))))
    obs = None if wn == 'none' else np.array(p['wngrid'], dtype=float)
    if obs is not None:
        tags[id(obs)] = 'obs'
    import taurex.model.simplemodel as mod
    real = mod.clip_native_to_wngrid

    def clip(a, b):
        r = real(a, b)
        tags[id(r)] = 'clipped'
        trace.append(('clip', tag(a), tag(b), 'clipped'))
        return r
    from pyvc.unit import patched
    with patched(real, clip):
        g, a, t, x = m.model(wngrid=obs, cutoff_grid=p['cutoff_grid'])
    return (tag(g), a, t, x), dict(p, __trace__=trace)


MODEL = Unit(['C03', 'C13', 'C01', 'C02', 'C20'], SM + 'model', _mc_params, post=_model_post, abstract=_MC_ABS, cases=_MC_CASES, bounds=[dict(Wn=3, Wo=2)],
             native=_model_native, gen=_mc_gen, short='SimpleForwardModel.model',
             doc='the forward-model evaluation: profiles initialised first, the native grid clipped to the requested grid exactly when '
                 'asked, the star and every contribution (in list order) prepared on that one grid, ONE path integral over the whole '
                 'list on that grid, and (grid, depth, tau, None) of that integral returned (0..3 contributions)')


# ------------------------------------------------------------------ HydrogenIon.prepare_each: H- opacity = (free-free + bound-free coefficient) x P x [H] x [e-]
HM = 'taurex.contributions.hm:HydrogenIon.'


def _hm_params(c):
    fx = c.fixed if c.mode != 'conc' else c.values
    n, W = c.int('n'), c.int('W')
    names = [g for g, present in (('H', fx['H']), ('e-', fx['e'])) if present] + ['H2']
    if c.mode == 'conc':
        c.concrete_funcs = {'KFF': lambda T, w: 1e-26 * (1 + w) * (T / 1000.0), 'KBF': lambda T, w: 3e-27 * (2 + w) / (T / 1000.0)}
    return dict(self=ObjSpec('HydrogenIon', sigma_xsec=None, _nlayers=None, _P_dyne=None, _temperature_profile=None, _hydrogen_mixratio=None,
                             _electron_mixratio=None, _f_res=None),
                model=ObjSpec('SimpleForwardModel', nLayers=n, pressureProfile=c.array('P', (n,)), temperatureProfile=c.array('T', (n,)),
                              chemistry=_chem(c, n, names, activeGases=[], inactiveGases=list(names))),
                wngrid=c.array('wngrid', (W,)))


def _hm_k(which):
    def h(ex, st, args, kwargs, node):
        """assumed: the absorption coefficient of H- at the requested wavelengths for ONE temperature (a function of wavelength index and
        temperature only -- the polynomial fits themselves are not under contract)"""
        c = ex.c
        lam, T = args[-2], args[-1]
        W = st.get(lam).shape[0] if isinstance(lam, Ref) else None
        f = c.func(which, REAL, INT, REAL)
        return st.alloc(c, Arr((W,), lambda ix, f=f, T=T: f(to_real(T), to_int(ix[0])), 'real'))
    return h


def _hm_raises(c, v):
    fx = c.fixed if c.mode != 'conc' else c.values
    return {'InvalidModelException': not (fx['H'] and fx['e'])}


def _hm_yields(c, v0, v, k, val):
    n, W = v0.model.nLayers, c.Len(v0.wngrid)
    name, sig = val
    KFF, KBF = c.func('KFF', REAL, INT, REAL), c.func('KBF', REAL, INT, REAL)
    P, T = v0.model.pressureProfile, v0.model.temperatureProfile
    H, E = _mix(v0, 'H'), _mix(v0, 'e-')
    return {'named': name == 'HydrogenIon', 'shape': c.And(c.Shape(sig)[0] == n, c.Shape(sig)[1] == W),
            'coefficient_times_pressure_times_both_abundances': c.Forall2((0, n), (0, W), lambda l, w: c.Eq(
                sig[l, w], ((KFF(T[l], w) + KBF(T[l], w)) * (P[l] * 1e1) * H[l] * E[l]) * 1e-4)),
            'current_sigma_is_component': _same_arr(c, v.self.sigma_xsec, sig, n, W)}


def _hm_post(c, v0, v1, r):
    return {'one_component': len(r) == 1}


def _hm_obj(c, p):
    from taurex.contributions.hm import HydrogenIon
    o = HydrogenIon.__new__(HydrogenIon)
    _quiet(o)
    o.sigma_xsec = None
    return o


def _hm_call(c, o, p):
    import numpy as np
    m = p['model']
    ch = m['chemistry']
    KFF, KBF = c.concrete_funcs['KFF'], c.concrete_funcs['KBF']
    W = len(p['wngrid'])
    o.k_ff = lambda lamb, T: np.array([KFF(float(T), w) for w in range(W)])
    o.k_bf = lambda lamb, T: np.array([KBF(float(T), w) for w in range(W)])
    o.f = lambda lamb: None
    o.precalc_k_ff = lambda lamb: None
    model = _NS(nLayers=m['nLayers'], pressureProfile=np.array(m['pressureProfile'], dtype=float), temperatureProfile=np.array(m['temperatureProfile'], dtype=float),
                chemistry=_FakeChem(ch, ch['activeGases'], ch['inactiveGases']))
    vals, states = [], []
    for nm, sig in o.prepare_each(model, np.array(p['wngrid'], dtype=float)):
        vals.append((nm, np.array(sig, dtype=float)))
        states.append(_state(p, o, ('sigma_xsec',)))
    return GenTrace(vals, states), p


_HM_CASES = [dict(H=a, e=b) for a in (True, False) for b in (True, False)]


def _hm_gen(rng):
    cs = dict(rng.choice(_HM_CASES))
    n, W = rng.randint(1, 4), rng.randint(1, 3)
    d = dict(cs, n=n, W=W, wngrid=[500.0 * (i + 1) for i in range(W)], P=[10 ** rng.uniform(-2, 6) for _ in range(n)], T=[rng.uniform(500, 4000) for _ in range(n)])
    d['mix_H2'] = [0.8] * n
    d['mix_H'] = [rng.choice([0.0, rng.uniform(0, 1e-2)]) for _ in range(n)]
    d['mix_e-'] = [rng.choice([0.0, rng.uniform(0, 1e-4)]) for _ in range(n)]
    return d


HIP = Unit('C03', HM + 'prepare_each', _hm_params, pre=lambda c, v: {'sizes': c.And(v.model.nLayers >= 1, c.Len(v.wngrid) >= 0)}, raises=_hm_raises,
           post=_hm_post, yields=_hm_yields, cases=_HM_CASES, bounds=[dict(n=2, W=1)],
           abstract={'Chemistry.get_gas_mix_profile': _get_mix, 'call:k_ff': _hm_k('KFF'), 'call:k_bf': _hm_k('KBF'),
                     'call:f': lambda ex, st, args, kwargs, node: None, 'call:precalc_k_ff': lambda ex, st, args, kwargs, node: None},
           native_obj=_hm_obj, native_call=_hm_call, gen=_hm_gen, invariants={0: lambda c, v, v0, i: _hm_inv(c, v0, v, i)},
           frame_attrs=[('self', a) for a in ('sigma_xsec', '_nlayers', '_P_dyne', '_temperature_profile', '_hydrogen_mixratio', '_electron_mixratio', '_f_res')],
           short='HydrogenIon.prepare_each',
           doc='H- continuum: without hydrogen or without free electrons in the chemistry the model is invalid; otherwise ONE component whose '
               'value in layer l is (free-free + bound-free coefficient at T_l) x pressure [dyn/cm2] x [H]_l x [e-]_l, in m2 -- linear in either '
               'abundance, zero where one of them is zero -- and the contribution\'s own sigma_xsec is that component (the polynomial fits '
               'k_ff / k_bf enter as abstract functions of temperature and wavelength index)')


def _hm_inv(c, v0, v, i):
    n, W = v0.model.nLayers, c.Len(v0.wngrid)
    KFF, KBF = c.func('KFF', REAL, INT, REAL), c.func('KBF', REAL, INT, REAL)
    P, T = v0.model.pressureProfile, v0.model.temperatureProfile
    H, E = _mix(v0, 'H'), _mix(v0, 'e-')
    S = v.self.sigma_xsec
    return {'range': c.And(0 <= i, i <= n), 'shape': c.And(c.Shape(S)[0] == n, c.Shape(S)[1] == W),
            'rows_done': c.Forall2((0, i), (0, W), lambda l, w: c.Eq(S[l, w], (KFF(T[l], w) + KBF(T[l], w)) * (P[l] * 1e1) * H[l] * E[l])),
            'rows_to_do_are_zero': c.Forall2((i, n), (0, W), lambda l, w: c.Eq(S[l, w], 0))}
