"""C17 -- observations load independent of row order with aligned columns and units."""
import z3
from pyvc.unit import Unit, ObjSpec, Lemma, Bounded

AS = 'taurex.data.spectrum.array:ArraySpectrum.'


# ------------------------------------------------------------------ _sort_spectrum
def _ss_params(c):
    K = c.choice('cols')
    return dict(self=ObjSpec('ArraySpectrum', _obs_spectrum=c.array('obs', (c.int('n'), K))))


def ss_post(c, v0, v1, r):
    """rows are a permutation of the input rows, WHOLE rows move together; wavelengths (column 0) non-increasing,
    strictly decreasing when they are distinct"""
    A, B = v0.self._obs_spectrum, v1.self._obs_spectrum
    n, K = c.Shape(A)
    row_eq = lambda i, j: c.And(*[c.Eq(B[i, k], A[j, k]) for k in range(K)])
    d = {'shape': c.And(c.Shape(B)[0] == n, c.Shape(B)[1] == K),
         'descending': c.ForallAdj(0, n - 1, lambda i, j: c.Le(B[j, 0], B[i, 0]))}
    if c.mode == 'conc':
        import numpy as np
        a, b = np.array(A), np.array(B)
        d['rows_are_input_rows'] = all(any(np.array_equal(b[i], a[j]) for j in range(n)) for i in range(n))
        d['every_row_kept'] = sorted(map(tuple, a.tolist())) == sorted(map(tuple, b.tolist()))
        return d
    d['rows_are_input_rows'] = c.Forall(0, n, lambda i: c.Exists(0, n, lambda j: row_eq(i, j)))
    pf, qf = c.last_perm            # witness: input row j lands at position n-1-q(j)
    def kept(j):
        w = n - 1 - qf(j)
        at_w = c.And(0 <= w, w < n, row_eq(w, j))
        return c.hint(c.Exists(0, n, lambda i: row_eq(i, j)), at_w, final_uses=1)     # the witness position, then only that fact
    d['every_row_kept'] = c.ForallH(0, n, kept)
    return d


def _ss_native(c, p):
    import numpy as np
    from taurex.data.spectrum.array import ArraySpectrum
    o = ArraySpectrum.__new__(ArraySpectrum)
    o._obs_spectrum = np.array(p['self']['_obs_spectrum'], dtype=float)
    o._sort_spectrum()
    return None, dict(p, self=dict(p['self'], _obs_spectrum=o._obs_spectrum))


def _ss_gen(rng):
    n, K = rng.randint(1, 6), rng.choice([3, 4])
    wl = rng.sample([0.5 + 0.25 * i for i in range(40)], n)
    return dict(n=n, cols=K, obs=[[wl[i]] + [rng.uniform(0, 1) for _ in range(K - 1)] for i in range(n)])


SS = Unit('C17', AS + '_sort_spectrum', _ss_params, pre=lambda c, v: {'n': c.Shape(v.self._obs_spectrum)[0] >= 1},
          post=ss_post, native=_ss_native, gen=_ss_gen, cases=[{'cols': 3}, {'cols': 4}], bounds=[dict(n=2), dict(n=3)],
          frame_attrs=[('self', '_obs_spectrum')], short='ArraySpectrum._sort_spectrum',
          doc='argsort assumed to return a sorting permutation (bijection, no stability)')


def _strict(c):
    """non-increasing + pairwise distinct => strictly decreasing; hence 10000/wavelength strictly ascending"""
    a, b = z3.Reals('a b')
    return [('strict', [b <= a, a != b], b < a),
            ('wavenumber_ascending', [0 < b, b < a], 10000 / a < 10000 / b)]


Lemma('C17', 'distinct_wavelengths_strictly_sorted', _strict, doc='ordering clause for >= 2 distinct wavelengths')


# ------------------------------------------------------------------ bounded stand-ins (never counted as proved)
def _obs_expect(rows):
    """independent oracle: sort rows by wavelength descending, convert"""
    import numpy as np
    a = np.array(sorted(rows, key=lambda r: -r[0]), dtype=float)
    wl = a[:, 0]
    wn = 10000 / wl
    if a.shape[1] == 4:
        wlw = a[:, 3]
    else:
        e = np.concatenate([[wl[0] - (wl[1] - wl[0]) / 2], (wl[:-1] + wl[1:]) / 2, [wl[-1] + (wl[-1] - wl[-2]) / 2]])
        wlw = np.abs(np.diff(e))
    return dict(wn=wn, value=a[:, 1], error=a[:, 2], wnwidth=10000 * wlw / wl ** 2, wlwidth=wlw)


def _check_obs(o, want, inp, fails, tag):
    import numpy as np
    try:
        got = dict(wn=np.asarray(o.wavenumberGrid, float), value=np.asarray(o.spectrum, float),
                   error=np.asarray(o.errorBar, float), wnwidth=np.asarray(o.binWidths, float))
        b = o.create_binner()
        bw, bwid = np.asarray(b._wngrid, float), np.asarray(b._wngrid_width, float)
    except Exception as e:
        fails.append(dict(clause=tag + '.raises', inputs=inp, got=repr(e)[:200]))
        return
    if not np.all(np.diff(got['wn']) > 0):
        fails.append(dict(clause=tag + '.wavenumbers_ascending', inputs=inp))
        return
    for k in ('wn', 'value', 'error', 'wnwidth'):
        if got[k].shape != want[k].shape or not np.allclose(got[k], want[k], rtol=1e-9):
            fails.append(dict(clause=tag + '.' + k + '_attached_to_its_wavelength', inputs=inp))
            return
    if not (np.allclose(bw, want['wn'], rtol=1e-9) and np.allclose(bwid, want['wnwidth'], rtol=1e-9)):
        fails.append(dict(clause=tag + '.binner_aligned_with_observation', inputs=inp))
        return
    try:
        edges = np.asarray(o.binEdges, float)
        if edges.size == 2 * len(want['wn']):
            lo = 10000 / (10000 / want['wn'] + want['wlwidth'] / 2)
            hi = 10000 / (10000 / want['wn'] - want['wlwidth'] / 2)
            pairs = np.sort(edges).reshape(-1, 2) if False else None
            se = np.sort(edges)
            if not np.allclose(np.sort(np.concatenate([lo, hi])), se, rtol=1e-9):
                fails.append(dict(clause=tag + '.edges_consistent', inputs=inp))
    except Exception as e:
        fails.append(dict(clause=tag + '.raises', inputs=inp, got=repr(e)[:200]))


def _b_obs(seed, tier):
    """array, text and TauREx-HDF5 sources, every row order, 3 and 4 columns, against an independent oracle"""
    import os
    import random
    import tempfile
    import numpy as np
    import h5py
    from taurex.data.spectrum.array import ArraySpectrum
    from taurex.data.spectrum.observed import ObservedSpectrum
    from taurex.data.spectrum.taurex import TaurexSpectrum
    rng = random.Random(seed)
    N = 30 if tier == 'quick' else 1000
    fails, samples, cases = [], [], 0
    tmp = tempfile.mkdtemp(prefix='verif_c17_')
    try:
        for it in range(N):
            n, K = rng.randint(2, 12), rng.choice([3, 4])
            wl = sorted(rng.sample([0.3 + 0.07 * i for i in range(200)], n))
            rows = []
            for i in range(n):
                r = [wl[i], rng.uniform(0, 0.02), rng.uniform(1e-5, 1e-3)]
                if K == 4:
                    gap = min([wl[j + 1] - wl[j] for j in range(n - 1)])
                    r.append(rng.uniform(0.2, 1.0) * gap)
                rows.append(r)
            want = _obs_expect(rows)
            order = rng.choice(['ascending', 'descending', 'shuffled', 'shuffled'])
            perm = list(range(n))
            if order == 'descending':
                perm = perm[::-1]
            elif order == 'shuffled':
                rng.shuffle(perm)
            arr = np.array([rows[i] for i in perm], dtype=float)
            inp = dict(n=n, cols=K, order=order, perm=perm, seed=seed, case=it)
            cases += 3
            try:
                _check_obs(ArraySpectrum(arr.copy()), want, inp, fails, 'array')
                path = os.path.join(tmp, 'obs.dat')
                np.savetxt(path, arr)
                _check_obs(ObservedSpectrum(path), want, inp, fails, 'text')
                if K == 4:
                    path = os.path.join(tmp, 'obs.h5')
                    with h5py.File(path, 'w') as f:
                        g = f.create_group('Output').create_group('Spectra')
                        wn = 10000 / arr[:, 0]
                        g['instrument_wngrid'] = wn
                        g['instrument_spectrum'] = arr[:, 1]
                        g['instrument_noise'] = arr[:, 2]
                        g['instrument_wnwidth'] = arr[:, 3] * wn ** 2 / 10000
                    _check_obs(TaurexSpectrum(path), want, inp, fails, 'hdf5')
            except Exception as e:
                fails.append(dict(clause='observation.raises', inputs=inp, got=repr(e)[:200]))
            if it < 2:
                samples.append(inp)
    finally:
        import shutil
        shutil.rmtree(tmp, ignore_errors=True)
    return {'cases': cases, 'failures': fails, 'samples': samples,
            'bound': '%d random spectra (2..12 rows, 3/4 columns) x {array, text, HDF5} x row orders' % N}


Bounded('C17', 'observation_sources_order_independent', _b_obs,
        doc='_process_spectrum (strided stores), text and HDF5 readers are outside the verified subset')
