"""C17 -- observations load independent of row order with aligned columns and units."""
import z3
from pyvc.unit import Unit, ObjSpec, Lemma, Bounded

AS = 'taurex.data.spectrum.array:ArraySpectrum.'


# ------------------------------------------------------------------ _sort_spectrum
def _ss_params(c):
    K = c.choice('cols')
    return dict(self=ObjSpec('ArraySpectrum', _obs_spectrum=c.array('obs', (c.int('n'), K))))


def ss_post(c, v0, v1, r):
    """rows are a permutation of the input rows, WHOLE rows move together; wavelengths (column 0) non-increasing,
    strictly decreasing when they are distinct"""
    A, B = v0.self._obs_spectrum, v1.self._obs_spectrum
    n, K = c.Shape(A)
    row_eq = lambda i, j: c.And(*[c.Eq(B[i, k], A[j, k]) for k in range(K)])
    d = {'shape': c.And(c.Shape(B)[0] == n, c.Shape(B)[1] == K),
         'descending': c.ForallAdj(0, n - 1, lambda i, j: c.Le(B[j, 0], B[i, 0]))}
    if c.mode == 'conc':
        import numpy as np
        a, b = np.array(A), np.array(B)
        d['rows_are_input_rows'] = all(any(np.array_equal(b[i], a[j]) for j in range(n)) for i in range(n))
        d['every_row_kept'] = sorted(map(tuple, a.tolist())) == sorted(map(tuple, b.tolist()))
        return d
    d['rows_are_input_rows'] = c.Forall(0, n, lambda i: c.Exists(0, n, lambda j: row_eq(i, j)))
    pf, qf = c.last_perm            # witness: input row j lands at position n-1-q(j)
    def kept(j):
        w = n - 1 - qf(j)
        at_w = c.And(0 <= w, w < n, row_eq(w, j))
        return c.hint(c.Exists(0, n, lambda i: row_eq(i, j)), at_w, final_uses=1)     # the witness position, then only that fact
    d['every_row_kept'] = c.ForallH(0, n, kept)
    return d


def _ss_native(c, p):
    import numpy as np
    from taurex.data.spectrum.array import ArraySpectrum
    o = ArraySpectrum.__new__(ArraySpectrum)
    o._obs_spectrum = np.array(p['self']['_obs_spectrum'], dtype=float)
    o._sort_spectrum()
    return None, dict(p, self=dict(p['self'], _obs_spectrum=o._obs_spectrum))


def _ss_gen(rng):
    n, K = rng.randint(1, 6), rng.choice([3, 4])
    wl = rng.sample([0.5 + 0.25 * i for i in range(40)], n)
    return dict(n=n, cols=K, obs=[[wl[i]] + [rng.uniform(0, 1) for _ in range(K - 1)] for i in range(n)])


SS = Unit('C17', AS + '_sort_spectrum', _ss_params, pre=lambda c, v: {'n': c.Shape(v.self._obs_spectrum)[0] >= 1},
          post=ss_post, native=_ss_native, gen=_ss_gen, cases=[{'cols': 3}, {'cols': 4}], bounds=[dict(n=2), dict(n=3)],
          frame_attrs=[('self', '_obs_spectrum')], short='ArraySpectrum._sort_spectrum',
          doc='argsort assumed to return a sorting permutation (bijection, no stability)')


def _strict(c):
    """non-increasing + pairwise distinct => strictly decreasing; hence 10000/wavelength strictly ascending"""
    a, b = z3.Reals('a b')
    return [('strict', [b <= a, a != b], b < a),
            ('wavenumber_ascending', [0 < b, b < a], 10000 / a < 10000 / b)]


Lemma('C17', 'distinct_wavelengths_strictly_sorted', _strict, doc='ordering clause for >= 2 distinct wavelengths')


# ------------------------------------------------------------------ _process_spectrum: widths and edges stay with their own wavelength
def _ps_params(c):
    K = c.choice('cols')
    n = c.int('n')
    return dict(self=ObjSpec('ArraySpectrum', _obs_spectrum=c.array('obs', (n, K)), _bin_widths=None, _bin_edges=None))


def _ps_post(c, v0, v1, r):
    A = v0.self._obs_spectrum
    n, K = c.Shape(A)
    bw, be = v1.self._bin_widths, v1.self._bin_edges
    if K == 4:
        return {'width_of_row_i_is_its_fourth_column': c.And(c.Len(bw) == n, c.Forall(0, n, lambda i: c.Eq(bw[i], A[i, 3]))),
                'two_edges_per_row': c.Len(be) == 2 * n,
                'edges_of_row_i_are_its_wavelength_plus_minus_half_its_width':
                    c.Forall(0, n, lambda i: c.And(c.Eq(be[2 * i], A[i, 0] + A[i, 3] / 2), c.Eq(be[2 * i + 1], A[i, 0] - A[i, 3] / 2)))}
    # three columns: edges at the mid-points between neighbouring wavelengths (compute_bin_edges by its contract)
    return {'one_width_per_row': c.Len(bw) == n, 'one_more_edge_than_rows': c.Len(be) == n + 1,
            'inner_edges_at_mid_points': c.Forall(1, n, lambda i: c.Eq(be[i], (A[i - 1, 0] + A[i, 0]) / 2)),
            'widths_are_edge_differences': c.Forall(0, n, lambda i: c.Eq(bw[i], c.Abs(be[i + 1] - be[i])))}


def _ps_native(c, p):
    import numpy as np
    from taurex.data.spectrum.array import ArraySpectrum
    o = ArraySpectrum.__new__(ArraySpectrum)
    o._obs_spectrum = np.array(p['self']['_obs_spectrum'], dtype=float)
    o._bin_widths = o._bin_edges = None
    o._process_spectrum()
    return None, dict(p, self=dict(p['self'], _bin_widths=np.asarray(o._bin_widths, dtype=float), _bin_edges=np.asarray(o._bin_edges, dtype=float)))


def _ps_gen(rng):
    d = _ss_gen(rng)
    d['n'] = max(d['n'], 2)
    K = d['cols']
    wl = sorted(rng.sample([0.5 + 0.25 * i for i in range(40)], d['n']), reverse=True)
    d['obs'] = [[wl[i]] + [rng.uniform(0.01, 0.2) for _ in range(K - 1)] for i in range(d['n'])]
    return d


PS = Unit('C17', AS + '_process_spectrum', _ps_params, pre=lambda c, v: {'n': c.Shape(v.self._obs_spectrum)[0] >= 2}, post=_ps_post,
          native=_ps_native, gen=_ps_gen, cases=[{'cols': 3}, {'cols': 4}], bounds=[dict(n=2), dict(n=3)],
          frame_attrs=[('self', '_bin_widths'), ('self', '_bin_edges')], inline=['rawData', 'wavelengthGrid', 'manual_binning'],
          safety=('index', 'div'), short='ArraySpectrum._process_spectrum',
          doc='four columns: the width of row i is its fourth column and its two edges are wavelength +- width/2 (strided, reversed '
              'stores); three columns: compute_bin_edges (by contract) of the wavelength column')


# ------------------------------------------------------------------ create_binner: the binner is built from exactly the observation's grid and widths
def _cb_params(c):
    n = c.int('n')
    return dict(self=ObjSpec('BaseSpectrum', wavenumberGrid=c.array('wn', (n,)), binWidths=c.array('bw', (n,))))


def _h_new_fluxbinner(ex, st, args, kwargs, node):
    from pyvc.engine import AbsObj
    ids = {k: (v.id if hasattr(v, 'id') else v) for k, v in kwargs.items()}
    st.trace.append(('ev', ('FluxBinner', tuple(a.id if hasattr(a, 'id') else a for a in args), ids)))
    return AbsObj('FluxBinner', 0, {})


def _cb_post(c, v0, v1, r):
    ev = [e for e in (c.trace or []) if e[0] == 'FluxBinner']
    if c.mode == 'conc':
        return {'binner_on_the_observation_grid_and_widths': ev == [('FluxBinner', 'wavenumberGrid', 'binWidths')]}
    g, w = v0.self.ref('wavenumberGrid').id, v0.self.ref('binWidths').id
    ok = len(ev) == 1 and ((ev[0][1] == () and ev[0][2] == {'wngrid': g, 'wngrid_width': w}) or ev[0][1] == (g, w))
    return {'binner_on_the_observation_grid_and_widths': ok, 'returns_that_binner': type(c.raw['ret']).__name__ == 'AbsObj'}


def _cb_native(c, p):
    import numpy as np
    import taurex.binning as tb
    from taurex.data.spectrum.spectrum import BaseSpectrum
    trace = []
    g, w = np.array(p['self']['wavenumberGrid'], dtype=float), np.array(p['self']['binWidths'], dtype=float)

    class _S(BaseSpectrum):
        wavenumberGrid = property(lambda self: g)
        binWidths = property(lambda self: w)
    saved = tb.FluxBinner

    def fake(wngrid=None, wngrid_width=None):
        trace.append(('FluxBinner', 'wavenumberGrid' if wngrid is g else '?', 'binWidths' if wngrid_width is w else '?'))
        return 'binner'
    from pyvc.unit import patched
    with patched(saved, fake):
        r = _S.__new__(_S).create_binner()
    return r, dict(p, __trace__=trace)


CB = Unit('C17', 'taurex.data.spectrum.spectrum:BaseSpectrum.create_binner', _cb_params, post=_cb_post, abstract={'new:FluxBinner': _h_new_fluxbinner},
          native=_cb_native, gen=lambda rng: dict(n=2, wn=[1000.0, 2000.0], bw=[10.0, 20.0]), bounds=[dict(n=2)], short='BaseSpectrum.create_binner',
          doc='the binner handed to the optimizer is a FluxBinner on exactly the observation wavenumbers and widths (FluxBinner.__init__ by '
              'its own unit re-sorts grid and widths together)')


# ------------------------------------------------------------------ ArraySpectrum.__init__: sort, then split, then convert the widths
def _ai_ev(name):
    def h(ex, st, args, kwargs, node):
        me = st.get(args[0]) if args and hasattr(args[0], 'id') else None
        st.trace.append(('ev', (name,)))
        if name == '_process_spectrum' and me is not None:
            from pyvc.core import Obj
            new = Obj(me.cls, me.attrs)
            new.attrs['_bin_widths'] = st.alloc(ex.c, ex.c.fresh_array('bw', (ex.c.fresh('n'),)))
            st.put(args[0], new)
        return None
    return h


def _h_wn2wl(ex, st, args, kwargs, node):
    st.trace.append(('ev', ('wnwidth_to_wlwidth', tuple(a.id if hasattr(a, 'id') else a for a in args))))
    return st.alloc(ex.c, ex.c.fresh_array('wnw', (ex.c.fresh('n'),)))


def _ai_post(c, v0, v1, r):
    tr = list(c.trace or [])
    names = [e[0] for e in tr]
    d = {'sorted_then_split_then_widths_converted': names == ['_sort_spectrum', '_process_spectrum', 'wnwidth_to_wlwidth']}
    if c.mode == 'conc' or not d['sorted_then_split_then_widths_converted']:
        return d
    s1 = v1.self
    conv = tr[2][1]
    d['widths_converted_at_the_stored_wavelengths'] = len(conv) == 2 and conv[1] == s1.ref('_bin_widths').id
    d['keeps_the_given_rows'] = s1.ref('_obs_spectrum').id == v0.ref('spectrum').id
    return d


def _ai_native(c, p):
    import numpy as np
    import taurex.data.spectrum.array as mod
    trace = []

    class _A(mod.ArraySpectrum):
        def _sort_spectrum(self):
            trace.append(('_sort_spectrum',))

        def _process_spectrum(self):
            trace.append(('_process_spectrum',))
            self._bin_widths = np.ones(len(self._obs_spectrum))
    saved = mod.wnwidth_to_wlwidth
    from pyvc.unit import patched
    with patched(saved, lambda a, b: (trace.append(('wnwidth_to_wlwidth',)), np.ones(len(a)))[1]):
        _A(np.array(p['spectrum'], dtype=float))
    return None, dict(p, __trace__=trace)


AI = Unit('C17', AS + '__init__', lambda c: dict(self=ObjSpec('ArraySpectrum', _obs_spectrum=None, _bin_widths=None, _bin_edges=None, _wnwidths=None),
                                                  spectrum=c.array('obs', (c.int('n'), 3))),
          post=_ai_post, abstract={'call:_sort_spectrum': _ai_ev('_sort_spectrum'), 'call:_process_spectrum': _ai_ev('_process_spectrum'),
                                   'call:wnwidth_to_wlwidth': _h_wn2wl, 'call:__init__': lambda ex, st, args, kwargs, node: None},
          frame_attrs=[('self', a) for a in ('_obs_spectrum', '_bin_widths', '_bin_edges', '_wnwidths')], inline=['wavelengthGrid', 'rawData'],
          native=_ai_native, gen=lambda rng: dict(n=2, obs=[[1.0, 0.1, 0.01], [2.0, 0.2, 0.02]]), bounds=[dict(n=2)], short='ArraySpectrum.__init__',
          doc='construction order: the rows are sorted first, widths and edges are derived from the SORTED rows, and only then the widths are '
              'converted at the stored wavelengths (each step by its own unit)')


# ------------------------------------------------------------------ bounded stand-ins (never counted as proved)
def _obs_expect(rows):
    """independent oracle: sort rows by wavelength descending, convert"""
    import numpy as np
    a = np.array(sorted(rows, key=lambda r: -r[0]), dtype=float)
    wl = a[:, 0]
    wn = 10000 / wl
    if a.shape[1] == 4:
        wlw = a[:, 3]
    else:
        e = np.concatenate([[wl[0] - (wl[1] - wl[0]) / 2], (wl[:-1] + wl[1:]) / 2, [wl[-1] + (wl[-1] - wl[-2]) / 2]])
        wlw = np.abs(np.diff(e))
    return dict(wn=wn, value=a[:, 1], error=a[:, 2], wnwidth=10000 * wlw / wl ** 2, wlwidth=wlw)


def _check_obs(o, want, inp, fails, tag):
    import numpy as np
    try:
        got = dict(wn=np.asarray(o.wavenumberGrid, float), value=np.asarray(o.spectrum, float),
                   error=np.asarray(o.errorBar, float), wnwidth=np.asarray(o.binWidths, float))
        b = o.create_binner()
        bw, bwid = np.asarray(b._wngrid, float), np.asarray(b._wngrid_width, float)
    except Exception as e:
        fails.append(dict(clause=tag + '.raises', inputs=inp, got=repr(e)[:200]))
        return
    if not np.all(np.diff(got['wn']) > 0):
        fails.append(dict(clause=tag + '.wavenumbers_ascending', inputs=inp))
        return
    for k in ('wn', 'value', 'error', 'wnwidth'):
        if got[k].shape != want[k].shape or not np.allclose(got[k], want[k], rtol=1e-9):
            fails.append(dict(clause=tag + '.' + k + '_attached_to_its_wavelength', inputs=inp))
            return
    if not (np.allclose(bw, want['wn'], rtol=1e-9) and np.allclose(bwid, want['wnwidth'], rtol=1e-9)):
        fails.append(dict(clause=tag + '.binner_aligned_with_observation', inputs=inp))
        return
    try:
        edges = np.asarray(o.binEdges, float)
        if edges.size == 2 * len(want['wn']):
            lo = 10000 / (10000 / want['wn'] + want['wlwidth'] / 2)
            hi = 10000 / (10000 / want['wn'] - want['wlwidth'] / 2)
            pairs = np.sort(edges).reshape(-1, 2) if False else None
            se = np.sort(edges)
            if not np.allclose(np.sort(np.concatenate([lo, hi])), se, rtol=1e-9):
                fails.append(dict(clause=tag + '.edges_consistent', inputs=inp))
    except Exception as e:
        fails.append(dict(clause=tag + '.raises', inputs=inp, got=repr(e)[:200]))


def _b_obs(seed, tier):
    """array, text and TauREx-HDF5 sources, every row order, 3 and 4 columns, against an independent oracle"""
    import os
    import random
    import tempfile
    import numpy as np
    import h5py
    from taurex.data.spectrum.array import ArraySpectrum
    from taurex.data.spectrum.observed import ObservedSpectrum
    from taurex.data.spectrum.taurex import TaurexSpectrum
    rng = random.Random(seed)
    N = 30 if tier == 'quick' else 1000
    fails, samples, cases = [], [], 0
    tmp = tempfile.mkdtemp(prefix='verif_c17_')
    try:
        for it in range(N):
            n, K = rng.randint(2, 12), rng.choice([3, 4])
            wl = sorted(rng.sample([0.3 + 0.07 * i for i in range(200)], n))
            rows = []
            for i in range(n):
                r = [wl[i], rng.uniform(0, 0.02), rng.uniform(1e-5, 1e-3)]
                if K == 4:
                    gap = min([wl[j + 1] - wl[j] for j in range(n - 1)])
                    r.append(rng.uniform(0.2, 1.0) * gap)
                rows.append(r)
            want = _obs_expect(rows)
            order = rng.choice(['ascending', 'descending', 'shuffled', 'shuffled'])
            perm = list(range(n))
            if order == 'descending':
                perm = perm[::-1]
            elif order == 'shuffled':
                rng.shuffle(perm)
            arr = np.array([rows[i] for i in perm], dtype=float)
            inp = dict(n=n, cols=K, order=order, perm=perm, seed=seed, case=it)
            cases += 3
            try:
                _check_obs(ArraySpectrum(arr.copy()), want, inp, fails, 'array')
                path = os.path.join(tmp, 'obs.dat')
                np.savetxt(path, arr)
                _check_obs(ObservedSpectrum(path), want, inp, fails, 'text')
                if K == 4:
                    path = os.path.join(tmp, 'obs.h5')
                    with h5py.File(path, 'w') as f:
                        g = f.create_group('Output').create_group('Spectra')
                        wn = 10000 / arr[:, 0]
                        g['instrument_wngrid'] = wn
                        g['instrument_spectrum'] = arr[:, 1]
                        g['instrument_noise'] = arr[:, 2]
                        g['instrument_wnwidth'] = arr[:, 3] * wn ** 2 / 10000
                    _check_obs(TaurexSpectrum(path), want, inp, fails, 'hdf5')
            except Exception as e:
                fails.append(dict(clause='observation.raises', inputs=inp, got=repr(e)[:200]))
            if it < 2:
                samples.append(inp)
    finally:
        import shutil
        shutil.rmtree(tmp, ignore_errors=True)
    return {'cases': cases, 'failures': fails, 'samples': samples,
            'bound': '%d random spectra (2..12 rows, 3/4 columns) x {array, text, HDF5} x row orders' % N}


Bounded('C17', 'observation_sources_order_independent', _b_obs,
        doc='_process_spectrum (strided stores), text and HDF5 readers are outside the verified subset')


# ------------------------------------------------------------------ the two file-backed observations: what reaches ArraySpectrum
from pyvc.engine import AbsObj as _AbsObj, ExcV as _ExcV, _Raise as _RaiseExc
from pyvc.core import Ref


def _ts_params(c):
    N = c.int('N')
    if c.mode == 'conc':
        return dict(self=dict(__obj__='TaurexSpectrum'), filename='out.h5')
    return dict(self=ObjSpec('TaurexSpectrum'), filename='out.h5',
                _file=dict(instrument_wngrid=c.array('wn', (N,)), instrument_spectrum=c.array('sp', (N,)), instrument_noise=c.array('no', (N,)),
                           instrument_wnwidth=c.array('ww', (N,))))


def _h_ts_file(ex, st, args, kwargs, node):
    st.trace.append(('ev', ('h5py.File', args[0], args[1] if len(args) > 1 else kwargs.get('mode', 'r'))))
    return _AbsObj('H5Group', '', {})


def _h_ts_get(ex, st, o, args, kwargs, node):
    key = args[0]
    path = (o.ident + '/' + key).lstrip('/')
    if path in ('Output', 'Output/Spectra'):
        return _AbsObj('H5Group', path, {})
    if o.ident == 'Output/Spectra':
        if not ex.c.fixed['has_instrument'] or key not in st.get(ex.root_env['_file']).items:
            raise _RaiseExc(st, _ExcV('KeyError', getattr(node, 'lineno', 0)))
        return _AbsObj('H5Dataset', key, {})
    raise _RaiseExc(st, _ExcV('KeyError', getattr(node, 'lineno', 0)))


def _ts_post(c, v0, v1, r):
    if c.mode == 'conc':
        import numpy as np
        f = c.values['__file__']
        wn = np.asarray(f['instrument_wngrid'], dtype=float)
        want = np.vstack((10000 / wn, f['instrument_spectrum'], f['instrument_noise'], 10000 * np.asarray(f['instrument_wnwidth']) / wn ** 2)).T
        return {'four_columns_row_by_row': np.asarray(r).shape == want.shape and bool(np.allclose(np.asarray(r), want, rtol=1e-12))}
    f = v0._file
    N = c.Len(f['instrument_wngrid'])
    wn, ww = f['instrument_wngrid'], f['instrument_wnwidth']
    ev = [tuple(e) for e in (c.trace or []) if e[0] in ('h5py.File', 'exit')]
    return {'opens_the_named_file_for_reading_and_leaves_it': ev == [('h5py.File', v0.filename, 'r'), ('exit', 'H5Group', '')],
            'shape': c.And(c.Shape(r)[0] == N, c.Shape(r)[1] == 4),
            'four_columns_row_by_row': c.Forall(0, N, lambda i: c.And(c.Eq(r[i, 0] * wn[i], 10000), c.Eq(r[i, 1], f['instrument_spectrum'][i]),
                                                                       c.Eq(r[i, 2], f['instrument_noise'][i]),
                                                                       c.Eq(r[i, 3] * (wn[i] * wn[i]), 10000 * ww[i])))}


def _ts_native(c, p):
    import os
    import h5py
    import numpy as np
    from taurex.data.spectrum.taurex import TaurexSpectrum
    v = c.values
    here = os.path.dirname(os.path.dirname(os.path.abspath(__file__)))
    base = os.path.join(here, '.cache', 'c17')
    os.makedirs(base, exist_ok=True)
    path = os.path.join(base, 'obs_%d.h5' % os.getpid())
    f = dict(instrument_wngrid=np.array(v['wn'], dtype=float), instrument_spectrum=np.array(v['sp'], dtype=float), instrument_noise=np.array(v['no'], dtype=float),
             instrument_wnwidth=np.array(v['ww'], dtype=float))
    with h5py.File(path, 'w') as fh:
        g = fh.create_group('Output').create_group('Spectra')
        g.create_dataset('native_wngrid', data=np.arange(3.0))
        if v['has_instrument']:
            for k, a in f.items():
                g.create_dataset(k, data=a)
    try:
        o = TaurexSpectrum.__new__(TaurexSpectrum)
        for nm in ('debug', 'info', 'warning', 'error', 'critical'):
            setattr(o, nm, lambda *a, **k: None)
        r = o._load_from_hdf5(path)
    finally:
        os.remove(path)
    c.values['__file__'] = f
    return np.asarray(r, dtype=float), p


TSL = Unit('C17', 'taurex.data.spectrum.taurex:TaurexSpectrum._load_from_hdf5', _ts_params, post=_ts_post, raises=lambda c, v: {'KeyError': not (c.fixed if c.mode != 'conc' else c.values)['has_instrument']},
           pre=lambda c, v: {'wavenumbers_positive': (c.And(c.Len(v._file['instrument_wngrid']) >= 1,
                                                            c.Forall(0, c.Len(v._file['instrument_wngrid']), lambda i: v._file['instrument_wngrid'][i] > 0))
                                                      if c.mode != 'conc' else all(x > 0 for x in c.values['wn']))},
           cases=[{'has_instrument': True}, {'has_instrument': False}], bounds=[dict(N=2)],
           abstract={'call:File': _h_ts_file, 'H5Group.__getitem__': _h_ts_get,
                     'H5Dataset.__getitem__': lambda ex, st, o, args, kwargs, node: st.get(ex.root_env['_file']).items[o.ident]},
           native=_ts_native, gen=lambda rng: (lambda N: dict(N=N, has_instrument=rng.random() < 0.8, wn=sorted(rng.uniform(300, 9000) for _ in range(N)),
                                                            sp=[rng.uniform(0.009, 0.011) for _ in range(N)], no=[rng.uniform(1e-5, 1e-4) for _ in range(N)],
                                                            ww=[rng.uniform(1, 50) for _ in range(N)]))(rng.randint(1, 6)),
           short='TaurexSpectrum._load_from_hdf5',
           doc='an observation taken from a TauREx output file: row i of what ArraySpectrum receives = (10000 / wavenumber_i, spectrum_i, noise_i, '
               'wavenumber width_i converted to wavelength at that wavenumber) of the instrument arrays of the file; a file without them is a '
               'KeyError (h5py abstract; wnwidth_to_wlwidth by contract)')


def _os_params(c):
    if c.mode == 'conc':
        return dict(self=dict(__obj__='ObservedSpectrum'), filename='obs.dat')
    return dict(self=ObjSpec('ObservedSpectrum', _filename=None), filename='obs.dat', _table=c.array('tab', (c.int('N'), c.int('C'))))


def _h_os_loadtxt(ex, st, args, kwargs, node):
    st.trace.append(('ev', ('loadtxt', args[0], tuple(sorted(kwargs)))))
    return ex.root_env['_table']


def _h_os_init(ex, st, args, kwargs, node):
    st.trace.append(('ev', ('ArraySpectrum.__init__', args[1].id if isinstance(args[1], Ref) else args[1])))
    return None


def _os_post(c, v0, v1, r):
    if c.mode == 'conc':
        tr = c.trace or []
        return {'the_table_of_that_file_goes_to_ArraySpectrum_unchanged': [tuple(e) for e in tr] == [('loadtxt', 'obs.dat', ()), ('ArraySpectrum.__init__', 'the-table')]}
    ev = [tuple(e) for e in (c.trace or []) if e[0] in ('loadtxt', 'ArraySpectrum.__init__')]
    return {'the_table_of_that_file_goes_to_ArraySpectrum_unchanged': ev == [('loadtxt', v0.filename, ()), ('ArraySpectrum.__init__', c.raw['env']['_table'].id)]}


def _os_native(c, p):
    import numpy as np
    import taurex.data.spectrum.observed as M
    trace = []
    real_load, real_init = M.np.loadtxt, M.ArraySpectrum.__init__
    table = np.array([[1.0, 2.0, 3.0]])

    def fake_load(fn, **kw):
        trace.append(('loadtxt', fn, tuple(sorted(kw))))
        return table

    def fake_init(self, spectrum):
        trace.append(('ArraySpectrum.__init__', 'the-table' if spectrum is table else 'something else'))
    M.ArraySpectrum.__init__ = fake_init
    saved = np.loadtxt
    np.loadtxt = fake_load
    try:
        M.ObservedSpectrum('obs.dat')
    finally:
        np.loadtxt = saved
        M.ArraySpectrum.__init__ = real_init
    return None, dict(p, __trace__=trace)


OSI = Unit('C17', 'taurex.data.spectrum.observed:ObservedSpectrum.__init__', _os_params, post=_os_post, bounds=[],
           abstract={'call:loadtxt': _h_os_loadtxt, 'call:__init__': _h_os_init}, native=_os_native, gen=lambda rng: dict(N=2, C=3, tab=[[1.0, 2.0, 3.0], [2.0, 2.0, 3.0]]),
           frame_attrs=[('self', '_filename')], short='ObservedSpectrum.__init__',
           doc='an observation read from a text file: the table np.loadtxt returns for that file (default options) is handed to ArraySpectrum\'s '
               'constructor unchanged -- everything else (sorting, splitting, edges) is ArraySpectrum (own units); np.loadtxt abstract')


# ------------------------------------------------------------------ taurex_hdf5_to_observation: the same table, through the loader module
def _ho_params(c):
    N = c.int('N')
    if c.mode == 'conc':
        return dict(filename='out.h5')
    return dict(filename='out.h5', _file=dict(instrument_wngrid=c.array('wn', (N,)), instrument_spectrum=c.array('sp', (N,)), instrument_noise=c.array('no', (N,)),
                                             instrument_wnwidth=c.array('ww', (N,))))


def _h_ho_new(ex, st, args, kwargs, node):
    st.trace.append(('ev', ('ArraySpectrum', args[0])))
    return _AbsObj('ArraySpectrum', 'obs', {})


def _ho_post(c, v0, v1, r):
    if c.mode == 'conc':
        import numpy as np
        f = c.values['__file__']
        wn = np.asarray(f['instrument_wngrid'], dtype=float)
        want = np.vstack((10000 / wn, f['instrument_spectrum'], f['instrument_noise'], 10000 * np.asarray(f['instrument_wnwidth']) / wn ** 2)).T
        got = c.values['__table__']
        return {'an_ArraySpectrum_of_the_four_columns_row_by_row': r == 'ArraySpectrum' and np.asarray(got).shape == want.shape and bool(np.allclose(got, want, rtol=1e-12))}
    f = v0._file
    N = c.Len(f['instrument_wngrid'])
    wn, ww = f['instrument_wngrid'], f['instrument_wnwidth']
    calls = [e for e in (c.trace or []) if e[0] == 'ArraySpectrum']
    if len(calls) != 1 or not isinstance(c.raw['ret'], _AbsObj) or c.raw['ret'].cls != 'ArraySpectrum':
        return {'an_ArraySpectrum_of_the_four_columns_row_by_row': False}
    from pyvc.core import View
    t = View(c, {'t': calls[0][1]}, c.raw['state'].heap).t
    return {'an_ArraySpectrum_of_the_four_columns_row_by_row': c.And(
        c.Shape(t)[0] == N, c.Shape(t)[1] == 4,
        c.Forall(0, N, lambda i: c.And(c.Eq(t[i, 0] * wn[i], 10000), c.Eq(t[i, 1], f['instrument_spectrum'][i]), c.Eq(t[i, 2], f['instrument_noise'][i]),
                                        c.Eq(t[i, 3] * (wn[i] * wn[i]), 10000 * ww[i]))))}


def _ho_native(c, p):
    import os
    import h5py
    import numpy as np
    import taurex.util.hdf5 as H
    import taurex.data.spectrum as S
    v = c.values
    here = os.path.dirname(os.path.dirname(os.path.abspath(__file__)))
    base = os.path.join(here, '.cache', 'c17')
    os.makedirs(base, exist_ok=True)
    path = os.path.join(base, 'obs2_%d.h5' % os.getpid())
    f = dict(instrument_wngrid=np.array(v['wn'], dtype=float), instrument_spectrum=np.array(v['sp'], dtype=float), instrument_noise=np.array(v['no'], dtype=float),
             instrument_wnwidth=np.array(v['ww'], dtype=float))
    with h5py.File(path, 'w') as fh:
        g = fh.create_group('Output').create_group('Spectra')
        for k, a in f.items():
            g.create_dataset(k, data=a)
    seen = {}
    real = S.ArraySpectrum

    class _Rec:
        def __init__(self, table):
            seen['table'] = np.array(table, dtype=float)
    S.ArraySpectrum = _Rec
    try:
        o = H.taurex_hdf5_to_observation(path)
    finally:
        S.ArraySpectrum = real
        os.remove(path)
    c.values['__file__'], c.values['__table__'] = f, seen.get('table')
    return ('ArraySpectrum' if isinstance(o, _Rec) else repr(o)), p


HOB = Unit(['C17', 'C16'], 'taurex.util.hdf5:taurex_hdf5_to_observation', _ho_params, post=_ho_post, bounds=[dict(N=2)],
           pre=lambda c, v: {'wavenumbers_positive': (c.And(c.Len(v._file['instrument_wngrid']) >= 1,
                                                            c.Forall(0, c.Len(v._file['instrument_wngrid']), lambda i: v._file['instrument_wngrid'][i] > 0))
                                                      if c.mode != 'conc' else all(x > 0 for x in c.values['wn']))},
           abstract={'call:File': _h_ts_file, 'H5Group.__getitem__': lambda ex, st, o, args, kwargs, node: _ho_get(ex, st, o, args, node),
                     'H5Dataset.__getitem__': lambda ex, st, o, args, kwargs, node: st.get(ex.root_env['_file']).items[o.ident], 'new:ArraySpectrum': _h_ho_new},
           native=_ho_native, gen=lambda rng: (lambda N: dict(N=N, wn=sorted(rng.uniform(300, 9000) for _ in range(N)), sp=[rng.uniform(0.009, 0.011) for _ in range(N)],
                                                            no=[rng.uniform(1e-5, 1e-4) for _ in range(N)], ww=[rng.uniform(1, 50) for _ in range(N)]))(rng.randint(1, 6)),
           short='taurex_hdf5_to_observation',
           doc='the observation rebuilt from a TauREx output file: an ArraySpectrum of the table whose row i is (10000 / wavenumber_i, spectrum_i, '
               'noise_i, width_i converted at that wavenumber) of the instrument arrays (h5py abstract, ArraySpectrum: own units)')


def _ho_get(ex, st, o, args, node):
    key = args[0]
    path = (o.ident + '/' + key).lstrip('/')
    if path in ('Output', 'Output/Spectra'):
        return _AbsObj('H5Group', path, {})
    if o.ident == 'Output/Spectra' and key in st.get(ex.root_env['_file']).items:
        return _AbsObj('H5Dataset', key, {})
    raise _RaiseExc(st, _ExcV('KeyError', getattr(node, 'lineno', 0)))
