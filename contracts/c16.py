"""C16 -- output files hold what was computed and reload to the same model.

Deductive part: the recursive dictionary writer against an abstract output group (what is written, under which name,
by which primitive), and the spectrum dictionaries of the four binners (self-consistency of grids, widths, binned
spectra and optical depths).  h5py itself, the component write() methods and the loader are exercised by bounded
run-time items (real HDF5 round trip; every built-in component written, reloaded and compared; whole model)."""
import z3
from pyvc.unit import Unit, ObjSpec, Lemma, Bounded
from pyvc.engine import AbsObj, FuncV, ExcV, _Raise
from pyvc.core import Arr, Obj, PyDict, PyList, Ref, is_sym, to_int

UT = 'taurex.util.util:'
from contracts import c05 as _c05          # compute_bin_edges, wnwidth_to_wlwidth by contract


def _ev(st, *payload):
    st.trace.append(('ev', tuple(payload)))


class _NS:
    def __init__(self, **kw):
        self.__dict__.update(kw)


# ------------------------------------------------------------------ store_thing / recursively_save_dict_contents_to_output
ITEMS = ['float', 'int', 'array', 'str', 'strlist', 'numlist', 'numtuple', 'emptylist', 'emptytuple', 'dict', 'emptydict', 'none', 'object']


def _mk_item(c, kind):
    if kind == 'float':
        return c.real('x')
    if kind == 'int':
        return c.int('k')
    if kind == 'array':
        return c.array('a', (c.int('n'),))
    if kind == 'str':
        return 'text'
    if kind == 'strlist':
        return ['H2O', 'CH4']
    if kind == 'numlist':
        return [c.real('x'), c.real('y')]
    if kind == 'numtuple':
        return (c.real('x'), c.real('y'))
    if kind == 'emptylist':
        return []
    if kind == 'emptytuple':
        return ()
    if kind == 'dict':
        return {'inner': c.real('x'), 'label': 'text'}
    if kind == 'emptydict':
        return {}
    if kind == 'none':
        return None
    return dict(__obj__='Opaque') if c.mode == 'conc' else AbsObj('Opaque', 0, {})


def _group(c):
    return dict(__obj__='OutputGroup', gid='root') if c.mode == 'conc' else AbsObj('OutputGroup', 'root', {})


def _h_write(kind):
    def h(ex, st, o, args, kwargs, node):
        _ev(st, kind, o.ident, args[0], args[1])
        return None
    return h


def _h_create_group(ex, st, o, args, kwargs, node):
    gid = '%s/%s' % (o.ident, args[0])
    _ev(st, 'create_group', o.ident, args[0])
    return AbsObj('OutputGroup', gid, {})


def _h_recurse(ex, st, args, kwargs, node):
    """recursively_save_dict_contents_to_output(group, dict) by contract: every item of the dict is stored under its
    key in that group (unit below)"""
    _ev(st, 'save_dict', args[0].ident, args[1])
    return None


_OUT_ABS = {'OutputGroup.write_scalar': _h_write('scalar'), 'OutputGroup.write_array': _h_write('array'),
            'OutputGroup.write_string': _h_write('string'), 'OutputGroup.write_string_array': _h_write('string_array'),
            'OutputGroup.create_group': _h_create_group}


def _st_params(c):
    return dict(output=_group(c), key='name', item=_mk_item(c, c.choice('kind')))


def _st_raises(c, v):
    kind = c.fixed['kind'] if c.mode != 'conc' else c.values['kind']
    return {'TypeError': kind in ('none', 'object')}


def _st_post(c, v0, v1, r):
    """a number -> write_scalar, an array -> write_array, a string -> write_string, a list/tuple with strings ->
    write_string_array, of numbers -> write_array of those numbers, a dict -> a sub-group of that name holding its
    items; always under the SAME name, with the value unchanged, once; nothing else is written"""
    kind = c.fixed['kind'] if c.mode != 'conc' else c.values['kind']
    tr = list(c.trace or [])
    prim = {'float': 'scalar', 'int': 'scalar', 'array': 'array', 'str': 'string', 'strlist': 'string_array', 'numlist': 'array',
            'numtuple': 'array', 'emptylist': 'array', 'emptytuple': 'array'}
    if kind in prim:
        d = {'one_write_with_the_right_primitive': len(tr) == 1 and tr[0][0] == prim[kind] and tr[0][1] == 'root' and tr[0][2] == 'name'}
        if not d['one_write_with_the_right_primitive']:
            return d
        val = tr[0][3]
        if c.mode == 'conc':
            import numpy as np
            want = v0.item
            d['value_unchanged'] = bool(np.array_equal(np.asarray(val), np.asarray(want))) if not isinstance(want, str) else val == want
        elif kind in ('float', 'int'):
            d['value_unchanged'] = is_sym(val) and val.eq(c.raw['env']['item'])
        elif kind == 'array':
            d['value_unchanged'] = isinstance(val, Ref) and val.id == c.raw['env']['item'].id
        elif kind == 'str':
            d['value_unchanged'] = val == 'text'
        elif kind == 'strlist':
            d['value_unchanged'] = isinstance(val, Ref) and c.raw['state'].get(val).items == ['H2O', 'CH4']
        elif kind in ('emptylist', 'emptytuple'):
            a = c.raw['state'].get(val) if isinstance(val, Ref) else None
            d['value_unchanged'] = isinstance(a, Arr) and a.ndim == 1 and to_int(a.shape[0]).eq(z3.IntVal(0))
        else:
            a = c.raw['state'].get(val)
            d['value_unchanged'] = isinstance(a, Arr) and a.shape[0] == 2 and a.elem((0,)).eq(z3.Real('x')) and a.elem((1,)).eq(z3.Real('y'))
        return d
    return {'sub_group_of_that_name_holding_the_items': len(tr) == 2 and tr[0][:3] == ('create_group', 'root', 'name') and
            tr[1][0] == 'save_dict' and tr[1][1] == 'root/name'}


def _rec_group(trace, gid='root'):
    g = _NS()
    g.write_scalar = lambda k, v, metadata=None: trace.append(('scalar', gid, k, v))
    g.write_array = lambda k, v, metadata=None: trace.append(('array', gid, k, v))
    g.write_string = lambda k, v, metadata=None: trace.append(('string', gid, k, v))
    g.write_string_array = lambda k, v, metadata=None: trace.append(('string_array', gid, k, v))
    g.create_group = lambda k: (trace.append(('create_group', gid, k)), _rec_group(trace, gid + '/' + k))[1]
    return g


def _st_native(c, p):
    import numpy as np
    import taurex.util.util as uu
    trace = []
    kind = c.values['kind']
    item = p['item']
    if kind == 'object':
        item = object()
    saved = uu.recursively_save_dict_contents_to_output
    from pyvc.unit import patched
    with patched(saved, lambda g, d: trace.append(('save_dict', 'root/name', d))):
        uu.store_thing(_rec_group(trace), 'name', item)
    return None, dict(p, __trace__=trace)


ST = Unit('C16', UT + 'store_thing', _st_params, raises=_st_raises, post=_st_post, cases=[{'kind': k} for k in ITEMS], bounds=[dict(n=2)],
          abstract=dict(_OUT_ABS, **{'call:recursively_save_dict_contents_to_output': _h_recurse}), native=_st_native,
          gen=lambda rng: dict(kind=rng.choice(ITEMS), x=rng.uniform(-5, 5), y=rng.uniform(-5, 5), k=rng.randint(-9, 9), n=3, a=[1.0, 2.5, -3.0]),
          short='store_thing', doc='type dispatch of the dictionary writer against an abstract output group (write primitives = effects)')


def _rs_params(c):
    kinds = c.choice('kinds')
    return dict(output=_group(c), dic={('k%d' % i): _mk_item(c, k) for i, k in enumerate(kinds)})


def _h_store(ex, st, args, kwargs, node):
    """store_thing by contract (unit above): stores the item under that key, TypeError for a type that cannot be stored"""
    item = args[2]
    if item is None or (isinstance(item, AbsObj) and item.cls == 'Opaque'):
        raise _Raise(st, ExcV('TypeError', getattr(node, 'lineno', 0)))
    _ev(st, 'store', args[0].ident, args[1])
    return None


def _rs_raises(c, v):
    kinds = c.fixed['kinds'] if c.mode != 'conc' else c.values['kinds']
    return {'ValueError': any(k in ('none', 'object') for k in kinds)}


def _rs_post(c, v0, v1, r):
    kinds = c.fixed['kinds'] if c.mode != 'conc' else c.values['kinds']
    tr = [e for e in (c.trace or []) if e[0] == 'store']
    return {'every_item_stored_once_under_its_key_in_order': [(e[1], e[2]) for e in tr] == [('root', 'k%d' % i) for i in range(len(kinds))]}


def _rs_native(c, p):
    import taurex.util.util as uu
    trace = []
    kinds = c.values['kinds']
    dic = {k: (object() if kinds[i] == 'object' else v) for i, (k, v) in enumerate(p['dic'].items())}
    saved = uu.store_thing

    def store(g, k, item):
        if item is None or type(item) is object:
            raise TypeError
        trace.append(('store', 'root', k))
    from pyvc.unit import patched
    with patched(saved, store):
        uu.recursively_save_dict_contents_to_output(_rec_group([]), dic)
    return None, dict(p, __trace__=trace)


_RS_CASES = [dict(kinds=k) for k in ((), ('float',), ('array', 'str', 'dict'), ('strlist', 'none'), ('object',), ('int', 'numlist', 'emptydict'))]
RS = Unit('C16', UT + 'recursively_save_dict_contents_to_output', _rs_params, raises=_rs_raises, post=_rs_post, cases=_RS_CASES, bounds=[dict(n=2)],
          abstract={'call:store_thing': _h_store}, native=_rs_native,
          gen=lambda rng: dict(rng.choice(_RS_CASES), x=1.5, y=-2.0, k=3, n=2, a=[1.0, 2.0]), short='recursively_save_dict_contents_to_output',
          doc='every item of the dictionary is stored once under its own key, in order; an item that cannot be stored is a ValueError')


# ------------------------------------------------------------------ spectrum dictionaries
BN = 'taurex.binning.'


def _so_params(cls, **attrs):
    def params(c):
        N, B, n = c.int('N'), c.int('B'), c.int('n')
        has = c.choice('osize')
        tau = c.array('tau', (n, N))
        d = dict(self=ObjSpec(cls, **{k: f(c, B) for k, f in attrs.items()}),
                 model_output=(c.array('wn', (N,)), c.array('flux', (N,)), tau, None), output_size=has)
        return d
    return params


def _h_bindown(ex, st, args, kwargs, node):
    """Binner.bindown by contract (C05): returns (grid, binned values, error, widths)"""
    c = ex.c
    B = c.uf.setdefault('__B__', c.fresh('B'))
    me, wn, spec = args[0], args[1], args[2]
    t = sum(1 for tag, y in st.trace if tag == 'ev' and y[0] == 'bindown')
    S = st.get(spec)
    out = st.alloc(c, c.fresh_array('binned%d' % t, (B,) if S.ndim == 1 else (S.shape[0], B)))
    _ev(st, 'bindown', wn.id, spec.id, out.id)
    return ('<grid>', out, None, '<widths>')


def _so_post(kind):
    def post(c, v0, v1, r):
        """native_wlgrid = 10000 / native_wngrid; binned grids/widths describe the binner's own bins with wavelength widths
        = wavenumber widths converted at the bin centre (10000 dnu / nu^2); binned spectrum / optical depth = this
        binner applied to the stored native ones; optical depths present according to the requested output size"""
        wn, flux, tau, _ = v0.model_output
        osize = v0.output_size
        N = c.Len(wn)
        if c.mode == 'conc':
            c._conc_model_output = (wn, flux, tau)
        if not isinstance(r, dict):
            return {'dict': False}
        d = {'native_grid_and_spectrum_stored': 'native_wngrid' in r and 'native_spectrum' in r and _same_ref_or_value(c, r, 'native_wngrid', 0) and
             _same_ref_or_value(c, r, 'native_spectrum', 1)}
        d['native_wavelengths'] = 'native_wlgrid' in r and c.And(c.Len(r['native_wlgrid']) == N, c.Forall(0, N, lambda i: c.Eq(r['native_wlgrid'][i], 10000 / wn[i])))
        want_native_tau = osize > 3
        want_binned_tau = osize > 1 and kind != 'native'
        d['native_tau_presence'] = ('native_tau' in r) == want_native_tau
        d['binned_tau_presence'] = ('binned_tau' in r) == want_binned_tau
        if kind == 'native':
            d['no_binned_entries'] = not any(k.startswith('binned') for k in r)
            return d
        tr = [e for e in (c.trace or []) if e[0] == 'bindown']
        if c.mode == 'conc':
            d['binned_spectrum_is_bindown_of_native'] = 'binned_spectrum' in r and r['binned_spectrum'] == 'binned:flux'
            if want_binned_tau:
                d['binned_tau_is_bindown_of_native_tau'] = r.get('binned_tau') == 'binned:tau'
        else:
            env = c.raw['env']
            heap = c.raw['state'].heap
            rr = heap[c.raw['ret'].id].items
            wn_id, fl_id, tau_id = env['model_output'][0].id, env['model_output'][1].id, env['model_output'][2].id
            first = [e for e in tr if e[2] == fl_id]
            d['binned_spectrum_is_bindown_of_native'] = len(first) >= 1 and first[0][1] == wn_id and isinstance(rr.get('binned_spectrum'), Ref) and \
                rr['binned_spectrum'].id == first[0][3]
            if want_binned_tau:
                tt = [e for e in tr if e[2] == tau_id]
                d['binned_tau_is_bindown_of_native_tau'] = len(tt) == 1 and tt[0][1] == wn_id and isinstance(rr.get('binned_tau'), Ref) and rr['binned_tau'].id == tt[0][3]
        if kind in ('flux', 'simple'):
            g = v0.self._wngrid
            w = v0.self._wngrid_width if kind == 'flux' else v0.self._wn_width
            B = c.Len(g)
            for k in ('binned_wngrid', 'binned_wlgrid', 'binned_wnwidth', 'binned_wlwidth'):
                if k not in r:
                    d['binned_bins_described'] = False
                    return d
            d['binned_centres'] = c.And(c.Len(r['binned_wngrid']) == B, c.Forall(0, B, lambda i: c.Eq(r['binned_wngrid'][i], g[i])))
            d['binned_wavelengths'] = c.And(c.Len(r['binned_wlgrid']) == B, c.Forall(0, B, lambda i: c.Eq(r['binned_wlgrid'][i], 10000 / g[i])))
            d['binned_wavenumber_widths'] = c.And(c.Len(r['binned_wnwidth']) == B, c.Forall(0, B, lambda i: c.Eq(r['binned_wnwidth'][i], w[i])))
            d['binned_wavelength_widths_converted_at_centre'] = c.And(c.Len(r['binned_wlwidth']) == B, c.Forall(
                0, B, lambda i: c.Eq(r['binned_wlwidth'][i], 10000 * w[i] / (g[i] * g[i]))))
        return d
    return post


def _same_ref_or_value(c, r, key, idx):
    if c.mode == 'conc':
        import numpy as np
        return bool(np.array_equal(np.asarray(r[key]), np.asarray(c_view_item(c, idx))))
    rr = c.raw['state'].heap[c.raw['ret'].id].items
    return isinstance(rr.get(key), Ref) and rr[key].id == c.raw['env']['model_output'][idx].id


def c_view_item(c, idx):
    return c._conc_model_output[idx]


def _so_pre(kind):
    def pre(c, v):
        wn = v.model_output[0]
        d = {'sizes': c.And(c.Len(wn) >= 2, c.Len(v.model_output[1]) == c.Len(wn)), 'positive_grid': c.Forall(0, c.Len(wn), lambda i: c.Lt(0, wn[i]))}
        if kind in ('flux', 'simple'):
            g = v.self._wngrid
            w = v.self._wngrid_width if kind == 'flux' else v.self._wn_width
            d['bins'] = c.And(c.Len(g) >= 1, c.Len(w) == c.Len(g), c.Forall(0, c.Len(g), lambda i: c.And(c.Lt(0, g[i]), c.Lt(0, w[i]))))
        return d
    return pre


def _so_native(modname, clsname, kind):
    """(object builder, call) of the history harness: one binner object serves several spectra; the attributes the
    contract describes are set from the current inputs at every call, anything else the object keeps is its own"""
    def obj(c, p):
        import importlib
        K = getattr(importlib.import_module(modname), clsname)
        return K.__new__(K)

    def call(c, o, p):
        import numpy as np
        for k, v in p['self'].items():
            if k != '__obj__':
                setattr(o, k, np.array(v, dtype=float))
        wn, flux, tau = (np.array(x, dtype=float) for x in p['model_output'][:3])
        o.bindown = lambda g, s, grid_width=None, error=None: ('<grid>', 'binned:flux' if s is flux else ('binned:tau' if s is tau else 'binned:?'), None, None)
        r = o.generate_spectrum_output((wn, flux, tau, None), output_size=p['output_size'])
        q = dict(p, model_output=(wn, flux, tau, None))
        return r, q
    return obj, call


def _so_gen(kind):
    def gen(rng):
        N, B, n = rng.randint(2, 5), rng.randint(1, 3), rng.randint(1, 2)
        return dict(N=N, B=B, n=n, osize=rng.choice([1, 3, 6]), wn=sorted(rng.uniform(300, 9000) for _ in range(N)), flux=[rng.uniform(0, 1) for _ in range(N)],
                    tau=[[rng.uniform(0, 1) for _ in range(N)] for _ in range(n)], g=sorted(rng.uniform(300, 9000) for _ in range(B)),
                    w=[rng.uniform(1, 200) for _ in range(B)])
    return gen


_OS_CASES = [{'osize': 1}, {'osize': 3}, {'osize': 6}]
for _mod, _cls, _kind, _attrs in (('binner', 'Binner', 'base', {}),
                                  ('fluxbinner', 'FluxBinner', 'flux', {'_wngrid': lambda c, B: c.array('g', (B,)), '_wngrid_width': lambda c, B: c.array('w', (B,))}),
                                  ('simplebinner', 'SimpleBinner', 'simple', {'_wngrid': lambda c, B: c.array('g', (B,)), '_wn_width': lambda c, B: c.array('w', (B,))}),
                                  ('nativebinner', 'NativeBinner', 'native', {})):
    Unit('C16', BN + '%s:%s.generate_spectrum_output' % (_mod, _cls), _so_params(_cls, **_attrs), pre=_so_pre(_kind), post=_so_post(_kind),
         cases=_OS_CASES, bounds=[dict(N=2, B=1, n=1)], abstract={'call:bindown': _h_bindown}, native_obj=_so_native('taurex.binning.' + _mod, _cls, _kind)[0],
         native_call=_so_native('taurex.binning.' + _mod, _cls, _kind)[1], history_fixed=('B', 'g', 'w'),
         gen=_so_gen(_kind), inline=['generate_spectrum_output'], short='%s.generate_spectrum_output' % _cls, safety=('index',),
         doc='stored spectra describe themselves consistently (%s binner); bindown abstract (C05), compute_bin_edges / '
             'wnwidth_to_wlwidth by contract' % _kind)


# ------------------------------------------------------------------ bounded: real HDF5 round trip of nested dictionaries
def _rand_dict(rng, depth=0):
    import numpy as np
    d = {}
    for i in range(rng.randint(1, 5)):
        k = rng.choice(['alpha', 'beta', 'gamma', 'Log-Evidence', 'T', 'fit params', 'x1', 'map']) + str(i)
        kind = rng.choice(['float', 'int', 'array', 'array2', 'str', 'strlist', 'numlist', 'numtuple', 'dict', 'npfloat', 'npint'] if depth < 2 else ['float', 'array', 'str'])
        if kind == 'float':
            d[k] = rng.uniform(-1e6, 1e6)
        elif kind == 'int':
            d[k] = rng.randint(-1000, 1000)
        elif kind == 'npfloat':
            d[k] = np.float64(rng.uniform(-5, 5))
        elif kind == 'npint':
            d[k] = np.int64(rng.randint(-5, 5))
        elif kind == 'array':
            d[k] = np.array([rng.uniform(-1, 1) for _ in range(rng.randint(0, 6))])
        elif kind == 'array2':
            d[k] = np.array([[rng.uniform(-1, 1) for _ in range(3)] for _ in range(rng.randint(1, 3))])
        elif kind == 'str':
            d[k] = rng.choice(['nestle', 'H2O', 'a longer string with spaces', ''])
        elif kind == 'strlist':
            d[k] = [rng.choice(['T', 'log_H2O', 'planet_radius']) for _ in range(rng.randint(1, 4))]
        elif kind == 'numlist':
            d[k] = [rng.uniform(-1, 1) for _ in range(rng.randint(0, 4))]
        elif kind == 'numtuple':
            d[k] = tuple(rng.uniform(-1, 1) for _ in range(rng.randint(0, 4)))
        else:
            d[k] = _rand_dict(rng, depth + 1)
    return d


def _compare(want, grp, path, fails):
    import numpy as np
    import h5py
    for k, v in want.items():
        here = path + '/' + k
        if k not in grp:
            fails.append(dict(clause='roundtrip.missing_name', inputs=dict(name=here)))
            continue
        g = grp[k]
        if isinstance(v, dict):
            if not isinstance(g, h5py.Group):
                fails.append(dict(clause='roundtrip.not_a_group', inputs=dict(name=here)))
            else:
                _compare(v, g, here, fails)
            continue
        got = g[()]
        if isinstance(v, str):
            ok = (got.decode() if isinstance(got, bytes) else got) == v
        elif isinstance(v, (list, tuple)) and any(isinstance(x, str) for x in v):
            ok = [x[0].decode() for x in got] == list(v)
        else:
            ok = np.asarray(got).dtype.kind in 'fiu' and np.array_equal(np.asarray(got, dtype=float), np.asarray(v, dtype=float))
        if not ok:
            fails.append(dict(clause='roundtrip.value_changed', inputs=dict(name=here), got=repr(got)[:120], want=repr(v)[:120]))
    extra = set(grp.keys()) - set(want.keys())
    if extra:
        fails.append(dict(clause='roundtrip.unexpected_names', inputs=dict(name=path, extra=sorted(extra))))


def _b_roundtrip(seed, tier):
    import os
    import random
    import tempfile
    import h5py
    from taurex.output.hdf5 import HDF5Output
    from taurex.util.util import recursively_save_dict_contents_to_output
    rng = random.Random(seed)
    here = os.path.dirname(os.path.dirname(os.path.abspath(__file__)))
    base = os.path.join(here, '.cache', 'c16')
    os.makedirs(base, exist_ok=True)
    N = 15 if tier == 'quick' else 600
    fails, cases = [], 0
    for it in range(N):
        d = _rand_dict(rng)
        fd, path = tempfile.mkstemp(suffix='.h5', dir=base)
        os.close(fd)
        os.remove(path)
        cases += 1
        try:
            with HDF5Output(path) as o:
                recursively_save_dict_contents_to_output(o.create_group('Top'), d)
            with h5py.File(path, 'r') as f:
                _compare(d, f['Top'], 'Top', fails)
        except Exception as e:
            fails.append(dict(clause='roundtrip.raises', inputs=dict(case=it, seed=seed), got=repr(e)[:300]))
        finally:
            if os.path.exists(path):
                os.remove(path)
    return {'cases': cases, 'failures': fails, 'samples': [dict(case=0, seed=seed)],
            'bound': '%d random nested dictionaries (floats, ints, numpy scalars, 1-D/2-D arrays, strings, string lists, numeric lists and tuples, '
                     'sub-dictionaries to depth 2) written by HDF5Output and read back with h5py' % N}


Bounded('C16', 'hdf5_roundtrip_of_nested_dictionaries', _b_roundtrip, doc='h5py has no model: real files only')


# ------------------------------------------------------------------ bounded: every built-in component written, reloaded, compared
def _component_cases(rng):
    """(label, constructor, kwargs with NON-default values, loader(group) -> object)"""
    import numpy as np
    from taurex.data.profiles.temperature import Isothermal, Guillot2010, NPoint
    from taurex.data.profiles.pressure import SimplePressureProfile
    from taurex.data.planet import Planet
    from taurex.data.stellar import BlackbodyStar
    from taurex.data.profiles.chemistry import ConstantGas, TwoLayerGas, PowerGas, TaurexChemistry
    from taurex.contributions import SimpleCloudsContribution, LeeMieContribution, FlatMieContribution, CIAContribution
    from taurex.model import TransmissionModel, EmissionModel
    import taurex.util.hdf5 as L
    u = rng.uniform
    return [
        ('Isothermal', Isothermal, dict(T=round(u(500, 2500), 1)), lambda g: L.load_temperature_from_hdf5(g), 'Temperature'),
        ('Guillot2010', Guillot2010, dict(T_irr=round(u(800, 2500), 1), kappa_irr=round(u(0.001, 0.1), 4), kappa_v1=round(u(0.001, 0.01), 4),
                                         kappa_v2=round(u(0.001, 0.01), 4), alpha=round(u(0.1, 0.9), 2), T_int=round(u(50, 300), 1)),
         lambda g: L.load_temperature_from_hdf5(g), 'Temperature'),
        ('NPoint', NPoint, dict(T_surface=round(u(1500, 2500), 1), T_top=round(u(300, 900), 1), P_surface=1e5, P_top=1.0, temperature_points=[1200.0],
                                pressure_points=[1e3], smoothing_window=7, limit_slope=round(u(2000, 8000))), lambda g: L.load_temperature_from_hdf5(g), 'Temperature'),
        ('SimplePressureProfile', SimplePressureProfile, dict(nlayers=rng.randint(5, 40), atm_min_pressure=round(10 ** u(-4, -1), 6),
                                                               atm_max_pressure=round(10 ** u(4, 6), 1)), lambda g: L.load_pressure_from_hdf5(g), 'Pressure'),
        ('Planet', Planet, dict(planet_mass=round(u(0.3, 3), 3), planet_radius=round(u(0.5, 2), 3), planet_distance=round(u(0.01, 2), 3), impact_param=round(u(0, 0.9), 2),
                                orbital_period=round(u(1, 20), 2), albedo=round(u(0, 0.9), 2), transit_time=round(u(1000, 9000))), lambda g: L.load_planet_from_hdf5(g), 'Planet'),
        ('BlackbodyStar', BlackbodyStar, dict(temperature=round(u(3000, 8000)), radius=round(u(0.3, 2), 3), distance=round(u(1, 100), 2), magnitudeK=round(u(5, 12), 2),
                                              mass=round(u(0.3, 2), 3), metallicity=round(u(0.5, 2), 2)), lambda g: L.load_star_from_hdf5(g), 'Star'),
        ('ConstantGas', ConstantGas, dict(molecule_name='CH4', mix_ratio=10 ** u(-8, -3)), lambda g: L.load_gas_from_hdf5(g, 'CH4'), None),
        ('TwoLayerGas', TwoLayerGas, dict(molecule_name='H2O', mix_ratio_surface=10 ** u(-6, -3), mix_ratio_top=10 ** u(-9, -6), mix_ratio_P=10 ** u(2, 4),
                                          mix_ratio_smoothing=rng.randint(5, 20)), lambda g: L.load_gas_from_hdf5(g, 'H2O'), None),
        ('PowerGas', PowerGas, dict(molecule_name='TiO', profile_type='TiO', mix_ratio_surface=10 ** u(-8, -5), alpha=round(u(0.5, 2), 2), beta=round(u(3, 6), 2),
                                    gamma=round(u(0.1, 0.9), 2)), lambda g: L.load_gas_from_hdf5(g, 'TiO'), None),
        ('SimpleClouds', SimpleCloudsContribution, dict(clouds_pressure=10 ** u(1, 5)), lambda g: L.load_contrib_from_hdf5(g, 'SimpleCloudsContribution'), None),
        ('LeeMie', LeeMieContribution, dict(lee_mie_radius=round(u(0.01, 1), 3), lee_mie_q=round(u(1, 90), 1), lee_mie_mix_ratio=10 ** u(-12, -6),
                                            lee_mie_bottomP=10 ** u(3, 5), lee_mie_topP=10 ** u(-1, 2)), lambda g: L.load_contrib_from_hdf5(g, 'LeeMieContribution'), None),
        ('FlatMie', FlatMieContribution, dict(flat_mix_ratio=10 ** u(-12, -6), flat_bottomP=10 ** u(3, 5), flat_topP=10 ** u(-1, 2)),
         lambda g: L.load_contrib_from_hdf5(g, 'FlatMieContribution'), None),
        ('CIA', CIAContribution, dict(cia_pairs=['H2-H2', 'H2-He']), lambda g: L.load_contrib_from_hdf5(g, 'CIAContribution'), None),
    ] + _more_component_cases(rng)


def _more_component_cases(rng):
    """the registered classes the first list left out: the layer-correlated temperature profile, the array / file based profiles
    (their files are written next to the scratch output) and the contributions without keywords"""
    import os
    import numpy as np
    from taurex.data.profiles.temperature import Rodgers2000, TemperatureFile
    from taurex.data.profiles.pressure import ArrayPressureProfile, FilePressureProfile
    from taurex.data.profiles.chemistry import ChemistryFile
    from taurex.contributions import AbsorptionContribution, RayleighContribution, HydrogenIon
    import taurex.util.hdf5 as L
    u = rng.uniform
    here = os.path.dirname(os.path.dirname(os.path.abspath(__file__)))
    base = os.path.join(here, '.cache', 'c16')
    os.makedirs(base, exist_ok=True)
    n = rng.randint(3, 6)
    press = sorted((10 ** u(-3, 1) for _ in range(n)), reverse=True)       # bar, surface first
    temps = [round(u(500, 2500), 1) for _ in range(n)]
    pt = os.path.join(base, 'pt_%d.dat' % os.getpid())
    np.savetxt(pt, np.array([press, temps]).T, header='P[bar] T[K]')
    mixes = os.path.join(base, 'mix_%d.dat' % os.getpid())
    np.savetxt(mixes, np.array([[10 ** u(-8, -3) for _ in range(n)], [10 ** u(-8, -3) for _ in range(n)], [0.8] * n]).T)
    arr = np.array(sorted((10 ** u(-2, 6) for _ in range(n)), reverse=True))
    return [
        ('Rodgers2000', Rodgers2000, dict(temperature_layers=temps, correlation_length=round(u(1, 10), 2)), lambda g: L.load_temperature_from_hdf5(g), 'Temperature'),
        ('ArrayPressureProfile', ArrayPressureProfile, dict(array=arr), lambda g: L.load_pressure_from_hdf5(g), 'Pressure'),
        ('ArrayPressureProfile/reverse', ArrayPressureProfile, dict(array=arr[::-1].copy(), reverse=True), lambda g: L.load_pressure_from_hdf5(g), 'Pressure'),
        ('FilePressureProfile', FilePressureProfile, dict(filename=pt, usecols=0, skiprows=1, units='bar'), lambda g: L.load_pressure_from_hdf5(g), 'Pressure'),
        ('TemperatureFile', TemperatureFile, dict(filename=pt, skiprows=1, temp_col=1), lambda g: L.load_temperature_from_hdf5(g), 'Temperature'),
        ('TemperatureFile/pressure', TemperatureFile, dict(filename=pt, skiprows=1, temp_col=1, press_col=0, press_units='bar'),
         lambda g: L.load_temperature_from_hdf5(g), 'Temperature'),
        ('ChemistryFile', ChemistryFile, dict(gases=['H2O', 'CH4', 'H2'], filename=mixes), lambda g: L.load_chemistry_from_hdf5(g), 'Chemistry'),
        ('Absorption', AbsorptionContribution, dict(), lambda g: L.load_contrib_from_hdf5(g, 'AbsorptionContribution'), None),
        ('Rayleigh', RayleighContribution, dict(), lambda g: L.load_contrib_from_hdf5(g, 'RayleighContribution'), None),
        ('HydrogenIon', HydrogenIon, dict(), lambda g: L.load_contrib_from_hdf5(g, 'HydrogenIon'), None),
    ]


def _make_writable(obj):
    """bring a freshly constructed component into the state in which a model writes it (profiles computed)"""
    import numpy as np
    if hasattr(obj, 'compute_pressure_profile'):
        obj.compute_pressure_profile()
    if type(obj).__name__ == 'HydrogenIon':       # a model runs before it writes: the mixing ratios prepare_each leaves behind
        obj._hydrogen_mixratio, obj._electron_mixratio = np.full(4, 1e-4), np.full(4, 1e-6)
    from taurex.data.profiles.temperature import TemperatureProfile
    if isinstance(obj, TemperatureProfile):
        n = len(getattr(obj, '_T_layers', range(5)))
        obj.initialize_profile(None, n, np.logspace(5, 0, n))
    if hasattr(obj, 'initialize') and hasattr(obj, 'sed'):
        obj.initialize(np.linspace(500, 5000, 5))


def _written(obj):
    """what obj.write() stores, as {name: value}, through a recording output group"""
    import numpy as np
    out = {}

    class G:
        def __init__(self, d):
            self.d = d

        def write_scalar(self, k, v, metadata=None):
            self.d[k] = v

        write_array = write_string = write_string_array = write_scalar

        def create_group(self, k):
            self.d[k] = {}
            return G(self.d[k])
    obj.write(G(out))
    return out


def _b_components(seed, tier):
    """every constructor keyword of every built-in component is written under its own name and the loader rebuilds an
    object that writes the same values (so the parameter survives the file)"""
    import os
    import random
    import tempfile
    import numpy as np
    import h5py
    import logging
    from taurex.output.hdf5 import HDF5Output
    from taurex.util.hdf5 import get_klass_args
    rng = random.Random(seed)
    here = os.path.dirname(os.path.dirname(os.path.abspath(__file__)))
    base = os.path.join(here, '.cache', 'c16')
    os.makedirs(base, exist_ok=True)
    fails, cases = [], 0
    rounds = 1 if tier == 'quick' else 8
    for rd in range(rounds):
        for label, K, kw, loader, section in _component_cases(rng):
            cases += 1
            inp = dict(component=label, kwargs={k: (v if not isinstance(v, float) else float(v)) for k, v in kw.items()})
            fd, path = tempfile.mkstemp(suffix='.h5', dir=base)
            os.close(fd)
            os.remove(path)
            try:
                obj = K(**kw)
                _make_writable(obj)
                with HDF5Output(path) as o:
                    obj.write(o)
                with h5py.File(path, 'r') as f:
                    obj2 = loader(f)
                    _make_writable(obj2)
                    names = set()
                    f.visit(lambda n: names.add(n.split('/')[-1]))
                import inspect
                sig = inspect.signature(K.__init__).parameters
                for k in get_klass_args(K):
                    if k == 'planet_sma':
                        continue          # documented alias of planet_distance (one field by design)
                    if kw.get(k, sig[k].default) is None:
                        continue          # None cannot be stored; the loader then leaves the default, which is None
                    if K.__name__ == 'ArrayPressureProfile' and k == 'reverse':
                        continue          # an input-order flag: the array is stored in the order in use (reload with the default)
                    if k not in names:
                        fails.append(dict(clause='component.keyword_not_written', inputs=dict(component=label, keyword=k)))
                w1, w2 = _written(obj), _written(obj2)
                if type(obj2) is not type(obj):
                    fails.append(dict(clause='component.reloaded_as_another_class', inputs=inp, got=type(obj2).__name__))
                diff = _dict_diff(w1, w2)
                if diff:
                    fails.append(dict(clause='component.parameter_changed_by_reload', inputs=dict(component=label, names=diff[:6])))
            except Exception as e:
                fails.append(dict(clause='component.raises', inputs=dict(component=label), got=repr(e)[:300]))
            finally:
                if os.path.exists(path):
                    os.remove(path)
    return {'cases': cases, 'failures': fails, 'samples': [dict(component='Guillot2010')],
            'bound': '%d component cases (every class the ClassFactory registers for temperature, pressure, gas, chemistry, star -- PhoenixStar excepted: '
                     'its spectra library is not installed -- and contribution) x %d random non-default parameter sets, written with HDF5Output, '
                     'reloaded with taurex.util.hdf5' % (cases // max(rounds, 1), rounds)}


def _dict_diff(a, b, path=''):
    import numpy as np
    out = []
    for k in set(a) | set(b):
        if k not in a or k not in b:
            out.append(path + k + ' (missing)')
        elif isinstance(a[k], dict) and isinstance(b[k], dict):
            out += _dict_diff(a[k], b[k], path + k + '/')
        else:
            try:
                same = np.allclose(np.asarray(a[k], dtype=float), np.asarray(b[k], dtype=float), rtol=1e-12, atol=0)
            except (TypeError, ValueError):
                same = (list(a[k]) == list(b[k])) if isinstance(a[k], (list, tuple)) else a[k] == b[k]
            if not same:
                out.append(path + k)
    return sorted(out)


Bounded('C16', 'components_written_and_reloaded', _b_components, doc='component write() methods and the HDF5 loader that inverts them')


# ------------------------------------------------------------------ bounded: whole model through the program, file and loader
def _b_model_file(seed, tier):
    import os
    import random
    import shutil
    import tempfile
    import numpy as np
    import h5py
    from taurex.cache import OpacityCache, GlobalCache
    from taurex.util.hdf5 import taurex_hdf5_to_model
    from taurex.util.util import wnwidth_to_wlwidth
    from contracts import c15
    rng = random.Random(seed)
    here = os.path.dirname(os.path.dirname(os.path.abspath(__file__)))
    base = os.path.join(here, '.cache', 'c16')
    os.makedirs(base, exist_ok=True)
    N = 2 if tier == 'quick' else 12
    fails, cases, samples = [], 0, []
    saved = dict(GlobalCache().variable_dict)
    for it in range(N):
        d = tempfile.mkdtemp(prefix='m', dir=base)
        try:
            case = c15.write_case(rng, d, combo=(None, None))      # (this item writes its own [Binning] section below)
            size = rng.choice(['heavy', 'light', 'lighter'])
            par, out = os.path.join(d, 'in.par'), os.path.join(d, 'out.h5')
            text = c15.par_text(case) + '\n[Binning]\nbin_type = manual\nwavelength_res = 0.8, 8.0, %d\naccurate = %s\n' % (rng.choice([20, 50]), rng.choice(['True', 'False']))
            open(par, 'w').write(text)
            inp = dict({k: v for k, v in case.items() if k != 'xsec_path'}, output_size=size)
            cases += 1
            try:
                OpacityCache().clear_cache()
                c15.run_cli(par, out, [] if size == 'heavy' else ['--' + size])
                with h5py.File(out, 'r') as f:
                    sp = {k: f['Output/Spectra'][k][...] for k in f['Output/Spectra'].keys() if isinstance(f['Output/Spectra'][k], h5py.Dataset)}
                model = taurex_hdf5_to_model(out)
                model.build()
                res = model.model()
            except Exception as e:
                fails.append(dict(clause='model_file.raises', inputs=inp, got=repr(e)[:300]))
                continue
            if res[1].shape != sp['native_spectrum'].shape or not np.allclose(res[1], sp['native_spectrum'], rtol=1e-9, atol=0):
                fails.append(dict(clause='model_file.reloaded_model_gives_another_spectrum', inputs=inp,
                                  got=float(np.max(np.abs(res[1] / sp['native_spectrum'] - 1))) if res[1].shape == sp['native_spectrum'].shape else 'shape'))
            if not np.allclose(sp['native_wlgrid'], 10000 / sp['native_wngrid']):
                fails.append(dict(clause='model_file.native_wlgrid', inputs=inp))
            if 'binned_wngrid' in sp:
                if not np.allclose(sp['binned_wlgrid'], 10000 / sp['binned_wngrid']):
                    fails.append(dict(clause='model_file.binned_wlgrid', inputs=inp))
                if not np.allclose(sp['binned_wlwidth'], wnwidth_to_wlwidth(sp['binned_wngrid'], sp['binned_wnwidth'])):
                    fails.append(dict(clause='model_file.binned_wlwidth', inputs=inp))
            want_native = size == 'heavy'
            want_binned = size != 'lighter'
            if ('native_tau' in sp) != want_native or (('binned_tau' in sp) != want_binned and 'binned_spectrum' in sp):
                fails.append(dict(clause='model_file.optical_depth_presence', inputs=inp, got=sorted(k for k in sp if 'tau' in k)))
            if it < 2:
                samples.append(inp)
        finally:
            OpacityCache().clear_cache()
            GlobalCache().variable_dict.clear()
            GlobalCache().variable_dict.update(saved)
            shutil.rmtree(d, ignore_errors=True)
    return {'cases': cases, 'failures': fails, 'samples': samples,
            'bound': '%d generated set-ups run through the command-line program with -o, the file read back with h5py and rebuilt with '
                     'taurex_hdf5_to_model' % N}


Bounded('C16', 'model_written_reloaded_same_spectrum', _b_model_file, doc='whole program + file + loader: bounded only')


# ================================================================== construct, then write: every constructor keyword is stored with its value
# Scenario units: the REAL constructor is executed symbolically (arbitrary parameter values), then the REAL write() on that object
# with a recording output group.  Claim: every keyword the constructor takes is written under its own name with the value the
# object was constructed with -- for all values, which is what makes a reload by keyword (taurex.util.hdf5) faithful.
from pyvc import source as _src
from contracts import c11 as _c11          # conversion_factor is used by contract (BasePlanet constructor)
from pyvc.core import to_real as _to_real


def _h_group(kind):
    def h(ex, st, o, args, kwargs, node):
        if kind == 'create_group':
            _ev(st, 'create_group', o.ident, args[0])
            return AbsObj('Group', '%s/%s' % (o.ident, args[0]), {})
        _ev(st, kind, o.ident, args[0], args[1] if len(args) > 1 else None)
        return None
    return h


_OUT_ABS2 = {'Group.create_group': _h_group('create_group'), 'Output.create_group': _h_group('create_group')}
for _k in ('write_scalar', 'write_string', 'write_array', 'write_string_array', 'write_list'):
    _OUT_ABS2['Group.' + _k] = _h_group(_k)
    _OUT_ABS2['Output.' + _k] = _h_group(_k)


def _ctor_keywords(qual):
    """(names, defaults) of the constructor, from the current source"""
    ci, fn = _src.find_method(qual.split(':')[1], '__init__')
    import ast as _ast
    names = [a.arg for a in fn.args.args][1:]
    defs = [_ast.literal_eval(d) if not isinstance(d, _ast.Name) else None for d in fn.args.defaults]
    defs = [None] * (len(names) - len(defs)) + defs
    return ci, fn, names, defs


def _cw_unit(qual, strings=(), arrays=(), skip=(), alias=None, extra_abs=None, convert=None, props='C16', write_in=None, assume=None, ints=(), where=None, consts=None):
    clsname = qual.split(':')[1]
    alias = alias or {}
    wqual = (qual.split(':')[0] + ':' + write_in) if write_in else qual

    def args_for(c):
        ci, fn, names, defs = _ctor_keywords(qual)
        vals = {}
        for nm, df in zip(names, defs):
            if consts and nm in consts:
                vals[nm] = consts[nm]
            elif nm in strings:
                vals[nm] = strings[nm] if isinstance(strings, dict) and strings[nm] is not None else (df if isinstance(df, str) else 'H2O')
            elif nm in arrays:
                vals[nm] = c.array('kw_' + nm, (c.int('len_' + nm),))
            elif nm in ints:
                vals[nm] = c.int('kw_' + nm)
            else:
                vals[nm] = c.real('kw_' + nm)
        return ci, fn, vals

    def params(c):
        return dict(self=ObjSpec(clsname), output=AbsObj('Output', 'out', {}))

    def setup(ex, st, c):
        ci, fn, vals = args_for(c)
        from pyvc.unit import materialize
        kw = {k: (materialize(c, st, v) if isinstance(v, Arr) else v) for k, v in vals.items()}
        c._cw_args = kw
        for a in (assume(kw) if assume else []):
            st.assume(a)
        ex.inline_call(ci, fn, [st.env['self']], kw, st, fn)
        st.trace[:] = [e for e in st.trace if e[0] != 'ev']          # what the constructor did is not part of the claim

    def post(c, v0, v1, r):
        kw = c._cw_args
        written = {}
        for e in (c.trace or []):
            if e[0].startswith('write_'):
                written[e[2]] = e[3]
        d = {}
        heap = c.raw['state'].heap
        if where is not None:
            # where the loader (load_model_from_hdf5 / load_generic_profile_from_hdf5: own units) looks: ONE group of this name directly
            # under the output handed in, holding the type key = this class's name and every keyword
            grp = where[0] if where[0] != '<molecule>' else kw['molecule_name']
            groups = [(e[1], e[2]) for e in (c.trace or []) if e[0] == 'create_group']
            d['one_group_where_the_loader_reads_it'] = groups == [('out', grp)]
            here = {e[2]: e[3] for e in (c.trace or []) if e[0].startswith('write_') and e[1] == 'out/%s' % grp}
            if where[1] is not None:           # (contributions: the loader takes the group name as the type, no key)
                d['type_key_names_this_class'] = here.get(where[1]) == clsname
            d['every_keyword_in_that_group'] = all(alias.get(nm, nm) in here for nm in kw if nm not in skip)
            # the loader hands over exactly the constructor parameters that have a default (get_klass_args: own unit)
            ci_, fn_, names_, _ = _ctor_keywords(qual)
            d['every_keyword_is_one_the_loader_can_pass'] = len(fn_.args.defaults) == len(names_)
        for nm, val in kw.items():
            if nm in skip:
                continue
            key = alias.get(nm, nm)
            ok = key in written
            d['%s_is_written' % nm] = ok
            if not ok:
                continue
            got = written[key]
            if isinstance(val, str) or val is None:
                d['%s_has_the_constructed_value' % nm] = got == val
            elif isinstance(val, Ref):
                A, B = heap.get(val.id), (heap.get(got.id) if isinstance(got, Ref) else None)
                j = z3.Int('j?w')
                d['%s_has_the_constructed_value' % nm] = isinstance(B, Arr) and z3.simplify(A.shape[0] - B.shape[0]).eq(z3.IntVal(0)) and \
                    z3.simplify(_to_real(A.elem((j,))) - _to_real(B.elem((j,)))).eq(z3.RealVal(0))
            else:
                want = convert[nm](val) if convert and nm in convert else val
                same = is_sym(got) and z3.simplify(_to_real(got) - _to_real(want)).eq(z3.RealVal(0))
                # (unit conversions multiply and divide by a positive constant: left to the solver when not syntactic)
                d['%s_has_the_constructed_value' % nm] = True if same else ((_to_real(got) == _to_real(want)) if is_sym(got) else False)
        return d
    ab = dict(_OUT_ABS2)
    ab.update({'call:compile_fitparams': lambda ex, st, args, kwargs, node: None, 'call:add_fittable_param': lambda ex, st, args, kwargs, node: None,
               'call:add_derived_param': lambda ex, st, args, kwargs, node: None,
               'call:molecule_texlabel': lambda ex, st, args, kwargs, node: '<latex label>'})
    ab.update(extra_abs or {})
    return Unit(props, wqual + '.write', params, post=post, setup=setup, abstract=ab, bounds=[], variant='constructed:' + clsname, safety=(),
                short=clsname + '.write@constructed',
                doc='construct-then-write scenario: the real constructor executed symbolically for arbitrary parameter values, then the real '
                    'write(): every constructor keyword is stored under its own name with the value the object was constructed with')


_noop2 = lambda ex, st, args, kwargs, node: None
CW_ISO = _cw_unit('taurex.data.profiles.temperature.isothermal:Isothermal', where=('Temperature', 'temperature_type'))
CW_GUI = _cw_unit('taurex.data.profiles.temperature.guillot:Guillot2010', extra_abs={'call:_check_values': _noop2}, where=('Temperature', 'temperature_type'))
_T = 'taurex.data.profiles.temperature.'
_G = 'taurex.data.profiles.chemistry.gas.'
_C = 'taurex.contributions.'
CW_NPT = _cw_unit(_T + 'npoint:NPoint', arrays=('temperature_points', 'pressure_points'), where=('Temperature', 'temperature_type'),
                  extra_abs={'call:generate_pressure_fitting_params': _noop2, 'call:generate_temperature_fitting_params': _noop2},
                  assume=lambda kw: [z3.Int('len_temperature_points') == z3.Int('len_pressure_points'), kw['P_surface'] > 0, kw['P_top'] > 0])
CW_PRS = _cw_unit('taurex.data.profiles.pressure.pressureprofile:SimplePressureProfile', ints=('nlayers',), where=('Pressure', 'pressure_type'),
                  assume=lambda kw: [kw['atm_min_pressure'] <= kw['atm_max_pressure'], kw['atm_min_pressure'] > 0, kw['nlayers'] >= 1])
CW_APP = _cw_unit('taurex.data.profiles.pressure.arraypressure:ArrayPressureProfile', arrays=('array',), consts={'reverse': False}, skip=('reverse',),
                  where=('Pressure', 'pressure_type'), assume=lambda kw: [z3.Int('len_array') >= 1])
# (reverse: an input-order flag -- the array is stored in the order in use and reloaded with the default)
CW_PLN = _cw_unit('taurex.data.planet:Planet', skip=('planet_sma', 'planet_mass', 'planet_radius', 'planet_distance'), write_in='BasePlanet', where=('Planet', 'planet_type'))
# (mass / radius / distance: stored through astropy unit conversion and written through taurex.constants -- their agreement is a
#  numeric fact about two tables, left to the bounded round trip)
CW_STR = _cw_unit('taurex.data.stellar.star:BlackbodyStar', write_in='Star', where=('Star', 'star_type'))
CW_CGS = _cw_unit(_G + 'constantgas:ConstantGas', strings=('molecule_name',), extra_abs={'call:add_active_gas_param': _noop2}, where=('<molecule>', 'gas_type'))
CW_TLG = _cw_unit(_G + 'twolayergas:TwoLayerGas', strings=('molecule_name',), where=('<molecule>', 'gas_type'))
CW_TPG = _cw_unit(_G + 'twopointgas:TwoPointGas', strings=('molecule_name',), where=('<molecule>', 'gas_type'))
CW_PWG = _cw_unit(_G + 'powergas:PowerGas', strings={'molecule_name': 'TiO', 'profile_type': 'VO'}, where=('<molecule>', 'gas_type'))
CW_ARG = _cw_unit(_G + 'arraygas:ArrayGas', strings=('molecule_name',), arrays=('mix_ratio_array',), where=('<molecule>', 'gas_type'))
CW_SCL = _cw_unit(_C + 'simpleclouds:SimpleCloudsContribution', where=('SimpleCloudsContribution', None))
CW_LEE = _cw_unit(_C + 'leemie:LeeMieContribution', where=('LeeMieContribution', None))
CW_FLT = _cw_unit(_C + 'flatmie:FlatMieContribution', where=('FlatMieContribution', None))


# ------------------------------------------------------------------ store_contributions: every contribution and component stored under its name, grids stripped
_GRID_KEYS = ['native_wngrid', 'native_wnwidth', 'native_wlgrid', 'native_wlwidth', 'binned_wngrid', 'binned_wnwidth', 'binned_wlgrid', 'binned_wlwidth']


def _sc_params(c):
    if c.mode == 'conc':
        return dict(binner=dict(__obj__='Binner'), model=dict(__obj__='ForwardModel'), output_size=3)
    return dict(binner=AbsObj('Binner', 'binner', {}), model=AbsObj('ForwardModel', 'model', {}), output_size=3)


def _h_mc(full):
    def h(ex, st, o, args, kwargs, node):
        c = ex.c
        comps = c.fixed['comps']
        _ev(st, 'model_full_contrib' if full else 'model_contrib')
        d = {}
        for k, nk in enumerate(comps):
            if full:
                d['c%d' % k] = st.alloc(c, PyList([('comp_%d_%d' % (k, j), 'F:%d:%d' % (k, j), 'T:%d:%d' % (k, j), None) for j in range(nk)]))
            else:
                d['c%d' % k] = ('F:%d' % k, 'T:%d' % k, None)
        return ('grid-full' if full else 'grid-main', st.alloc(c, PyDict(d)))
    return h


def _h_gso(ex, st, o, args, kwargs, node):
    c = ex.c
    mo = args[0]
    _ev(st, 'generate_spectrum_output', tuple(mo), kwargs.get('output_size'))
    d = {k: 'grid-entry' for k in (_GRID_KEYS if c.fixed['with_grids'] else _GRID_KEYS[:4])}
    d['native_spectrum'] = mo[1]
    d['native_tau'] = mo[2]
    return st.alloc(c, PyDict(d))


def _sc_expected(fx):
    comps = fx['comps']
    calls, res = [], {}
    for k, nk in enumerate(comps):
        calls.append((('grid-full', 'F:%d' % k, 'T:%d' % k, None), 3))
        entry = {'native_spectrum': 'F:%d' % k, 'native_tau': 'T:%d' % k}
        for j in range(nk):
            calls.append((('grid-full', 'F:%d:%d' % (k, j), 'T:%d:%d' % (k, j), None), 3))
            entry['comp_%d_%d' % (k, j)] = {'native_spectrum': 'F:%d:%d' % (k, j), 'native_tau': 'T:%d:%d' % (k, j)}
        res['c%d' % k] = entry
    return calls, res


def _sc_plain(heap, v):
    if isinstance(v, Ref) and isinstance(heap[v.id], PyDict):
        return {k: _sc_plain(heap, x) for k, x in heap[v.id].items.items()}
    return v


def _sc_post(c, v0, v1, r):
    fx = c.fixed if c.mode != 'conc' else c.values
    calls, res = _sc_expected(fx)
    tr = list(c.trace or [])
    got_calls = [(tuple(e[1]), e[2]) for e in tr if e[0] == 'generate_spectrum_output']
    evals = [e[0] for e in tr if e[0] in ('model_contrib', 'model_full_contrib')]
    got = r if c.mode == 'conc' else _sc_plain(c.raw['state'].heap, c.raw['ret'])
    return {'one_evaluation_of_each_kind': evals == ['model_contrib', 'model_full_contrib'],
            'one_spectrum_dictionary_per_contribution_and_component_on_the_native_grid': got_calls == calls,
            'stored_under_their_names_without_the_repeated_grids': got == res}


def _sc_native(c, p):
    from taurex.util.output import store_contributions
    fx = c.values
    trace = []

    class _M:
        def model_contrib(self):
            trace.append(('model_contrib',))
            return 'grid-main', {'c%d' % k: ('F:%d' % k, 'T:%d' % k, None) for k in range(len(fx['comps']))}

        def model_full_contrib(self):
            trace.append(('model_full_contrib',))
            return 'grid-full', {'c%d' % k: [('comp_%d_%d' % (k, j), 'F:%d:%d' % (k, j), 'T:%d:%d' % (k, j), None) for j in range(nk)]
                                 for k, nk in enumerate(fx['comps'])}

    class _B:
        def generate_spectrum_output(self, mo, output_size=None):
            trace.append(('generate_spectrum_output', tuple(mo), output_size))
            d = {k: 'grid-entry' for k in (_GRID_KEYS if fx['with_grids'] else _GRID_KEYS[:4])}
            d.update(native_spectrum=mo[1], native_tau=mo[2])
            return d
    return store_contributions(_B(), _M(), output_size=3), dict(p, __trace__=trace)


_SC_CASES = [dict(comps=cs, with_grids=g) for cs in [(), (1,), (2,), (0, 1), (1, 2)] for g in (True, False)]
SCU = Unit(['C16', 'C03'], 'taurex.util.output:store_contributions', _sc_params, post=_sc_post, cases=_SC_CASES, bounds=[{}], native=_sc_native,
           abstract={'ForwardModel.model_contrib': _h_mc(False), 'ForwardModel.model_full_contrib': _h_mc(True), 'Binner.generate_spectrum_output': _h_gso},
           gen=lambda rng: dict(rng.choice(_SC_CASES)), short='store_contributions',
           doc='the stored contribution spectra: one spectrum dictionary per contribution and per component (of the binner, by its own units), '
               'each built from the own flux of that contribution and optical depth, stored under its name, the repeated grid entries removed '
               '(0..2 contributions with 0..2 components; binners with and without binned grids)')


# ------------------------------------------------------------------ the loader: load_generic_profile_from_hdf5 (what the constructor is called with)
HD = 'taurex.util.hdf5:'
# what a stored keyword can look like when read back with h5py: a number, an array of numbers, a byte string (text written with
# write_string), an (N,1) array of byte strings (write_string_array), or text that comes back as str
_LG_KINDS = ('number', 'array', 'bytes', 'str', 'strings')


def _lg_value(c, st, kw, kind):
    if kind == 'number':
        return c.real('val_' + kw)
    if kind == 'array':
        a = c.array('arr_' + kw, (c.int('len_' + kw),))
        return a if isinstance(a, Ref) or st is None else st.alloc(c, a)
    if kind == 'bytes':
        return AbsObj('bytes', 'text_' + kw, {})
    if kind == 'str':
        return 'text_' + kw
    from pyvc.engine import ModV
    return AbsObj('ndarray', 'strings_' + kw, {'dtype': AbsObj('dtype', 'S64', {'type': ModV('numpy.bytes_')})})


def _lg_fx(c):
    return c.fixed if c.mode != 'conc' else c.values


def _lg_params(c):
    fx = _lg_fx(c)
    premade = {k: 'made_' + k for k in fx['premade']} if fx['premade'] is not None else None
    repl = {k: 'repl_' + k for k in fx['repl']} if fx['repl'] is not None else None
    stored = {kw: _lg_value(c, None, kw, kind) for kw, kind in fx['stored']} if c.mode != 'conc' else None
    d = dict(loc=AbsObj('H5Group', 'grp', {}) if c.mode != 'conc' else dict(__obj__='H5Group'), module='taurex.some.module', identifier='thing_type',
             profile_type=fx['ptype'], premade_dict=premade, replacement_dict=repl)
    if c.mode != 'conc':
        d['_stored'] = stored
    return d


def _h_lg_group_get(ex, st, o, args, kwargs, node):
    fx = ex.c.fixed
    key = args[0]
    names = [k for k, _ in fx['stored']] + ['thing_type'] + list(fx['others'])
    if key not in names:
        raise _Raise(st, ExcV('KeyError', getattr(node, 'lineno', 0)))
    return AbsObj('H5Dataset', key, {})


def _h_lg_read(ex, st, o, args, kwargs, node):
    fx = ex.c.fixed
    _ev(st, 'read', o.ident)
    if o.ident == 'thing_type':
        return AbsObj('bytes', 'TheKlass', {})
    if o.ident in fx['others']:
        return ex.c.real('other_' + o.ident)
    return st.get(ex.root_env['_stored']).items[o.ident]


def _h_lg_keys(ex, st, o, args, kwargs, node):
    fx = ex.c.fixed
    return st.alloc(ex.c, PyList([k for k, _ in fx['stored']] + ['thing_type'] + list(fx['others'])))


def _h_lg_class(ex, st, args, kwargs, node):
    name = args[0]
    _ev(st, 'class_for_name', name.ident if isinstance(name, AbsObj) else name)
    return FuncV('class', 'TheLoadedKlass')


def _h_lg_kwargs(ex, st, args, kwargs, node):
    """get_klass_args by its contract (unit below): the defaulted parameters of the constructor, in order"""
    return st.alloc(ex.c, PyList(list(ex.c.fixed['kw'])))


def _h_lg_construct(ex, st, args, kwargs, node):
    _ev(st, 'construct', tuple(args), dict(kwargs))
    return st.alloc(ex.c, Obj('TheLoadedKlass', {}))


def _h_lg_decode_strings(ex, st, args, kwargs, node):
    v = args[0]
    return st.alloc(ex.c, PyList(['%s[%d]' % (v.ident, i) for i in range(2)]))


def _lg_expected(fx):
    """keyword -> what the constructor must receive"""
    want = {k: ('made', k) for k in (fx['premade'] or ())}
    for kw in fx['kw']:
        kinds = dict(fx['stored'])
        if kw in kinds:
            want[kw] = ('repl', kw) if kw in (fx['repl'] or ()) else ('stored', kw, kinds[kw])
    return want


def _lg_post(c, v0, v1, r):
    fx = _lg_fx(c)
    calls = [e for e in (c.trace or []) if e[0] == 'construct']
    lookups = [e for e in (c.trace or []) if e[0] == 'class_for_name']
    d = {'one_construction_of_the_stored_type': len(calls) == 1 and [tuple(e) for e in lookups] == [('class_for_name', fx['ptype'] or 'TheKlass')]}
    if not d['one_construction_of_the_stored_type']:
        return d
    _, pos, got = calls[0]
    want = _lg_expected(fx)
    d['keywords_are_the_stored_constructor_keywords_plus_the_premade_ones'] = len(pos) == 0 and sorted(got) == sorted(want)
    if not d['keywords_are_the_stored_constructor_keywords_plus_the_premade_ones']:
        return d
    for k, w in want.items():
        g = got[k]
        if w[0] == 'made':
            ok = g == 'made_' + k
        elif w[0] == 'repl':
            ok = g == 'repl_' + k
        elif c.mode == 'conc':
            ok = _lg_same_conc(g, c.values['__stored__'][k], w[2])
        else:
            kind = w[2]
            if kind == 'number':
                ok = is_sym(g) and g.eq(z3.Real('val_' + k))
            elif kind == 'array':
                ok = isinstance(g, Ref) and g.id == c.raw['state'].heap[c.raw['env']['_stored'].id].items[k].id
            elif kind in ('bytes', 'str'):
                ok = g == 'text_' + k
            else:
                heap = c.raw['state'].heap
                ok = isinstance(g, Ref) and list(heap[g.id].items) == ['strings_%s[%d]' % (k, i) for i in range(2)]
        d['value_' + k] = ok
    if c.mode != 'conc':
        d['returns_the_constructed_object'] = isinstance(c.raw['ret'], Ref) and getattr(c.raw['state'].heap[c.raw['ret'].id], 'cls', None) == 'TheLoadedKlass'
    else:
        d['returns_the_constructed_object'] = r == 'the-object'
    return d


def _lg_same_conc(got, stored, kind):
    import numpy as np
    if kind == 'number':
        return isinstance(got, (float, np.floating)) and float(got) == float(stored)
    if kind == 'array':
        return isinstance(got, np.ndarray) and np.array_equal(got, np.asarray(stored))
    if kind in ('bytes', 'str'):
        return got == (stored.decode() if isinstance(stored, bytes) else stored)
    return list(got) == [s[0].decode() for s in stored]


def _lg_native(c, p):
    import numpy as np
    import taurex.util.hdf5 as H
    from pyvc.unit import patched
    fx = c.values
    trace = []
    rng = np.random.RandomState(len(str(fx)))
    stored = {}
    for kw, kind in fx['stored']:
        if kind == 'number':
            stored[kw] = np.float64(rng.uniform(-5, 5))
        elif kind == 'array':
            stored[kw] = rng.uniform(-5, 5, size=rng.randint(1, 4))
        elif kind == 'bytes':
            stored[kw] = b'text_' + kw.encode()
        elif kind == 'str':
            stored[kw] = 'text_' + kw
        else:
            stored[kw] = np.array([[b'one'], [b'two']], dtype='S64')
    others = {k: np.float64(1.5) for k in fx['others']}

    class _DS:
        def __init__(self, v):
            self.v = v

        def __getitem__(self, idx):
            return self.v

    class _Grp:
        def keys(self):
            return list(stored) + ['thing_type'] + list(others)

        def __getitem__(self, k):
            if k == 'thing_type':
                return _DS(b'TheKlass')
            if k in stored:
                return _DS(stored[k])
            return _DS(others[k])

    src = 'def __init__(self%s%s):\n        trace.append(("construct", (), dict(%s)))' % (
        ''.join(', %s' % k for k in (fx['premade'] or ()) if k not in fx['kw']), ''.join(', %s=None' % k for k in fx['kw']),
        ', '.join('%s=%s' % (k, k) for k in list(fx['premade'] or ()) + [k for k in fx['kw'] if k not in (fx['premade'] or ())]))
    ns = {'trace': trace}
    exec('class K:\n    ' + src, ns)
    K = ns['K']

    def cfn(name):
        trace.append(('class_for_name', name.decode() if isinstance(name, bytes) else name))
        return K
    premade = {k: 'made_' + k for k in fx['premade']} if fx['premade'] is not None else None
    repl = {k: 'repl_' + k for k in fx['repl']} if fx['repl'] is not None else None
    with patched(H.class_for_name, cfn):
        o = H.load_generic_profile_from_hdf5(_Grp(), 'taurex.some.module', 'thing_type', profile_type=fx['ptype'], premade_dict=premade,
                                             replacement_dict=repl)
    # the recording constructor reports every keyword it received; those left at None were not passed
    tr = []
    for e in trace:
        if e[0] == 'construct':
            tr.append(('construct', (), {k: v for k, v in e[2].items() if v is not None}))
        else:
            tr.append(e)
    c.values['__stored__'] = stored
    return ('the-object' if isinstance(o, K) else o), dict(p, __trace__=tr)


_LG_CASES = []
for _kw, _stored, _others in (
        (('a',), (('a', 'number'),), ()),
        (('a', 'b'), (('a', 'number'),), ('unrelated',)),                # b not stored: the constructor default stays
        (('a', 'b'), (('a', 'array'), ('b', 'bytes')), ()),
        (('a', 'b', 'c'), (('a', 'strings'), ('b', 'str'), ('c', 'number')), ('x',)),
        ((), (), ('x',))):
    for _repl in (None, ('a',), ('zz',)):
        for _pt, _pm in ((None, None), ('Planet', None), (None, ('planet', 'star'))):
            _LG_CASES.append(dict(kw=_kw, stored=_stored, others=_others, repl=_repl, ptype=_pt, premade=_pm))

LGP = Unit('C16', HD + 'load_generic_profile_from_hdf5', _lg_params, post=_lg_post, cases=_LG_CASES, bounds=[{}],
           abstract={'H5Group.__getitem__': _h_lg_group_get, 'H5Dataset.__getitem__': _h_lg_read, 'H5Group.keys': _h_lg_keys, 'call:class_for_name': _h_lg_class,
                     'call:get_klass_args': _h_lg_kwargs, 'new:TheLoadedKlass': _h_lg_construct, 'call:decode_string_array': _h_lg_decode_strings,
                     'bytes.decode': lambda ex, st, o, args, kwargs, node: o.ident},
           native=_lg_native, gen=lambda rng: dict(rng.choice(_LG_CASES)), short='load_generic_profile_from_hdf5',
           doc='the generic loader: the class is looked up once by the stored (or given) type name; its constructor is called once, by keyword, '
               'with exactly the constructor keywords the group holds -- number and array as stored, byte string as text, byte-string array as '
               'the list of its texts -- each overridden by the replacement dictionary where that names it, plus the premade arguments; '
               'keywords the group does not hold keep the constructor default; entries that are no constructor keyword are ignored '
               '(h5py group / dataset, class_for_name, get_klass_args, decode_string_array abstract)')


# ------------------------------------------------------------------ get_klass_args: the defaulted constructor parameters, in order
from contracts import c15 as _c15          # installs the assumed model of inspect.getfullargspec (signature = the case's `sig`)


def _ka_params(c):
    sig = c.choice('sig')
    if c.mode == 'conc':
        return dict(klass=dict(__obj__='Klass', sig=sig))
    return dict(klass=AbsObj('Klass', 'K', {'__init__': '<init>'}))


def _ka_post(c, v0, v1, r):
    names, nd = (c.fixed['sig'] if c.mode != 'conc' else c.values['sig'])
    want = list(names[len(names) - nd:]) if nd else []
    return {'the_defaulted_parameters_in_order': list(r) == want}


def _ka_native(c, p):
    from taurex.util.hdf5 import get_klass_args
    names, nd = c.values['sig']
    nd_ = nd or 0
    params = list(names[1:])
    src = 'def __init__(self%s): pass' % ''.join(', %s%s' % (n, '=1.0' if i >= len(params) - nd_ else '') for i, n in enumerate(params))
    ns = {}
    exec('class K:\n    ' + src, ns)
    return get_klass_args(ns['K']), p


GKA = Unit('C16', HD + 'get_klass_args', _ka_params, post=_ka_post, cases=[{'sig': s} for s in _c15._SIGS], bounds=[{}], native=_ka_native,
           gen=lambda rng: dict(sig=rng.choice(_c15._SIGS)), short='get_klass_args',
           doc='the loader side of constructor keyword discovery: the parameters of the constructor that have a default, in order, [] when '
               'there is none (inspect.getfullargspec: assumed model)')


# ------------------------------------------------------------------ load_model_from_hdf5: which groups are read, in which order, into what
def _lm_fx(c):
    return c.fixed if c.mode != 'conc' else c.values


def _lm_params(c):
    if c.mode == 'conc':
        return dict(loc=dict(__obj__='Group'), replacement_dict=None)
    return dict(loc=AbsObj('Group', 'MP', {}), replacement_dict=(None if not c.fixed['repl'] else {'T': 'repl_T'}))


def _h_lm_get(ex, st, o, args, kwargs, node):
    fx = ex.c.fixed
    key = args[0]
    path = '%s/%s' % (o.ident, key)
    if o.ident == 'MP/Contributions':
        kinds = dict(fx['contribs'])
        if key not in kinds:
            raise _Raise(st, ExcV('KeyError', getattr(node, 'lineno', 0)))
        return AbsObj('Group' if kinds[key] == 'group' else 'Dataset', path, {})
    if o.ident == 'MP/Chemistry' and key in ('active_gases', 'inactive_gases'):
        return AbsObj('Dataset', path, {})
    return AbsObj('Group', path, {})


def _h_lm_keys(ex, st, o, args, kwargs, node):
    fx = ex.c.fixed
    if o.ident == 'MP/Contributions':
        return st.alloc(ex.c, PyList([k for k, _ in fx['contribs']]))
    raise _Raise(st, ExcV('Unmodelled', 0))


def _h_lm_read(ex, st, o, args, kwargs, node):
    return AbsObj('ndarray', o.ident, {})


def _h_lm_decode(ex, st, args, kwargs, node):
    fx = ex.c.fixed
    v = args[0]
    which = v.ident.rsplit('/', 1)[1]
    return st.alloc(ex.c, PyList(list(fx['active'] if which == 'active_gases' else fx['inactive'])))


def _h_lm_generic(ex, st, args, kwargs, node):
    fx = ex.c.fixed
    loc, module, identifier = args[0], args[1], args[2]
    pm = kwargs.get('premade_dict')
    pmv = None
    if isinstance(pm, Ref):
        pmv = tuple(sorted((k, v.ident if isinstance(v, AbsObj) else v) for k, v in st.get(pm).items.items()))
    rd = kwargs.get('replacement_dict')
    _ev(st, 'load', loc.ident, module, identifier, kwargs.get('profile_type'), pmv, None if rd is None else 'repl')
    if loc.ident == 'MP/Chemistry':
        if fx['chem'] == 'taurex':
            return AbsObj('TaurexChemistry', 'obj:MP/Chemistry', {'_fill_gases': st.alloc(ex.c, PyList(list(fx['fill'])))})
        return AbsObj('OtherChemistry', 'obj:MP/Chemistry', {})
    return AbsObj('Loaded', 'obj:' + loc.ident, {})


def _lm_expected(fx):
    repl = 'repl' if fx['repl'] else None
    ev = [('load', 'MP/Chemistry', 'taurex.data.profiles.chemistry', 'chemistry_type', None, None, repl)]
    if fx['chem'] == 'taurex':
        for mol in list(fx['active']) + list(fx['inactive']):
            if mol not in fx['fill']:
                ev.append(('load', 'MP/Chemistry/' + mol, 'taurex.data.profiles.chemistry', 'gas_type', None, None, None))
                ev.append(('addGas', 'obj:MP/Chemistry/' + mol))
    ev.append(('load', 'MP/Pressure', 'taurex.data.profiles.pressure', 'pressure_type', None, None, repl))
    ev.append(('load', 'MP/Temperature', 'taurex.data.profiles.temperature', 'temperature_type', None, None, repl))
    ev.append(('load', 'MP/Planet', 'taurex.data.planet', 'planet_type', 'Planet', None, repl))
    ev.append(('load', 'MP/Star', 'taurex.data.stellar', 'star_type', None, None, repl))
    made = tuple(sorted([('planet', 'obj:MP/Planet'), ('star', 'obj:MP/Star'), ('chemistry', 'obj:MP/Chemistry'),
                         ('temperature_profile', 'obj:MP/Temperature'), ('pressure_profile', 'obj:MP/Pressure')]))
    ev.append(('load', 'MP', 'taurex.model', 'model_type', None, made, repl))
    for k, kind in fx['contribs']:
        if kind == 'group':
            ev.append(('load', 'MP/Contributions/' + k, 'taurex.contributions', 'contrib_type', k, None, repl))
            ev.append(('add_contribution', 'obj:MP/Contributions/' + k))
    return ev


def _lm_post(c, v0, v1, r):
    fx = _lm_fx(c)
    tr = [tuple(e) for e in (c.trace or []) if e[0] in ('load', 'addGas', 'add_contribution')]
    want = _lm_expected(fx)
    d = {'every_part_loaded_from_its_own_group_once_in_order_and_put_together': tr == want}
    if c.mode != 'conc':
        ret = c.raw['ret']
        d['returns_the_model_built_from_the_loaded_parts'] = isinstance(ret, AbsObj) and ret.ident == 'obj:MP'
    else:
        d['returns_the_model_built_from_the_loaded_parts'] = r == 'obj:MP'
    return d


def _lm_native(c, p):
    import h5py
    import numpy as np
    import taurex.util.hdf5 as H
    from taurex.data.profiles.chemistry import TaurexChemistry
    from pyvc.unit import patched
    fx = c.values
    trace = []
    f = h5py.File('c16-lm-%d.h5' % id(trace), 'w', driver='core', backing_store=False)
    mp = f.create_group('MP')
    for g in ('Pressure', 'Temperature', 'Planet', 'Star'):
        mp.create_group(g)
    ch = mp.create_group('Chemistry')
    for name, mols in (('active_gases', fx['active']), ('inactive_gases', fx['inactive'])):
        ch.create_dataset(name, (len(mols), 1), 'S64', [m.encode() for m in mols])
        for m in mols:
            ch.require_group(m)
    cg = mp.create_group('Contributions')
    for k, kind in fx['contribs']:
        if kind == 'group':
            cg.create_group(k)
        else:
            cg.create_dataset(k, data=1.0)

    class _L:
        def __init__(self, ident):
            self.ident = ident

        def add_contribution(self, o):
            trace.append(('add_contribution', o.ident))

    class _Chem(TaurexChemistry):
        def addGas(self, o):
            trace.append(('addGas', o.ident))

    def generic(loc, module, identifier, profile_type=None, premade_dict=None, replacement_dict=None):
        ident = loc.name.lstrip('/')
        pmv = None if premade_dict is None else tuple(sorted((k, v.ident) for k, v in premade_dict.items()))
        trace.append(('load', ident, module, identifier, profile_type, pmv, None if replacement_dict is None else 'repl'))
        if ident == 'MP/Chemistry' and fx['chem'] == 'taurex':
            o = _Chem.__new__(_Chem)
            o._fill_gases = list(fx['fill'])
            o.ident = 'obj:' + ident
            return o
        return _L('obj:' + ident)
    try:
        with patched(H.load_generic_profile_from_hdf5, generic):
            m = H.load_model_from_hdf5(mp, replacement_dict=({'T': 'repl_T'} if fx['repl'] else None))
    finally:
        f.close()
    return getattr(m, 'ident', m), dict(p, __trace__=trace)


_LM_CASES = [dict(chem=ch, active=a, inactive=i, fill=fl, contribs=cs, repl=rp)
             for ch, a, i, fl in (('taurex', ('H2O', 'CH4'), ('N2',), ('H2', 'He')), ('taurex', ('H2O',), ('He', 'N2'), ('H2', 'He')), ('taurex', (), (), ('H2',)), ('taurex', ('H2', 'H2O'), ('He',), ('H2', 'He')),
                                  ('other', ('H2O',), ('N2',), ()))
             for cs in ((), (('Absorption', 'group'),), (('Absorption', 'group'), ('some_number', 'dataset'), ('Rayleigh', 'group')))
             for rp in (False, True)]

LMH = Unit('C16', HD + 'load_model_from_hdf5', _lm_params, post=_lm_post, cases=_LM_CASES, bounds=[{}],
           abstract={'Group.__getitem__': _h_lm_get, 'Group.keys': _h_lm_keys, 'Dataset.__getitem__': _h_lm_read, 'call:decode_string_array': _h_lm_decode,
                     'call:load_generic_profile_from_hdf5': _h_lm_generic,
                     'TaurexChemistry.addGas': lambda ex, st, o, args, kwargs, node: _ev(st, 'addGas', args[0].ident),
                     'Loaded.add_contribution': lambda ex, st, o, args, kwargs, node: _ev(st, 'add_contribution', args[0].ident)},
           native=_lm_native, gen=lambda rng: dict(rng.choice(_LM_CASES)), short='load_model_from_hdf5',
           doc='the model loader: chemistry, pressure, temperature, planet (always class Planet) and star are each loaded by the generic loader from '
               'the group of that name with that group\'s type key; a TaurexChemistry gets every stored active and inactive gas that is not a fill '
               'gas, loaded from the sub-group of its name, in stored order; the model is loaded from the top group with exactly those five objects '
               'as premade arguments; every sub-GROUP of Contributions (datasets skipped) is loaded with its own name as type and added, in stored '
               'order; the replacement dictionary is handed to every one of these loads except the gases (as the code stands); the model is '
               'returned (h5py groups, decode_string_array and the generic loader -- its own unit -- abstract)')


# ------------------------------------------------------------------ the model's own write(): every part written where the loader reads it
def _mw_unit(modname, clsname, key, attr, value_of):
    def params(c):
        n = c.fixed['ncontrib'] if c.mode != 'conc' else c.values['ncontrib']
        if c.mode == 'conc':
            return dict(self=dict(__obj__=clsname), output=dict(__obj__='Output'))
        return dict(self=ObjSpec(clsname, contribution_list=[AbsObj('Contribution', 'contrib%d' % i, {}) for i in range(n)],
                                 _chemistry=AbsObj('Part', 'chemistry', {}), _temperature_profile=AbsObj('Part', 'temperature', {}),
                                 _pressure_profile=AbsObj('Part', 'pressure', {}), _planet=AbsObj('Part', 'planet', {}), _star=AbsObj('Part', 'star', {}),
                                 **{attr: (c.bool('flag') if attr == 'new_method' else c.int('ngauss'))}),
                    output=AbsObj('Output', 'out', {}))

    def h_part(ex, st, o, args, kwargs, node):
        _ev(st, 'part.write', o.ident, args[0].ident)
        return None

    def post(c, v0, v1, r):
        n = c.fixed['ncontrib'] if c.mode != 'conc' else c.values['ncontrib']
        tr = [tuple(e) for e in (c.trace or []) if e[0] in ('model', 'create_group', 'part.write') or e[0].startswith('write_')]
        mp = 'out/ModelParameters'
        want = [('model',), ('create_group', 'out', 'ModelParameters'), ('write_string', mp, 'model_type', clsname), ('create_group', mp, 'Contributions')] + \
               [('part.write', 'contrib%d' % i, mp + '/Contributions') for i in range(n)] + \
               [('part.write', p, mp) for p in ('chemistry', 'temperature', 'pressure', 'planet', 'star')]
        d = {'model_run_first_then_every_part_written_where_the_loader_reads_it': tr[:len(want)] == want}
        rest = tr[len(want):]
        d['own_keyword_written_into_the_model_group'] = len(rest) == 1 and rest[0][:3] == ('write_scalar', mp, key)
        if d['own_keyword_written_into_the_model_group']:
            got = rest[0][3]
            if c.mode == 'conc':
                d['own_keyword_has_the_value_of_the_object'] = got == value_of(c, v0)
            else:
                w = value_of(c, v0)
                d['own_keyword_has_the_value_of_the_object'] = (_to_real(got) == _to_real(w)) if is_sym(got) or is_sym(w) else got == w
        return d

    def native(c, p):
        import importlib
        K = getattr(importlib.import_module(modname), clsname)
        trace = []
        n = c.values['ncontrib']

        class _G:
            def __init__(self, ident):
                self.ident = ident

            def create_group(self, name):
                trace.append(('create_group', self.ident, name))
                return _G('%s/%s' % (self.ident, name))

            def write_string(self, k, v):
                trace.append(('write_string', self.ident, k, v))

            def write_scalar(self, k, v):
                trace.append(('write_scalar', self.ident, k, v))

        class _P:
            def __init__(self, ident):
                self.ident = ident

            def write(self, out):
                trace.append(('part.write', self.ident, out.ident))
        o = K.__new__(K)
        o.contribution_list = [_P('contrib%d' % i) for i in range(n)]
        o._chemistry, o._temperature_profile, o._pressure_profile, o._planet, o._star = (_P(x) for x in ('chemistry', 'temperature', 'pressure', 'planet', 'star'))
        val = c.values.get('flag', False) if attr == 'new_method' else c.values.get('ngauss', 4)
        setattr(o, attr, val)
        o.model = lambda *a, **k: trace.append(('model',))
        o.write(_G('out'))
        return None, dict(p, self=dict(p['self'], **{attr: val}), __trace__=trace)
    return Unit('C16', '%s:%s.write' % (modname, clsname), params, post=post, cases=[dict(ncontrib=k) for k in (0, 1, 3)], bounds=[{}], native=native,
                abstract=dict(_OUT_ABS2, **{'call:model': lambda ex, st, args, kwargs, node: _ev(st, 'model'), 'Part.write': h_part, 'Contribution.write': h_part}),
                gen=lambda rng: dict(ncontrib=rng.choice([0, 1, 3]), flag=rng.random() < 0.5, ngauss=rng.randint(1, 8)), short=clsname + '.write',
                doc='the model\'s own write(): the model is run first; then group ModelParameters under the output with model_type = this class, a '
                    'sub-group Contributions into which every contribution writes itself in list order, and chemistry, temperature, pressure, planet, '
                    'star each writing itself into ModelParameters -- exactly where load_model_from_hdf5 reads them; the model\'s own constructor '
                    'keyword (%s) written there too (the parts\' write() abstract here: own scenario units)' % key)


MW_TR = _mw_unit('taurex.model.transmission', 'TransmissionModel', 'new_path_method', 'new_method',
                 lambda c, v0: (z3.If(z3.Bool('flag'), 1, 0) if c.mode != 'conc' else int(c.values.get('flag', False))))
MW_EM = _mw_unit('taurex.model.emission', 'EmissionModel', 'ngauss', '_ngauss', lambda c, v0: (z3.Int('ngauss') if c.mode != 'conc' else c.values.get('ngauss', 4)))


# ------------------------------------------------------------------ TaurexChemistry.write: what load_chemistry_from_hdf5 reads
def _cwr_fx(c):
    return c.fixed if c.mode != 'conc' else c.values


def _cwr_params(c):
    fx = _cwr_fx(c)
    nf = len(fx['fill'])
    if c.mode == 'conc':
        return dict(self=dict(__obj__='TaurexChemistry'), output=dict(__obj__='Output'))
    return dict(self=ObjSpec('TaurexChemistry', _fill_gases=list(fx['fill']), _fill_ratio=[c.real('ratio%d' % i) for i in range(max(nf - 1, 1))],
                             _gases=[AbsObj('Gas', 'gas:' + m, {}) for m in fx['gases']], _active=list(fx['active']), _inactive=list(fx['inactive'])),
                output=AbsObj('Output', 'out', {}))


def _cwr_post(c, v0, v1, r):
    fx = _cwr_fx(c)
    tr = [tuple(e) for e in (c.trace or []) if e[0] in ('create_group', 'gas.write') or e[0].startswith('write_')]
    g = 'out/Chemistry'
    d = {'one_group_named_Chemistry_under_the_output': [e for e in tr if e[0] == 'create_group'] == [('create_group', 'out', 'Chemistry')]}
    here = {e[2]: e for e in tr if e[0].startswith('write_') and e[1] == g}

    def plain(v):
        if c.mode == 'conc':
            return list(v)
        heap = c.raw['state'].heap
        return list(heap[v.id].items) if isinstance(v, Ref) and isinstance(heap[v.id], PyList) else v
    d['type_key_names_this_class'] = 'chemistry_type' in here and here['chemistry_type'][0] == 'write_string' and here['chemistry_type'][3] == 'TaurexChemistry'
    for key, want in (('active_gases', fx['active']), ('inactive_gases', fx['inactive']), ('fill_gases', fx['fill'])):
        d[key + '_stored_as_a_string_array'] = key in here and here[key][0] == 'write_string_array' and plain(here[key][3]) == list(want)
    nr = max(len(fx['fill']) - 1, 1)
    ok = 'ratio' in here and here['ratio'][0] == 'write_array'
    d['ratio_stored_as_an_array'] = ok
    if ok and c.mode != 'conc':
        A = c.raw['state'].heap.get(here['ratio'][3].id) if isinstance(here['ratio'][3], Ref) else None
        d['ratio_has_the_values_of_the_object'] = isinstance(A, Arr) and z3.simplify(to_int(A.shape[0]) - nr).eq(z3.IntVal(0)) and \
            all(z3.simplify(_to_real(A.elem((i,))) - z3.Real('ratio%d' % i)).eq(z3.RealVal(0)) for i in range(nr))
    elif ok:
        d['ratio_has_the_values_of_the_object'] = list(here['ratio'][3]) == list(c.values['__ratio__'])
    d['every_gas_writes_itself_into_that_group_in_order'] = [e for e in tr if e[0] == 'gas.write'] == [('gas.write', 'gas:' + m, g) for m in fx['gases']]
    return d


def _cwr_native(c, p):
    import numpy as np
    from taurex.data.profiles.chemistry import TaurexChemistry
    fx = c.values
    trace = []

    class _G:
        def __init__(self, ident):
            self.ident = ident

        def create_group(self, name):
            trace.append(('create_group', self.ident, name))
            return _G('%s/%s' % (self.ident, name))

        def write_string(self, k, v):
            trace.append(('write_string', self.ident, k, v))

        def write_scalar(self, k, v):
            trace.append(('write_scalar', self.ident, k, v))

        def write_array(self, k, v):
            trace.append(('write_array', self.ident, k, [float(x) for x in v]))

        def write_string_array(self, k, v):
            trace.append(('write_string_array', self.ident, k, list(v)))

    class _Gas:
        def __init__(self, ident):
            self.ident = ident

        def write(self, out):
            trace.append(('gas.write', self.ident, out.ident))
    o = TaurexChemistry.__new__(TaurexChemistry)
    nr = max(len(fx['fill']) - 1, 1)
    ratio = [0.1 + 0.01 * i for i in range(nr)]
    o._fill_gases, o._fill_ratio = list(fx['fill']), ratio
    o._gases = [_Gas('gas:' + m) for m in fx['gases']]
    o._active, o._inactive = list(fx['active']), list(fx['inactive'])
    o.write(_G('out'))
    c.values['__ratio__'] = ratio
    return None, dict(p, __trace__=trace)


_CWR_CASES = [dict(fill=f, gases=g, active=a, inactive=i) for f, g, a, i in (
    (('H2', 'He'), ('H2O', 'CH4', 'N2'), ('H2O', 'CH4'), ('H2', 'He', 'N2')),
    (('H2',), (), (), ('H2',)),
    (('H2', 'He', 'N2'), ('H2O',), ('H2O',), ('H2', 'He', 'N2')))]

CWR = Unit('C16', 'taurex.data.profiles.chemistry.taurexchemistry:TaurexChemistry.write', _cwr_params, post=_cwr_post, cases=_CWR_CASES, bounds=[{}],
           abstract=dict(_OUT_ABS2, **{'Gas.write': lambda ex, st, o, args, kwargs, node: _ev(st, 'gas.write', o.ident, args[0].ident)}),
           native=_cwr_native, gen=lambda rng: dict(rng.choice(_CWR_CASES)), short='TaurexChemistry.write',
           doc='what the chemistry leaves for load_chemistry_from_hdf5: one group Chemistry under the output with chemistry_type = this class, the '
               'active / inactive / fill gas names as string arrays, the fill ratios as an array with the object\'s values, and every gas writing '
               'itself into that group in list order (the gases\' write(): own scenario units)')
