"""C07 -- retrieval set-up depends only on current settings; updates touch only fitted parameters.

The parameter tables are dicts  name -> (name, latex, getter, setter, mode, fit flag, bounds)  owned by the model and
the observation; the optimizer keeps a prior table `_fit_priors` across compilations.  Configurations (how many
parameters, their modes / fit flags, and what the prior table holds for each: nothing, a prior set by the user, or a
default left behind by an EARLIER compilation under other settings) are enumerated; values and bounds are symbolic.
Getters / setters are abstract callables: a getter returns the parameter's current value, a setter call is an effect
recorded in the ghost trace."""
import itertools
import z3
from pyvc.unit import Unit, ObjSpec, Lemma, Bounded
from pyvc.engine import AbsObj, FuncV
from pyvc.core import Arr, Obj, PyDict, PyList, Ref, to_real, is_sym

OP = "taurex.optimizer.optimizer:"
from contracts import c08 as _c08          # Prior.prior is called by contract
LIN, LOG = 'PriorMode.LINEAR', 'PriorMode.LOG'
MODEL_NAMES, OBS_NAMES = ['T', 'R'], ['off']


def _ev(st, *payload):
    st.trace.append(('ev', tuple(payload)))


# ---- abstract callables and constructors
def _h_get(ex, st, o, args, kwargs, node):
    return o.attrs['value']


def _h_set(ex, st, o, args, kwargs, node):
    _ev(st, 'set', o.attrs['name'], args[0])
    return None


def _new_prior(cls, mode):
    def h(ex, st, args, kwargs, node):
        """assumed contract of the constructor (proved in C08): a new prior of that class determined by its bounds"""
        b = kwargs.get('bounds', kwargs.get('lin_bounds', args[0] if args else None))
        return st.alloc(ex.c, Obj(cls, {'_prior_mode': mode, 'g_bounds': b, 'g_origin': 'default'}))
    return h


_ABS = {'Param.get': _h_get, 'Param.set': _h_set, 'new:Uniform': _new_prior('Uniform', LIN),
        'new:LogUniform': _new_prior('LogUniform', LOG)}


def _param_tuple(c, name, mode, fit):
    if c.mode == 'conc':
        return dict(__obj__='ParamTuple', name=name, mode=mode, fit=fit, bounds=(c.real('lo_' + name), c.real('hi_' + name)),
                    value=c.real('val_' + name))
    p = AbsObj('Param', name, {'name': name, 'value': c.real('val_' + name)})
    return (name, '$%s$' % name, FuncV('absmethod', 'get', self_val=p), FuncV('absmethod', 'set', self_val=p), mode, fit,
            (c.real('lo_' + name), c.real('hi_' + name)))


def _prior_entry(c, name, state):
    """what the prior table holds for `name` on entry"""
    if state == 'none':
        return None
    if state in ('user_lin', 'user_log'):
        mode = LIN if state == 'user_lin' else LOG
        return ObjSpec('Gaussian' if state == 'user_lin' else 'LogGaussian', _prior_mode=mode, g_origin='user', g_bounds=None)
    # a default created by an earlier compilation, under whatever settings were current THEN
    old_mode = c.choice('old_mode_' + name) if ('old_mode_' + name) in (c.fixed if c.mode != 'conc' else c.values) else 'linear'
    return ObjSpec('LogUniform' if old_mode == 'log' else 'Uniform', _prior_mode=LOG if old_mode == 'log' else LIN,
                   g_origin='default', g_bounds=(c.real('oldlo_' + name), c.real('oldhi_' + name)))


def _tables(c, cfg):
    """cfg: tuple of (name, owner 'm'|'o', mode, fit, prior state)"""
    fm, fo, pri = {}, {}, {}
    for name, owner, mode, fit, state in cfg:
        (fm if owner == 'm' else fo)[name] = _param_tuple(c, name, mode, fit)
        e = _prior_entry(c, name, state)
        if e is not None:
            pri[name] = e
    return fm, fo, pri


def _cfg_of(c):
    k = c.choice('cfg')
    return _CFGTAB[k] if isinstance(k, str) else k


def _opt_params(c):
    cfg = _cfg_of(c)
    fm, fo, pri = _tables(c, cfg)
    return dict(self=ObjSpec('Optimizer', _model=ObjSpec('ForwardModel', fittingParameters=fm, derivedParameters={}),
                             _observed=ObjSpec('BaseSpectrum', fittingParameters=fo, derivedParameters={}),
                             _fit_priors=pri, _user_priors={n: e for n, e in pri.items() if e.attrs['g_origin'] == 'user'},
                             fitting_parameters=[], fitting_priors=[], derived_parameters=[]))


# ---- one description of the outcome for both interpretations
def _fitted(c, v1):
    """-> [(name, prior class, prior origin 'user'|'default', prior bounds or None, table entry is that prior?)]"""
    if c.mode == 'conc':
        return v1.self.g_fitted
    st = c.raw['state']
    me = st.get(c.raw['env']['self'])
    fp, pr, tab = st.get(me.attrs['fitting_parameters']).items, st.get(me.attrs['fitting_priors']).items, st.get(me.attrs['_fit_priors']).items
    out = []
    for k, t in enumerate(fp):
        p = st.get(pr[k]) if k < len(pr) and isinstance(pr[k], Ref) else None
        same = k < len(pr) and isinstance(tab.get(t[0]), Ref) and isinstance(pr[k], Ref) and tab[t[0]].id == pr[k].id
        out.append((t[0], p.cls if p else None, p.attrs.get('g_origin') if p else None, p.attrs.get('g_bounds') if p else None, same))
    return out


def _expected_order(cfg):
    return [n for n, o, m, f, s in cfg if o == 'm' and f] + [n for n, o, m, f, s in cfg if o == 'o' and f]


def _cfgv(c):
    k = c.fixed['cfg'] if c.mode != 'conc' else c.values['cfg']
    return _CFGTAB[k]


def _cp_post(c, v0, v1, r):
    """fitted parameters: those with the fit flag, model first then observation, in table order; each one's prior is
    the user's prior when one was set, otherwise the default implied by its CURRENT mode and bounds (Uniform(bounds)
    in linear mode, LogUniform(lin_bounds=bounds) in log mode); the prior table holds exactly that prior"""
    cfg = _cfgv(c)
    got = _fitted(c, v1)
    by = {n: (o, m, f, s) for n, o, m, f, s in cfg}
    d = {'names_and_order': [g[0] for g in got] == _expected_order(cfg), 'one_prior_each': all(g[1] is not None for g in got)}
    if not (d['names_and_order'] and d['one_prior_each']):
        return d
    for name, cls, origin, bounds, same in got:
        o, mode, f, state = by[name]
        d['table_holds_prior_%s' % name] = bool(same)
        if state in ('user_lin', 'user_log'):
            d['user_prior_kept_%s' % name] = origin == 'user' and cls == ('Gaussian' if state == 'user_lin' else 'LogGaussian')
        else:
            d['default_class_%s' % name] = origin == 'default' and cls == ('LogUniform' if mode == 'log' else 'Uniform')
            lo, hi = _cur_bounds(c, v0, name, o)
            d['default_from_current_bounds_%s' % name] = bounds is not None and len(bounds) == 2 and \
                c.And(c.Eq(bounds[0], lo), c.Eq(bounds[1], hi))
    return d


def _cur_bounds(c, v0, name, owner):
    tab = (v0.self._model if owner == 'm' else v0.self._observed).fittingParameters
    t = tab[name]
    return (t['bounds'] if c.mode == 'conc' else t[6])


# ---- native harness: the real Optimizer on doubles; histories create the stale defaults
class _Holder:
    def __init__(self, params):
        self._p, self._d = params, {}

    @property
    def fittingParameters(self):
        return self._p

    @property
    def derivedParameters(self):
        return self._d


def _real_tables(c, p, store, sets):
    out = []
    for key in ('_model', '_observed'):
        tab = {}
        for name, t in p['self'][key]['fittingParameters'].items():
            store[name] = t['value']
            tab[name] = (name, '$%s$' % name, (lambda n=name: store[n]), (lambda v, n=name: (sets.append((n, v)), store.__setitem__(n, v))[0]),
                         t['mode'], t['fit'], list(t['bounds']))
        out.append(_Holder(tab))
    return out


def _mk_opt(model, obs):
    from taurex.optimizer.optimizer import Optimizer
    o = Optimizer.__new__(Optimizer)
    for nm in ('debug', 'info', 'warning', 'error', 'critical'):
        setattr(o, nm, lambda *a, **k: None)
    o._model, o._observed = model, obs
    o._fit_priors, o._user_priors, o.fitting_parameters, o.fitting_priors, o.derived_parameters = {}, {}, [], [], []
    return o


def _install_priors(c, o, p):
    import taurex.core.priors as P
    users = {}
    for name, e in p['self']['_fit_priors'].items():
        if e['g_origin'] == 'user':
            users[name] = P.Gaussian(0.3, 2.0) if e['__obj__'] == 'Gaussian' else P.LogGaussian(0.3, 2.0)
            o.set_prior(name, users[name])
    return users


def _stale_history(c, o, p):
    """make the prior table hold defaults of EARLIER settings through the public API: compile under the old
    settings, then change mode / bounds to the current ones"""
    stale = {n: e for n, e in p['self']['_fit_priors'].items() if e['g_origin'] == 'default'}
    if not stale:
        return
    cur = {}
    for name, e in stale.items():
        owner = o._model if name in o._model.fittingParameters else o._observed
        t = owner.fittingParameters[name]
        cur[name] = (t[4], t[5], list(t[6]))
        o.set_mode(name, 'log' if e['__obj__'] == 'LogUniform' else 'linear')
        o.set_boundary(name, list(e['g_bounds']))
        o.enable_fit(name)
    o.compile_params()
    for name, (mode, fit, bounds) in cur.items():
        o.set_mode(name, mode)
        o.set_boundary(name, bounds)
        (o.enable_fit if fit else o.disable_fit)(name)


def _describe(o, users):
    out = []
    for t, pr in zip(o.fitting_parameters, o.fitting_priors):
        origin = 'user' if any(pr is u for u in users.values()) else 'default'
        b = pr.boundaries() if origin == 'default' else None
        if origin == 'default' and type(pr).__name__ == 'LogUniform':
            b = (10 ** b[0], 10 ** b[1])
        if b is not None:
            lo, hi = list(t[6])
            b = (b[0], b[1]) if lo <= hi else (b[1], b[0])
        out.append((t[0], type(pr).__name__, origin, b, o._fit_priors.get(t[0]) is pr))
    return out


def _cp_native(c, p):
    store, sets = {}, []
    model, obs = _real_tables(c, p, store, sets)
    o = _mk_opt(model, obs)
    users = _install_priors(c, o, p)
    _stale_history(c, o, p)
    o.compile_params()
    return None, dict(p, self=dict(p['self'], g_fitted=_describe(o, users)))


def _mk_cfgs():
    out = []
    modes, states = ('linear', 'log'), ('none', 'user_lin', 'user_log', 'stale')
    for mode, fit, state in itertools.product(modes, (True, False), states):
        out.append((('T', 'm', mode, fit, state),))
    for mode, state in itertools.product(modes, states):
        out.append((('off', 'o', mode, True, state),))
    out.append((('T', 'm', 'linear', True, 'none'), ('R', 'm', 'log', True, 'none'), ('off', 'o', 'linear', True, 'none')))
    out.append((('T', 'm', 'log', False, 'none'), ('R', 'm', 'log', True, 'user_lin'), ('off', 'o', 'log', True, 'stale')))
    out.append((('T', 'm', 'linear', True, 'stale'), ('R', 'm', 'linear', False, 'stale'), ('off', 'o', 'linear', False, 'none')))
    out.append(())
    return out


_CFGS = _mk_cfgs()
_CFGTAB = {}
for _cfg in _CFGS:
    _CFGTAB['+'.join('%s.%s.%s.%s' % (n, m[:3], 'fit' if f else 'off', st) for n, o, m, f, st in _cfg) or 'empty'] = _cfg
_CFGID = {v: k for k, v in _CFGTAB.items()}


def _cases():
    out = []
    for cfg in _CFGS:
        stale = [n for n, o, m, f, s in cfg if s == 'stale']
        if not stale:
            out.append({'cfg': _CFGID[cfg]})
        else:
            for om in ('linear', 'log'):
                out.append(dict({'cfg': _CFGID[cfg]}, **{'old_mode_' + n: om for n in stale}))
    return out


def _gen(rng):
    d = dict(rng.choice(_cases()))
    for n in MODEL_NAMES + OBS_NAMES:
        a, b = sorted([10 ** rng.uniform(-3, 3), 10 ** rng.uniform(-3, 3)])
        d['lo_' + n], d['hi_' + n], d['val_' + n] = a, b * 1.5, rng.uniform(a, b)
        a, b = sorted([10 ** rng.uniform(-3, 3), 10 ** rng.uniform(-3, 3)])
        d['oldlo_' + n], d['oldhi_' + n] = a, b * 1.5
    return d


CP = Unit(['C07', 'C08'], OP + 'Optimizer.compile_params', _opt_params, post=_cp_post, abstract=_ABS, cases=_cases(), bounds=[{}],
          inline=['compile_params', 'fittingParameters', 'derivedParameters'], native=_cp_native, gen=_gen,
          frame_attrs=[('self', a) for a in ('fitting_parameters', 'fitting_priors', 'derived_parameters', '_fit_priors')],
          short='Optimizer.compile_params',
          doc='names, order and priors after compiling are those implied by the current tables and the user\'s priors '
              'alone -- whatever an earlier compilation left in the prior table (replayed as a history through the '
              'public API)')


# ------------------------------------------------------------------ views: names / values / boundaries agree about the space
def _view_params(c):
    combo = _COMBOTAB[c.choice('combo')]          # per fitted parameter: (name, parameter mode, prior mode)
    fp, pri = [], {}
    for name, pmode, prmode in combo:
        fp.append(_param_tuple(c, name, pmode, True))
        pri[name] = ObjSpec('LogUniform' if prmode == LOG else 'Uniform', _prior_mode=prmode, g_origin='x', g_bounds=None)
    return dict(self=ObjSpec('Optimizer', fitting_parameters=fp, _fit_priors=pri))


def _view_pre(c, v):
    d = {}
    for t in v.self.fitting_parameters:
        val, b = (t['value'], t['bounds']) if c.mode == 'conc' else (t[2].self_val.attrs['value'], t[6])
        d['positive_%s' % (t['name'] if c.mode == 'conc' else t[0])] = c.And(c.Lt(0, val), c.Lt(0, b[0]), c.Lt(0, b[1]))
    return d


def _combo(c):
    return _COMBOTAB[c.fixed['combo'] if c.mode != 'conc' else c.values['combo']]


def _tinfo(c, v0, k):
    t = v0.self.fitting_parameters[k]
    if c.mode == 'conc':
        return t['name'], t['value'], t['bounds']
    return t[0], t[2].self_val.attrs['value'], t[6]


def _names_post(c, v0, v1, r):
    """a parameter sampled in log space (its PRIOR is a log-space prior) is reported as log_<name>"""
    combo = _combo(c)
    return {'count': len(r) == len(combo),
            'names': list(r) == [('log_' + n if pr == LOG else n) for n, pm, pr in combo]}


def _values_post(c, v0, v1, r):
    """the reported value is expressed in the space of the parameter's prior (and hence of its reported name)"""
    combo = _combo(c)
    d = {'count': len(r) == len(combo)}
    if not d['count']:
        return d
    for k, (n, pm, pr) in enumerate(combo):
        _, val, _ = _tinfo(c, v0, k)
        d['value_in_prior_space_%s' % n] = c.Eq(r[k], c.log10(val) if pr == LOG else val)
    return d


def _bounds_post(c, v0, v1, r):
    combo = _combo(c)
    d = {'count': len(r) == len(combo)}
    if not d['count']:
        return d
    for k, (n, pm, pr) in enumerate(combo):
        _, _, b = _tinfo(c, v0, k)
        lo, hi = r[k][0], r[k][1]
        d['bounds_in_prior_space_%s' % n] = c.And(c.Eq(lo, c.log10(b[0]) if pr == LOG else b[0]),
                                                  c.Eq(hi, c.log10(b[1]) if pr == LOG else b[1]))
    return d


def _view_native(attr):
    def native(c, p):
        import taurex.core.priors as P
        store, sets = {}, []
        tab = {}
        fp = []
        for t in p['self']['fitting_parameters']:
            store[t['name']] = t['value']
            fp.append((t['name'], '$x$', (lambda n=t['name']: store[n]), None, t['mode'], True, list(t['bounds'])))
        o = _mk_opt(_Holder({}), _Holder({}))
        o.fitting_parameters = fp
        o._fit_priors = {n: (P.LogUniform(bounds=[0, 1]) if e['_prior_mode'] == LOG else P.Uniform(bounds=[0, 1]))
                         for n, e in p['self']['_fit_priors'].items()}
        o.fitting_priors = [o._fit_priors[t[0]] for t in fp]
        return getattr(o, attr), p
    return native


_COMBOS = [((n, pm, pr),) for n in ('T',) for pm in ('linear', 'log') for pr in (LIN, LOG)] + \
    [(('T', 'linear', LIN), ('R', 'log', LOG)), (('T', 'log', LIN), ('R', 'linear', LOG)), ()]


_COMBOTAB = {('+'.join('%s.%s.prior%s' % (n, pm[:3], pr[10:13]) for n, pm, pr in x) or 'empty'): x for x in _COMBOS}


def _view_gen(rng):
    d = dict(combo=rng.choice(list(_COMBOTAB)))
    for n in MODEL_NAMES:
        a, b = sorted([10 ** rng.uniform(-3, 3), 10 ** rng.uniform(-3, 3)])
        d['lo_' + n], d['hi_' + n], d['val_' + n] = a, b * 1.5, rng.uniform(a, b)
    return d


for _attr, _post in (('fit_names', _names_post), ('fit_values', _values_post), ('fit_boundaries', _bounds_post)):
    Unit('C07', OP + 'Optimizer.' + _attr, _view_params, pre=_view_pre, post=_post, abstract=_ABS, cases=[{'combo': x} for x in _COMBOTAB],
         bounds=[{}], native=_view_native(_attr), gen=_view_gen, short='Optimizer.' + _attr, safety=('index',),
         doc='reported %s are in the space of the parameter\'s prior (every combination of parameter mode and prior '
             'mode)' % _attr[4:])


# ------------------------------------------------------------------ mutators: only the named slot changes; unknown names are errors
def _mut_params(extra):
    def params(c):
        cfg = _cfg_of(c)
        fm, fo, pri = _tables(c, cfg)
        dm = {'mu': _dparam(c, 'mu', c.choice('dcompute'))} if c.choice('target_kind') == 'derived' else {}
        d = dict(self=ObjSpec('Optimizer', _model=ObjSpec('ForwardModel', fittingParameters=fm, derivedParameters=dm),
                              _observed=ObjSpec('BaseSpectrum', fittingParameters=fo, derivedParameters={}), _fit_priors=pri,
                              _user_priors={}),
                 parameter=c.choice('target'))
        d.update(extra(c))
        return d
    return params


def _dparam(c, name, compute):
    if c.mode == 'conc':
        return dict(__obj__='DParamTuple', name=name, compute=compute)
    p = AbsObj('Param', name, {'name': name, 'value': c.real('val_' + name)})
    return (name, '$%s$' % name, FuncV('absmethod', 'get', self_val=p), compute)


def _known(c, v0, name, kind='fit'):
    tabs = [('m', v0.self._model), ('o', v0.self._observed)]
    for o, h in tabs:
        t = h.fittingParameters if kind == 'fit' else h.derivedParameters
        if name in t:
            return o
    return None


def _mut_raises(kind, exc):
    def raises(c, v):
        return {exc: _known(c, v, v.parameter, kind) is None}
    return raises


def _snapshot(c, v, kind='fit'):
    """-> {owner: {name: tuple of slots (getter/setter by identity)}}"""
    out = {}
    for o, h in (('m', v.self._model), ('o', v.self._observed)):
        t = h.fittingParameters if kind == 'fit' else h.derivedParameters
        if c.mode == 'conc':
            out[o] = {n: x for n, x in t.items()}
        else:
            out[o] = {n: x for n, x in t.items()}
    return out


def _mut_post(slot, newval, kind='fit'):
    """slot: index into the 7-tuple (4 mode, 5 fit flag, 6 bounds) or the 4-tuple of derived parameters (3 compute)"""
    def post(c, v0, v1, r):
        name = v0.parameter
        owner = _known(c, v0, name, kind)
        s0, s1 = _snapshot(c, v0, kind), _snapshot(c, v1, kind)
        d = {'same_parameters': {o: list(s0[o]) for o in s0} == {o: list(s1[o]) for o in s1}}
        if not d['same_parameters']:
            return d
        ok_others, ok_slots = True, True
        for o in s0:
            for n in s0[o]:
                a, b = s0[o][n], s1[o][n]
                if c.mode == 'conc':
                    keys = [k for k in a if k not in ('__obj__',)]
                    for k in keys:
                        if o == owner and n == name and k == {4: 'mode', 5: 'fit', 6: 'bounds', 3: 'compute'}[slot]:
                            continue
                        same = a[k] == b.get(k) if not isinstance(a[k], tuple) else tuple(a[k]) == tuple(b.get(k))
                        ok_others = ok_others and bool(same) if not (o == owner and n == name) else ok_others
                        ok_slots = ok_slots and bool(same) if (o == owner and n == name) else ok_slots
                else:
                    for k in range(len(a)):
                        if o == owner and n == name and k == slot:
                            continue
                        same = _ident(a[k], b[k]) if k < len(b) else False
                        if o == owner and n == name:
                            ok_slots = ok_slots and same
                        else:
                            ok_others = ok_others and same
        d['every_other_parameter_untouched'] = ok_others
        d['other_slots_of_the_parameter_untouched'] = ok_slots
        cur = s1[owner][name]
        got = cur[slot] if c.mode != 'conc' else cur[{4: 'mode', 5: 'fit', 6: 'bounds', 3: 'compute'}[slot]]
        want = newval(c, v0)
        if isinstance(want, tuple):
            d['new_setting_stored'] = len(got) == 2 and c.And(c.Eq(got[0], want[0]), c.Eq(got[1], want[1]))
        else:
            d['new_setting_stored'] = got == want
        return d
    return post


def _ident(a, b):
    if isinstance(a, FuncV) or isinstance(b, FuncV):
        return a is b
    if isinstance(a, tuple) and isinstance(b, tuple):
        return len(a) == len(b) and all(_ident(x, y) for x, y in zip(a, b))
    if is_sym(a) or is_sym(b):
        return is_sym(a) and is_sym(b) and a.eq(b)
    return a == b


def _mut_native(method, args, kind='fit'):
    def native(c, p):
        store, sets = {}, []
        model, obs = _real_tables(c, p, store, sets)
        for name, t in p['self']['_model']['derivedParameters'].items():
            model._d[name] = (name, '$x$', (lambda: 1.0), t['compute'])
        o = _mk_opt(model, obs)
        getattr(o, method)(p['parameter'], *args(p))
        q = dict(p)
        q['self'] = dict(p['self'])
        for key, h in (('_model', model), ('_observed', obs)):
            tab = {}
            for name, t in h.fittingParameters.items():
                old = p['self'][key]['fittingParameters'][name]
                same_fn = (t[2]() == store[name])
                tab[name] = dict(old, name=t[0], mode=t[4], fit=t[5], bounds=tuple(t[6]), value=old['value'] if same_fn else None)
            dt = {name: dict(p['self'][key]['derivedParameters'][name], name=t[0], compute=t[3]) for name, t in h.derivedParameters.items()}
            q['self'][key] = dict(p['self'][key], fittingParameters=tab, derivedParameters=dt)
        return None, q
    return native


_MUT_CFG = 'three'
_CFGTAB['three'] = (('T', 'm', 'linear', False, 'none'), ('R', 'm', 'log', True, 'none'), ('off', 'o', 'linear', True, 'none'))
_TARGETS = ['T', 'R', 'off', 'nosuch']


def _mut_cases(**extra):
    return [dict({'cfg': _MUT_CFG, 'target': t, 'target_kind': 'fit', 'dcompute': False}, **extra) for t in _TARGETS]


def _mut_gen(cases):
    def gen(rng):
        d = _gen(rng)
        d.update(rng.choice(cases))
        d.update(nlo=10 ** rng.uniform(-3, 3), nhi=10 ** rng.uniform(-3, 3), f0=rng.uniform(0.1, 1), f1=rng.uniform(1, 10), val_mu=2.0)
        return d
    return gen


def _mk_mut(method, slot, newval, extra=lambda c: {}, args=lambda p: (), cases=None, kind='fit', exc='KeyError', **kw):
    cases = cases or _mut_cases()
    return Unit('C07', OP + 'Optimizer.' + method, _mut_params(extra), raises=_mut_raises(kind, exc), post=_mut_post(slot, newval, kind),
                abstract=_ABS, cases=cases, bounds=[{}], native=_mut_native(method, args, kind), gen=_mut_gen(cases),
                inline=['fittingParameters', 'derivedParameters'], short='Optimizer.' + method,
                doc='%s: exactly the named slot of the named parameter changes, every other parameter of model and '
                    'observation is untouched; an unknown name is an error' % method, **kw)


_mk_mut('enable_fit', 5, lambda c, v0: True)
_mk_mut('disable_fit', 5, lambda c, v0: False)
_mk_mut('set_boundary', 6, lambda c, v0: (v0.new_boundaries[0], v0.new_boundaries[1]),
        extra=lambda c: dict(new_boundaries=(c.real('nlo'), c.real('nhi'))), args=lambda p: (list(p['new_boundaries']),))
_mk_mut('set_mode', 4, lambda c, v0: v0.new_mode.lower(), extra=lambda c: dict(new_mode=c.choice('nm')), args=lambda p: (p['new_mode'],),
        cases=[dict(x, nm=nm) for nm in ('log', 'linear', 'LOG', 'Linear') for x in _mut_cases()])


def _sfb_new(c, v0):
    owner = _known(c, v0, v0.parameter)
    t = (v0.self._model if owner == 'm' else v0.self._observed).fittingParameters[v0.parameter]
    val = t['value'] if c.mode == 'conc' else t[2].self_val.attrs['value']
    return (v0.factors[0] * val, v0.factors[1] * val)


_mk_mut('set_factor_boundary', 6, _sfb_new, extra=lambda c: dict(factors=(c.real('f0'), c.real('f1'))), args=lambda p: (list(p['factors']),))

_DER_CASES = [{'cfg': _MUT_CFG, 'target': t, 'target_kind': 'derived', 'dcompute': dc} for t in ('mu', 'nosuch') for dc in (True, False)]
_mk_mut('enable_derived', 3, lambda c, v0: True, cases=_DER_CASES, kind='derived')
_mk_mut('disable_derived', 3, lambda c, v0: False, cases=_DER_CASES, kind='derived')


# ------------------------------------------------------------------ set_prior
def _sp_post(c, v0, v1, r):
    name = v0.parameter
    if c.mode == 'conc':
        return {'prior_registered': v1.self.g_prior_is_users}
    st = c.raw['state']
    me = st.get(c.raw['env']['self'])
    tab = st.get(me.attrs['_fit_priors']).items
    return {'prior_registered': name in tab and isinstance(tab[name], Ref) and tab[name].id == c.raw['env']['prior'].id,
            'other_priors_untouched': all(k == name or (k in tab and _ident(x, tab[k]))
                                          for k, x in st.get(c.raw['env']['self']).attrs.items() if False)}


def _sp_native(c, p):
    import taurex.core.priors as P
    store, sets = {}, []
    model, obs = _real_tables(c, p, store, sets)
    o = _mk_opt(model, obs)
    pr = P.Gaussian(1.0, 2.0)
    o.set_prior(p['parameter'], pr)
    return None, dict(p, self=dict(p['self'], g_prior_is_users=o._fit_priors.get(p['parameter']) is pr))


SP = Unit('C07', OP + 'Optimizer.set_prior', _mut_params(lambda c: dict(prior=ObjSpec('Gaussian', _prior_mode=LIN, g_origin='user', g_bounds=None))),
          raises=_mut_raises('fit', 'ValueError'), post=_sp_post, abstract=_ABS, cases=_mut_cases(), bounds=[{}], native=_sp_native,
          gen=_mut_gen(_mut_cases()), inline=['fittingParameters', 'derivedParameters'], short='Optimizer.set_prior',
          doc='the user\'s prior is registered for a known parameter; an unknown name is an error')


# ------------------------------------------------------------------ update_model: exactly the fitted setters, prior-transformed values
def _um_params(c):
    combo = _COMBOTAB[c.choice('combo')]
    L = c.choice('nvals')
    fp, pr = [], []
    for name, pmode, prmode in combo:
        fp.append(_param_tuple(c, name, pmode, True))
        pr.append(ObjSpec('LogUniform' if prmode == LOG else 'Uniform', _prior_mode=prmode))
    return dict(self=ObjSpec('Optimizer', fitting_parameters=fp, fitting_priors=pr), fit_params=[c.real('x%d' % k) for k in range(L)])


def _um_raises(c, v):
    return {'ValueError': len(v.fit_params) != len(v.self.fitting_parameters)}


def _um_post(c, v0, v1, r):
    """one setter call per fitted parameter, in order, with the prior-transformed value; nothing else is written"""
    combo = _combo(c)
    sets = [e for e in (c.trace or []) if e[0] == 'set']
    d = {'one_call_per_fitted_parameter_in_order': [e[1] for e in sets] == [n for n, _, _ in combo]}
    if not d['one_call_per_fitted_parameter_in_order']:
        return d
    for k, (n, pm, pr) in enumerate(combo):
        x = v0.fit_params[k]
        d['prior_transformed_value_%s' % n] = c.Eq(sets[k][2], c.pow10(x) if pr == LOG else x)
    return d


def _um_native(c, p):
    import taurex.core.priors as P
    store, sets = {}, []
    fp = []
    for t in p['self']['fitting_parameters']:
        store[t['name']] = t['value']
        fp.append((t['name'], '$x$', (lambda n=t['name']: store[n]), (lambda v, n=t['name']: sets.append(('set', n, v))), t['mode'], True,
                   list(t['bounds'])))
    o = _mk_opt(_Holder({}), _Holder({}))
    o.fitting_parameters = fp
    o.fitting_priors = [(P.LogUniform(bounds=[0, 1]) if e['_prior_mode'] == LOG else P.Uniform(bounds=[0, 1])) for e in p['self']['fitting_priors']]
    o.update_model(list(p['fit_params']))
    return None, dict(p, __trace__=sets)


_UM_CASES = [{'combo': k, 'nvals': len(v) + dl} for k, v in _COMBOTAB.items() for dl in (0, 1, -1) if len(v) + dl >= 0]


def _um_gen(rng):
    d = _view_gen(rng)
    d['nvals'] = len(_COMBOTAB[d['combo']]) + rng.choice([0, 0, 0, 1, -1])
    if d['nvals'] < 0:
        d['nvals'] = 0
    for k in range(4):
        d['x%d' % k] = rng.uniform(-3, 3)
    return d


UM = Unit(['C07', 'C06'], OP + 'Optimizer.update_model', _um_params, raises=_um_raises, post=_um_post, abstract=_ABS, cases=_UM_CASES,
          bounds=[{}], native=_um_native, gen=_um_gen, short='Optimizer.update_model',
          doc='a vector of the wrong length is an error; otherwise exactly one setter call per fitted parameter, in '
              'order, with prior.prior(value) (Prior.prior by contract, C08); no other effect')


def _write_back(c):
    """writing the reported values back changes nothing: linear space x -> x; log space (getter > 0):
    10**(log10 x) = x"""
    x = z3.Real('x')
    return [('linear', [], x == x), ('log', [x > 0], c.pow10(c.log10(x)) == x)]


Lemma('C07', 'write_back_is_identity', _write_back,
      doc='update_model(fit_values) sets every fitted parameter to its current value (views + update_model contracts)')


# ------------------------------------------------------------------ SimpleForwardModel.collect_fitting_parameters: the union over all components
from pyvc.core import PyDict, Ref

_CF_COMPS = ['planet', 'star', 'pressure', 'temperature', 'chemistry']


def _cf_params(c):
    star, M = c.choice('star'), c.choice('M')
    if c.mode == 'conc':
        return dict(self=dict(__obj__='SimpleForwardModel'))
    mk = lambda tag: AbsObj('Fittable', tag, {})
    return dict(self=ObjSpec('SimpleForwardModel', _fitting_parameters=None, _planet=mk('planet'), _star=mk('star') if star else None,
                             pressure=mk('pressure'), _temperature_profile=mk('temperature'), _chemistry=mk('chemistry'),
                             contribution_list=[mk('contrib%d' % k) for k in range(M)]))


def _h_fitpars(ex, st, o, args, kwargs, node):
    """a component's fitting_parameters(): its own parameter plus one named 'shared' that every component offers (the
    later component in the documented order must win)"""
    tag = o.ident
    st.trace.append(('ev', ('fitting_parameters', tag)))
    return st.alloc(ex.c, PyDict({'p_%s' % tag: ('tuple', tag), 'shared': ('shared-from', tag)}))


def _h_own_fitpars(ex, st, args, kwargs, node):
    st.trace.append(('ev', ('fitting_parameters', 'model')))
    return st.alloc(ex.c, PyDict({'p_model': ('tuple', 'model'), 'shared': ('shared-from', 'model')}))


def _cf_order(fx):
    return ['model', 'planet'] + (['star'] if fx['star'] else []) + ['pressure', 'temperature', 'chemistry'] + ['contrib%d' % k for k in range(fx['M'])]


def _cf_post(c, v0, v1, r):
    fx = c.fixed if c.mode != 'conc' else c.values
    order = _cf_order(fx)
    if c.mode == 'conc':
        got = v1.self['_fitting_parameters'] if isinstance(v1.self, dict) else v1.self._fitting_parameters
        calls = [e[1] for e in (c.trace or [])]
    else:
        ref = v1.self.ref('_fitting_parameters')
        cell = c.raw['state'].heap.get(ref.id) if isinstance(ref, Ref) else None
        got = dict(cell.items) if isinstance(cell, PyDict) else None
        calls = [e[1] for e in (c.trace or []) if e[0] == 'fitting_parameters']
    d = {'every_component_asked_once_in_the_documented_order': calls == order, 'a_dictionary': isinstance(got, dict)}
    if not d['a_dictionary']:
        return d
    d['every_parameter_collected'] = set(got.keys()) == {'p_%s' % t for t in order} | {'shared'}
    d['each_under_its_own_component'] = all(tuple(got.get('p_%s' % t, ())) == ('tuple', t) for t in order)
    d['later_component_wins_a_name_clash'] = tuple(got.get('shared', ())) == ('shared-from', order[-1])
    return d


def _cf_native(c, p):
    from taurex.model.simplemodel import SimpleForwardModel
    fx = c.values
    trace = []

    class _F:
        def __init__(self, tag):
            self.tag = tag

        def fitting_parameters(self):
            trace.append(('fitting_parameters', self.tag))
            return {'p_%s' % self.tag: ('tuple', self.tag), 'shared': ('shared-from', self.tag)}

    class _M(SimpleForwardModel):
        pressure = property(lambda self: self._pp)

        def fitting_parameters(self):
            trace.append(('fitting_parameters', 'model'))
            return {'p_model': ('tuple', 'model'), 'shared': ('shared-from', 'model')}
    m = _M.__new__(_M)
    for nm in ('debug', 'info', 'warning', 'error', 'critical'):
        setattr(m, nm, lambda *a, **k: None)
    m._planet, m._star, m._pp = _F('planet'), (_F('star') if fx['star'] else None), _F('pressure')
    m._temperature_profile, m._chemistry = _F('temperature'), _F('chemistry')
    m.contribution_list = [_F('contrib%d' % k) for k in range(fx['M'])]
    m.collect_fitting_parameters()
    return None, dict(p, self=dict(p['self'], _fitting_parameters=m._fitting_parameters), __trace__=trace)


_CF_CASES = [dict(star=s, M=M) for s in (True, False) for M in (0, 1, 2)]
CFP = Unit('C07', 'taurex.model.simplemodel:SimpleForwardModel.collect_fitting_parameters', _cf_params, post=_cf_post, cases=_CF_CASES, bounds=[{}],
           abstract={'Fittable.fitting_parameters': _h_fitpars, 'call:fitting_parameters': _h_own_fitpars}, frame_attrs=[('self', '_fitting_parameters')],
           native=_cf_native, gen=lambda rng: dict(rng.choice(_CF_CASES)), short='SimpleForwardModel.collect_fitting_parameters',
           doc='the parameters a retrieval can fit: the union over the model itself, planet, star (when present), pressure, temperature, '
               'chemistry and every contribution, each component asked once in that order, a later component winning a name clash '
               '(0..2 contributions)')


# ------------------------------------------------------------------ Fittable.add_fittable_param: how a component registers a parameter
def _af_params(c):
    held = c.choice('held')
    if c.mode == 'conc':
        return dict(self=dict(__obj__='Fittable'), param_name=c.choice('name'))
    entry = lambda n: (n, 'tex_' + n, AbsObj('BoundMethod', ('get', n), {}), AbsObj('BoundMethod', ('set', n), {}), 'linear', False, (c.real('lo_' + n), c.real('hi_' + n)))
    return dict(self=ObjSpec('Fittable', _param_dict={n: entry(n) for n in held}, _derived_dict={}),
                param_name=c.choice('name'), param_latex='tex_new', fget=AbsObj('Function', 'fget', {}), fset=AbsObj('Function', 'fset', {}),
                default_mode=c.choice('mode'), default_fit=c.choice('fit'), default_bounds=(c.real('lo'), c.real('hi')))


def _h_af_bind(ex, st, o, args, kwargs, node):
    """function.__get__(obj): the method bound to that object"""
    return AbsObj('BoundMethod', (o.ident, args[0].id if isinstance(args[0], Ref) else args[0]), {})


def _af_fx(c):
    return c.fixed if c.mode != 'conc' else c.values


def _af_raises(c, v):
    fx = _af_fx(c)
    return {'AttributeError': fx['name'] in fx['held']}


def _af_post(c, v0, v1, r):
    fx = _af_fx(c)
    if c.mode == 'conc':
        got = c.values['__after__']
        return {'one_new_entry_under_its_name_others_untouched': got['keys'] == list(fx['held']) + [fx['name']] and got['others_same'],
                'entry_holds_what_was_given_with_accessors_bound_to_this_object': got['entry_ok']}
    heap = c.raw['state'].heap
    me = c.raw['env']['self']
    d0 = heap0 = None
    d1 = heap[heap[me.id].attrs['_param_dict'].id].items
    keys_ok = list(d1) == list(fx['held']) + [fx['name']]
    d = {'one_new_entry_under_its_name_others_untouched': keys_ok and all(d1[n][0] == n and d1[n][1] == 'tex_' + n and d1[n][2].ident == ('get', n) for n in fx['held'])}
    if keys_ok:
        e = d1[fx['name']]
        d['entry_holds_what_was_given_with_accessors_bound_to_this_object'] = (
            e[0] == fx['name'] and e[1] == 'tex_new' and isinstance(e[2], AbsObj) and e[2].ident == ('fget', me.id) and isinstance(e[3], AbsObj)
            and e[3].ident == ('fset', me.id) and e[4] == fx['mode'] and e[5] == fx['fit'] and isinstance(e[6], tuple)
            and e[6][0].eq(z3.Real('lo')) and e[6][1].eq(z3.Real('hi')))
    return d


def _af_native(c, p):
    from taurex.data.fittable import Fittable
    fx = c.values

    class K(Fittable):
        def __init__(self):
            self._param_dict, self._derived_dict = {}, {}
    o = K()
    marks = {}
    for n in fx['held']:
        marks[n] = (n, 'tex_' + n, object(), object(), 'linear', False, (0.0, 1.0))
        o._param_dict[n] = marks[n]

    def fget(self):
        return ('get', id(self))

    def fset(self, v):
        return ('set', id(self), v)
    o.add_fittable_param(fx['name'], 'tex_new', fget, fset, fx['mode'], fx['fit'], (1.5, 2.5))
    e = o._param_dict[fx['name']]
    c.values['__after__'] = dict(keys=list(o._param_dict), others_same=all(o._param_dict[n] is marks[n] for n in fx['held']),
                                 entry_ok=(e[0] == fx['name'] and e[1] == 'tex_new' and e[2]() == ('get', id(o)) and e[3](7) == ('set', id(o), 7)
                                           and e[4] == fx['mode'] and e[5] == fx['fit'] and tuple(e[6]) == (1.5, 2.5)))
    return None, p


_AF_CASES = [dict(held=h, name=n, mode=m, fit=f) for h in ((), ('T',), ('T', 'R')) for n in ('T', 'X') for m, f in (('linear', False), ('log', True))]
AFP = Unit('C07', 'taurex.data.fittable:Fittable.add_fittable_param', _af_params, raises=_af_raises, post=_af_post, cases=_AF_CASES, bounds=[{}],
           abstract={'Function.__get__': _h_af_bind}, native=_af_native, gen=lambda rng: dict(rng.choice(_AF_CASES)), frame_attrs=[('self', '_param_dict')],
           short='Fittable.add_fittable_param',
           doc='how a component registers a fitting parameter: a name already registered is an error; otherwise exactly one new entry under that '
               'name -- (name, latex, getter and setter bound to THIS object, mode, fit flag, bounds) as given -- after the existing entries, '
               'which stay as they are (function.__get__ abstract)')
