"""C11 -- vertical structure is hydrostatic, ordered and one value per layer."""
import z3
from pyvc.unit import Unit, ObjSpec, Lemma

# ---- conversion_factor: astropy; trusted (assumed contract), exercised natively by the bounded item below
CF = Unit(['C11'], 'taurex.util.util:conversion_factor',
          lambda c: dict(from_unit='m', to_unit=c.choice('unit')), native=lambda c, p: (__import__('taurex.util.util', fromlist=['x']).conversion_factor(p['from_unit'], p['to_unit']), p),
          post=lambda c, v0, v1, r: {'value': c.Eq(r, c.unitfactor(v0.from_unit, v0.to_unit))},
          result=lambda ex, st, v0: ex.c.fresh('cf', z3.RealSort()), trusted=True, cases=[{'unit': 'm'}, {'unit': 'km'}],
          doc='assumed: conversion_factor(a, b) > 0 and = 1 when a == b (astropy unit algebra is outside the verifier)')


# ------------------------------------------------------------------ calculate_scale_properties
def _sp_params(c):
    n = c.int('n')
    return dict(self=ObjSpec('BasePlanet', _mass=c.real('M'), _radius=c.real('R')),
                T=c.array('T', (n,)), Pl=c.array('Pl', (n + 1,)), mu=c.array('mu', (n,)), length_units=c.choice('unit'))


def sp_pre(c, v):
    n = c.Len(v.T)
    return {'n': c.And(n >= 1, c.Len(v.Pl) == n + 1, c.Len(v.mu) == n),
            'planet': c.And(c.Lt(0, v.self._mass), c.Lt(0, v.self._radius)),
            'positive': c.Forall(0, n, lambda i: c.And(c.Lt(0, v.T[i]), c.Lt(0, v.mu[i]))),
            'levels': c.And(c.Forall(0, n + 1, lambda i: c.Lt(0, v.Pl[i])),
                            c.ForallAdj(0, n, lambda i, j: c.Lt(v.Pl[j], v.Pl[i])))}


def _g(c, v, z):
    return (c.constant('G') * v.self._mass) / ((v.self._radius + z) * (v.self._radius + z))


def sp_post(c, v0, v1, r):
    """hydrostatic integration from the surface: z_0 = 0, dz_i = H_i ln(P_i/P_{i+1}) > 0, z_{i+1} = z_i + dz_i,
    g_i = GM/(R+z_i)^2, H_i = k T_i/(mu_i g_i) in metres; every returned array is that quantity times the
    conversion factor f = metre -> length_units; (z: n+1, H: n, g: n, dz: n)"""
    n = c.Len(v0.T)
    z, H, g, dz = r[0], r[1], r[2], r[3]
    f = c.unitfactor('m', v0.length_units)
    return {
        'lengths': c.And(c.Len(z) == n + 1, c.Len(H) == n, c.Len(g) == n, c.Len(dz) == n),
        'surface': c.Eq(z[0], 0),
        'dz': c.ForallH(0, n, lambda i: c.hint(c.Eq(dz[i], H[i] * c.ln(v0.Pl[i] / v0.Pl[i + 1])),
                                               c.And(c.Lt(0, v0.Pl[i]), c.Lt(0, v0.Pl[i + 1])),
                                               c.Eq(c.ln(v0.Pl[i + 1] / v0.Pl[i]), -c.ln(v0.Pl[i] / v0.Pl[i + 1])))),
        'dz_pos': c.Forall(0, n, lambda i: c.Lt(0, dz[i])),
        'z': c.ForallAdj(0, n, lambda i, j: c.Eq(z[j], z[i] + dz[i])),
        'z_increasing': c.ForallAdj(0, n, lambda i, j: c.Lt(z[i], z[j])),
        'g': c.scope(c.ForallH(0, n, lambda i: c.Eq(g[i] / f, _g(c, v0, z[i] / f))),
                     'inv0.g', 'inv0.shapes', 'pre.planet', 'pre.n'),
        'H': c.scope(c.ForallH(0, n, lambda i: c.Eq((H[i] / f) * (v0.mu[i] * (g[i] / f)),
                                                    c.constant('KBOLTZ') * v0.T[i])),
                     'inv0.H', 'inv0.shapes', 'pre.positive', 'pre.n'),
    }


def sp_inv(c, v, v0, i):
    n = c.Len(v0.T)
    m = c.Min(i, n)
    S = 'inv0.shapes'
    return {
        'shapes': c.scope(c.And(c.Len(v.z) == n + 1, c.Len(v.H) == n, c.Len(v.g) == n, c.Len(v.deltaz) == n + 1,
                                v.nlayers == n, v.factor == c.unitfactor('m', v0.length_units)), S, 'call.*'),
        'z0': c.scope(v.z[0] == 0, S, 'inv0.z0'),
        'dz': c.scope(c.ForallAdj(0, i - 1, lambda q, j: v.deltaz[j] == -v.H[q] * c.ln(v0.Pl[j] / v0.Pl[q])),
                      S, 'inv0.dz'),
        'dzpos': c.scope(c.Forall(1, i, lambda j: v.deltaz[j] > 0), S, 'inv0.dzpos', 'inv0.H', 'pre.levels', 'pre.n',
                         'acc.dz'),
        'z': c.scope(c.ForallAdj(0, i - 1, lambda q, j: v.z[j] == v.z[q] + v.deltaz[j]), S, 'inv0.z'),
        'znonneg': c.scope(c.Forall(0, i, lambda j: v.z[j] >= 0), S, 'inv0.znonneg', 'inv0.z0', 'acc.dzpos', 'acc.z',
                           'acc.z0'),
        'g': c.scope(c.Forall(0, m, lambda j: c.And(v.g[j] == _g(c, v0, v.z[j]), v.g[j] > 0)),
                     S, 'inv0.g', 'acc.znonneg', 'pre.planet', 'pre.n'),
        'H': c.scope(c.Forall(0, m, lambda j: c.And(v.H[j] * (v0.mu[j] * v.g[j]) == c.constant('KBOLTZ') * v0.T[j],
                                                    v.H[j] > 0)),
                     S, 'inv0.H', 'acc.g', 'pre.positive', 'pre.n'),
    }


def _sp_native(c, p):
    import numpy as np
    from taurex.data.planet import BasePlanet
    pl = BasePlanet.__new__(BasePlanet)
    pl._mass, pl._radius = p['self']['_mass'], p['self']['_radius']
    pl.debug = lambda *a, **k: None
    z, H, g, dz = pl.calculate_scale_properties(np.array(p['T']), np.array(p['Pl']), np.array(p['mu']),
                                                length_units=p['length_units'])
    return (z, H, g, dz), p


def _sp_gen(rng):
    n = rng.randint(1, 5)
    Pl = [10 ** rng.uniform(4, 6)]
    for _ in range(n):
        Pl.append(Pl[-1] * rng.uniform(0.1, 0.9))
    return dict(n=n, M=rng.uniform(1e26, 3e27), R=rng.uniform(3e7, 1e8), unit=rng.choice(['m', 'km']),
                T=[rng.uniform(300, 2500) for _ in range(n)], Pl=Pl, mu=[rng.uniform(2, 30) * 1.66e-27 for _ in range(n)])


SP = Unit('C11', 'taurex.data.planet:BasePlanet.calculate_scale_properties', _sp_params, pre=sp_pre, post=sp_post,
          invariants={0: sp_inv}, native=_sp_native, gen=_sp_gen, bounds=[dict(n=2), dict(n=1)],
          inline=['gravity', 'gravity_at_height', 'fullMass', 'fullRadius'], cases=[{'unit': 'm'}, {'unit': 'km'}],
          result=lambda ex, st, v0: tuple(st.alloc(ex.c, ex.c.fresh_array(nm, (ex.c.Len(v0.T) + k,)))
                                          for nm, k in (('z', 1), ('H', 0), ('g', 0), ('dz', 0))),
          short='BasePlanet.calculate_scale_properties', timeout_ms=15000, store='fresh',
          doc='bottom-up hydrostatic integration (metres); other length units scale by the assumed conversion factor')


# ------------------------------------------------------------------ SimpleForwardModel profile bookkeeping
SFM = 'taurex.model.simplemodel:SimpleForwardModel.'


def _bk_params(c):
    n = c.int('n')
    given = c.choice('mu_given')
    mu = c.array('mu', (n,))
    return dict(self=ObjSpec('SimpleForwardModel',
                             _pressure_profile=ObjSpec('PressureProfile', pressure_profile_levels=c.array('Pl', (n + 1,))),
                             _planet=ObjSpec('BasePlanet', _mass=c.real('M'), _radius=c.real('R')),
                             _temperature_profile=ObjSpec('TemperatureProfile', profile=c.array('T', (n,))),
                             _chemistry=ObjSpec('Chemistry', muProfile=mu),
                             altitude_profile=None, scaleheight_profile=None, gravity_profile=None,
                             altitude_boundaries=None, deltaz=None),
                mu_profile=mu if given else None)


def bk_pre(c, v):
    s = v.self
    return sp_pre(c, _V(T=s._temperature_profile.profile, Pl=s._pressure_profile.pressure_profile_levels, mu=s._chemistry.muProfile,
                        self=s._planet))


class _V:
    def __init__(_v, **kw):
        _v.__dict__.update(kw)


def bk_post(c, v0, v1, r):
    """every stored per-layer quantity has exactly one entry per layer, aligned with the pressure profile"""
    s0, s = v0.self, v1.self
    T, Pl, mu = s0._temperature_profile.profile, s0._pressure_profile.pressure_profile_levels, s0._chemistry.muProfile
    n = c.Len(T)
    if s.scaleheight_profile is None or s.gravity_profile is None or s.altitude_profile is None:
        return {'stored': False}
    d = {'lengths': c.And(c.Len(s.altitude_profile) == n, c.Len(s.scaleheight_profile) == n,
                          c.Len(s.gravity_profile) == n, c.Len(s.deltaz) == n, c.Len(s.altitude_boundaries) == n + 1)}
    if c.mode == 'conc' and not d['lengths']:
        return d
    z, H, g, dz, zb = s.altitude_profile, s.scaleheight_profile, s.gravity_profile, s.deltaz, s.altitude_boundaries
    P = _V(self=s0._planet)
    d.update({
        'surface': c.Eq(z[0], 0),
        'levels': c.And(c.Forall(0, n, lambda i: c.Eq(zb[i], z[i])), c.ForallAdj(0, n, lambda i, j: c.Eq(zb[j], zb[i] + dz[i]))),
        'dz': c.Forall(0, n, lambda i: c.Eq(dz[i], H[i] * c.ln(Pl[i] / Pl[i + 1]))),
        'g': c.Forall(0, n, lambda i: c.Eq(g[i], _g(c, P, z[i]))),
        'H': c.Forall(0, n, lambda i: c.Eq(H[i] * (mu[i] * g[i]), c.constant('KBOLTZ') * T[i])),
    })
    return d


def _bk_native(c, p):
    import numpy as np
    from types import SimpleNamespace as NS
    from taurex.model.simplemodel import SimpleForwardModel
    from taurex.data.planet import BasePlanet
    s = p['self']
    m = SimpleForwardModel.__new__(SimpleForwardModel)
    pl = BasePlanet.__new__(BasePlanet)
    pl._mass, pl._radius = s['_planet']['_mass'], s['_planet']['_radius']
    pl.debug = lambda *a, **k: None
    m._planet = pl
    m._pressure_profile = NS(pressure_profile_levels=np.array(s['_pressure_profile']['pressure_profile_levels']))
    m._temperature_profile = NS(profile=np.array(s['_temperature_profile']['profile']))
    m._chemistry = NS(muProfile=np.array(s['_chemistry']['muProfile']))
    m._compute_altitude_gravity_scaleheight_profile(None if p['mu_profile'] is None else np.array(p['mu_profile']))
    q = dict(p)
    q['self'] = dict(s, altitude_profile=m.altitude_profile, scaleheight_profile=m.scaleheight_profile,
                     gravity_profile=m.gravity_profile, altitude_boundaries=m.altitude_boundaries, deltaz=m.deltaz)
    return None, q


def _bk_gen(rng):
    d = _sp_gen(rng)
    d['mu_given'] = rng.random() < 0.5
    d.pop('unit')
    return d


BK = Unit('C11', SFM + '_compute_altitude_gravity_scaleheight_profile', _bk_params, pre=bk_pre, post=bk_post,
          native=_bk_native, gen=_bk_gen, cases=[{'mu_given': True}, {'mu_given': False}], bounds=[dict(n=2), dict(n=1)],
          inline=['planet', 'temperatureProfile', 'pressure'], frame_attrs=[('self', a) for a in (
              'altitude_profile', 'scaleheight_profile', 'gravity_profile', 'altitude_boundaries', 'deltaz')],
          short='SimpleForwardModel._compute_altitude_gravity_scaleheight_profile', timeout_ms=15000,
          doc='slicing of level arrays to per-layer profiles')


# ------------------------------------------------------------------ densityProfile
def _dp_params(c):
    n = c.int('n')
    return dict(self=ObjSpec('SimpleForwardModel', _pressure_profile=ObjSpec('PressureProfile', profile=c.array('P', (n,))),
                             _temperature_profile=ObjSpec('TemperatureProfile', profile=c.array('T', (n,)))))


def _dp_native(c, p):
    """the real property, on a model whose pressure object also carries the layer boundaries a real profile has"""
    import numpy as np
    from taurex.model.simplemodel import SimpleForwardModel
    P = np.array(p['self']['_pressure_profile']['profile'], dtype=float)
    T = np.array(p['self']['_temperature_profile']['profile'], dtype=float)

    class _PP:
        profile = P
        nLayers = len(P)

        @property
        def pressure_profile_levels(self):
            if len(P) < 2:
                return np.array([P[0] * 1.5, P[0] / 1.5]) if len(P) else np.array([1.0])
            lp = np.log10(P)
            g = np.gradient(lp)
            return 10 ** np.append(lp - g / 2, lp[-1] + g[-1] / 2)

    class _TP:
        profile = T
    o = SimpleForwardModel.__new__(SimpleForwardModel)
    for nm in ('debug', 'info', 'warning', 'error', 'critical'):
        setattr(o, nm, lambda *a, **k: None)
    o._pressure_profile, o._temperature_profile = _PP(), _TP()
    return np.asarray(SimpleForwardModel.densityProfile.fget(o), dtype=float), p


DP = Unit(['C11', 'C01'], SFM + 'densityProfile', _dp_params,
          pre=lambda c, v: {'n': c.And(c.Len(v.self._pressure_profile.profile) >= 0,
                                       c.Len(v.self._temperature_profile.profile) == c.Len(v.self._pressure_profile.profile))},
          post=lambda c, v0, v1, r: {'len': c.Len(r) == c.Len(v0.self._pressure_profile.profile),
                                     'ideal_gas': c.Forall(0, c.Len(r), lambda i: c.Eq(
                                         r[i], v0.self._pressure_profile.profile[i] / (c.constant('KBOLTZ') * v0.self._temperature_profile.profile[i])))},
          inline=['pressureProfile', 'temperatureProfile', 'pressure'], bounds=[dict(n=2)],
          result=lambda ex, st, v0: st.alloc(ex.c, ex.c.fresh_array('dens', (ex.c.Len(v0.self._pressure_profile.profile),))),
          gen=lambda rng: (lambda n: dict(n=n, P=sorted((10 ** rng.uniform(-2, 6) for _ in range(n)), reverse=True), T=[rng.uniform(100, 3000) for _ in range(n)]))(rng.randint(1, 8)),
          native=lambda c, p: _dp_native(c, p),
          short='SimpleForwardModel.densityProfile', doc='number density P/(kT), one per layer')


# ------------------------------------------------------------------ SimplePressureProfile.compute_pressure_profile
def _pp_params(c):
    return dict(self=ObjSpec('SimplePressureProfile', _nlayers=c.int('n'), _atm_min_pressure=c.real('pmin'),
                             _atm_max_pressure=c.real('pmax'), pressure_profile_levels=None, pressure_profile=None))


def pp_pre(c, v):
    s = v.self
    return {'n': s._nlayers >= 1, 'range': c.And(c.Lt(0, s._atm_min_pressure), c.Lt(s._atm_min_pressure, s._atm_max_pressure))}


def pp_post(c, v0, v1, r):
    """n+1 log-spaced levels strictly decreasing from pmax to pmin; layer pressure = geometric mean of its levels"""
    s = v1.self
    n = v0.self._nlayers
    L, P = s.pressure_profile_levels, s.pressure_profile
    if L is None or P is None:
        return {'stored': False}
    a, b = c.log10(v0.self._atm_min_pressure), c.log10(v0.self._atm_max_pressure)

    def lev(i):
        return c.pow10(a + (b - a) * c.Real(n - i) / c.Real(n))
    return {
        'lengths': c.And(c.Len(L) == n + 1, c.Len(P) == n),
        'log_spaced': c.ForallH(0, n + 1, lambda i: c.Eq(L[i], lev(i))),
        'positive': c.Forall(0, n + 1, lambda i: c.Lt(0, L[i])),
        'ends': c.hint(c.And(c.Eq(L[0], v0.self._atm_max_pressure), c.Eq(L[n], v0.self._atm_min_pressure)),
                       c.And(c.Eq(c.pow10(a), v0.self._atm_min_pressure), c.Eq(c.pow10(b), v0.self._atm_max_pressure)),
                       c.And(a + (b - a) * c.Real(n - 0) / c.Real(n) == b, a + (b - a) * c.Real(n - n) / c.Real(n) == a)),
        'decreasing': c.ForallH(0, n, lambda i: c.hint(
            c.Lt(L[i + 1], L[i]), a < b,
            c.And(c.Eq(L[i], lev(i)), c.Eq(L[i + 1], lev(i + 1))),
            a + (b - a) * c.Real(n - (i + 1)) / c.Real(n) < a + (b - a) * c.Real(n - i) / c.Real(n))),
        'geometric_mean': c.ForallH(0, n, lambda i: c.hint(
            c.Eq(P[i] * P[i], L[i] * L[i + 1]), c.And(c.Lt(0, L[i]), c.Lt(0, L[i + 1])),
            c.Eq(P[i], L[i] * c.sqrt(L[i + 1] / L[i])),
            c.Eq(c.sqrt(L[i + 1] / L[i]) * c.sqrt(L[i + 1] / L[i]), L[i + 1] / L[i]))),
        'between': c.ForallH(0, n, lambda i: c.hint(
            c.And(c.Lt(L[i + 1], P[i]), c.Lt(P[i], L[i])),
            c.And(c.Lt(0, L[i + 1]), c.Lt(L[i + 1], L[i])),
            c.Eq(P[i], L[i] * c.sqrt(L[i + 1] / L[i])),
            c.And(c.Lt(0, L[i + 1] / L[i]), c.Lt(L[i + 1] / L[i], 1)),
            c.And(c.Eq(c.sqrt(L[i + 1] / L[i]) * c.sqrt(L[i + 1] / L[i]), L[i + 1] / L[i]), c.sqrt(L[i + 1] / L[i]) >= 0),
            c.And(c.Lt(L[i + 1] / L[i], c.sqrt(L[i + 1] / L[i])), c.Lt(c.sqrt(L[i + 1] / L[i]), 1)))),
    }


def _pp_obj(c, p):
    from taurex.data.profiles.pressure.pressureprofile import SimplePressureProfile
    s = p['self']
    return SimplePressureProfile(nlayers=s['_nlayers'], atm_min_pressure=s['_atm_min_pressure'], atm_max_pressure=s['_atm_max_pressure'])


def _pp_native(c, o, p):
    """one pressure-profile object is recomputed many times in a retrieval: the range is moved the way the optimizer moves it
    (the fitting-parameter setters), the layer count is that of the object"""
    s = p['self']
    if o.nLayers != s['_nlayers']:
        o = _pp_obj(c, p)
    o.minAtmospherePressure = s['_atm_min_pressure']
    o.maxAtmospherePressure = s['_atm_max_pressure']
    o.compute_pressure_profile()
    q = dict(p)
    q['self'] = dict(s, pressure_profile_levels=o.pressure_profile_levels, pressure_profile=o.pressure_profile)
    return None, q


PP = Unit('C11', 'taurex.data.profiles.pressure.pressureprofile:SimplePressureProfile.compute_pressure_profile',
          _pp_params, pre=pp_pre, post=pp_post, native_obj=_pp_obj, native_call=_pp_native, bounds=[dict(n=2), dict(n=1)],
          gen=lambda rng: dict(n=rng.randint(1, 6), pmin=10 ** rng.uniform(-6, 0), pmax=10 ** rng.uniform(1, 7)),
          inline=['nLevels', 'nLayers'], frame_attrs=[('self', 'pressure_profile_levels'), ('self', 'pressure_profile')],
          short='SimplePressureProfile.compute_pressure_profile', safety=('index',),
          doc='np.logspace model assumed; sqrt/pow10/log10 uninterpreted with ground axioms')


# ------------------------------------------------------------------ generate_profile_dict / generate_profiles: what is stored IS what the model holds
_PROFILE_KEYS = [('temp_profile', 'temperatureProfile'), ('active_mix_profile', 'chemistry.activeGasMixProfile'),
                 ('inactive_mix_profile', 'chemistry.inactiveGasMixProfile'), ('density_profile', 'densityProfile'),
                 ('scaleheight_profile', 'scaleheight_profile'), ('altitude_profile', 'altitudeProfile'),
                 ('gravity_profile', 'gravity_profile'), ('pressure_profile', 'pressureProfile')]


def _gp_params(c):
    n, A, I = c.int('n'), c.int('A'), c.int('I')
    cond = c.choice('condensates')
    chem = ObjSpec('Chemistry', activeGasMixProfile=c.array('active', (A, n)), inactiveGasMixProfile=c.array('inactive', (I, n)),
                   hasCondensates=cond, condensateMixProfile=c.array('cond', (1, n)), muProfile=c.array('mu', (n,)))
    return dict(model=ObjSpec('SimpleForwardModel', temperatureProfile=c.array('T', (n,)), chemistry=chem, densityProfile=c.array('rho', (n,)),
                              scaleheight_profile=c.array('H', (n,)), altitudeProfile=c.array('z', (n,)), gravity_profile=c.array('g', (n,)),
                              pressureProfile=c.array('P', (n,))))


def _gp_lookup(v, path):
    o = v
    for part in path.split('.'):
        o = getattr(o, part) if not isinstance(o, dict) else o[part]
    return o


def _gp_post(extra_mu):
    def post(c, v0, v1, r):
        fx = c.fixed if c.mode != 'conc' else c.values
        m = v0.model if not extra_mu else v0.self
        keys = list(_PROFILE_KEYS) + ([('condensate_profile', 'chemistry.condensateMixProfile')] if fx['condensates'] else []) + \
            ([('mu_profile', 'chemistry.muProfile')] if extra_mu else [])
        d = {'keys': isinstance(r, dict) and list(r.keys()) == [k for k, _ in keys]}
        if not d['keys']:
            return d
        import numpy as np
        for k, path in keys:
            want = _gp_lookup(m, path)
            if c.mode == 'conc':
                d['%s_is_the_model_profile' % k] = bool(np.array_equal(np.asarray(r[k]), np.asarray(want)))
            else:
                d['%s_is_the_model_profile' % k] = c.ArrEq(r[k], want) if hasattr(c, 'ArrEq') else _arr_same(c, r[k], want)
        return d
    return post


def _arr_same(c, a, b):
    sa, sb = c.Shape(a), c.Shape(b)
    if len(sa) != len(sb):
        return False
    if len(sa) == 1:
        return c.And(sa[0] == sb[0], c.Forall(0, sa[0], lambda i: a[i] == b[i]))
    return c.And(sa[0] == sb[0], sa[1] == sb[1], c.Forall2((0, sa[0]), (0, sa[1]), lambda i, j: a[i, j] == b[i, j]))


def _gp_native(method):
    def native(c, p):
        import numpy as np
        from types import SimpleNamespace as NS
        from taurex.util.output import generate_profile_dict
        from taurex.model.simplemodel import SimpleForwardModel
        s = p['model'] if not method else p['self']
        ch = s['chemistry']
        chem = NS(**{k: (np.array(v, dtype=float) if isinstance(v, (list, np.ndarray)) else v) for k, v in ch.items() if k != '__obj__'})
        kw = {k: np.array(v, dtype=float) for k, v in s.items() if k not in ('chemistry', '__obj__')}
        if not method:
            return generate_profile_dict(NS(chemistry=chem, **kw)), p

        class _M(SimpleForwardModel):
            temperatureProfile = property(lambda self: kw['temperatureProfile'])
            densityProfile = property(lambda self: kw['densityProfile'])
            altitudeProfile = property(lambda self: kw['altitudeProfile'])
            pressureProfile = property(lambda self: kw['pressureProfile'])
            chemistry = property(lambda self: chem)
        m = _M.__new__(_M)
        m.scaleheight_profile, m.gravity_profile = kw['scaleheight_profile'], kw['gravity_profile']
        return m.generate_profiles(), p
    return native


def _gp_gen(rng):
    n, A, I = rng.randint(1, 5), rng.randint(0, 3), rng.randint(0, 3)
    vec = lambda: [rng.uniform(0, 9) for _ in range(n)]
    return dict(n=n, A=A, I=I, condensates=rng.random() < 0.4, active=[vec() for _ in range(A)], inactive=[vec() for _ in range(I)], cond=[vec()],
                mu=vec(), T=vec(), rho=vec(), H=vec(), z=vec(), g=vec(), P=vec())


GPD = Unit(['C11', 'C16'], 'taurex.util.output:generate_profile_dict', _gp_params, post=_gp_post(False), native=_gp_native(False), gen=_gp_gen,
           cases=[{'condensates': False}, {'condensates': True}], bounds=[dict(n=2, A=1, I=1)], short='generate_profile_dict',
           doc='the stored profile dictionary: exactly the documented keys, each holding the profile the model currently exposes under '
               'the matching attribute (condensates only when the chemistry has them)')

GPM = Unit(['C11', 'C16', 'C09'], SFM + 'generate_profiles', lambda c: dict(self=_gp_params(c)['model']), post=_gp_post(True), native=_gp_native(True),
           gen=_gp_gen, cases=[{'condensates': False}, {'condensates': True}], bounds=[dict(n=2, A=1, I=1)], short='SimpleForwardModel.generate_profiles',
           inline=['generate_profile_dict'],
           doc='generate_profile_dict (its body executed in place) plus the mean molecular weight profile under mu_profile')


# ------------------------------------------------------------------ ArrayPressureProfile: levels around the given layer pressures
def _ap_post(c, v0, v1, r):
    P = v0.self.pressure_profile
    n = c.Len(P)
    L = v1.self.pressure_profile_levels
    lp = lambda i: c.log10(P[i])
    d = {'one_more_level_than_layers': c.Len(L) == n + 1}
    if c.mode == 'conc':
        import numpy as np
        lpa = np.log10(np.array(P, dtype=float))
        g = np.gradient(lpa)
        want = 10 ** np.append(lpa - g / 2, lpa[-1] + g[-1] / 2)
        d['levels_half_a_step_around_the_layers'] = bool(np.allclose(np.array(L, dtype=float), want, rtol=1e-12))
        return d
    d['surface_level'] = c.Eq(L[0], c.pow10(lp(0) - (lp(1) - lp(0)) / 2))
    d['top_level'] = c.Eq(L[n], c.pow10(lp(n - 1) + (lp(n - 1) - lp(n - 2)) / 2))
    d['inner_levels'] = c.Forall(1, n - 1, lambda i: c.Eq(L[i], c.pow10(lp(i) - ((lp(i + 1) - lp(i - 1)) / 2) / 2)))
    d['last_layer_lower_level'] = c.Eq(L[n - 1], c.pow10(lp(n - 1) - (lp(n - 1) - lp(n - 2)) / 2))
    return d


def _ap_native(c, p):
    import numpy as np
    from taurex.data.profiles.pressure.arraypressure import ArrayPressureProfile
    o = ArrayPressureProfile(np.array(p['self']['pressure_profile'], dtype=float))
    o.compute_pressure_profile()
    return None, dict(p, self=dict(p['self'], pressure_profile_levels=np.asarray(o.pressure_profile_levels, dtype=float)))


APP = Unit('C11', 'taurex.data.profiles.pressure.arraypressure:ArrayPressureProfile.compute_pressure_profile',
           lambda c: dict(self=ObjSpec('ArrayPressureProfile', pressure_profile=c.array('P', (c.int('n'),)), pressure_profile_levels=None)),
           pre=lambda c, v: {'two_layers': c.Len(v.self.pressure_profile) >= 2,
                             'positive': c.Forall(0, c.Len(v.self.pressure_profile), lambda i: v.self.pressure_profile[i] > 0)},
           post=_ap_post, native=_ap_native, frame_attrs=[('self', 'pressure_profile_levels')], safety=('index', 'div', 'domain'),
           gen=lambda rng: (lambda n: dict(n=n, P=sorted((10 ** rng.uniform(-4, 6) for _ in range(n)), reverse=True)))(rng.randint(2, 8)),
           bounds=[dict(n=2), dict(n=3)], short='ArrayPressureProfile.compute_pressure_profile',
           doc='array pressure profile: one more level than layers, half a logarithmic step around every layer pressure (np.gradient, '
               'np.append: assumed models; a single layer is outside np.gradient)')
