"""C01 -- transmission spectrum equals the documented transit-depth integral."""
import z3
from pyvc.unit import Unit, ObjSpec, Lemma
from pyvc.core import Ragged, to_int

TM = 'taurex.model.transmission:TransmissionModel.'


# ------------------------------------------------------------------ compute_absorption
def _ca_params(c):
    n, W = c.int('n'), c.int('W')
    return dict(self=ObjSpec('TransmissionModel', altitude_profile=c.array('z', (n,)),
                             _planet=ObjSpec('BasePlanet', _radius=c.real('Rp')),
                             _star=ObjSpec('Star', _radius=c.real('Rs'))),
                tau=c.array('tau', (n, W)), dz=c.array('dz', (n,)))


def ca_pre(c, v):
    n, W = c.Shape(v.tau)
    return {'shapes': c.And(n >= 0, W >= 0, c.Len(v.dz) == n, c.Len(v.self.altitude_profile) == n),
            'star': c.Lt(0, v.self._star._radius)}


def depth(c, v, tau, w):
    """the documented integral (Rp^2 + 2*sum_l (Rp+z_l)(1-exp(-tau_l))dz_l)/Rs^2"""
    Rp, Rs = v.self._planet._radius, v.self._star._radius
    n = c.Len(v.dz)
    return (Rp * Rp + c.Sum(0, n, lambda l: (Rp + v.self.altitude_profile[l]) * (1.0 - c.exp(-tau[l, w])) * v.dz[l] * 2.0)) \
        / (Rs * Rs)


def ca_post(c, v0, v1, r):
    n, W = c.Shape(v0.tau)
    return {'shapes': c.And(c.Len(r[0]) == W, c.Shape(r[1])[0] == n, c.Shape(r[1])[1] == W),
            'depth': c.Forall(0, W, lambda w: c.Eq(r[0][w], depth(c, v0, v0.tau, w))),
            'transmittance': c.Forall2((0, n), (0, W), lambda l, w: c.Eq(r[1][l, w], c.exp(-v0.tau[l, w]))),
            'depth_T': c.Forall(0, W, lambda w: c.Eq(r[0][w], _depth_T(c, v0, r[1], w)))}


def _depth_T(c, v, trans, w):
    Rp, Rs = v.self._planet._radius, v.self._star._radius
    n = c.Len(v.dz)
    return (Rp * Rp + c.Sum(0, n, lambda l: (Rp + v.self.altitude_profile[l]) * (1.0 - trans[l, w]) * v.dz[l] * 2.0)) \
        / (Rs * Rs)


def _ca_native(c, p):
    import numpy as np
    from types import SimpleNamespace as NS
    from taurex.model.transmission import TransmissionModel
    m = TransmissionModel.__new__(TransmissionModel)
    s = p['self']
    m.altitude_profile = np.array(s['altitude_profile'])
    m._planet = NS(fullRadius=s['_planet']['_radius'])
    m._star = NS(radius=s['_star']['_radius'])
    a, t = m.compute_absorption(np.array(p['tau']), np.array(p['dz']))
    return (a, t), p


def _ca_gen(rng):
    n, W = rng.randint(1, 4), rng.randint(1, 3)
    return dict(n=n, W=W, z=sorted(rng.uniform(0, 1e6) for _ in range(n)), Rp=rng.uniform(1e7, 1e8), Rs=rng.uniform(1e8, 1e9),
                tau=[[rng.choice([0.0, rng.uniform(0, 20)]) for _ in range(W)] for _ in range(n)],
                dz=[rng.uniform(1e3, 1e5) for _ in range(n)])


CA = Unit('C01', TM + 'compute_absorption', _ca_params, pre=ca_pre, post=ca_post, native=_ca_native, gen=_ca_gen,
          bounds=[dict(n=2, W=1), dict(n=1, W=2)], inline=['altitudeProfile', 'fullRadius', 'radius'],
          result=lambda ex, st, v0: (st.alloc(ex.c, ex.c.fresh_array('absorp', (ex.c.Shape(v0.tau)[1],))),
                                     st.alloc(ex.c, ex.c.fresh_array('trans', ex.c.Shape(v0.tau)))),
          short='TransmissionModel.compute_absorption',
          doc='(Rp^2 + 2 sum_l (Rp+z_l)(1-exp(-tau_l)) dz_l)/Rs^2 and exp(-tau); broadcasting and np.sum(axis=0) models')


# ------------------------------------------------------------------ compute_path_length_old
def _pl_params(c):
    n = c.int('n')
    return dict(self=ObjSpec('TransmissionModel', altitude_profile=c.array('z', (n,)), nLayers=n,
                             _planet=ObjSpec('BasePlanet', _radius=c.real('Rp'))),
                dz=c.array('dz', (n,)))


def pl_pre(c, v):
    n = v.self.nLayers
    z = v.self.altitude_profile
    return {'n': c.And(n >= 1, c.Len(v.dz) == n, c.Len(z) == n),
            'planet': c.Lt(0, v.self._planet._radius),
            'dz': c.Forall(0, n, lambda i: c.Lt(0, v.dz[i])),
            'z': c.And(c.Le(0, z[0]), c.ForallAdj(0, n - 1, lambda i, j: c.Le(z[i], z[j])))}


def chord(c, v, l, j):
    """documented chord segment of the ray tangent at b_l = Rp + dz_0/2 + z_l through shell l+j:
    2*(sqrt(r_{l+j}^2 - b_l^2) - sqrt(r_{l+j-1}^2 - b_l^2)),  r_m = Rp + dz_0/2 + z_m + dz_m/2  (first term only, j = 0)"""
    Rp, z, dz = v.self._planet._radius, v.self.altitude_profile, v.dz
    b = Rp + dz[0] / 2 + z[l]
    p = b * b

    def r(m):
        x = Rp + dz[0] / 2 + z[m] + dz[m] / 2
        return x * x
    outer = c.sqrt(r(l + j) - p)
    if not hasattr(j, 'sort') and j == 0:
        return outer * 2.0
    return c.If(j == 0, outer * 2.0, (outer - c.sqrt(r(l + j - 1) - p)) * 2.0) if c.mode != 'conc' else \
        (outer * 2.0 if j == 0 else (outer - c.sqrt(r(l + j - 1) - p)) * 2.0)


def pl_post(c, v0, v1, r):
    n = v0.self.nLayers
    return {'rows': c.Len(r) == n,
            'rowlen': c.Forall(0, n, lambda l: c.RowLen(r, l) == n - l),
            'chords': c.Forall(0, n, lambda l: c.Forall(0, n - l, lambda j: c.Eq(c.At2(r, l, j), chord(c, v0, l, j))))}


def pl_inv(c, v, v0, layer):
    n = v0.self.nLayers
    d = {'locals': c.And(v.planet_radius == v0.self._planet._radius, v.total_layers == n),
         'rows': c.Len(v.dl) == layer,
         'rowlen': c.Forall(0, layer, lambda l: c.RowLen(v.dl, l) == n - l)}
    if getattr(c, 'assuming', False):
        d['chords'] = c.Forall2Dep((0, layer), lambda l: (0, n - l), lambda l, j: c.At2(v.dl, l, j) == chord(c, v0, l, j))
    else:
        # the row appended last, stated on its own (focused goal), then all rows
        last = layer - 1
        d['last_row'] = c.scope(c.ForallH(0, c.If(last >= 0, n - last, 0), lambda j: c.At2(v.dl, last, j) == chord(c, v0, last, j)),
                                'inv0.rows', 'inv0.locals', 'pre.n')
        def G(l, j):
            g = c.At2(v.dl, l, j) == chord(c, v0, l, j)
            return c.hint(g, c.Implies(l < last, g), c.Implies(l == last, g))      # explicit case split: old rows / new row
        d['chords'] = c.scope(c.ForallH(0, layer, lambda l: c.ForallH(0, n - l, lambda j: G(l, j))),
                              'inv0.rows', 'inv0.chords', 'acc.last_row', 'pre.n')
    return d


def _pl_native(c, p):
    import numpy as np
    from types import SimpleNamespace as NS
    from taurex.model.transmission import TransmissionModel

    class _M(TransmissionModel):
        nLayers = property(lambda self: self._n)
    m = _M.__new__(_M)
    s = p['self']
    m._n = s['nLayers']
    m.altitude_profile = np.array(s['altitude_profile'])
    m._planet = NS(fullRadius=s['_planet']['_radius'])
    m.debug = lambda *a, **k: None
    return m.compute_path_length_old(np.array(p['dz'])), p


def _pl_gen(rng):
    n = rng.randint(1, 5)
    dz = [rng.uniform(1e3, 1e5) for _ in range(n)]
    z = [0.0]
    for i in range(1, n):
        z.append(z[-1] + dz[i - 1] * rng.uniform(0.5, 1.5))
    return dict(n=n, z=z, dz=dz, Rp=rng.uniform(1e7, 1e8))


def _pl_result(ex, st, v0):
    rl = z3.Function('rowlen!%d' % next(ex.c._fresh), z3.IntSort(), z3.IntSort())
    el = z3.Function('rag!%d' % next(ex.c._fresh), z3.IntSort(), z3.IntSort(), z3.RealSort())
    return st.alloc(ex.c, Ragged(ex.c.fresh('nrows'), lambda i: rl(to_int(i)), lambda i, j: el(to_int(i), to_int(j))))


PL = Unit('C01', TM + 'compute_path_length_old', _pl_params, pre=pl_pre, post=pl_post, invariants={0: pl_inv},
          result=_pl_result,
          native=_pl_native, gen=_pl_gen, bounds=[dict(n=2), dict(n=3)], inline=['altitudeProfile', 'fullRadius'],
          short='TransmissionModel.compute_path_length_old', safety=('index', 'div'), timeout_ms=15000,
          doc='chord lengths through the spherical shells (default path method): one row per layer, n-l segments')


# ------------------------------------------------------------------ path_integral
# K2 (abstract contract of Contribution.contribute): contribution number cid adds TauC(cid, layer, w) >= 0 to
# tau[layer, w] for every w and writes nothing else.  The built-in overrides are proved to refine it in kernels.py
# (Contribution.contribute -> K1 with sigma_xsec), c03.py (CIA), c19.py (clouds), c20.py (k-tables).
from pyvc.engine import SeqV, AbsObj
from pyvc.core import Arr, Ragged, to_int


def TauC(c):
    I, R = z3.IntSort(), z3.RealSort()
    return c.func('TauC', I, I, I, R)


def _k2_contribute(ex, st, obj, args, kwargs, node):
    c = ex.c
    model, start, end, offset, layer, density, tau = args[:7]
    path = kwargs.get('path_length', args[7] if len(args) > 7 else None)
    T = st.get(tau)
    P = st.get(path)
    D = st.get(density)
    n = T.shape[0]
    # K1's requirements with sigma of n rows: the off-by-one obligations of the anchor
    ex.oblige('call.contribute.pre.start', st, c.And(to_int(start) == 0, to_int(offset) == to_int(layer)), node)
    ex.oblige('call.contribute.pre.layer', st, c.And(to_int(layer) >= 0, to_int(layer) < to_int(n)), node)
    ex.oblige('call.contribute.pre.rows', st, to_int(end) + to_int(layer) <= to_int(n), node)
    ex.oblige('call.contribute.pre.density', st, to_int(end) + to_int(offset) <= to_int(D.shape[0]), node)
    ex.oblige('call.contribute.pre.path', st, to_int(end) <= to_int(P.shape[0]), node)
    ex.oblige('call.contribute.pre.full_column', st, to_int(end) == to_int(n) - to_int(layer), node)
    f = TauC(c)
    cid = obj.ident
    lay = to_int(layer)
    st.put(tau, Arr(T.shape, lambda ix, T=T: z3.If(to_int(ix[0]) == lay, T.elem(ix) + f(cid, lay, to_int(ix[1])), T.elem(ix)),
                    'real'))
    return None


_k2_contribute.frame_args = [6]


def _pi_params(c):
    n, W, m = c.int('n'), c.int('W'), c.int('m')
    new = c.choice('new_method')
    if c.mode != 'conc':
        contribs = SeqV(m, lambda k: AbsObj('Contribution', to_int(k), {'name': '<contribution>'}))
    else:
        contribs = [c.array('sigma%d' % k, (n, W)) for k in range(m)]       # concrete cross-section contributions
    d = dict(self=ObjSpec('TransmissionModel', nLayers=n, deltaz=c.array('dz', (n,)), new_method=new,
                          altitude_profile=c.array('z', (n,)), contribution_list=contribs, path_length=None,
                          _planet=ObjSpec('BasePlanet', _radius=c.real('Rp')), _star=ObjSpec('Star', _radius=c.real('Rs')),
                          _pressure_profile=ObjSpec('PressureProfile', profile=c.array('P', (n,))),
                          _temperature_profile=ObjSpec('TemperatureProfile', profile=c.array('T', (n,)))),
             wngrid=c.array('wngrid', (W,)), return_contrib=False)
    if c.mode == 'conc':
        _install_concrete(c, d, m, W)
    return d


def _install_concrete(c, d, m, W):
    """concrete meaning of the spec functions when replaying: TauC of a cross-section contribution is the K1 sum
    with the documented chord lengths and the ideal-gas density; Jsat by its defining least-index property"""
    s = d['self'].attrs
    n = s['nLayers']
    v = _PV(self=_PV(_planet=_PV(_radius=s['_planet'].attrs['_radius']), altitude_profile=s['altitude_profile']),
            dz=s['deltaz'])
    K = c.constant('KBOLTZ')
    dens = [s['_pressure_profile'].attrs['profile'][i] / (K * s['_temperature_profile'].attrs['profile'][i])
            for i in range(n)]
    sig = s['contribution_list']

    def tauc(cid, l, w):
        return sum(sig[cid][k + l, w] * chord(c, v, l, k) * dens[k + l] for k in range(n - l))

    def jsat(l):
        for j in range(m + 1):
            if j == m or all(sum(tauc(i, l, w) for i in range(j)) > 10 for w in range(W)):
                return j
    c.concrete_funcs = {'TauC': tauc, 'Jsat': jsat, 'Sat': lambda j, l: all(sum(tauc(i, l, w) for i in range(j)) > 10
                                                                           for w in range(W)),
                        'Wit': lambda j, l: 0}


def _pi_native(c, p):
    import numpy as np
    from types import SimpleNamespace as NS
    from taurex.model.transmission import TransmissionModel
    from taurex.contributions.contribution import Contribution
    s = p['self']

    class _M(TransmissionModel):
        nLayers = property(lambda self: self._n)
        densityProfile = property(lambda self: self._dens)
    m = _M.__new__(_M)
    m._n = s['nLayers']
    m.altitude_profile = np.array(s['altitude_profile'], dtype=float)
    m.deltaz = np.array(s['deltaz'], dtype=float)
    m._planet = NS(fullRadius=s['_planet']['_radius'])
    m._star = NS(radius=s['_star']['_radius'])
    m._dens = np.array(s['_pressure_profile']['profile']) / (c.constant('KBOLTZ') * np.array(s['_temperature_profile']['profile']))
    m.new_method = s['new_method']
    m.debug = lambda *a, **k: None
    lst = []
    for sg in s['contribution_list']:
        cc = Contribution.__new__(Contribution)
        cc.sigma_xsec = np.array(sg, dtype=float)
        cc._nlayers, cc._ngrid = sg.shape
        cc._name = 'x'
        cc.debug = lambda *a, **k: None
        lst.append(cc)
    m.contribution_list = lst
    a, t = m.path_integral(np.array(p['wngrid'], dtype=float), False)
    return (a, t), p


def _pi_gen(rng):
    d = _pl_gen(rng)
    n = d['n']
    W, m = rng.randint(1, 3), rng.randint(0, 3)
    d.update(W=W, m=m, Rs=rng.uniform(3e8, 9e8), new_method=False, wngrid=[1000.0 + 10 * i for i in range(W)],
             P=[10 ** rng.uniform(0, 5) for _ in range(n)], T=[rng.uniform(300, 2000) for _ in range(n)])
    for k in range(m):
        # magnitudes chosen so that tau ranges from transparent to saturated, per wavenumber
        d['sigma%d' % k] = [[10 ** rng.uniform(-32, -24) for _ in range(W)] for _ in range(n)]
    return d


def pi_pre(c, v):
    s = v.self
    n = s.nLayers
    d = pl_pre(c, _PV(self=s, dz=s.deltaz))
    d['W'] = c.Len(v.wngrid) >= 1          # tau[layer].min() of an empty row raises
    d['star'] = c.Lt(0, s._star._radius)
    d['profiles'] = c.And(c.Len(s._pressure_profile.profile) == n, c.Len(s._temperature_profile.profile) == n)
    d['m'] = c.Len(s.contribution_list) >= 0
    return d


class _PV:
    def __init__(_v, **kw):
        _v.__dict__.update(kw)


def Srow(c, J, l, w):
    f = TauC(c)
    return c.Sum(0, J, lambda k: f(k, l, w))


def sat_axioms(c, m, W):
    """definitional extension (spec only): Sat(j,l) <=> the prefix j of the contribution list saturates layer l
    (sum > 10 at every wavenumber); Jsat(l) = the least j in [0,m] with j == m or Sat(j,l) -- exactly how far the
    loop of path_integral gets.  Wit is the Skolem function of the negated universal."""
    I, B = z3.IntSort(), z3.BoolSort()
    Sat, Jsat, Wit = c.func('Sat', I, I, B), c.func('Jsat', I, I), c.func('Wit', I, I, I)
    if c.mode != 'conc' and 'sat_axioms' in c.uf:
        return Sat, Jsat
    if c.mode == 'conc':
        return Sat, Jsat
    c.uf['sat_axioms'] = True
    j, l, w = z3.Ints('j? l? w?')
    c.assumed.append(z3.ForAll([j, l, w], z3.Implies(z3.And(Sat(j, l), 0 <= w, w < W), Srow(c, j, l, w) > 10),
                               patterns=[z3.MultiPattern(Sat(j, l), Srow(c, j, l, w))]))
    c.assumed.append(z3.ForAll([j, l], z3.Implies(z3.Not(Sat(j, l)), z3.And(0 <= Wit(j, l), Wit(j, l) < W,
                                                                            Srow(c, j, l, Wit(j, l)) <= 10)),
                               patterns=[Sat(j, l)]))
    c.assumed.append(z3.ForAll([l], z3.And(0 <= Jsat(l), Jsat(l) <= m, z3.Or(Jsat(l) == m, Sat(Jsat(l), l))),
                               patterns=[Jsat(l)]))
    c.assumed.append(z3.ForAll([j, l], z3.Implies(z3.And(0 <= j, j <= m, z3.Or(j == m, Sat(j, l))), Jsat(l) <= j),
                               patterns=[z3.MultiPattern(Jsat(l), Sat(j, l))]))
    return Sat, Jsat


def pi_inv0(c, v, v0, layer):
    n, W = v0.self.nLayers, c.Len(v0.wngrid)
    m = c.Len(v0.self.contribution_list)
    Sat, Jsat = sat_axioms(c, m, W)
    done = c.Forall2((0, layer), (0, W), lambda l, w: v.tau[l, w] == Srow(c, Jsat(l), l, w))
    if not getattr(c, 'assuming', False) and v.has('loop1_exit'):
        J, last = v.loop1_exit, z3.simplify(layer - 1)          # ghost: how far the inner loop got for the row just finished
        done = c.hint(done, c.And(0 <= J, J <= m), c.Or(J == m, Sat(J, last)),
                      c.Forall(0, J, lambda i: z3.Not(Sat(i, last))), Jsat(last) <= J, Jsat(last) >= J,
                      c.Forall(0, W, lambda w: v.tau[last, w] == Srow(c, J, last, w)),
                      c.Forall2((0, last), (0, W), lambda l, w: v.tau[l, w] == Srow(c, Jsat(l), l, w)))
    return {'locals': c.And(v.total_layers == n, v.wngrid_size == W, c.Shape(v.tau)[0] == n, c.Shape(v.tau)[1] == W,
                            c.Len(v.path_length) == n, c.Len(v.density_profile) == n),
            'paths': c.Forall(0, n, lambda l: c.RowLen(v.path_length, l) == n - l),
            'todo': c.Forall2((layer, n), (0, W), lambda l, w: v.tau[l, w] == 0),
            'done': done}


def pi_inv1(c, v, v0, j):
    n, W = v0.self.nLayers, c.Len(v0.wngrid)
    m = c.Len(v0.self.contribution_list)
    Sat, Jsat = sat_axioms(c, m, W)
    layer = v.layer
    return {'locals': c.And(v.total_layers == n, v.wngrid_size == W, c.Shape(v.tau)[0] == n, c.Shape(v.tau)[1] == W,
                            c.Len(v.path_length) == n, c.Len(v.density_profile) == n, v.endK == n - layer,
                            c.Len(v.dl) == n - layer, 0 <= layer, layer < n),
            'paths': c.Forall(0, n, lambda l: c.RowLen(v.path_length, l) == n - l),
            'row': c.Forall(0, W, lambda w: v.tau[layer, w] == Srow(c, j, layer, w)),
            'unsaturated_so_far': c.Forall(0, j, lambda i: z3.Not(Sat(i, layer)) if c.mode != 'conc' else True),
            'todo': c.Forall2((layer + 1, n), (0, W), lambda l, w: v.tau[l, w] == 0),
            'done': c.Forall2((0, layer), (0, W), lambda l, w: v.tau[l, w] == Srow(c, Jsat(l), l, w))}


def depthT(c, v, trans, w):
    """documented integral written with the transmittance exp(-tau)"""
    Rp, Rs = v.self._planet._radius, v.self._star._radius
    n = c.Len(v.self.deltaz)
    return (Rp * Rp + c.Sum(0, n, lambda l: (Rp + v.self.altitude_profile[l]) * (1.0 - trans[l, w]) * v.self.deltaz[l] * 2.0)) \
        / (Rs * Rs)


def pi_post(c, v0, v1, r):
    n, W = v0.self.nLayers, c.Len(v0.wngrid)
    m = c.Len(v0.self.contribution_list)
    return {'shapes': c.And(c.Len(r[0]) == W, c.Shape(r[1])[0] == n, c.Shape(r[1])[1] == W),
            'depth': c.Forall(0, W, lambda w: c.Eq(r[0][w], depthT(c, v0, r[1], w))),
            # Jsat(l): whole list (== m) unless an earlier prefix already saturates the layer (axioms above)
            'rows': c.Forall2((0, n), (0, W), lambda l, w: c.Eq(r[1][l, w], c.exp(-Srow(c, sat_axioms(c, m, W)[1](l), l, w))))}


def _abs_new_paths(ex, st, args, kwargs, node):
    """ASSUMED shape contract of the second path-length method (compute_path_length -> BasePlanet.compute_path_length ->
    util/geometry.py, numpy masks and NaN filters: outside the subset): one row per layer, row l with n-l segments, as
    the default method.  Its VALUES (documented chords) are checked by the bounded item new_path_method_chords."""
    c = ex.c
    me = st.get(args[0])
    n = me.attrs['nLayers']
    rl = z3.Function('rowlen!%d' % next(c._fresh), z3.IntSort(), z3.IntSort())
    el = z3.Function('rag!%d' % next(c._fresh), z3.IntSort(), z3.IntSort(), z3.RealSort())
    nr = c.fresh('nrows')
    st.assume(nr == to_int(n))
    l = c.fresh('l')
    st.assume(z3.ForAll([l], z3.Implies(z3.And(0 <= l, l < to_int(n)), rl(l) == to_int(n) - l), patterns=[rl(l)]))
    return st.alloc(c, Ragged(nr, lambda i: rl(to_int(i)), lambda i, j: el(to_int(i), to_int(j))))


PI = Unit(['C01', 'C03', 'C13', 'C19'], TM + 'path_integral', _pi_params, pre=pi_pre, post=pi_post,
          invariants={0: pi_inv0, 1: pi_inv1}, abstract={'Contribution.contribute': _k2_contribute, 'call:compute_path_length': _abs_new_paths},
          cases=[{'new_method': False}, {'new_method': True}], inline=['altitudeProfile', 'fullRadius', 'radius'],
          frame_attrs=[('self', 'path_length')], short='TransmissionModel.path_integral', timeout_ms=20000,
          native=_pi_native, gen=_pi_gen,
          doc='per layer: tau = sum over the contribution list (or over a saturated prefix) of the abstract '
              'increments TauC(c, layer, w); off-by-one call-site obligations against K1; then compute_absorption. '
              'Replayed natively on a real TransmissionModel with cross-section contributions.')


# ------------------------------------------------------------------ lemmas: consequences stated in the property
def _depth_lemmas(c):
    """with a_l = 2 (Rp+z_l) dz_l >= 0 and optical depths T_l >= 0:
    bare planet <= depth <= opaque-to-the-top; no absorber => bare planet; larger optical depths => larger depth"""
    I, R = z3.IntSort(), z3.RealSort()
    a, T, T2 = z3.Function('a', I, R), z3.Function('T', I, R), z3.Function('T2', I, R)
    m, n, q = z3.Ints('m n q')
    pos = z3.ForAll([q], z3.And(a(q) >= 0, T(q) >= 0, T2(q) >= T(q)))

    def S(k, F):
        return c.Sum(0, k, lambda l: a(l) * (1.0 - c.exp(-F(l))))

    def A(k):
        return c.Sum(0, k, lambda l: a(l))

    def P(k):
        return z3.And(S(k, T) >= 0, S(k, T) <= A(k), S(k, T2) >= S(k, T))
    step_h = [z3.And(c.exp(-T(m)) > 0, c.exp(-T(m)) <= 1, c.exp(-T2(m)) <= c.exp(-T(m))),
              z3.And(a(m) * (1.0 - c.exp(-T(m))) >= 0, a(m) * (1.0 - c.exp(-T(m))) <= a(m),
                     a(m) * (1.0 - c.exp(-T2(m))) >= a(m) * (1.0 - c.exp(-T(m))))]
    mm = z3.Int('mm')
    Rp, Rs = z3.Reals('Rp Rs')
    allP = z3.ForAll([mm], z3.Implies(mm >= 0, P(mm)))
    D = lambda F: (Rp * Rp + S(n, F)) / (Rs * Rs)
    zero = z3.ForAll([q], T(q) == 0)
    Z = lambda k: S(k, T) == 0
    return [('bounds.base', [pos], P(0)),
            ('bounds.step', [pos, m >= 0, P(m)], c.hint(P(m + 1), *step_h)),
            ('bare_planet_lower', [allP, n >= 0, Rs > 0], D(T) >= Rp * Rp / (Rs * Rs)),
            ('opaque_upper', [allP, n >= 0, Rs > 0], D(T) <= (Rp * Rp + A(n)) / (Rs * Rs)),
            ('monotone', [allP, n >= 0, Rs > 0], D(T2) >= D(T)),
            ('transparent.base', [zero], Z(0)),
            ('transparent.step', [zero, m >= 0, Z(m)], c.hint(Z(m + 1), c.exp(-T(m)) == 1)),
            ('transparent', [z3.ForAll([mm], z3.Implies(mm >= 0, Z(mm))), n >= 0, Rs > 0], D(T) == Rp * Rp / (Rs * Rs))]


Lemma('C01', 'depth_bounds_and_monotonicity', _depth_lemmas,
      doc='induction over layers on the documented integral (ground exp axioms): >= (Rp/Rs)^2, <= opaque value, '
          '= (Rp/Rs)^2 when nothing absorbs, non-decreasing in the optical depths')


def _tau_nonneg(c):
    """a row of tau that is a sum of non-negative increments is non-negative and non-decreasing in the prefix"""
    I, R = z3.IntSort(), z3.RealSort()
    t = z3.Function('t', I, R)
    m, q = z3.Ints('m q')
    S = lambda k: c.Sum(0, k, lambda i: t(i))
    pos = z3.ForAll([q], t(q) >= 0)
    return [('base', [pos], S(0) >= 0), ('step', [pos, m >= 0, S(m) >= 0], z3.And(S(m + 1) >= 0, S(m + 1) >= S(m)))]


Lemma('C01', 'optical_depth_nonnegative', _tau_nonneg, doc='sum of non-negative K2 increments')


# ------------------------------------------------------------------ bounded: the second path-length method against the documented chords
from pyvc.unit import Bounded


def _b_new_paths(seed, tier):
    """TransmissionModel.compute_path_length (rays at mid-layer altitude through the spherical shells bounded by the
    level altitudes; numpy geometry with NaN filters) against the closed form: ray l crosses shell k >= l with
    2 sqrt((R+z_{k+1})^2 - (R+t_l)^2) - 2 sqrt((R+z_k)^2 - (R+t_l)^2)  (first term only for k = l), t_l = z_l + dz_l/2"""
    import random
    import numpy as np
    from taurex.model.transmission import TransmissionModel
    from taurex.data.planet import Planet
    rng = random.Random(seed)
    N = 40 if tier == 'quick' else 600
    fails, samples = [], []
    for case in range(N):
        n = rng.randint(1, 12)
        R = rng.uniform(5e6, 1.5e8)
        dz = [rng.uniform(1e3, 3e5) for _ in range(n)]
        z = [0.0]
        for x in dz:
            z.append(z[-1] + x)
        pl = Planet(planet_mass=1.0, planet_radius=1.0)
        m = TransmissionModel.__new__(TransmissionModel)
        for nm in ('debug', 'info', 'warning', 'error', 'critical'):
            setattr(m, nm, lambda *a, **k: None)
        m._planet = pl
        pl._radius = R
        m.altitude_boundaries = np.array(z)
        m.altitude_profile = np.array(z[:-1])
        m.deltaz = np.array(dz)
        inputs = dict(n=n, R=R, dz=dz)
        try:
            got = m.compute_path_length()
        except Exception as e:
            fails.append({'clause': 'no_exception', 'inputs': inputs, 'observed': repr(e)})
            continue
        ok = len(got) == n
        worst = 0.0
        for l in range(n if ok else 0):
            t = z[l] + dz[l] / 2.0
            ch = [2.0 * np.sqrt((R + z[k]) ** 2 - (R + t) ** 2) for k in range(l + 1, n + 1)]
            want = [ch[0]] + [ch[j] - ch[j - 1] for j in range(1, len(ch))]
            g = np.asarray(got[l], dtype=float)
            if g.shape != (n - l,):
                ok = False
                break
            # tolerance: the geometry works with coordinates of size ~R and subtracts them (relative 1e-7 of R in a segment)
            err = np.max(np.abs(g - np.array(want)))
            worst = max(worst, err / R)
            if not err <= 1e-7 * R:
                ok = False
                break
        if len(samples) < 2:
            samples.append(dict(inputs, worst_error_over_R=worst))
        if not ok:
            fails.append({'clause': 'documented_chords', 'inputs': inputs,
                          'observed': 'rows %s' % [np.asarray(x).tolist() for x in got][:3]})
    return {'cases': N, 'failures': fails, 'samples': samples,
            'bound': '%d random atmospheres (1..12 layers, radii 5e6..1.5e8 m), absolute tolerance 1e-7 R per segment' % N}


Bounded('C01', 'new_path_method_chords', _b_new_paths,
        doc='compute_path_length / BasePlanet.compute_path_length / util.geometry (3-D line-sphere intersections with NaN masks) are '
            'outside the verified subset: run-time contract against the documented chord lengths')
