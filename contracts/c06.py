"""C06 -- every sampler is handed the Gaussian log-likelihood of the binned model.

Under contract: Optimizer.chisq_trans (effect order update_model -> model(wngrid = observation grid) -> bin_model,
invalid model -> NaN, otherwise chi^2 of the binned model), Optimizer.update_model (c07.py) and the six closures
handed to nestle / MultiNest / PolyChord, taken by name from the AST of the enclosing compute_fit (the two wrappers
that cannot be imported here are verified from their text all the same; they are replayed natively with recording
doubles of the sampler entry points)."""
import math
import z3
from pyvc.unit import Unit, ObjSpec, Lemma, Bounded
from pyvc.engine import AbsObj, NanRef, ExcV, _Raise
from pyvc.core import Arr, PyList, Ref, to_int, to_real, INT, REAL

OP = 'taurex.optimizer.optimizer:Optimizer.'


def _ev(st, *payload):
    st.trace.append(('ev', tuple(payload)))


class _NS:
    def __init__(self, **kw):
        self.__dict__.update(kw)


def _quiet(o):
    for nm in ('debug', 'info', 'warning', 'error', 'critical'):
        setattr(o, nm, lambda *a, **k: None)
    return o


# ------------------------------------------------------------------ chisq_trans
def _h_update(ex, st, args, kwargs, node):
    _ev(st, 'update_model', args[1].id if isinstance(args[1], Ref) else 'x')
    return None


def _h_model(ex, st, o, args, kwargs, node):
    """assumed contract of ForwardModel.model(wngrid=...): returns a result or raises InvalidModelException (or a
    subclass) for an invalid atmosphere -- the validity checks themselves are under contract in C10 / C12"""
    outcome = ex.c.fixed['outcome']
    wn = kwargs.get('wngrid', args[0] if args else None)
    _ev(st, 'model', wn.id if isinstance(wn, Ref) else None, tuple(sorted(k for k in kwargs if k != 'wngrid')))
    if outcome != 'valid':
        raise _Raise(st, ExcV(outcome, getattr(node, 'lineno', 0)))
    return ('<native grid>', '<native spectrum>', '<tau>', None)


def _h_bin_model(ex, st, o, args, kwargs, node):
    c = ex.c
    _ev(st, 'bin_model', args[0][1] if isinstance(args[0], tuple) and len(args[0]) > 1 else None)
    B = c.uf['__B__']
    return ('<grid>', st.alloc(c, Arr((B,), lambda ix: c.func('BINNED', INT, REAL)(to_int(ix[0])), 'real')), '<err>', '<width>')


def _cq_params(c):
    B = c.int('B')
    outcome = c.choice('outcome')
    if c.mode == 'conc':
        import numpy as np
        binned = np.array(c.values['binned'], dtype=float)
        c.inputs.append(('arr', 'binned', ((B,), None, 'real')))
        c.concrete_funcs = {'BINNED': lambda i: float(binned[i])}
        model, binner = dict(__obj__='ForwardModel'), dict(__obj__='Binner')
    else:
        c.uf['__B__'] = B
        model, binner = AbsObj('ForwardModel', 0, {}), AbsObj('Binner', 0, {})
    return dict(self=ObjSpec('Optimizer', _model=model, _binner=binner,
                             _observed=ObjSpec('BaseSpectrum', spectrum=c.array('obs', (B,)), wavenumberGrid=c.array('obsgrid', (B,)))),
                fit_params=c.array('theta', (c.int('D'),)), data=c.array('obs2', (B,)), datastd=c.array('std', (B,)))


def _cq_pre(c, v):
    B = c.Len(v.datastd)
    return {'sizes': c.And(B >= 1, c.Len(v.self._observed.spectrum) == B, c.Len(v.fit_params) >= 0),
            'std_positive': c.Forall(0, B, lambda i: c.Lt(0, v.datastd[i]))}


def chisq(c, v0):
    B = c.Len(v0.datastd)
    f = c.func('BINNED', INT, REAL)
    obs = v0.self._observed.spectrum
    return c.Sum(0, B, lambda i: ((obs[i] - f(i)) / v0.datastd[i]) * ((obs[i] - f(i)) / v0.datastd[i]))


def _cq_post(c, v0, v1, r):
    """invalid atmosphere: NaN (never finite, never an exception); valid: chi^2 = sum ((obs - binned)/sigma)^2 of the
    model evaluated AFTER the parameters were written, on the observation's grid, binned by the observation's binner"""
    outcome = c.fixed['outcome'] if c.mode != 'conc' else c.values['outcome']
    tr = [e for e in (c.trace or [])]
    kinds = [e[0] for e in tr]
    d = {'parameters_written_before_the_model_runs': kinds[:2] == ['update_model', 'model']}
    if c.mode == 'conc':
        d['model_on_observation_grid'] = len(tr) > 1 and tr[1][1] == 'obsgrid'
    else:
        d['model_on_observation_grid'] = len(tr) > 1 and tr[1][1] == v0.self._observed.ref('wavenumberGrid').id
    if outcome != 'valid':
        d['invalid_model_gives_nan'] = c.IsNan(r)
        return d
    d['model_result_binned'] = kinds == ['update_model', 'model', 'bin_model'] and tr[2][1] == '<native spectrum>'
    d['chi_square'] = (not c.IsNan(r)) and c.Eq(r, chisq(c, v0))
    return d


def _cq_native(c, p):
    import numpy as np
    import taurex.exceptions as E
    from taurex.optimizer.optimizer import Optimizer
    outcome = c.values['outcome']
    trace = []
    o = _quiet(Optimizer.__new__(Optimizer))
    grid = np.array(p['self']['_observed']['wavenumberGrid'], dtype=float)
    o._observed = _NS(spectrum=np.array(p['self']['_observed']['spectrum'], dtype=float), wavenumberGrid=grid)
    binned = np.array([c.concrete_funcs['BINNED'](i) for i in range(len(grid))])

    def model(wngrid=None, **kw):
        trace.append(('model', 'obsgrid' if wngrid is grid else 'other', tuple(sorted(kw))))
        if outcome != 'valid':
            from taurex.data.profiles.temperature.npoint import InvalidTemperatureException
            from taurex.data.profiles.chemistry.taurexchemistry import InvalidChemistryException
            raise dict(InvalidModelException=E.InvalidModelException, InvalidTemperatureException=InvalidTemperatureException,
                       InvalidChemistryException=InvalidChemistryException)[outcome]()      # raised WITHOUT a message, as TauREx does
        return ('<native grid>', '<native spectrum>', '<tau>', None)
    o._model = _NS(model=model)
    o._binner = _NS(bin_model=lambda res: (trace.append(('bin_model', res[1])), ('<grid>', binned, '<err>', '<width>'))[1])
    o.update_model = lambda fp: trace.append(('update_model', 'x'))
    r = o.chisq_trans(np.array(p['fit_params'], dtype=float), np.array(p['data'], dtype=float), np.array(p['datastd'], dtype=float))
    return r, dict(p, __trace__=trace)


_OUTCOMES = ['valid', 'InvalidModelException', 'InvalidChemistryException', 'InvalidTemperatureException']


def _cq_gen(rng):
    B, D = rng.randint(1, 4), rng.randint(0, 3)
    obs = [rng.uniform(0.01, 0.02) for _ in range(B)]
    exact = rng.random() < 0.25
    return dict(B=B, D=D, outcome=rng.choice(_OUTCOMES + ['valid', 'valid']), obs=obs, obs2=obs, obsgrid=[1000.0 * (i + 1) for i in range(B)],
                std=[rng.uniform(1e-5, 1e-3) for _ in range(B)], theta=[rng.uniform(-2, 2) for _ in range(D)],
                binned=list(obs) if exact else [x * rng.uniform(0.9, 1.1) for x in obs])


CQ = Unit('C06', OP + 'chisq_trans', _cq_params, pre=_cq_pre, post=_cq_post, cases=[{'outcome': x} for x in _OUTCOMES],
          abstract={'call:update_model': _h_update, 'ForwardModel.model': _h_model, 'Binner.bin_model': _h_bin_model},
          native=_cq_native, gen=_cq_gen, bounds=[dict(B=1, D=1), dict(B=2, D=0)], short='Optimizer.chisq_trans',
          result=lambda ex, st, v0: ex.c.fresh('chi', z3.RealSort()),
          doc='chi^2 of the binned model against the observation at the prior-transformed parameters; NaN (no exception) '
              'for every invalid-model exception class; the chi^2 value is exact also when the model fits exactly')


# ------------------------------------------------------------------ the closures handed to the samplers
def _h_chisq(ex, st, args, kwargs, node):
    """Optimizer.chisq_trans by its contract above: NaN for an invalid model, else chi^2 (an unknown real >= 0)"""
    _ev(st, 'chisq_trans', args[1], args[2], args[3])
    if ex.c.fixed['outcome'] != 'valid':
        return NanRef('chisq')
    k = z3.Real('CHI')
    return k


def _ll_params(extra_args):
    def params(c):
        B, D = c.int('B'), c.int('D')
        d = dict(self=ObjSpec('Optimizer', fitting_parameters=[None] * 0, _observed=ObjSpec('BaseSpectrum', spectrum=c.array('obs', (B,)),
                                                                                            errorBar=c.array('std', (B,)))),
                 data=None, datastd=None, sqrtpi=None)
        d.update(extra_args(c, D))
        return d
    return params


def _ll_pre(c, v):
    B = c.Len(v.self._observed.errorBar)
    return {'sizes': c.And(B >= 1, c.Len(v.self.fitting_parameters) >= 0),
            'std_positive': c.Forall(0, B, lambda i: c.Lt(0, v.self._observed.errorBar[i]))}


def _gauss_norm(c, v0):
    """sum_i log(sigma_i sqrt(2 pi))  (sqrt(2 pi) as numpy computes it)"""
    std = v0.self._observed.errorBar
    return c.Sum(0, c.Len(std), lambda i: c.ln(std[i] * math.sqrt(2 * math.pi)))


def _ll_value(c, v0, r, outcome):
    if outcome != 'valid':
        return {'invalid_model_never_finite': c.IsNan(r)}
    chi = z3.Real('CHI') if c.mode != 'conc' else c.values['CHI']
    return {'gaussian_log_likelihood': (not c.IsNan(r)) and c.Eq(r, -_gauss_norm(c, v0) - 0.5 * chi)}


def _ll_post(theta_name, wrap=lambda r: r):
    def post(c, v0, v1, r):
        outcome = c.fixed['outcome'] if c.mode != 'conc' else c.values['outcome']
        d = _ll_value(c, v0, wrap(r), outcome)
        ev = [e for e in (c.trace or []) if e[0] == 'chisq_trans']
        d['one_model_evaluation'] = len(ev) == 1
        if c.mode != 'conc' and ev:
            # the chi^2 is that of exactly the sampler's point, the observation's spectrum and error bars
            st = c.raw['state']
            th = st.get(ev[0][1]) if isinstance(ev[0][1], Ref) else None
            src = v0[theta_name]
            n = c.Len(src) if not isinstance(src, (list, tuple)) else len(src)
            d['evaluated_at_the_samplers_point'] = th is not None and c.And(th.shape[0] == n, c.Forall(0, n, lambda i: th.elem((i,)) == src[i]))
            d['against_the_observation'] = isinstance(ev[0][2], Ref) and ev[0][2].id == v0.self._observed.ref('spectrum').id and \
                isinstance(ev[0][3], Ref) and ev[0][3].id == v0.self._observed.ref('errorBar').id
        elif c.mode == 'conc' and ev:
            d['evaluated_at_the_samplers_point'] = ev[0][1] is True
            d['against_the_observation'] = ev[0][2] is True
        return d
    return post


_HOOK = {}


def _capture(wrapper, p, c):
    """run the real compute_fit with a recording double at the sampler entry point -> (loglike, prior, optimizer)"""
    import sys
    import types
    import importlib
    import numpy as np
    got = {}
    _HOOK['got'] = got          # the wrapper modules keep the first double they imported: route through one hook
    fake_mn = types.ModuleType('pymultinest')
    fake_mn.run = lambda **kw: _HOOK['got'].update(loglike=kw['LogLikelihood'], prior=kw['Prior'], ndim=kw['n_dims'])
    fake_pc = types.ModuleType('pypolychord')
    fake_pc.run_polychord = lambda ll, ndim, nder, settings, prior: _HOOK['got'].update(loglike=ll, prior=prior, ndim=ndim)
    fake_pcs = types.ModuleType('pypolychord.settings')
    fake_pcs.PolyChordSettings = lambda a, b: _NS()
    fake_pcp = types.ModuleType('pypolychord.priors')
    fake_pcp.UniformPrior = object
    fake_mpi = None
    saved = {k: sys.modules.get(k) for k in ('pymultinest', 'pypolychord', 'pypolychord.settings', 'pypolychord.priors')}
    sys.modules.update({'pymultinest': fake_mn, 'pypolychord': fake_pc, 'pypolychord.settings': fake_pcs, 'pypolychord.priors': fake_pcp})
    try:
        if wrapper == 'nestle':
            import nestle
            from taurex.optimizer.nestle import NestleOptimizer as K
            real = nestle.sample
            nestle.sample = lambda ll, pr, ndim, **kw: (got.update(loglike=ll, prior=pr, ndim=ndim), _NS(summary=lambda: ''))[1]
        elif wrapper == 'multinest':
            K = importlib.import_module('taurex.optimizer.multinest').MultiNestOptimizer
        else:
            K = importlib.import_module('taurex.optimizer.polychord').PolyChordOptimizer
        o = _quiet(K.__new__(K))
        std = np.array(p['self']['_observed']['errorBar'], dtype=float)
        obs = np.array(p['self']['_observed']['spectrum'], dtype=float)
        o._observed = _NS(spectrum=obs, errorBar=std)
        D = c.values['D']
        o.fitting_parameters = [('p%d' % k,) for k in range(D)]
        o.fitting_priors = [_NS(sample=lambda u, k=k: c.concrete_funcs['PS'](k, u)) for k in range(D)]
        for a, v in dict(nclust_par=-1, multimodes=False, max_modes=10, n_iter_before_update=1, dir_multinest='.', multinest_prefix='x',
                         const_eff=False, imp_sampling=False, resume=False, verbose=False, sampling_eff='parameter',
                         evidence_tolerance=0.5, mode_tolerance=-1e90, n_live_points=10, max_iter=0, do_clustering=False,
                         dir_polychord='.', _nlive=10, _tol=0.5).items():
            setattr(o, a, v)
        o.store_nestle_output = o.store_nest_solutions = o.store_polychord_solutions = lambda *a: None
        try:
            import builtins
            real_print = builtins.print
            builtins.print = lambda *a, **k: None
            o.compute_fit()
        finally:
            builtins.print = real_print
            if wrapper == 'nestle':
                nestle.sample = real
    finally:
        for k, v in saved.items():
            if v is None:
                sys.modules.pop(k, None)
            else:
                sys.modules[k] = v
    return got, o, obs, std


def _ll_native(wrapper, theta_name, call):
    def native(c, p):
        import numpy as np
        got, o, obs, std = _capture(wrapper, p, c)
        outcome, chi = c.values['outcome'], c.values['CHI']
        trace = []
        theta = np.array(p[theta_name], dtype=float)

        def chisq_trans(fp, data, datastd):
            trace.append(('chisq_trans', bool(np.array_equal(np.asarray(fp, dtype=float), theta[:c.values['D']])),
                          data is obs and datastd is std, None))
            return np.nan if outcome != 'valid' else chi
        o.chisq_trans = chisq_trans
        r = call(got['loglike'], theta, c.values['D'])
        return r, dict(p, __trace__=trace)
    return native


def _ll_gen(rng):
    # mostly a few bins; one case in five a spectrum of realistic size with realistic error bars (hundreds of bins at 1e-5: the
    # likelihood normalisation only stays finite as a SUM of logarithms)
    big = rng.random() < 0.2
    B, D = (rng.randint(120, 400) if big else rng.randint(1, 4)), rng.randint(0, 3)
    d = dict(B=B, D=D, outcome=rng.choice(['valid', 'valid', 'InvalidModelException']), CHI=rng.choice([0.0, rng.uniform(0, 50)]),
             obs=[rng.uniform(0.01, 0.02) for _ in range(B)], std=[rng.uniform(1e-5, 5e-5 if big else 1e-3) for _ in range(B)],
             theta=[rng.uniform(0, 1) for _ in range(D)])
    for k in range(3):
        d['psa%d' % k], d['psb%d' % k] = rng.uniform(-2, 2), rng.uniform(0.1, 3)
    return d


def _seq(c, D):
    from pyvc.engine import SeqV
    return [None] * int(D) if c.mode == 'conc' else SeqV(D, lambda k: None)


def _install_ps(c):
    if c.mode == 'conc':
        c.concrete_funcs = dict(getattr(c, 'concrete_funcs', {}) or {}, PS=lambda k, u: c.values.get('psa%d' % k, 0.0) + c.values.get('psb%d' % k, 1.0) * u)


_LL_CASES = [{'outcome': 'valid'}, {'outcome': 'InvalidModelException'}]
_LL_ABS = {'call:chisq_trans': _h_chisq}

for _mod, _fn, _extra, _theta, _wrap, _call in (
        ('nestle', 'NestleOptimizer.compute_fit.nestle_loglike', lambda c, D: dict(params=c.array('theta', (D,))), 'params',
         lambda r: r, lambda f, th, D: f(list(th))),
        ('multinest', 'MultiNestOptimizer.compute_fit.multinest_loglike',
         lambda c, D: dict(cube=c.array('theta', (D,)), ndim=D, nparams=D), 'cube', lambda r: r, lambda f, th, D: f(th, D, D)),
        ('polychord', 'PolyChordOptimizer.compute_fit.polychord_loglike', lambda c, D: dict(cube=c.array('theta', (D,))), 'cube',
         lambda r: r[0] if isinstance(r, tuple) else r, lambda f, th, D: f(th))):
    def _mk(_mod=_mod, _fn=_fn, _extra=_extra, _theta=_theta, _wrap=_wrap, _call=_call):
        def params(c):
            B, D = c.int('B'), c.int('D')
            _install_ps(c)
            if c.mode == 'conc':
                c.inputs.append(('real', 'CHI', None))
            std = c.array('std', (B,))
            d = dict(self=ObjSpec('Optimizer', fitting_parameters=_seq(c, D),
                                  _observed=ObjSpec('BaseSpectrum', spectrum=c.array('obs', (B,)), errorBar=std)))
            d.update(_extra(c, D))
            return d

        def materialised(c):
            d = params(c)
            # enclosing variables of compute_fit, as the closure sees them
            o = d['self'].attrs['_observed']
            d['data'], d['datastd'] = o.attrs['spectrum'], o.attrs['errorBar']
            d['sqrtpi'] = math.sqrt(2 * math.pi)
            return d
        post = _ll_post(_theta, _wrap)
        if _mod == 'polychord':
            inner = post

            def post(c, v0, v1, r, inner=inner):
                d = inner(c, v0, v1, r)
                d['no_derived_parameters'] = isinstance(r, tuple) and len(r) == 2
                return d
        Unit('C06', 'taurex.optimizer.%s:%s' % (_mod, _fn), materialised, pre=_ll_pre, post=post, abstract=_LL_ABS, cases=_LL_CASES,
             native=_ll_native(_mod, _theta, _call), gen=_ll_gen, bounds=[dict(B=2, D=1)], short=_fn.split('.', 1)[1],
             doc='log-likelihood handed to %s: -sum log(sigma sqrt(2 pi)) - chi^2/2 with chi^2 = chisq_trans(the sampler\'s '
                 'point, the observation, its error bars); NaN chi^2 stays non-finite' % _mod)
    _mk()


# ------------------------------------------------------------------ prior transforms handed to the samplers
def _h_sample(ex, st, o, args, kwargs, node):
    """Prior.sample(u) of the k-th fitted parameter: PS(k, u) (the inverse-CDF maps themselves are C08)"""
    return ex.c.func('PS', INT, REAL, REAL)(o.ident, to_real(args[0]))


def _pr_params(argname, extra=lambda c, D: {}):
    def params(c):
        D = c.choice('D')
        _install_ps(c)
        priors = [dict(__obj__='Prior', ident=k) for k in range(D)] if c.mode == 'conc' else [AbsObj('Prior', k, {}) for k in range(D)]
        d = dict(self=ObjSpec('Optimizer', fitting_priors=priors, fitting_parameters=[None] * D))
        d[argname] = c.array('u', (D,))
        d.update(extra(c, D))
        return d
    return params


def _pr_post(out):
    def post(c, v0, v1, r):
        """the unit cube is mapped through each parameter's prior, in the order of the fitted parameters"""
        D = len(v0.self.fitting_priors)
        vals = out(c, v0, v1, r)
        if vals is None or len(vals) != D:
            return {'one_value_per_fitted_parameter': False}
        PS = c.func('PS', INT, REAL, REAL)
        d = {'one_value_per_fitted_parameter': True}
        for k in range(D):
            d['parameter_%d_through_its_own_prior' % k] = c.Eq(vals[k], PS(k, v0.u_in[k]))
        return d
    return post


def _as_list(c, x, D):
    if x is None:
        return None
    if isinstance(x, (list, tuple)):
        return list(x)
    return [x[k] for k in range(D)]


def _pr_native(wrapper, call):
    def native(c, p):
        import numpy as np
        D = c.values['D']
        q = dict(p, self=dict(p['self'], _observed=dict(errorBar=[1.0], spectrum=[1.0])))
        got, o, obs, std = _capture(wrapper, q, c)
        u = np.array(p['u_in'], dtype=float)
        r, after = call(got['prior'], u.copy(), D)
        return r, dict(p, u_out=after)
    return native


def _pr_gen(rng):
    D = rng.randint(0, 3)
    d = dict(D=D, u=[rng.uniform(0, 1) for _ in range(D)])
    for k in range(3):
        d['psa%d' % k], d['psb%d' % k] = rng.uniform(-2, 2), rng.uniform(0.1, 3)
    return d


def _pr_unit(mod, fn, argname, out, call, extra=lambda c, D: {}, frame=()):
    base = _pr_params(argname, extra)

    def params(c):
        d = base(c)
        d['u_in'] = d[argname] if c.mode == 'conc' else d[argname]
        if c.mode != 'conc':
            # ghost copy of the sampler's point (MultiNest overwrites its cube in place)
            u = d[argname]
            d['u_in'] = Arr(u.shape, u.elem, u.kind)
        else:
            import numpy as np
            d['u_in'] = np.array(d[argname], dtype=float)
        return d
    return Unit('C06', 'taurex.optimizer.%s:%s' % (mod, fn), params, post=_pr_post(out), abstract={'Prior.sample': _h_sample},
                cases=[{'D': k} for k in (0, 1, 2, 3)], native=_pr_native(mod, call), gen=_pr_gen, bounds=[{}], frame=list(frame) + ['u_in'],
                short=fn.split('.', 1)[1],
                doc='prior transform handed to %s: value k = fitting_priors[k].sample(u[k]), k over the fitted parameters '
                    'in order (0..3 parameters)' % mod)


_pr_unit('nestle', 'NestleOptimizer.compute_fit.nestle_uniform_prior', 'theta', lambda c, v0, v1, r: _as_list(c, r, len(v0.self.fitting_priors)),
         lambda f, u, D: (f(list(u)), None))
_pr_unit('multinest', 'MultiNestOptimizer.compute_fit.multinest_uniform_prior', 'cube',
         lambda c, v0, v1, r: _as_list(c, v1.cube if c.mode != 'conc' else v1.u_out, len(v0.self.fitting_priors)),
         lambda f, u, D: (f(u, D, D), u), extra=lambda c, D: dict(ndim=D, nparams=D), frame=['cube'])
_pr_unit('polychord', 'PolyChordOptimizer.compute_fit.polychord_uniform_prior', 'hypercube',
         lambda c, v0, v1, r: _as_list(c, r, len(v0.self.fitting_priors)), lambda f, u, D: (f(u), None), extra=lambda c, D: dict(ndim=D))


# ------------------------------------------------------------------ bounded: NaN in the binned model (outside real arithmetic)
def _b_nan(seed, tier):
    """a binned model with NaN entries (some or all) never yields a finite chi^2 / likelihood, and nothing raises"""
    import random
    import numpy as np
    from taurex.optimizer.optimizer import Optimizer
    rng = random.Random(seed)
    N = 40 if tier == 'quick' else 2000
    fails, samples = [], []
    for it in range(N):
        B = rng.randint(1, 6)
        obs = np.array([rng.uniform(0.01, 0.02) for _ in range(B)])
        std = np.array([rng.uniform(1e-5, 1e-3) for _ in range(B)])
        binned = obs * np.array([rng.uniform(0.9, 1.1) for _ in range(B)])
        k = rng.randint(1, B)
        idx = rng.sample(range(B), k)
        binned[idx] = np.nan
        o = _quiet(Optimizer.__new__(Optimizer))
        o._observed = _NS(spectrum=obs, wavenumberGrid=np.arange(B) + 1.0)
        o._model = _NS(model=lambda wngrid=None: (None, None, None, None))
        o._binner = _NS(bin_model=lambda res: (None, binned, None, None))
        o.update_model = lambda fp: None
        inp = dict(B=B, nan_at=sorted(idx))
        try:
            r = o.chisq_trans(np.zeros(0), obs, std)
        except Exception as e:
            fails.append(dict(clause='nan_model.raises', inputs=inp, got=repr(e)[:200]))
            continue
        if np.isfinite(r):
            fails.append(dict(clause='nan_model.finite_chisq', inputs=inp, got=float(r)))
        if it < 2:
            samples.append(inp)
    return {'cases': N, 'failures': fails, 'samples': samples, 'bound': '%d random observations with 1..all NaN model bins' % N}


Bounded('C06', 'nan_model_never_finite', _b_nan, doc='NaN entries of the binned model (not expressible over the reals) make the chi^2 non-finite')
