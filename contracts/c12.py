"""C12 -- temperature profiles are finite, positive and bounded by their control values."""
import z3
from pyvc.unit import Unit, ObjSpec, Lemma, Bounded

TP = 'taurex.data.profiles.temperature.'


# ------------------------------------------------------------------ Isothermal.profile
ISO = Unit('C12', TP + 'isothermal:Isothermal.profile',
           lambda c: dict(self=ObjSpec('Isothermal', nlayers=c.int('n'), _iso_temp=c.real('T'))),
           pre=lambda c, v: {'n': v.self.nlayers >= 0},
           post=lambda c, v0, v1, r: {'len': c.Len(r) == v0.self.nlayers,
                                      'constant': c.Forall(0, v0.self.nlayers, lambda i: c.Eq(r[i], v0.self._iso_temp))},
           native=lambda c, p: ((lambda o: (setattr(o, 'nlayers', p['self']['nlayers']), o.profile)[1])(
               __import__('taurex.data.profiles.temperature.isothermal', fromlist=['x']).Isothermal(T=p['self']['_iso_temp'])), p),
           gen=lambda rng: dict(n=rng.randint(0, 6), T=rng.uniform(1, 5000)), bounds=[dict(n=3)],
           short='Isothermal.profile', doc='one entry per layer, all equal to T')


# ------------------------------------------------------------------ movingaverage
def _ma_params(c):
    return dict(a=c.array('a', (c.int('N'),)), n=c.int('win'))


def ma_post(c, v0, v1, r):
    N, n = c.Len(v0.a), v0.n
    return {'len': c.Len(r) == N - n + 1,
            'window_mean': c.Forall(0, N - n + 1, lambda i: c.Eq(r[i] * n, c.Sum(i, i + n, lambda j: v0.a[j])))}


def _ma_native(c, p):
    import numpy as np
    from taurex.util.util import movingaverage
    return movingaverage(np.array(p['a'], dtype=float), p['n']), p


MA = Unit(['C12', 'C10'], 'taurex.util.util:movingaverage', _ma_params,
          pre=lambda c, v: {'window': c.And(1 <= v.n, v.n <= c.Len(v.a))}, post=ma_post, native=_ma_native,
          gen=lambda rng: (lambda N: dict(N=N, win=rng.randint(1, N), a=[rng.uniform(0, 9) for _ in range(N)]))(rng.randint(1, 7)),
          result=lambda ex, st, v0: st.alloc(ex.c, ex.c.fresh_array('ma', (ex.c.Len(v0.a) - v0.n + 1,))),
          bounds=[dict(N=4, win=2), dict(N=3, win=3), dict(N=3, win=1)], sum_split=True, short='movingaverage',
          doc='np.cumsum assumed; window sums by the Sum split lemma')


def _sum_split(c):
    """S(a,c) = S(a,b) + S(b,c), a <= b <= c (induction on c) -- justifies the optional split axiom of pyvc"""
    f = z3.Function('f', z3.IntSort(), z3.RealSort())
    a, b, m = z3.Ints('a b m')
    S = lambda lo, hi: c.Sum(lo, hi, lambda j: f(j))
    return [('base', [a <= b], S(a, b) == S(a, b) + S(b, b)),
            ('step', [a <= b, b <= m, S(a, m) == S(a, b) + S(b, m)], S(a, m + 1) == S(a, b) + S(b, m + 1))]


Lemma(['C12', 'C10', 'C05'], 'sum_split', _sum_split, doc='range splitting of the spec Sum')


def _mean_bounds(c):
    """a weighted mean with non-negative weights lies between the smallest and largest value (induction)"""
    I, R = z3.IntSort(), z3.RealSort()
    x, w = z3.Function('x', I, R), z3.Function('w', I, R)
    lo, hi = z3.Reals('lo hi')
    m, n, q = z3.Ints('m n q')
    rng = z3.ForAll([q], z3.And(w(q) >= 0, lo <= x(q), x(q) <= hi))
    W = lambda k: c.Sum(0, k, lambda j: w(j))
    X = lambda k: c.Sum(0, k, lambda j: w(j) * x(j))
    P = lambda k: z3.And(lo * W(k) <= X(k), X(k) <= hi * W(k), W(k) >= 0)
    mm = z3.Int('mm')
    return [('base', [rng], P(0)),
            ('step', [rng, m >= 0, P(m)], c.hint(P(m + 1), z3.And(lo * w(m) <= w(m) * x(m), w(m) * x(m) <= hi * w(m)))),
            ('final', [z3.ForAll([mm], z3.Implies(mm >= 0, P(mm))), n >= 0, W(n) > 0],
             z3.And(lo <= X(n) / W(n), X(n) / W(n) <= hi))]


Lemma(['C12', 'C05', 'C09'], 'weighted_mean_between_min_and_max', _mean_bounds,
      doc='moving averages, row-normalised correlation weights, overlap-weighted bins: never leave the range of the inputs')


# ------------------------------------------------------------------ NPoint.check_profile
def _cp_params(c):
    k = c.choice('npoints')
    return dict(self=ObjSpec('NPoint', _limit_slope=c.real('limit')),
                Ppt=[c.real('P%d' % i) for i in range(k)], Tpt=[c.real('T%d' % i) for i in range(k)])


def cp_raises(c, v):
    P, T = v.Ppt, v.Tpt
    k = len(P)
    inverted = c.Or(*[c.Le(P[i], P[i + 1]) for i in range(k - 1)])
    if c.mode == 'conc' and inverted:
        return {'InvalidTemperatureException': True}
    steep = c.Or(*[c.Le(v.self._limit_slope, c.Abs((T[i + 1] - T[i]) / (c.log10(P[i + 1]) - c.log10(P[i]))))
                   for i in range(k - 1)])
    return {'InvalidTemperatureException': c.Or(inverted, steep)}


def _cp_native(c, p):
    from taurex.data.profiles.temperature.npoint import NPoint
    o = NPoint.__new__(NPoint)
    o._limit_slope = p['self']['_limit_slope']
    o.warning = lambda *a, **k: None
    o.check_profile(list(p['Ppt']), list(p['Tpt']))
    return None, p


def _cp_gen(rng):
    k = rng.choice([2, 3, 4])
    P = sorted((10 ** rng.uniform(0, 6) for _ in range(k)), reverse=True)
    if rng.random() < 0.3:
        i = rng.randrange(k - 1)
        P[i], P[i + 1] = P[i + 1], P[i]
    if rng.random() < 0.1:
        P[1] = P[0]
    d = dict(npoints=k, limit=rng.choice([9999999.0, 500.0]))
    d.update({'P%d' % i: P[i] for i in range(k)})
    d.update({'T%d' % i: rng.uniform(300, 3000) for i in range(k)})
    return d


CP = Unit(['C12', 'C06'], TP + 'npoint:NPoint.check_profile', _cp_params,
          pre=lambda c, v: {'positive': c.And(*[c.Lt(0, p) for p in v.Ppt]), 'limit': c.Lt(0, v.self._limit_slope)},
          raises=cp_raises, native=_cp_native, gen=_cp_gen, cases=[{'npoints': k} for k in (2, 3, 4)], bounds=[{}],
          short='NPoint.check_profile', safety=('index',),
          doc='inverted/equal pressure nodes or |dT/dlog10P| >= limit <=> InvalidTemperatureException (2..4 nodes)')


# ------------------------------------------------------------------ Guillot
GU = TP + 'guillot:Guillot2010.'


def _gu_self(c, n=None):
    d = dict(T_irr=c.real('T_irr'), kappa_ir=c.real('kappa_ir'), kappa_v1=c.real('kappa_v1'), kappa_v2=c.real('kappa_v2'),
             alpha=c.real('alpha'), T_int=c.real('T_int'))
    if n is not None:
        d.update(pressure_profile=c.array('P', (n,)), planet=ObjSpec('BasePlanet', _mass=c.real('M'), _radius=c.real('R')))
    return ObjSpec('Guillot2010', **d)


def gcv_raises(c, v):
    s = v.self
    zero_ir = c.Eq(s.kappa_ir, 0) if c.mode != 'conc' else s.kappa_ir == 0
    if c.mode == 'conc' and zero_ir:
        return {'InvalidModelException': True}
    zero_gamma = c.Or(s.kappa_v1 / s.kappa_ir == 0, s.kappa_v2 / s.kappa_ir == 0)
    neg = c.Or(c.Lt(s.T_irr, 0), c.Lt(s.T_int, 0))
    return {'InvalidModelException': c.Or(zero_ir, zero_gamma, neg)}


def _mk_guillot(s):
    from taurex.data.profiles.temperature.guillot import Guillot2010
    o = Guillot2010(T_irr=s['T_irr'], kappa_irr=s['kappa_ir'], kappa_v1=s['kappa_v1'], kappa_v2=s['kappa_v2'],
                    alpha=s['alpha'], T_int=s['T_int'])
    o.warning = lambda *a, **k: None
    return o


def _gu_gen(rng, n=None):
    d = dict(T_irr=rng.choice([-10.0, 0.0, rng.uniform(100, 3000)]), kappa_ir=rng.choice([0.0, 10 ** rng.uniform(-4, 0)]),
             kappa_v1=rng.choice([0.0, 10 ** rng.uniform(-4, 0)]), kappa_v2=10 ** rng.uniform(-4, 0),
             alpha=rng.uniform(0, 1), T_int=rng.choice([-5.0, 0.0, rng.uniform(0, 500)]))
    return d


GCV = Unit(['C12', 'C06'], GU + '_check_values', lambda c: dict(self=_gu_self(c)), raises=gcv_raises,
           native=lambda c, p: (_mk_guillot(p['self'])._check_values(), p), gen=_gu_gen, bounds=[{}],
           short='Guillot2010._check_values', doc='zero opacities / negative temperatures are rejected as an invalid model')


def _gp_params(c):
    return dict(self=_gu_self(c, c.int('n')))


def gp_pre(c, v):
    s = v.self
    return {'valid': c.And(c.Lt(0, s.kappa_ir), c.Lt(0, s.kappa_v1), c.Lt(0, s.kappa_v2), c.Le(0, s.T_irr), c.Le(0, s.T_int)),
            'planet': c.And(c.Lt(0, s.planet._mass), c.Lt(0, s.planet._radius)), 'n': c.Len(s.pressure_profile) >= 0}


def guillot_T4(c, s, l):
    """Guillot (2010) eq. 49 in the parametrisation of Line et al. (2012) eq. 19, transcribed from the papers:
    T^4 = 3 Tint^4/4 (2/3 + tau) + 3 Tirr^4/4 (1-alpha) xi(gamma1) + 3 Tirr^4/4 alpha xi(gamma2),
    xi(gamma) = 2/3 + 2/(3 gamma) [1 + (gamma tau/2 - 1) exp(-gamma tau)] + 2 gamma/3 (1 - tau^2/2) E2(gamma tau),
    tau = kappa_ir P / g, gamma_i = kappa_vi / kappa_ir"""
    g = (c.constant('G') * s.planet._mass) / (s.planet._radius * s.planet._radius)
    tau = s.kappa_ir * s.pressure_profile[l] / g
    g1, g2 = s.kappa_v1 / s.kappa_ir, s.kappa_v2 / s.kappa_ir

    def xi(gm):
        return 2.0 / 3.0 + 2.0 / (3.0 * gm) * (1.0 + (gm * tau / 2.0 - 1.0) * c.exp(-1.0 * gm * tau)) \
            + 2.0 * gm / 3.0 * (1.0 - tau * tau / 2.0) * c.expn(2, gm * tau)
    Ti4 = s.T_int * s.T_int * s.T_int * s.T_int
    Tr4 = s.T_irr * s.T_irr * s.T_irr * s.T_irr
    return 3.0 * Ti4 / 4.0 * (2.0 / 3.0 + tau) + 3.0 * Tr4 / 4.0 * (1.0 - s.alpha) * xi(g1) + 3.0 * Tr4 / 4.0 * s.alpha * xi(g2)


def _gp_native(c, p):
    import numpy as np
    from types import SimpleNamespace as NS
    s = p['self']
    o = _mk_guillot(s)
    o.pressure_profile = np.array(s['pressure_profile'], dtype=float)
    o.planet = NS(gravity=c.constant('G') * s['planet']['_mass'] / s['planet']['_radius'] ** 2)
    return o.profile, p


def _gp_gen(rng):
    n = rng.randint(1, 4)
    return dict(n=n, T_irr=rng.uniform(100, 3000), kappa_ir=10 ** rng.uniform(-4, 0), kappa_v1=10 ** rng.uniform(-4, 0),
                kappa_v2=10 ** rng.uniform(-4, 0), alpha=rng.uniform(0, 1), T_int=rng.uniform(0, 500),
                P=[10 ** rng.uniform(-1, 6) for _ in range(n)], M=rng.uniform(1e26, 3e27), R=rng.uniform(3e7, 1e8))


GP = Unit('C12', GU + 'profile', _gp_params, pre=gp_pre,
          post=lambda c, v0, v1, r: {'len': c.Len(r) == c.Len(v0.self.pressure_profile),
                                     'closed_form': c.Forall(0, c.Len(r), lambda l: c.Eq(r[l], c.pow(guillot_T4(c, v0.self, l), 0.25)))},
          native=_gp_native, gen=_gp_gen, bounds=[dict(n=2)], inline=['gravity', 'fullMass', 'fullRadius'],
          short='Guillot2010.profile', safety=('index',),
          doc='equals the published closed form (exp, E2 and the fourth root uninterpreted)')


# ------------------------------------------------------------------ bounded stand-ins (never counted as proved)
def _press(n, rng):
    import numpy as np
    return np.logspace(rng.uniform(4, 7), rng.uniform(-4, 1), n)


def _b_profiles(seed, tier):
    """run-time contracts on the profile classes whose text is outside the verified subset (np.interp, interp1d,
    reversed-slice stores, int() of a float window)"""
    import random
    import numpy as np
    from taurex.data.profiles.temperature import NPoint, Rodgers2000
    from taurex.data.profiles.temperature.temparray import TemperatureArray
    from taurex.exceptions import InvalidModelException
    rng = random.Random(seed)
    N = 40 if tier == 'quick' else 1500
    fails, samples, cases = [], [], 0

    def rec(clause, inputs, **kw):
        fails.append(dict(clause=clause, inputs=inputs, **kw))
    for it in range(N):
        n = rng.choice([2, 3, 5, 10, 30, 100, rng.randint(2, 120)])
        P = _press(n, rng)
        # ---- NPoint
        k = rng.randint(0, 3)
        Ts = [rng.uniform(300, 3000) for _ in range(k + 2)]
        if rng.random() < 0.2:
            Ts = [Ts[0]] * (k + 2)
        Ps = sorted((10 ** rng.uniform(np.log10(P[-1]), np.log10(P[0])) for _ in range(k)), reverse=True)
        win = rng.choice([1, 5, 10, 30, 60])
        inp = dict(kind='npoint', n=n, Ts=Ts, Ps=Ps, window=win, P0=float(P[0]), P1=float(P[-1]))
        cases += 1
        try:
            o = NPoint(T_surface=Ts[0], T_top=Ts[-1], temperature_points=Ts[1:-1], pressure_points=Ps, smoothing_window=win)
            o.initialize_profile(None, n, P)
            T = np.asarray(o.profile, dtype=float)
            if T.shape != (n,):
                rec('npoint.count', inp, got=list(T.shape))
            elif not np.all(np.isfinite(T)) or T.min() < min(Ts) - 1e-6 * max(Ts) or T.max() > max(Ts) + 1e-6 * max(Ts) or T.min() <= 0:
                rec('npoint.range', inp, got=[float(T.min()), float(T.max())])
            elif len(set(Ts)) == 1 and not np.allclose(T, Ts[0]):
                rec('npoint.constant', inp)
        except InvalidModelException:
            pass            # a slope/inversion rejection is a licensed outcome (decided by check_profile, proved)
        except Exception as e:
            rec('npoint.raises', inp, got=repr(e)[:200])
        if it < 2:
            samples.append(inp)
        # ---- NPoint rejects inverted nodes
        if k >= 2:
            cases += 1
            try:
                o = NPoint(T_surface=Ts[0], T_top=Ts[-1], temperature_points=Ts[1:-1], pressure_points=Ps[::-1],
                           smoothing_window=win)
                o.initialize_profile(None, n, P)
                T = o.profile
                if Ps[0] != Ps[-1]:
                    rec('npoint.rejects', dict(inp, Ps=Ps[::-1]), got='no exception')
            except InvalidModelException:
                pass
            except Exception as e:
                rec('npoint.raises', dict(inp, Ps=Ps[::-1]), got=repr(e)[:200])
        # ---- TemperatureArray (both branches)
        m = rng.randint(2, 8)
        tp = [rng.uniform(200, 3000) for _ in range(m)]
        for pp in (None, sorted((10 ** rng.uniform(-3, 6) for _ in range(m)), reverse=True)):
            cases += 1
            inp2 = dict(kind='array', n=n, tp=tp, p_points=pp)
            try:
                o = TemperatureArray(tp_array=tp, p_points=pp)
                o.initialize_profile(None, n, P)
                T = np.asarray(o.profile, dtype=float)
                if T.shape != (n,) or not np.all(np.isfinite(T)) or T.min() < min(tp) - 1e-9 or T.max() > max(tp) + 1e-9:
                    rec('array.range', inp2, got=[list(T.shape), float(np.nanmin(T)), float(np.nanmax(T))])
            except Exception as e:
                rec('array.raises', inp2, got=repr(e)[:200])
        # ---- Rodgers (default covariance), including a re-evaluation after changing the correlation length and grid
        Tl = [rng.uniform(300, 3000) for _ in range(n)] if rng.random() < 0.7 else [1000.0] * n
        cases += 1
        inp3 = dict(kind='rodgers', n=n, T_layers=Tl)
        try:
            o = Rodgers2000(temperature_layers=Tl, correlation_length=rng.uniform(0.5, 10))
            o.initialize_profile(None, n, P)
            for step in range(3):
                T = np.asarray(o.profile, dtype=float)
                if T.shape != (n,) or not np.all(np.isfinite(T)) or T.min() < min(Tl) * (1 - 1e-9) or T.max() > max(Tl) * (1 + 1e-9):
                    rec('rodgers.range', dict(inp3, step=step), got=[float(T.min()), float(T.max())])
                    break
                o.correlationLength = rng.uniform(0.5, 10)
                if step == 1:
                    o.initialize_profile(None, n, _press(n, rng))
        except Exception as e:
            rec('rodgers.raises', inp3, got=repr(e)[:200])
    return {'cases': cases, 'failures': fails, 'samples': samples,
            'bound': '%d random configurations: 2..120 layers, 0..3 interior nodes, windows 1..60%%, re-evaluation '
                     'sequences for the layer-correlated profile' % N}


Bounded('C12', 'temperature_profiles_runtime', _b_profiles,
        doc='NPoint.profile, TemperatureArray.profile, Rodgers2000.profile: np.interp/interp1d and reversed slice '
            'stores are outside the verified subset')


def _b_guillot(seed, tier):
    """Guillot profile against an independent transcription of the published closed form with scipy's E2; finite
    and positive inside the documented bounds; invalid parameters rejected"""
    import random
    import numpy as np
    from scipy.special import expn
    from types import SimpleNamespace as NS
    from taurex.data.profiles.temperature import Guillot2010
    from taurex.exceptions import InvalidModelException
    rng = random.Random(seed)
    N = 60 if tier == 'quick' else 3000
    fails, samples = [], []
    for it in range(N):
        n = rng.randint(2, 60)
        P = _press(n, rng)
        par = dict(T_irr=rng.uniform(100, 3000), kappa_irr=10 ** rng.uniform(-10, 0), kappa_v1=10 ** rng.uniform(-10, 0),
                   kappa_v2=10 ** rng.uniform(-10, 0), alpha=rng.uniform(0, 1), T_int=rng.uniform(0, 1000))
        g = rng.uniform(1, 100)
        o = Guillot2010(**par)
        o.initialize_profile(NS(gravity=g), n, P)
        T = np.asarray(o.profile, dtype=float)
        tau = par['kappa_irr'] * P / g

        def xi(gm):
            return 2 / 3 + 2 / (3 * gm) * (1 + (gm * tau / 2 - 1) * np.exp(-gm * tau)) + 2 * gm / 3 * (1 - tau ** 2 / 2) * expn(2, gm * tau)
        T4 = 3 * par['T_int'] ** 4 / 4 * (2 / 3 + tau) + 3 * par['T_irr'] ** 4 / 4 * (1 - par['alpha']) * xi(par['kappa_v1'] / par['kappa_irr']) \
            + 3 * par['T_irr'] ** 4 / 4 * par['alpha'] * xi(par['kappa_v2'] / par['kappa_irr'])
        want = T4 ** 0.25
        inp = dict(par, n=n, g=g, P0=float(P[0]), P1=float(P[-1]))
        if T.shape != (n,) or not np.allclose(T, want, rtol=1e-9, equal_nan=True):
            fails.append(dict(clause='guillot.closed_form', inputs=inp))
        elif not np.all(np.isfinite(T)) or T.min() <= 0:
            fails.append(dict(clause='guillot.finite_positive', inputs=inp, got=[float(np.nanmin(T))]))
        bad = dict(par)
        bad[rng.choice(['kappa_irr', 'kappa_v1', 'kappa_v2'])] = 0.0
        try:
            o = Guillot2010(**bad)
            o.initialize_profile(NS(gravity=g), n, P)
            o.profile
            fails.append(dict(clause='guillot.rejects', inputs=bad))
        except InvalidModelException:
            pass
        if it < 2:
            samples.append(inp)
    return {'cases': 2 * N, 'failures': fails, 'samples': samples, 'bound': '%d random parameter sets in the documented bounds' % N}


Bounded('C12', 'guillot_runtime', _b_guillot, doc='finiteness/positivity need properties of E2; closed form re-checked with scipy')
