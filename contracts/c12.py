"""C12 -- temperature profiles are finite, positive and bounded by their control values."""
import z3
from pyvc.unit import Unit, ObjSpec, Lemma, Bounded

TP = 'taurex.data.profiles.temperature.'


# ------------------------------------------------------------------ Isothermal.profile
ISO = Unit('C12', TP + 'isothermal:Isothermal.profile',
           lambda c: dict(self=ObjSpec('Isothermal', nlayers=c.int('n'), _iso_temp=c.real('T'))),
           pre=lambda c, v: {'n': v.self.nlayers >= 0},
           post=lambda c, v0, v1, r: {'len': c.Len(r) == v0.self.nlayers,
                                      'constant': c.Forall(0, v0.self.nlayers, lambda i: c.Eq(r[i], v0.self._iso_temp))},
           native=lambda c, p: ((lambda o: (setattr(o, 'nlayers', p['self']['nlayers']), o.profile)[1])(
               __import__('taurex.data.profiles.temperature.isothermal', fromlist=['x']).Isothermal(T=p['self']['_iso_temp'])), p),
           gen=lambda rng: dict(n=rng.randint(0, 6), T=rng.uniform(1, 5000)), bounds=[dict(n=3)],
           short='Isothermal.profile', doc='one entry per layer, all equal to T')


# ------------------------------------------------------------------ movingaverage
def _ma_params(c):
    return dict(a=c.array('a', (c.int('N'),)), n=c.int('win'))


def ma_post(c, v0, v1, r):
    N, n = c.Len(v0.a), v0.n
    return {'len': c.Len(r) == N - n + 1,
            'window_mean': c.Forall(0, N - n + 1, lambda i: c.Eq(r[i] * n, c.Sum(i, i + n, lambda j: v0.a[j])))}


def _ma_native(c, p):
    import numpy as np
    from taurex.util.util import movingaverage
    return movingaverage(np.array(p['a'], dtype=float), p['n']), p


MA = Unit(['C12', 'C10'], 'taurex.util.util:movingaverage', _ma_params,
          pre=lambda c, v: {'window': c.And(1 <= v.n, v.n <= c.Len(v.a))}, post=ma_post, native=_ma_native,
          gen=lambda rng: (lambda N: dict(N=N, win=rng.randint(1, N), a=[rng.uniform(0, 9) for _ in range(N)]))(rng.randint(1, 7)),
          result=lambda ex, st, v0: st.alloc(ex.c, ex.c.fresh_array('ma', (ex.c.Len(v0.a) - v0.n + 1,))),
          bounds=[dict(N=4, win=2), dict(N=3, win=3), dict(N=3, win=1)], sum_split=True, short='movingaverage',
          doc='np.cumsum assumed; window sums by the Sum split lemma')


def _sum_split(c):
    """S(a,c) = S(a,b) + S(b,c), a <= b <= c (induction on c) -- justifies the optional split axiom of pyvc"""
    f = z3.Function('f', z3.IntSort(), z3.RealSort())
    a, b, m = z3.Ints('a b m')
    S = lambda lo, hi: c.Sum(lo, hi, lambda j: f(j))
    return [('base', [a <= b], S(a, b) == S(a, b) + S(b, b)),
            ('step', [a <= b, b <= m, S(a, m) == S(a, b) + S(b, m)], S(a, m + 1) == S(a, b) + S(b, m + 1))]


Lemma(['C12', 'C10', 'C05'], 'sum_split', _sum_split, doc='range splitting of the spec Sum')


def _mean_bounds(c):
    """a weighted mean with non-negative weights lies between the smallest and largest value (induction)"""
    I, R = z3.IntSort(), z3.RealSort()
    x, w = z3.Function('x', I, R), z3.Function('w', I, R)
    lo, hi = z3.Reals('lo hi')
    m, n, q = z3.Ints('m n q')
    rng = z3.ForAll([q], z3.And(w(q) >= 0, lo <= x(q), x(q) <= hi))
    W = lambda k: c.Sum(0, k, lambda j: w(j))
    X = lambda k: c.Sum(0, k, lambda j: w(j) * x(j))
    P = lambda k: z3.And(lo * W(k) <= X(k), X(k) <= hi * W(k), W(k) >= 0)
    mm = z3.Int('mm')
    return [('base', [rng], P(0)),
            ('step', [rng, m >= 0, P(m)], c.hint(P(m + 1), z3.And(lo * w(m) <= w(m) * x(m), w(m) * x(m) <= hi * w(m)))),
            ('final', [z3.ForAll([mm], z3.Implies(mm >= 0, P(mm))), n >= 0, W(n) > 0],
             z3.And(lo <= X(n) / W(n), X(n) / W(n) <= hi))]


Lemma(['C12', 'C05', 'C09'], 'weighted_mean_between_min_and_max', _mean_bounds,
      doc='moving averages, row-normalised correlation weights, overlap-weighted bins: never leave the range of the inputs')


# ------------------------------------------------------------------ NPoint.check_profile
def _cp_params(c):
    k = c.choice('npoints')
    return dict(self=ObjSpec('NPoint', _limit_slope=c.real('limit')),
                Ppt=[c.real('P%d' % i) for i in range(k)], Tpt=[c.real('T%d' % i) for i in range(k)])


def cp_raises(c, v):
    P, T = v.Ppt, v.Tpt
    k = len(P)
    inverted = c.Or(*[c.Le(P[i], P[i + 1]) for i in range(k - 1)])
    if c.mode == 'conc' and inverted:
        return {'InvalidTemperatureException': True}
    steep = c.Or(*[c.Le(v.self._limit_slope, c.Abs((T[i + 1] - T[i]) / (c.log10(P[i + 1]) - c.log10(P[i]))))
                   for i in range(k - 1)])
    return {'InvalidTemperatureException': c.Or(inverted, steep)}


def _cp_native(c, p):
    from taurex.data.profiles.temperature.npoint import NPoint
    o = NPoint.__new__(NPoint)
    o._limit_slope = p['self']['_limit_slope']
    o.warning = lambda *a, **k: None
    o.check_profile(list(p['Ppt']), list(p['Tpt']))
    return None, p


def _cp_gen(rng):
    k = rng.choice([2, 3, 4])
    P = sorted((10 ** rng.uniform(0, 6) for _ in range(k)), reverse=True)
    if rng.random() < 0.3:
        i = rng.randrange(k - 1)
        P[i], P[i + 1] = P[i + 1], P[i]
    if rng.random() < 0.1:
        P[1] = P[0]
    d = dict(npoints=k, limit=rng.choice([9999999.0, 500.0]))
    d.update({'P%d' % i: P[i] for i in range(k)})
    d.update({'T%d' % i: rng.uniform(300, 3000) for i in range(k)})
    return d


CP = Unit(['C12', 'C06'], TP + 'npoint:NPoint.check_profile', _cp_params,
          pre=lambda c, v: {'positive': c.And(*[c.Lt(0, p) for p in v.Ppt]), 'limit': c.Lt(0, v.self._limit_slope)},
          raises=cp_raises, native=_cp_native, gen=_cp_gen, cases=[{'npoints': k} for k in (2, 3, 4)], bounds=[{}],
          short='NPoint.check_profile', safety=('index',),
          doc='inverted/equal pressure nodes or |dT/dlog10P| >= limit <=> InvalidTemperatureException (2..4 nodes)')


# ------------------------------------------------------------------ Guillot
GU = TP + 'guillot:Guillot2010.'


def _gu_self(c, n=None):
    d = dict(T_irr=c.real('T_irr'), kappa_ir=c.real('kappa_ir'), kappa_v1=c.real('kappa_v1'), kappa_v2=c.real('kappa_v2'),
             alpha=c.real('alpha'), T_int=c.real('T_int'))
    if n is not None:
        d.update(pressure_profile=c.array('P', (n,)), planet=ObjSpec('BasePlanet', _mass=c.real('M'), _radius=c.real('R')))
    return ObjSpec('Guillot2010', **d)


def gcv_raises(c, v):
    s = v.self
    zero_ir = c.Eq(s.kappa_ir, 0) if c.mode != 'conc' else s.kappa_ir == 0
    if c.mode == 'conc' and zero_ir:
        return {'InvalidModelException': True}
    zero_gamma = c.Or(s.kappa_v1 / s.kappa_ir == 0, s.kappa_v2 / s.kappa_ir == 0)
    neg = c.Or(c.Lt(s.T_irr, 0), c.Lt(s.T_int, 0))
    return {'InvalidModelException': c.Or(zero_ir, zero_gamma, neg)}


def _mk_guillot(s):
    from taurex.data.profiles.temperature.guillot import Guillot2010
    o = Guillot2010(T_irr=s['T_irr'], kappa_irr=s['kappa_ir'], kappa_v1=s['kappa_v1'], kappa_v2=s['kappa_v2'],
                    alpha=s['alpha'], T_int=s['T_int'])
    o.warning = lambda *a, **k: None
    return o


def _gu_gen(rng, n=None):
    d = dict(T_irr=rng.choice([-10.0, 0.0, rng.uniform(100, 3000)]), kappa_ir=rng.choice([0.0, 10 ** rng.uniform(-4, 0)]),
             kappa_v1=rng.choice([0.0, 10 ** rng.uniform(-4, 0)]), kappa_v2=10 ** rng.uniform(-4, 0),
             alpha=rng.uniform(0, 1), T_int=rng.choice([-5.0, 0.0, rng.uniform(0, 500)]))
    return d


GCV = Unit(['C12', 'C06'], GU + '_check_values', lambda c: dict(self=_gu_self(c)), raises=gcv_raises,
           native=lambda c, p: (_mk_guillot(p['self'])._check_values(), p), gen=_gu_gen, bounds=[{}],
           short='Guillot2010._check_values', doc='zero opacities / negative temperatures are rejected as an invalid model')


def _gp_params(c):
    return dict(self=_gu_self(c, c.int('n')))


def gp_pre(c, v):
    s = v.self
    return {'valid': c.And(c.Lt(0, s.kappa_ir), c.Lt(0, s.kappa_v1), c.Lt(0, s.kappa_v2), c.Le(0, s.T_irr), c.Le(0, s.T_int)),
            'planet': c.And(c.Lt(0, s.planet._mass), c.Lt(0, s.planet._radius)), 'n': c.Len(s.pressure_profile) >= 0}


def guillot_T4(c, s, l, xi_values=None):
    """Guillot (2010) eq. 49 in the parametrisation of Line et al. (2012) eq. 19, transcribed from the papers:
    T^4 = 3 Tint^4/4 (2/3 + tau) + 3 Tirr^4/4 (1-alpha) xi(gamma1) + 3 Tirr^4/4 alpha xi(gamma2),
    xi(gamma) = 2/3 + 2/(3 gamma) [1 + (gamma tau/2 - 1) exp(-gamma tau)] + 2 gamma/3 (1 - tau^2/2) E2(gamma tau),
    tau = kappa_ir P / g, gamma_i = kappa_vi / kappa_ir"""
    g = (c.constant('G') * s.planet._mass) / (s.planet._radius * s.planet._radius)
    tau = s.kappa_ir * s.pressure_profile[l] / g
    g1, g2 = s.kappa_v1 / s.kappa_ir, s.kappa_v2 / s.kappa_ir

    def xi(gm):
        return 2.0 / 3.0 + 2.0 / (3.0 * gm) * (1.0 + (gm * tau / 2.0 - 1.0) * c.exp(-1.0 * gm * tau)) \
            + 2.0 * gm / 3.0 * (1.0 - tau * tau / 2.0) * c.expn(2, gm * tau)
    Ti4 = s.T_int * s.T_int * s.T_int * s.T_int
    Tr4 = s.T_irr * s.T_irr * s.T_irr * s.T_irr
    x1, x2 = (xi(g1), xi(g2)) if xi_values is None else xi_values          # (lemmas name the two xi values by constants)
    return 3.0 * Ti4 / 4.0 * (2.0 / 3.0 + tau) + 3.0 * Tr4 / 4.0 * (1.0 - s.alpha) * x1 + 3.0 * Tr4 / 4.0 * s.alpha * x2


def guillot_xi(c, gm, tau):
    return 2.0 / 3.0 + 2.0 / (3.0 * gm) * (1.0 + (gm * tau / 2.0 - 1.0) * c.exp(-1.0 * gm * tau)) \
        + 2.0 * gm / 3.0 * (1.0 - tau * tau / 2.0) * c.expn(2, gm * tau)


def _gp_native(c, p):
    import numpy as np
    from types import SimpleNamespace as NS
    s = p['self']
    o = _mk_guillot(s)
    o.pressure_profile = np.array(s['pressure_profile'], dtype=float)
    o.planet = NS(gravity=c.constant('G') * s['planet']['_mass'] / s['planet']['_radius'] ** 2)
    return o.profile, p


def _gp_gen(rng):
    n = rng.randint(1, 4)
    return dict(n=n, T_irr=rng.uniform(100, 3000), kappa_ir=10 ** rng.uniform(-4, 0), kappa_v1=10 ** rng.uniform(-4, 0),
                kappa_v2=10 ** rng.uniform(-4, 0), alpha=rng.uniform(0, 1), T_int=rng.uniform(0, 500),
                P=[10 ** rng.uniform(-1, 6) for _ in range(n)], M=rng.uniform(1e26, 3e27), R=rng.uniform(3e7, 1e8))


GP = Unit('C12', GU + 'profile', _gp_params, pre=gp_pre,
          post=lambda c, v0, v1, r: {'len': c.Len(r) == c.Len(v0.self.pressure_profile),
                                     'closed_form': c.Forall(0, c.Len(r), lambda l: c.Eq(r[l], c.pow(guillot_T4(c, v0.self, l), 0.25)))},
          native=_gp_native, gen=_gp_gen, bounds=[dict(n=2)], inline=['gravity', 'fullMass', 'fullRadius'],
          short='Guillot2010.profile', safety=('index',),
          doc='equals the published closed form (exp, E2 and the fourth root uninterpreted)')


# ------------------------------------------------------------------ bounded stand-ins (never counted as proved)
def _press(n, rng):
    import numpy as np
    return np.logspace(rng.uniform(4, 7), rng.uniform(-4, 1), n)


def _b_profiles(seed, tier):
    """run-time contracts on the profile classes whose text is outside the verified subset (np.interp, interp1d,
    reversed-slice stores, int() of a float window)"""
    import random
    import numpy as np
    from taurex.data.profiles.temperature import NPoint, Rodgers2000
    from taurex.data.profiles.temperature.temparray import TemperatureArray
    from taurex.exceptions import InvalidModelException
    rng = random.Random(seed)
    N = 40 if tier == 'quick' else 1500
    fails, samples, cases = [], [], 0

    def rec(clause, inputs, **kw):
        fails.append(dict(clause=clause, inputs=inputs, **kw))
    for it in range(N):
        n = rng.choice([2, 3, 5, 10, 30, 100, rng.randint(2, 120)])
        P = _press(n, rng)
        # ---- NPoint
        k = rng.randint(0, 3)
        Ts = [rng.uniform(300, 3000) for _ in range(k + 2)]
        if rng.random() < 0.2:
            Ts = [Ts[0]] * (k + 2)
        Ps = sorted((10 ** rng.uniform(np.log10(P[-1]), np.log10(P[0])) for _ in range(k)), reverse=True)
        win = rng.choice([1, 5, 10, 30, 60])
        inp = dict(kind='npoint', n=n, Ts=Ts, Ps=Ps, window=win, P0=float(P[0]), P1=float(P[-1]))
        cases += 1
        try:
            o = NPoint(T_surface=Ts[0], T_top=Ts[-1], temperature_points=Ts[1:-1], pressure_points=Ps, smoothing_window=win)
            o.initialize_profile(None, n, P)
            T = np.asarray(o.profile, dtype=float)
            if T.shape != (n,):
                rec('npoint.count', inp, got=list(T.shape))
            elif not np.all(np.isfinite(T)) or T.min() < min(Ts) - 1e-6 * max(Ts) or T.max() > max(Ts) + 1e-6 * max(Ts) or T.min() <= 0:
                rec('npoint.range', inp, got=[float(T.min()), float(T.max())])
            elif len(set(Ts)) == 1 and not np.allclose(T, Ts[0]):
                rec('npoint.constant', inp)
        except InvalidModelException:
            pass            # a slope/inversion rejection is a licensed outcome (decided by check_profile, proved)
        except Exception as e:
            rec('npoint.raises', inp, got=repr(e)[:200])
        if it < 2:
            samples.append(inp)
        # ---- NPoint rejects inverted nodes
        if k >= 2:
            cases += 1
            try:
                o = NPoint(T_surface=Ts[0], T_top=Ts[-1], temperature_points=Ts[1:-1], pressure_points=Ps[::-1],
                           smoothing_window=win)
                o.initialize_profile(None, n, P)
                T = o.profile
                if Ps[0] != Ps[-1]:
                    rec('npoint.rejects', dict(inp, Ps=Ps[::-1]), got='no exception')
            except InvalidModelException:
                pass
            except Exception as e:
                rec('npoint.raises', dict(inp, Ps=Ps[::-1]), got=repr(e)[:200])
        # ---- TemperatureArray (both branches)
        m = rng.randint(2, 8)
        tp = [rng.uniform(200, 3000) for _ in range(m)]
        for pp in (None, sorted((10 ** rng.uniform(-3, 6) for _ in range(m)), reverse=True)):
            cases += 1
            inp2 = dict(kind='array', n=n, tp=tp, p_points=pp)
            try:
                o = TemperatureArray(tp_array=tp, p_points=pp)
                o.initialize_profile(None, n, P)
                T = np.asarray(o.profile, dtype=float)
                if T.shape != (n,) or not np.all(np.isfinite(T)) or T.min() < min(tp) - 1e-9 or T.max() > max(tp) + 1e-9:
                    rec('array.range', inp2, got=[list(T.shape), float(np.nanmin(T)), float(np.nanmax(T))])
            except Exception as e:
                rec('array.raises', inp2, got=repr(e)[:200])
        # ---- Rodgers (default covariance), including a re-evaluation after changing the correlation length and grid
        Tl = [rng.uniform(300, 3000) for _ in range(n)] if rng.random() < 0.7 else [1000.0] * n
        cases += 1
        inp3 = dict(kind='rodgers', n=n, T_layers=Tl)
        try:
            o = Rodgers2000(temperature_layers=Tl, correlation_length=rng.uniform(0.5, 10))
            o.initialize_profile(None, n, P)
            for step in range(3):
                T = np.asarray(o.profile, dtype=float)
                if T.shape != (n,) or not np.all(np.isfinite(T)) or T.min() < min(Tl) * (1 - 1e-9) or T.max() > max(Tl) * (1 + 1e-9):
                    rec('rodgers.range', dict(inp3, step=step), got=[float(T.min()), float(T.max())])
                    break
                o.correlationLength = rng.uniform(0.5, 10)
                if step == 1:
                    o.initialize_profile(None, n, _press(n, rng))
        except Exception as e:
            rec('rodgers.raises', inp3, got=repr(e)[:200])
    return {'cases': cases, 'failures': fails, 'samples': samples,
            'bound': '%d random configurations: 2..120 layers, 0..3 interior nodes, windows 1..60%%, re-evaluation '
                     'sequences for the layer-correlated profile' % N}


Bounded('C12', 'temperature_profiles_runtime', _b_profiles,
        doc='NPoint.profile, TemperatureArray.profile, Rodgers2000.profile: np.interp/interp1d and reversed slice '
            'stores are outside the verified subset')


def _b_guillot(seed, tier):
    """Guillot profile against an independent transcription of the published closed form with scipy's E2; finite
    and positive inside the documented bounds; invalid parameters rejected"""
    import random
    import numpy as np
    from scipy.special import expn
    from types import SimpleNamespace as NS
    from taurex.data.profiles.temperature import Guillot2010
    from taurex.exceptions import InvalidModelException
    rng = random.Random(seed)
    N = 60 if tier == 'quick' else 3000
    fails, samples = [], []
    for it in range(N):
        n = rng.randint(2, 60)
        P = _press(n, rng)
        par = dict(T_irr=rng.uniform(100, 3000), kappa_irr=10 ** rng.uniform(-10, 0), kappa_v1=10 ** rng.uniform(-10, 0),
                   kappa_v2=10 ** rng.uniform(-10, 0), alpha=rng.uniform(0, 1), T_int=rng.uniform(0, 1000))
        g = rng.uniform(1, 100)
        o = Guillot2010(**par)
        o.initialize_profile(NS(gravity=g), n, P)
        T = np.asarray(o.profile, dtype=float)
        tau = par['kappa_irr'] * P / g

        def xi(gm):
            return 2 / 3 + 2 / (3 * gm) * (1 + (gm * tau / 2 - 1) * np.exp(-gm * tau)) + 2 * gm / 3 * (1 - tau ** 2 / 2) * expn(2, gm * tau)
        T4 = 3 * par['T_int'] ** 4 / 4 * (2 / 3 + tau) + 3 * par['T_irr'] ** 4 / 4 * (1 - par['alpha']) * xi(par['kappa_v1'] / par['kappa_irr']) \
            + 3 * par['T_irr'] ** 4 / 4 * par['alpha'] * xi(par['kappa_v2'] / par['kappa_irr'])
        want = T4 ** 0.25
        inp = dict(par, n=n, g=g, P0=float(P[0]), P1=float(P[-1]))
        if T.shape != (n,) or not np.allclose(T, want, rtol=1e-9, equal_nan=True):
            fails.append(dict(clause='guillot.closed_form', inputs=inp))
        elif not np.all(np.isfinite(T)) or T.min() <= 0:
            fails.append(dict(clause='guillot.finite_positive', inputs=inp, got=[float(np.nanmin(T))]))
        bad = dict(par)
        bad[rng.choice(['kappa_irr', 'kappa_v1', 'kappa_v2'])] = 0.0
        try:
            o = Guillot2010(**bad)
            o.initialize_profile(NS(gravity=g), n, P)
            o.profile
            fails.append(dict(clause='guillot.rejects', inputs=bad))
        except InvalidModelException:
            pass
        if it < 2:
            samples.append(inp)
    return {'cases': 2 * N, 'failures': fails, 'samples': samples, 'bound': '%d random parameter sets in the documented bounds' % N}


Bounded('C12', 'guillot_runtime', _b_guillot, doc='finiteness/positivity need properties of E2; closed form re-checked with scipy')


# ------------------------------------------------------------------ NPoint.profile: nodes joined in log-pressure, smoothed
def _np_params(c):
    k = c.choice('K')                       # interior nodes
    user = c.choice('ends') == 'user'       # surface / top node pressures given by the user, or taken from the pressure grid (-1)
    n = c.int('n')
    return dict(self=ObjSpec('NPoint', _T_surface=c.real('Ts'), _T_top=c.real('Tt'), _t_points=[c.real('Tn%d' % i) for i in range(k)],
                             _P_surface=c.real('Psurf') if user else -1, _P_top=c.real('Ptop') if user else -1, _p_points=[c.real('Pn%d' % i) for i in range(k)], _smooth_window=c.real('smooth'),
                             _limit_slope=c.real('limit'), nlayers=n, pressure_profile=c.array('P', (n,))))


def _np_nodes(c, v):
    s = v.self
    n = s.nlayers
    fx = c.fixed if c.mode != 'conc' else c.values
    user = fx['ends'] == 'user'
    P = [s._P_surface if user else s.pressure_profile[0]] + list(s._p_points) + [s._P_top if user else s.pressure_profile[n - 1]]
    T = [s._T_surface] + list(s._t_points) + [s._T_top]
    return P, T


def _np_pre(c, v):
    s = v.self
    n = s.nlayers
    return {'layers': n >= 2,
            'pressure_decreasing_positive': c.And(c.Forall(0, n, lambda i: s.pressure_profile[i] > 0),
                                                  c.Forall2((0, n), (0, n), lambda i, j: c.Implies(i < j, s.pressure_profile[i] > s.pressure_profile[j]))),
            'nodes_positive': c.And(*[c.Lt(0, p) for p in list(s._p_points) + ([s._P_surface, s._P_top] if (c.fixed if c.mode != 'conc' else c.values)['ends'] == 'user' else [])])
            if (len(s._p_points) or (c.fixed if c.mode != 'conc' else c.values)['ends'] == 'user') else True,
            'limit': c.Lt(0, s._limit_slope),
            'smoothing_window_in_percent': c.And(s._smooth_window > 0, s._smooth_window < 100)}


def _np_raises(c, v):
    P, T = _np_nodes(c, v)
    k = len(P)
    inverted = c.Or(*[c.Le(P[i], P[i + 1]) for i in range(k - 1)])
    if c.mode == 'conc' and inverted:
        return {'InvalidTemperatureException': True}
    steep = c.Or(*[c.Le(v.self._limit_slope, c.Abs((T[i + 1] - T[i]) / (c.log10(P[i + 1]) - c.log10(P[i])))) for i in range(k - 1)])
    return {'InvalidTemperatureException': c.Or(inverted, steep)}


def _np_post(c, v0, v1, r):
    n = v0.self.nlayers
    P, T = _np_nodes(c, v0)
    lo, hi = T[0], T[0]
    for t in T[1:]:
        lo, hi = c.Min(lo, t), c.Max(hi, t)
    tol = 1e-9 if c.mode == 'conc' else 0
    d = {'one_value_per_layer': c.Len(r) == n}
    plain = lambda i: c.And(lo - tol * abs(lo) <= r[i], r[i] <= hi + tol * abs(hi)) if c.mode == 'conc' else c.And(lo <= r[i], r[i] <= hi)
    if c.mode != 'sym':
        d['within_the_control_temperatures'] = c.Forall(0, n, plain)
        return d
    from pyvc.core import View
    loc = View(c, c.raw['state'].env, c.raw['state'].heap, c.raw['state'].trace)
    # the smoothing call named through its ghost witness (window argument, result), not through local variables
    cenv, cret = loc.ghost('call:movingaverage')[0]
    w, core = cenv['n'], loc.wrap(cret)
    R = c.last_interp
    Rk = lambda k: R.elem((k,))
    lem_R = c.ForallH(0, n, lambda k: c.And(lo <= Rk(k), Rk(k) <= hi))
    nc = n - w + 1
    S = lambda j: c.Sum(j, j + w, lambda q: Rk(q))
    lem_sum = c.ForallH(0, nc, lambda j: c.hint(c.And(w * lo <= S(j), S(j) <= w * hi), c.sum_between(j, j + w, lambda q: Rk(q), lo, hi)))

    def core_j(j):
        a = core[j] * w == S(j)
        bnd = c.And(w * lo <= S(j), S(j) <= w * hi)
        g = c.And(lo <= core[j], core[j] <= hi)
        return c.hint(g, a, bnd, c.pure(g, a, bnd, w >= 1), final_uses=1)
    lem_core = c.ForallH(0, nc, core_j)
    d['within_the_control_temperatures'] = c.hint(c.Forall(0, n, plain), lem_R, c.And(w >= 1, w <= n, c.Len(core) == nc), lem_sum, lem_core)
    return d


def _np_native(c, p):
    import numpy as np
    from taurex.data.profiles.temperature.npoint import NPoint
    s = p['self']
    o = NPoint.__new__(NPoint)
    for nm in ('debug', 'info', 'warning', 'error', 'critical'):
        setattr(o, nm, lambda *a, **k: None)
    o._T_surface, o._T_top, o._t_points, o._p_points = s['_T_surface'], s['_T_top'], list(s['_t_points']), list(s['_p_points'])
    o._P_surface, o._P_top, o._smooth_window, o._limit_slope = s['_P_surface'], s['_P_top'], s['_smooth_window'], s['_limit_slope']
    o.nlayers, o.pressure_profile = s['nlayers'], np.array(s['pressure_profile'], dtype=float)
    return np.asarray(o.profile, dtype=float), p


def _np_gen(rng):
    n = rng.randint(2, 60)
    K = rng.randint(0, 2)
    P = sorted((10 ** rng.uniform(-3, 6) for _ in range(n)), reverse=True)
    Pn = sorted((10 ** rng.uniform(-3, 6) for _ in range(K)), reverse=True)
    d = dict(n=n, K=K, P=P, Ts=rng.uniform(300, 3000), Tt=rng.uniform(300, 3000), smooth=rng.choice([10, rng.uniform(1, 99)]),
             limit=rng.choice([9999999.0, 9999999.0, 2000.0]), ends=rng.choice(['grid', 'user']))
    if d['ends'] == 'user':
        d['Psurf'], d['Ptop'] = 10 ** rng.uniform(3, 7), 10 ** rng.uniform(-5, 2)
        Pn = sorted((10 ** rng.uniform(2, 3) for _ in range(K)), reverse=True)
    if rng.random() < 0.15:
        d['Tt'] = d['Ts']
    for i in range(K):
        d['Pn%d' % i] = Pn[i]
        d['Tn%d' % i] = d['Ts'] if rng.random() < 0.1 else rng.uniform(300, 3000)
    return d


NPP = Unit('C12', TP + 'npoint:NPoint.profile', _np_params, pre=_np_pre, post=_np_post, raises=_np_raises, native=_np_native, gen=_np_gen,
           cases=[{'K': k, 'ends': e} for k in (0, 1, 2) for e in ('grid', 'user')], bounds=[dict(n=3)], safety=('index', 'div', 'domain', 'sorted'),
           short='NPoint.profile',
           doc='node-based profile (0..2 interior nodes at code level, any layer count >= 2, surface/top node pressures from the grid or given '
               'by the user, inside or outside the grid): invalid '
               'node sets rejected (check_profile by its contract), otherwise one temperature per layer inside the range of the control '
               'temperatures, smoothing included (np.interp between-neighbours fact, movingaverage by contract, sum_between lemma)')


# ------------------------------------------------------------------ Rodgers2000.profile (default covariance): row-normalised correlation weights
def _rg_params(c):
    n = c.int('n')
    return dict(self=ObjSpec('Rodgers2000', _tp_corr_length=c.real('h'), _covariance=None, _T_layers=c.array('T', (n,)),
                             pressure_profile=c.array('P', (n,)), nlayers=n))


def _rg_pre(c, v):
    s = v.self
    n = s.nlayers
    return {'layers': n >= 1, 'one_temperature_per_layer': c.Len(s._T_layers) == n, 'correlation_length_positive': s._tp_corr_length > 0,
            'pressure_positive': c.Forall(0, n, lambda i: s.pressure_profile[i] > 0)}


def _rg_C(c, s, i, j):
    return c.exp((-1.0 * c.Abs(c.ln(s.pressure_profile[i] / s.pressure_profile[j]))) / s._tp_corr_length)


def _rg_post(c, v0, v1, r):
    s = v0.self
    n = s.nlayers
    T = s._T_layers
    d = {'one_value_per_layer': c.Len(r) == n}
    if c.mode == 'conc':
        lo, hi = min(T), max(T)
        d['within_the_layer_temperatures'] = all(lo - 1e-9 * abs(lo) <= r[i] <= hi + 1e-9 * abs(hi) for i in range(n))
        return d
    if c.mode == 'bmc':
        return d
    lo, hi = z3.Reals('lo? hi?')
    inside = c.Forall(0, n, lambda j: z3.And(lo <= T[j], T[j] <= hi))
    W = lambda i: c.Sum(0, n, lambda j: _rg_C(c, s, i, j))
    Wc = lambda i: c.Sum(0, n, lambda k: _rg_C(c, s, k, i))
    X = lambda i: c.Sum(0, n, lambda j: _rg_C(c, s, i, j) * T[j])

    def row(i):
        g = z3.And(lo <= r[i], r[i] <= hi)
        Cij = lambda j: _rg_C(c, s, i, j)
        inv, dinv = c.define('inv', 1 / Wc(i))
        return c.hint(g,
                      c.congr(0, n, lambda k: _rg_C(c, s, k, i), Cij),                                  # the default covariance is symmetric
                      c.wsum_between(0, n, Cij, lambda j: T[j], lo, hi),
                      c.sum_dominates(0, n, Cij, i), Cij(i) > 0, c.And(W(i) > 0, Wc(i) == W(i), inv * W(i) == 1),
                      c.congr(0, n, lambda j: (Cij(j) / Wc(i)) * T[j], lambda j: inv * (Cij(j) * T[j])),
                      c.sum_scale(0, n, lambda j: Cij(j) * T[j], inv),
                      r[i] == inv * X(i), c.pure_ground(r[i] * W(i) == X(i), r[i] == inv * X(i), inv * W(i) == 1),
                      c.pure_ground(g, r[i] * W(i) == X(i), W(i) > 0, z3.And(lo * W(i) <= X(i), X(i) <= hi * W(i))), defs=[dinv], final_uses=1)
    d['within_the_layer_temperatures'] = c.under(inside, c.ForallH(0, n, row), [lo, hi])
    return d


def _rg_native(c, p):
    import numpy as np
    from taurex.data.profiles.temperature.rodgers import Rodgers2000
    s = p['self']
    o = Rodgers2000.__new__(Rodgers2000)
    o._tp_corr_length, o._covariance, o._T_layers = s['_tp_corr_length'], None, np.array(s['_T_layers'], dtype=float)
    o.pressure_profile, o.nlayers = np.array(s['pressure_profile'], dtype=float), s['nlayers']
    return np.asarray(o.profile, dtype=float), p


RGP = Unit('C12', TP + 'rodgers:Rodgers2000.profile', _rg_params, pre=_rg_pre, post=_rg_post, native=_rg_native,
           gen=lambda rng: (lambda n: dict(n=n, h=rng.uniform(0.5, 10), T=[rng.uniform(300, 3000) for _ in range(n)],
                                           P=sorted((10 ** rng.uniform(-3, 6) for _ in range(n)), reverse=True)))(rng.randint(1, 12)),
           bounds=[dict(n=2)], safety=('index', 'div', 'domain'), inline=['gen_covariance', 'correlate_temp'], short='Rodgers2000.profile',
           doc='layer-correlated profile with the default covariance exp(-|ln(Pi/Pj)|/h): one value per layer, a weighted mean of the layer '
               'temperatures with positive weights, hence inside their range')


# ------------------------------------------------------------------ TemperatureArray.profile (no pressure points given)
def _ta_params(c):
    K = c.int('K')
    n = K if c.choice('same') else c.int('n')
    return dict(self=ObjSpec('TemperatureArray', _tp_profile=c.array('A', (K,)), _p_profile=None, nlayers=n))


def _ta_post(c, v0, v1, r):
    s = v0.self
    n, A = s.nlayers, s._tp_profile
    K = c.Len(A)
    fx = c.fixed if c.mode != 'conc' else c.values
    d = {'one_value_per_layer': c.Len(r) == n}
    if fx['same']:
        d['the_array_itself'] = c.Forall(0, n, lambda i: c.Eq(r[i], A[i]))
        return d
    if c.mode == 'conc':
        lo, hi = min(A), max(A)
        d['within_the_control_temperatures'] = all(lo - 1e-9 * abs(lo) <= r[i] <= hi + 1e-9 * abs(hi) for i in range(n))
        return d
    if c.mode == 'bmc':
        return d
    lo, hi = z3.Reals('lo? hi?')
    d['within_the_control_temperatures'] = z3.ForAll([lo, hi], z3.Implies(c.Forall(0, K, lambda j: z3.And(lo <= A[j], A[j] <= hi)),
                                                                         c.Forall(0, n, lambda i: z3.And(lo <= r[i], r[i] <= hi))))
    return d


def _ta_native(c, p):
    import numpy as np
    from taurex.data.profiles.temperature.temparray import TemperatureArray
    s = p['self']
    o = TemperatureArray(tp_array=list(s['_tp_profile']))
    o.nlayers = s['nlayers']
    return np.asarray(o.profile, dtype=float), p


TAP = Unit('C12', TP + 'temparray:TemperatureArray.profile', _ta_params,
           pre=lambda c, v: {'layers': v.self.nlayers >= 2, 'at_least_two_control_temperatures': c.Len(v.self._tp_profile) >= 2},
           post=_ta_post, native=_ta_native, cases=[{'same': True}, {'same': False}], bounds=[dict(K=2, n=3)],
           gen=lambda rng: (lambda K, same: dict(K=K, same=same, n=K if same else rng.randint(2, 12), A=[rng.uniform(300, 3000) for _ in range(K)]))(
               rng.randint(2, 7), rng.random() < 0.3),
           safety=('index', 'div', 'sorted'), short='TemperatureArray.profile',
           doc='array profile without pressure points: the array itself when it has one entry per layer, otherwise interpolated onto the '
               'layers (np.linspace, np.interp: assumed models) and inside the range of the given temperatures; the variant with pressure '
               'points (scipy interp1d object built by the constructor) stays a bounded item')


# ------------------------------------------------------------------ TemperatureArray with pressure points: what the interpolator is built from
def _tai_params(c):
    K = c.int('K')
    rev = c.choice('reverse')
    return dict(self=ObjSpec('TemperatureArray', _tp_profile=None, _p_profile=None, _func=None),
                tp_array=c.array('A', (K,)), p_points=c.array('Pp', (K,)), reverse=rev)


def _h_interp1d_rec(ex, st, args, kwargs, node):
    """scipy.interpolate.interp1d: recorded with the CONTENT of its arguments; the object it returns is opaque"""
    from pyvc import lib
    from pyvc.engine import AbsObj
    fv = kwargs.get('fill_value')
    st.trace.append(('ev', ('interp1d', lib.arr(ex, st, args[0]), lib.arr(ex, st, args[1]), kwargs.get('bounds_error'),
                            fv if isinstance(fv, tuple) else repr(fv), sorted(k for k in kwargs))))
    return AbsObj('Interp1d', 0, {})


def _tai_post(c, v0, v1, r):
    A, Pp = v0.tp_array, v0.p_points
    K = c.Len(A)
    rev = (c.fixed if c.mode != 'conc' else c.values)['reverse']
    src = (lambda i: K - 1 - i) if rev else (lambda i: i)
    tp, pp = v1.self._tp_profile, v1.self._p_profile
    d = {'stored_arrays_are_the_given_ones_in_the_requested_order': c.And(
        c.Len(tp) == K, c.Len(pp) == K, c.Forall(0, K, lambda i: c.And(tp[i] == A[src(i)], pp[i] == Pp[src(i)])))}
    ev = [e for e in (c.trace or []) if e[0] == 'interp1d']
    d['one_interpolator'] = len(ev) == 1
    if len(ev) != 1:
        return d
    if c.mode == 'conc':
        _, how = ev[0]
        d['interpolates_T_over_log10_P_clamped_to_the_end_temperatures'] = how == 'log10(p), tp, no bounds error, fill (tp[-1], tp[0])'
        return d
    _, X, Y, be, fv, keys = ev[0]
    d['interpolates_T_over_log10_P_clamped_to_the_end_temperatures'] = c.And(
        X.shape[0] == K, Y.shape[0] == K, c.Forall(0, K, lambda i: z3.And(X.elem((i,)) == c.log10(pp[i]), Y.elem((i,)) == tp[i])),
        be is False, isinstance(fv, tuple) and len(fv) == 2 and fv[0] == tp[K - 1] and fv[1] == tp[0], keys == ['bounds_error', 'fill_value'])
    return d


def _tai_native(c, p):
    import numpy as np
    import taurex.data.profiles.temperature.temparray as mod
    trace = []
    real = mod.interp1d

    def rec(x, y, **kw):
        o_ = holder['o']
        fv = kw.get('fill_value')
        ok = np.array_equal(x, np.log10(o_._p_profile)) and np.array_equal(y, o_._tp_profile) and kw.get('bounds_error') is False and \
            isinstance(fv, tuple) and len(fv) == 2 and fv[0] == o_._tp_profile[-1] and fv[1] == o_._tp_profile[0] and sorted(kw) == ['bounds_error', 'fill_value']
        trace.append(('interp1d', 'log10(p), tp, no bounds error, fill (tp[-1], tp[0])' if ok else 'other arguments: %r' % (kw,)))
        return real(x, y, **kw)
    holder = {}

    class _T(mod.TemperatureArray):
        def __setattr__(self, k, v):
            holder['o'] = self
            object.__setattr__(self, k, v)
    mod.interp1d = rec
    try:
        o = _T(tp_array=list(p['tp_array']), p_points=list(p['p_points']), reverse=p['reverse'])
    finally:
        mod.interp1d = real
    return None, dict(p, self=dict(p['self'], _tp_profile=np.asarray(o._tp_profile, dtype=float), _p_profile=np.asarray(o._p_profile, dtype=float)), __trace__=trace)


TAI = Unit('C12', TP + 'temparray:TemperatureArray.__init__', _tai_params, pre=lambda c, v: {'points': c.And(c.Len(v.tp_array) >= 2, c.Len(v.p_points) == c.Len(v.tp_array)),
                                                                                         'positive': c.Forall(0, c.Len(v.p_points), lambda i: v.p_points[i] > 0)},
           post=_tai_post, cases=[{'reverse': False}, {'reverse': True}], bounds=[dict(K=2)],
           abstract={'call:interp1d': _h_interp1d_rec, 'call:__init__': lambda ex, st, args, kwargs, node: None},
           frame_attrs=[('self', a) for a in ('_tp_profile', '_p_profile', '_func')], native=_tai_native, safety=('index', 'domain'),
           gen=lambda rng: (lambda K: dict(K=K, reverse=rng.random() < 0.5, A=[rng.uniform(300, 3000) for _ in range(K)],
                                           Pp=sorted((10 ** rng.uniform(-3, 6) for _ in range(K)), reverse=True)))(rng.randint(2, 6)),
           short='TemperatureArray.__init__',
           doc='with pressure points: the interpolator is scipy interp1d of the stored temperatures over log10 of the stored pressures, no '
               'bounds error, CLAMPED to the end temperatures outside the tabulated range (so the profile cannot leave the range of the '
               'control temperatures); interp1d itself abstract (recorded with the content of its arguments)')


# ------------------------------------------------------------------ TemperatureArray WITH pressure points: constructed, initialised, evaluated
def _tpp_params(c):
    n = c.int('n')
    if c.mode == 'conc':
        return dict(self=dict(__obj__='TemperatureArray', nlayers=n, pressure_profile=c.array('P', (n,))))
    return dict(self=ObjSpec('TemperatureArray', nlayers=n, pressure_profile=c.array('P', (n,))))


def _tpp_setup(ex, st, c):
    from pyvc import source as _src
    from pyvc.unit import materialize
    ci, fn = _src.find_method('TemperatureArray', '__init__')
    K = c.int('K')
    T, PP = materialize(c, st, c.array('T', (K,))), materialize(c, st, c.array('PP', (K,)))
    c._tpp = (T, PP)
    st.assume(z3.Int('K') >= 2, z3.Int('n') >= 1)
    i, j = z3.Ints('i?pp j?pp')
    PPa = st.get(PP)
    st.assume(z3.ForAll([i], z3.Implies(z3.And(0 <= i, i < z3.Int('K')), PPa.elem((i,)) > 0)))
    st.assume(z3.ForAll([i, j], z3.Implies(z3.And(0 <= i, i < j, j < z3.Int('K')), PPa.elem((i,)) != PPa.elem((j,)))))
    ex.inline_call(ci, fn, [st.env['self']], dict(tp_array=T, p_points=PP, reverse=c.fixed['reverse']), st, fn)
    st.trace[:] = [e for e in st.trace if e[0] != 'ev']


def _tpp_post(c, v0, v1, r):
    if c.mode == 'conc':
        T, n = c.values['__T__'], c.values['n']
        lo, hi = min(T), max(T)
        return {'one_value_per_layer': len(r) == n,
                'within_the_control_temperatures': all(lo - 1e-9 * abs(lo) <= r[i] <= hi + 1e-9 * abs(hi) for i in range(len(r)))}
    n = v0.self.nlayers
    from pyvc.core import View
    heap = c.raw['state'].heap
    A = heap[c._tpp[0].id]
    K = A.shape[0]
    d = {'one_value_per_layer': c.Len(r) == n}
    lo, hi = z3.Reals('lo? hi?')
    d['within_the_control_temperatures'] = z3.ForAll([lo, hi], z3.Implies(c.Forall(0, K, lambda j: z3.And(lo <= A.elem((j,)), A.elem((j,)) <= hi)),
                                                                         c.Forall(0, n, lambda i: z3.And(lo <= r[i], r[i] <= hi))))
    return d


def _tpp_native(c, p):
    import numpy as np
    from taurex.data.profiles.temperature.temparray import TemperatureArray
    v = c.values
    o = TemperatureArray(tp_array=list(v['T']), p_points=list(v['PP']), reverse=v['reverse'])
    o.initialize_profile(None, v['n'], np.array(v['P'], dtype=float))
    c.values['__T__'] = list(v['T'])
    return np.asarray(o.profile, dtype=float), p


def _tpp_gen(rng):
    K, n = rng.randint(2, 6), rng.randint(1, 12)
    pp = [10 ** rng.uniform(-3, 7) for _ in range(K)]
    if rng.random() < 0.6:
        pp = sorted(pp, reverse=rng.random() < 0.7)
    return dict(K=K, n=n, reverse=rng.random() < 0.3, T=[rng.uniform(100, 3000) for _ in range(K)], PP=pp,
                P=sorted((10 ** rng.uniform(-4, 8) for _ in range(n)), reverse=True))


TPP = Unit('C12', TP + 'temparray:TemperatureArray.profile', _tpp_params, post=_tpp_post, setup=_tpp_setup, native=_tpp_native, gen=_tpp_gen,
           cases=[{'reverse': False}, {'reverse': True}], bounds=[], variant='constructed:with_pressure_points', safety=('index',),
           abstract={'call:compile_fitparams': lambda ex, st, args, kwargs, node: None, 'call:add_fittable_param': lambda ex, st, args, kwargs, node: None,
                     'call:add_derived_param': lambda ex, st, args, kwargs, node: None},
           pre=lambda c, v: {'layer_pressures_positive': c.Forall(0, v.self.nlayers, lambda i: v.self.pressure_profile[i] > 0),
                             # (symbolic runs: assumed by the scenario's setup, where the control points are created)
                             'control_pressures_positive_and_distinct': (all(x > 0 for x in c.values['PP']) and len(set(c.values['PP'])) == len(c.values['PP']))
                             if c.mode == 'conc' else True},
           short='TemperatureArray.profile@pressure_points',
           doc='array profile WITH pressure points, as a scenario: the real constructor executed symbolically for any K >= 2 control temperatures '
               'at pairwise distinct positive pressures in ANY order, reversed or not, then the real profile on any positive layer pressures: one '
               'value per layer, inside the range of the control temperatures (scipy interp1d by its order-free assumed consequence: a fill '
               'value or a value between two of the given temperatures)')


# ------------------------------------------------------------------ lemma: the Guillot closed form is positive inside its documented bounds
def _guillot_positive(c):
    """T^4 of the closed form (guillot_T4, the very expression the unit Guillot2010.profile is proved equal to) is positive for
    positive opacities, pressure and gravity, 0 <= alpha <= 1 and temperatures >= 0 that are not both zero.  Uses three facts about
    the transcendental functions at the two arguments x_i = gamma_i tau >= 0 (hypotheses of the lemma, i.e. ASSUMED mathematics):
    exp(x) >= 1 + x + x^2/2 (Taylor, positive remainder), stated as exp(-x) (1 + x + x^2/2) <= 1;  0 <= E2(x) <= exp(-x)
    (E2(x) = int_1^inf exp(-x t) / t^2 dt <= exp(-x) int_1^inf dt / t^2).  Then each xi(gamma) >= 2/3:
    xi - 2/3 >= 2/(3 gamma) [1 - exp(-x)(1 - x/2 + x^2/2)] >= 2/(3 gamma) [1 - exp(-x)(1 + x + x^2/2)] >= 0."""
    class _S:
        pass
    s, pl = _S(), _S()
    s.T_irr, s.T_int, s.kappa_ir, s.kappa_v1, s.kappa_v2, s.alpha = z3.Reals('Tirr Tint kir kv1 kv2 alpha')
    P, pl._mass, pl._radius = z3.Reals('P M R')
    s.pressure_profile, s.planet = [P], pl
    G = c.constant('G')
    grav = (G * pl._mass) / (pl._radius * pl._radius)
    tau = s.kappa_ir * P / grav
    base = [s.kappa_ir > 0, s.kappa_v1 > 0, s.kappa_v2 > 0, P > 0, pl._mass > 0, pl._radius > 0, G > 0, s.alpha >= 0, s.alpha <= 1,
            s.T_irr >= 0, s.T_int >= 0, s.T_irr + s.T_int > 0]
    out = []
    # step 1 (one xi at a time, in its own variables): xi(gamma, tau) >= 2/3
    gm, t = z3.Reals('gm t')
    E, E2 = c.exp(-1.0 * gm * t), c.expn(2, gm * t)
    x = gm * t
    out.append(('xi_at_least_two_thirds', [gm > 0, t >= 0, E > 0, E * (1 + x + x * x / 2) <= 1, E2 >= 0, E2 <= E], guillot_xi(c, gm, t) >= 2.0 / 3.0))        # (the code's own constant 2.0/3.0)
    # step 2: with the two xi values named X1, X2 >= 2/3 the fourth power is positive
    X1, X2 = z3.Reals('X1 X2')
    T4x = guillot_T4(c, s, 0, xi_values=(X1, X2))
    out.append(('fourth_power_positive_given_the_xi_bounds', base + [tau > 0, X1 >= 2.0 / 3.0, X2 >= 2.0 / 3.0], T4x > 0))
    # step 3: the closed form IS that expression at X_i = xi(gamma_i, tau) (substitution), and a positive number has a positive fourth root
    T4 = guillot_T4(c, s, 0)
    g1, g2 = s.kappa_v1 / s.kappa_ir, s.kappa_v2 / s.kappa_ir
    out.append(('closed_form_is_that_expression', [X1 == guillot_xi(c, g1, tau), X2 == guillot_xi(c, g2, tau)], T4 == T4x))
    out.append(('optical_depth_positive', base, tau > 0))
    out.append(('temperature_positive', [T4 > 0], c.pow(T4, 0.25) > 0))
    return out


Lemma('C12', 'guillot_temperature_positive', _guillot_positive,
      doc='the published closed form gives a positive temperature for every pressure > 0 when the opacities are positive, 0 <= alpha <= 1 and '
          'the two temperatures are >= 0 and not both zero (assumed: exp(x) >= 1 + x + x^2/2 and 0 <= E2(x) <= exp(-x) for x >= 0)')
